import re
src=open('/verif/lean/MjwVerif/Gen/Constraint.lean').read()
kern=[("equality_connect","ne_out",3,0),("equality_weld","ne_out",6,0),("equality_joint","ne_out",1,0),("equality_tendon","ne_out",1,0),("equality_flex","ne_out",1,0),
      ("friction_dof","nf_out",1,1),("friction_tendon","nf_out",1,2),
      ("limit_slide_hinge","nl_out",1,3),("limit_ball","nl_out",1,3),("limit_tendon","nl_out",1,4)]
def sig(name):
    m=re.search(r'^def _%s__kernel \{K : Type\} \[Scalar K\] (.*) : List \(Write K\) :=$'%name, src, re.M)
    args=m.group(1).strip()
    # split top-level parenthesised binders
    out=[];d=0;cur=''
    for ch in args:
        if ch=='(':
            d+=1
        if d>0: cur+=ch
        if ch==')':
            d-=1
            if d==0: out.append(cur);cur=''
    names=[re.match(r'\((\S+) :',b).group(1) for b in out]
    return ' '.join(out), ' '.join(names), names
hdr='''/-
  C05 helper lemmas, kernel part: for each generated row-builder kernel of `constraint.py`
  * `<k>_counts` : `CountsAs KW "<class counter>" tid0 k` — the thread adds `k` to its class counter (`ne`/`nf`/`nl`)
    exactly when (and in the same amount as) it adds `k` to `nefc_out[worldid]` through its allocating atomic,
    BEFORE any capacity guard; nothing else touches the counters;
  * `<k>_type`   : every `efc_type_out` cell the thread writes holds the constraint type of its class.
  Statements generated from the `def` lines of `Gen/Constraint.lean` (/tmp script, same scheme as
  `Lemmas/C16Kernels*.lean`); proofs are uniform (`csimp`, see `Lemmas/C05.lean`), for all inputs, every scalar type.
-/
import MjwVerif.Lemmas.C05
set_option linter.unusedSimpArgs false
set_option linter.unusedVariables false
set_option linter.unusedTactic false
set_option linter.unreachableTactic false
set_option linter.unnecessarySeqFocus false
namespace Mjw.Lemmas.C05
open Mjw Mjw.Lemmas.C16

'''
body=''
for name,ctr,k,ty in kern:
    binders,names,_=sig(name)
    body+=f'''
/-! ### `_{name}__kernel`  (class counter `{ctr}`, k = {k}, type {ty}) -/
section {name}
variable {{K : Type}} [Scalar K] {binders}
local notation "KW" => Gen.Constraint._{name}__kernel {names}

set_option maxHeartbeats 1600000 in
theorem {name}_counts : CountsAs KW "{ctr}" tid0 {k} := by
  unfold CountsAs Gen.Constraint._{name}__kernel
  refine ⟨?_, ?_, ?_, ?_, ?_, ?_⟩
  · intro idx; csimp []
  · csimp [] <;> (intros; split_ifs <;> first | rfl | omega | (simp_all; done) | (simp_all; omega))
  · csimp [] <;> (intros; split_ifs <;> first | rfl | omega | (simp_all; done) | (simp_all; omega))
  · intro idx hidx; csimp [Ne.symm hidx]
  · intro c hc hne idx
    simp only [List.mem_cons, List.mem_nil_iff, or_false] at hc
    rcases hc with rfl | rfl | rfl
    all_goals first | exact absurd rfl hne | csimp []
  · csimp [counters]

set_option maxHeartbeats 1600000 in
theorem {name}_type : AllW (fun w => w.arr = "efc_type_out" → w.val = WVal.i {ty}) KW := by
  unfold Gen.Constraint._{name}__kernel
  csimp []
end {name}
'''
open('/verif/lean/MjwVerif/Lemmas/C05Kernels.lean','w').write(hdr+body+'\nend Mjw.Lemmas.C05\n')
