import re
src=open('/verif/lean/MjwVerif/Gen/Constraint.lean').read()
kern=[("equality_connect","ne_out",3,0),("equality_weld","ne_out",6,0),("equality_joint","ne_out",1,0),("equality_tendon","ne_out",1,0),("equality_flex","ne_out",1,0),
      ("friction_dof","nf_out",1,1),("friction_tendon","nf_out",1,2),
      ("limit_slide_hinge","nl_out",1,3),("limit_ball","nl_out",1,3),("limit_tendon","nl_out",1,4)]
def sig(name):
    m=re.search(r'^def _%s__kernel \{K : Type\} \[Scalar K\] (.*) : List \(Write K\) :=$'%name, src, re.M)
    args=m.group(1).strip()
    out=[];d=0;cur=''
    for ch in args:
        if ch=='(':
            d+=1
        if d>0: cur+=ch
        if ch==')':
            d-=1
            if d==0: out.append(cur);cur=''
    names=[re.match(r'\((\S+) :',b).group(1) for b in out]
    return ' '.join(out), ' '.join(names)
ind=''
for name,ctr,k,ty in kern:
    b,n=sig(name)
    ind+=f'  | {name} {b} :\n      IsClassThread "{ctr}" tid0 {k} {ty} (Gen.Constraint._{name}__kernel {n})\n'
counts=' | '.join(f'apply Lemmas.C05.{name}_counts' for name,_,_,_ in kern)
types=' | '.join(f'apply Lemmas.C05.{name}_type' for name,_,_,_ in kern)
cb,cn=sig('efc_contact_init')
ub,un=sig('efc_contact_update')
tpl=open('/verif/lean/scripts/c05/props_tpl.lean.txt').read()
tpl=tpl.replace('{IND}',ind).replace('{COUNTS}',counts).replace('{TYPES}',types)
ubr=re.sub(r'\bK\b','ℝ',ub)
tpl=tpl.replace('{UP_BINDERS_R}',ubr)
nf=un.replace(' st_IS_ELLIPTIC','')
tpl=tpl.replace('{UP_NAMES_NOFLAGS}',nf)
tpl=tpl.replace('{CI_BINDERS}',cb).replace('{CI_NAMES}',cn).replace('{UP_BINDERS}',ub).replace('{UP_NAMES}',un)
open('/verif/lean/MjwVerif/Props/C05.lean','w').write(tpl)
