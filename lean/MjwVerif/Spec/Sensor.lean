/-
  Hand-written specification of MuJoCo's sensor post-processing, of the geometric sensor formulas and of the
  energy terms, transcribed from the C sources (engine_sensor.c: `apply_cutoff`, `mj_sensorPos`, `mj_sensorVel`,
  `mj_sensorAcc`, `get_xpos_xmat`, `get_xquat`; engine_support.c: `mj_objectVelocity`, `mj_objectAcceleration`;
  engine_core_smooth.c / engine_forward.c: `mj_energyPos`, `mj_energyVel`, `mj_forwardSkip`).
  The translated functions/kernels of mujoco_warp/_src/sensor.py are proved against it in `Props/C07.lean`.
  Core Lean only; generic over `[Scalar K]`.

  Conventions: a spatial vector (cvel, cacc, cfrc_int) is `V6` with `top` = rotational part and `bottom` = linear
  part, expressed in the world orientation at the point `subtree_com[body_rootid[b]]`; `offset` always means
  `pos − subtree_com[root]` for the point `pos` where the quantity is wanted.
-/
import MjwVerif.Model.Vec
import MjwVerif.Spec.Kinematics
namespace Mjw.Spec.Sensor
open Mjw

variable {K : Type} [Scalar K]

/-! ## enums (mjtDataType, mjtObj, the mjtSensor values that matter for cutoffs) -/

abbrev REAL : Int := 0
abbrev POSITIVE : Int := 1
abbrev AXIS : Int := 2
abbrev QUATERNION : Int := 3

abbrev OBJ_UNKNOWN : Int := 0
abbrev OBJ_BODY : Int := 1
abbrev OBJ_XBODY : Int := 2
abbrev OBJ_GEOM : Int := 5
abbrev OBJ_SITE : Int := 6
abbrev OBJ_CAMERA : Int := 7

abbrev SENS_TOUCH : Int := 0
abbrev SENS_GEOMFROMTO : Int := 41
abbrev SENS_CONTACT : Int := 42

/-! ## `apply_cutoff` -/

/-- `mju_clip(x, lo, hi)`:  `if x < lo return lo; else if x > hi return hi; else return x` -/
def mjuClip (x lo hi : K) : K :=
  if Scalar.lt x lo then lo else if Scalar.gt x hi then hi else x

/-- One component of a sensor after MuJoCo's `apply_cutoff`:

      if sensor_cutoff[i] > 0 and type ∉ {CONTACT, GEOMFROMTO}:
        REAL:      x = mju_clip(x, -cutoff, cutoff)
        POSITIVE:  x = mju_min(cutoff, x)
        (AXIS, QUATERNION: untouched)                                                   -/
def applyCutoff (sensortype datatype : Int) (cutoff x : K) : K :=
  if Scalar.gt cutoff (Scalar.lit 0 0) && !(sensortype == SENS_GEOMFROMTO) && !(sensortype == SENS_CONTACT) then
    if datatype == REAL then mjuClip x (-cutoff) cutoff
    else if datatype == POSITIVE then (if Scalar.lt cutoff x then cutoff else x)
    else x
  else x

/-! ## limit sensors (JOINTLIMITPOS/VEL/FRC = 20/21/22, TENDONLIMITPOS/VEL/FRC = 23/24/25) -/

/-- engine_sensor.c: a limit sensor of type `stype` on object `objid` reports the limit row `(rowKind, rowId)` iff the ids
    agree AND the row kind matches the sensor kind (mjCNSTR_LIMIT_JOINT = 3 for the joint sensor, mjCNSTR_LIMIT_TENDON = 4
    for the tendon sensor) — joint ids and tendon ids overlap, so the kind test is essential -/
def limitRowFeeds (jointSensor tendonSensor : Int) (rowKind rowId stype objid : Int) : Prop :=
  rowId = objid ∧ ((rowKind = 3 ∧ stype = jointSensor) ∨ (rowKind = 4 ∧ stype = tendonSensor))

instance (a b c d e f : Int) : Decidable (limitRowFeeds a b c d e f) := by unfold limitRowFeeds; infer_instance

/-- row `row` of world `w` lies in the limit block `[ne+nf, ne+nf+nl)` of the constraint rows -/
def isLimitRow (ne nf nl row : Int) : Prop := ne + nf ≤ row ∧ row < ne + nf + nl

instance (a b c d : Int) : Decidable (isLimitRow a b c d) := by unfold isLimitRow; infer_instance

/-! ## frames: `get_xpos_xmat`, `get_xquat`, body of an object -/

/-- world position of the frame `(objtype, objid)` (`get_xpos_xmat`; BODY = inertial frame, XBODY = body frame) -/
def objPos (xpos xipos geom_xpos site_xpos cam_xpos : Int → V3 K) (objtype objid : Int) : V3 K :=
  if objtype = OBJ_BODY then xipos objid
  else if objtype = OBJ_XBODY then xpos objid
  else if objtype = OBJ_GEOM then geom_xpos objid
  else if objtype = OBJ_SITE then site_xpos objid
  else if objtype = OBJ_CAMERA then cam_xpos objid
  else ⟨Scalar.lit 0 0, Scalar.lit 0 0, Scalar.lit 0 0⟩

/-- the body an object is attached to -/
def objBody (geom_bodyid site_bodyid cam_bodyid : Int → Int) (objtype objid : Int) : Int :=
  if objtype = OBJ_BODY ∨ objtype = OBJ_XBODY then objid
  else if objtype = OBJ_GEOM then geom_bodyid objid
  else if objtype = OBJ_SITE then site_bodyid objid
  else if objtype = OBJ_CAMERA then cam_bodyid objid
  else 0

/-- `get_xquat`: world orientation of the frame as a quaternion (local quaternion composed with the body's) -/
def objQuat (xquat : Int → Q K) (body_iquat geom_quat site_quat cam_quat : Int → Q K)
    (geom_bodyid site_bodyid cam_bodyid : Int → Int) (objtype objid : Int) : Q K :=
  if objtype = OBJ_BODY then Kinematics.mulQuat (xquat objid) (body_iquat objid)
  else if objtype = OBJ_XBODY then xquat objid
  else if objtype = OBJ_GEOM then Kinematics.mulQuat (xquat (geom_bodyid objid)) (geom_quat objid)
  else if objtype = OBJ_SITE then Kinematics.mulQuat (xquat (site_bodyid objid)) (site_quat objid)
  else if objtype = OBJ_CAMERA then Kinematics.mulQuat (xquat (cam_bodyid objid)) (cam_quat objid)
  else ⟨Scalar.lit 1 0, Scalar.lit 0 0, Scalar.lit 0 0, Scalar.lit 0 0⟩

/-- `mju_negQuat` -/
def negQuat (q : Q K) : Q K := ⟨q.c0, -q.c1, -q.c2, -q.c3⟩

/-- FRAMEQUAT: `q_obj`, or `conj(q_ref) * q_obj` when a reference frame is given -/
def frameQuat (qobj : Q K) (qref : Option (Q K)) : Q K :=
  match qref with
  | none => qobj
  | some r => Kinematics.mulQuat (negQuat r) qobj

/-- FRAMEPOS: `p_obj`, or `R_refᵀ (p_obj − p_ref)` -/
def framePos (pobj : V3 K) (ref : Option (V3 K × M33 K)) : V3 K :=
  match ref with
  | none => pobj
  | some (pref, rref) => M33.mulVec (M33.transpose rref) (V3.sub pobj pref)

/-! ## velocities and accelerations of a point (`mj_objectVelocity`, `mj_objectAcceleration`, world orientation) -/

/-- linear velocity of the point at `offset` from the com-based spatial velocity: `v = lin − offset × ang` -/
def pointVel (cvel : V6 K) (offset : V3 K) : V3 K :=
  V3.sub (V6.bottom cvel) (V3.cross offset (V6.top cvel))

/-- linear acceleration of the point, with the Coriolis correction `ω × v` of `mj_objectAcceleration` -/
def pointAcc (cacc cvel : V6 K) (offset : V3 K) : V3 K :=
  V3.add (V3.sub (V6.bottom cacc) (V3.cross offset (V6.top cacc))) (V3.cross (V6.top cvel) (pointVel cvel offset))

/-- VELOCIMETER at a site with orientation `R`: `Rᵀ v` -/
def velocimeter (r : M33 K) (cvel : V6 K) (offset : V3 K) : V3 K :=
  M33.mulVec (M33.transpose r) (pointVel cvel offset)

/-- GYRO: `Rᵀ ω` -/
def gyro (r : M33 K) (cvel : V6 K) : V3 K := M33.mulVec (M33.transpose r) (V6.top cvel)

/-- ACCELEROMETER as MuJoCo computes it (`mj_objectAcceleration(..., flg_local = 1)`): everything is rotated to the
    site frame first and the correction is formed there: `Rᵀa + (Rᵀω) × (Rᵀv)` -/
def accelerometer (r : M33 K) (cacc cvel : V6 K) (offset : V3 K) : V3 K :=
  let rt := M33.transpose r
  V3.add (M33.mulVec rt (V3.sub (V6.bottom cacc) (V3.cross offset (V6.top cacc))))
    (V3.cross (M33.mulVec rt (V6.top cvel)) (M33.mulVec rt (pointVel cvel offset)))

/-- FORCE: `Rᵀ f` with `f` the linear part of cfrc_int -/
def force (r : M33 K) (cfrc : V6 K) : V3 K := M33.mulVec (M33.transpose r) (V6.bottom cfrc)

/-- TORQUE about the site: `Rᵀ (τ − offset × f)` -/
def torque (r : M33 K) (cfrc : V6 K) (offset : V3 K) : V3 K :=
  M33.mulVec (M33.transpose r) (V3.sub (V6.top cfrc) (V3.cross offset (V6.bottom cfrc)))

/-- FRAMELINVEL relative to a moving reference frame (engine_sensor.c):
      `R_refᵀ ( v_obj − v_ref + (p_obj − p_ref) × ω_ref )`                                 -/
def frameLinVelRel (rref : M33 K) (pobj pref : V3 K) (cvel cvelref : V6 K) (off offref : V3 K) : V3 K :=
  M33.mulVec (M33.transpose rref)
    (V3.add (V3.sub (pointVel cvel off) (pointVel cvelref offref)) (V3.cross (V3.sub pobj pref) (V6.top cvelref)))

/-- FRAMEANGVEL relative to a reference frame: `R_refᵀ (ω_obj − ω_ref)` -/
def frameAngVelRel (rref : M33 K) (cvel cvelref : V6 K) : V3 K :=
  M33.mulVec (M33.transpose rref) (V3.sub (V6.top cvel) (V6.top cvelref))

/-- MAGNETOMETER: `Rᵀ B` -/
def magnetometer (r : M33 K) (b : V3 K) : V3 K := M33.mulVec (M33.transpose r) b

/-! ## energy (`mj_energyPos`) -/

/-- gravitational potential of one body: `− m g·xipos` -/
def gravityPotential (mass : K) (g xipos : V3 K) : K := -(mass * V3.dot g xipos)

/-- linear spring: `½ k x²` -/
def springPotential (k x : K) : K := Scalar.lit 5 (-1) * k * (x * x)

/-- tendon spring displacement with the dead band `[lower, upper]` of `tendon_lengthspring` -/
def deadband (length lower upper : K) : K :=
  if Scalar.gt length upper then length - upper
  else if Scalar.lt length lower then length - lower
  else Scalar.lit 0 0

/-- `mj_forwardSkip`/`mj_sensorPos`: the potential energy is evaluated iff the ENERGY enable flag is set, or the
    model has an `e_potential` sensor and sensors are not disabled (the same with `e_kinetic` for the kinetic one) -/
def energyEvaluated (energyFlag sensorDisabled hasEnergySensor : Bool) : Bool :=
  energyFlag || (hasEnergySensor && !sensorDisabled)

end Mjw.Spec.Sensor
