/-
  Hand-written model for property C33 (set_const).  Core Lean only.

  1. `subtreeMass` — MuJoCo's `setFixed` loop (engine_setconst.c):
        for i: subtreemass[i] = mass[i];   for i = n-1 … 1: subtreemass[parent[i]] += subtreemass[i]
  2. The HOST side of `set_const_fixed / set_const_0 / set_const_spring / set_const` (set_const.py, Python, not
     translated): which groups of launches run in which order around the save / restore of `d.qpos`.
     The event vocabulary is the one `harness/props/c33.py` records on the real code (it parses the four event
     lists below out of this file and compares them with the recorded traces), so the lists are tied to the
     source on every run.
-/
import MjwVerif.Lemmas.C01Tree
namespace Mjw.Spec.SetConst

/-- MuJoCo `setFixed`: sequential backward accumulation of the body masses over the kinematic tree
    (`p` = parent, `p i < i`). -/
def subtreeMass {K : Type} (add : K → K → K) (p : Nat → Nat) (n : Nat) (mass : Nat → K) : Nat → K :=
  Mjw.Lemmas.C01Tree.seqAcc add p n mass

/-! ## host bracket -/

/-- host events of set_const.py, at the granularity recorded by the harness -/
inductive Ev where
  | saveQpos        -- qpos_saved = wp.clone(d.qpos)
  | loadQpos0       -- launch _copy_qpos0_to_qpos(m.qpos0 -> d.qpos)
  | loadQposSpring  -- launch _copy_qpos0_to_qpos(m.qpos_spring -> d.qpos)
  | kinFull         -- kinematics, com_pos, camlight, flex, tendon, crb, tendon_armature, factor_m, transmission
  | kinSpring       -- kinematics, com_pos, tendon, transmission
  | updFixed        -- _init_subtreemass, _accumulate_subtreemass × levels           (writes Model only)
  | upd0            -- every launch of set_const_0 between the two brackets            (writes Model + temporaries)
  | updSpring       -- _resolve_tendon_lengthspring                                    (writes Model only)
  | restoreQpos     -- wp.copy(d.qpos, qpos_saved)
  deriving DecidableEq, Repr

/-- `set_const_fixed(m, d)` -/
def setConstFixed : List Ev := [Ev.updFixed]

/-- `set_const_0(m, d, restore)` -/
def setConst0 (restore : Bool) : List Ev :=
  [Ev.saveQpos, Ev.loadQpos0, Ev.kinFull, Ev.upd0, Ev.restoreQpos] ++ (if restore then [Ev.kinFull] else [])

/-- `set_const_spring(m, d, restore)`; returns immediately when the model has no tendon -/
def setConstSpring (hasTendon restore : Bool) : List Ev :=
  if hasTendon then
    [Ev.saveQpos, Ev.loadQposSpring, Ev.kinSpring, Ev.updSpring, Ev.restoreQpos] ++ (if restore then [Ev.kinSpring] else [])
  else []

/-- `set_const(m, d, restore)` -/
def setConst (hasTendon restore : Bool) : List Ev :=
  setConstFixed ++ setConst0 false ++ setConstSpring hasTendon false ++ (if restore then [Ev.kinFull] else [])

/-- Model `Mdl`; Data = (`qpos`, position-dependent fields `pos = (F1, F2)`, everything else `rest`) plus the host
    temporary `saved`.  `F1` = the fields the four "spring" stages write (kinematics, com_pos, tendon, transmission),
    `F2` = the additional fields of the full nine-stage pass (camlight, flex, crb, tendon_armature, factor_m). -/
structure St (Mdl Q F1 F2 R : Type) where
  model : Mdl
  qpos : Q
  pos : F1 × F2
  rest : R
  saved : Q

/-- what the launch groups compute (uninterpreted) -/
structure Sem (Mdl Q F1 F2 R : Type) where
  qpos0 : Mdl → Q
  qposSpring : Mdl → Q
  kinFull : Mdl → R → Q → F1 × F2
  kinSpring : Mdl → R → Q → F1
  fixed : Mdl → Mdl
  upd0 : Mdl → F1 × F2 → Mdl
  updSpring : Mdl → F1 → Mdl

variable {Mdl Q F1 F2 R : Type}

def step (sem : Sem Mdl Q F1 F2 R) (s : St Mdl Q F1 F2 R) : Ev → St Mdl Q F1 F2 R
  | Ev.saveQpos => { s with saved := s.qpos }
  | Ev.loadQpos0 => { s with qpos := sem.qpos0 s.model }
  | Ev.loadQposSpring => { s with qpos := sem.qposSpring s.model }
  | Ev.kinFull => { s with pos := sem.kinFull s.model s.rest s.qpos }
  | Ev.kinSpring => { s with pos := (sem.kinSpring s.model s.rest s.qpos, s.pos.2) }
  | Ev.updFixed => { s with model := sem.fixed s.model }
  | Ev.upd0 => { s with model := sem.upd0 s.model s.pos }
  | Ev.updSpring => { s with model := sem.updSpring s.model s.pos.1 }
  | Ev.restoreQpos => { s with qpos := s.saved }

def run (sem : Sem Mdl Q F1 F2 R) (evs : List Ev) (s : St Mdl Q F1 F2 R) : St Mdl Q F1 F2 R :=
  evs.foldl (step sem) s

/-- the Model `set_const` ends with, as a function of the initial Model and the non-position Data only -/
def finalModel (sem : Sem Mdl Q F1 F2 R) (hasTendon : Bool) (m : Mdl) (r : R) : Mdl :=
  let m1 := sem.fixed m
  let m2 := sem.upd0 m1 (sem.kinFull m1 r (sem.qpos0 m1))
  if hasTendon then sem.updSpring m2 (sem.kinSpring m2 r (sem.qposSpring m2)) else m2

/-- the Model `set_const_0` ends with -/
def finalModel0 (sem : Sem Mdl Q F1 F2 R) (m : Mdl) (r : R) : Mdl :=
  sem.upd0 m (sem.kinFull m r (sem.qpos0 m))

end Mjw.Spec.SetConst
