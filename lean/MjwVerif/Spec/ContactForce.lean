/-
  Hand-written specification of MuJoCo's friction-pyramid codec (engine_util_misc.c) and of
  `mj_contactForce` (engine_support.c), against which the translated `_decode_pyramid`,
  `contact_force_fn`, `contact_force_kernel` of mujoco_warp/_src/support.py are proved in
  `Props/C39.lean`.   Core Lean only; generic over `[Scalar K]`.

    void mju_decodePyramid(force, pyramid, mu, dim):
      if dim == 1: force[0] = pyramid[0]; return
      force[0] = 0;  for i < 2(dim-1): force[0] += pyramid[i]
      for i < dim-1: force[i+1] = (pyramid[2i] - pyramid[2i+1]) * mu[i]

    void mju_encodePyramid(pyramid, force, mu, dim):
      if dim == 1: pyramid[0] = force[0]; return
      a = force[0]/(dim-1)
      for i < dim-1: b = force[i+1]/mu[i];  pyramid[2i] = 0.5(a+b);  pyramid[2i+1] = 0.5(a-b)

    void mj_contactForce(m, d, id, result[6]):
      zero(result);
      if 0 <= id < ncon and contact[id].efc_address >= 0:
        pyramidal: mju_decodePyramid(result, efc_force + efc_address, friction, dim)
        elliptic : copy(result, efc_force + efc_address, dim)

  Components of the 6-vector that the C code does not write are 0 (the caller zeroes `result`).
  Arrays are functions of an `Int` index (as in the translated code); `pyramid k` is edge force k.
-/
import MjwVerif.Model.Vec
namespace Mjw.Spec.ContactForce
open Mjw

variable {K : Type} [Scalar K]

/-- `Σ_{k<n} p k`, accumulated left to right exactly as the C loop `force[0] += pyramid[k]` does -/
def sumTo (p : Int → K) : Nat → K
  | 0 => Scalar.lit 0 0
  | n + 1 => sumTo p n + p (Int.ofNat n)

/-- tangential / torsional / rolling component `i+1` of the decoded force (0 beyond `dim`) -/
def tangent (p : Int → K) (mu : V5 K) (dim : Int) (i : Int) : K :=
  if i < dim - 1 then (p (2 * i) - p (2 * i + 1)) * V5.get mu i else Scalar.lit 0 0

/-- `mju_decodePyramid` (into a zeroed 6-vector) -/
def decodePyramid (p : Int → K) (mu : V5 K) (dim : Int) : V6 K :=
  if dim = 1 then
    ⟨p 0, Scalar.lit 0 0, Scalar.lit 0 0, Scalar.lit 0 0, Scalar.lit 0 0, Scalar.lit 0 0⟩
  else
    ⟨sumTo p (2 * (dim - 1)).toNat, tangent p mu dim 0, tangent p mu dim 1, tangent p mu dim 2,
      tangent p mu dim 3, tangent p mu dim 4⟩

/-- `mju_encodePyramid` (edge forces outside `[0, 2(dim-1))` are 0) -/
def encodePyramid (f : V6 K) (mu : V5 K) (dim : Int) : Int → K := fun k =>
  if dim = 1 then (if k = 0 then f.c0 else Scalar.lit 0 0)
  else if 0 ≤ k ∧ k < 2 * (dim - 1) then
    let a : K := f.c0 / Scalar.ofInt (dim - 1)
    let b : K := V6.get f (k / 2 + 1) / V5.get mu (k / 2)
    if k % 2 = 0 then Scalar.lit 5 (-1) * (a + b) else Scalar.lit 5 (-1) * (a - b)
  else Scalar.lit 0 0

/-- elliptic cone: component `i` of the result is row `i` of the contact for `i < dim`, else 0 -/
def copyRows (p : Int → K) (dim : Int) : V6 K :=
  let g : Int → K := fun i => if i < dim then p i else Scalar.lit 0 0
  ⟨g 0, g 1, g 2, g 3, g 4, g 5⟩

/-- `mj_contactForce` in the contact frame: `rows k` is `efc_force[efc_address + k]` -/
def contactForce (pyramidal : Bool) (ncon id efc_address : Int) (rows : Int → K) (mu : V5 K) (dim : Int) : V6 K :=
  if 0 ≤ id ∧ id < ncon ∧ 0 ≤ efc_address then
    (if pyramidal then decodePyramid rows mu dim else copyRows rows dim)
  else V6.zero

/-- the optional rotation to the world frame: `mju_mulMatTVec3(·, frame, ·)` on force and torque,
    i.e. `frameᵀ · v` (the rows of `frame` are the contact axes, row 0 the normal) -/
def toWorld (frame : M33 K) (f : V6 K) : V6 K :=
  V6.ofV3 (M33.mulVec (M33.transpose frame) (V6.top f)) (M33.mulVec (M33.transpose frame) (V6.bottom f))

end Mjw.Spec.ContactForce
