/-
  Hand-written specification of MuJoCo's passive forces and of the pieces of the smooth dynamics that
  Props/C02.lean compares the translated kernels of mujoco_warp/_src/passive.py, smooth.py, forward.py with.
  Transcribed from MuJoCo 3.13 engine_passive.c / engine_core_smooth.c / engine_forward.c.
  Core Lean only; generic over `[Scalar K]`; arrays are functions of `Int` indices.

    mj_springdamper (joints):   stiffness k(x) = k + p0·x + p1·x²,   damping b(v) = b + p0·|v| + p1·|v|²
        FREE  : dif = qpos[padr..+3] - qpos_spring[padr..+3];  qfrc_spring[dadr+i] = -k(|dif|)·dif[i]     (i < 3)
                then as BALL on padr+3, dadr+3
        BALL  : quat = normalize(qpos[padr..+4]);  dif = mju_subQuat(quat, qpos_spring[padr..+4]);
                qfrc_spring[dadr+i] = -k(|dif|)·dif[i]                                                     (i < 3)
        SLIDE, HINGE:  x = qpos[padr] - qpos_spring[padr];  qfrc_spring[dadr] = -x·k(x)
        every dof:  qfrc_damper[i] = -v·b(v),  v = qvel[i]
        SPRING bit set -> no spring term at all;  DAMPER bit set -> no damper term at all
    mj_springdamper (tendons):  x = len - upper (len > upper) | len - lower (len < lower) | 0;
        qfrc_spring += J^T (-x·k(x));   qfrc_damper += J^T (-v·b(v)),  v = ten_velocity
    mj_gravcomp:   for body b with gravcomp ≠ 0:  force = -gravity · mass_b · gravcomp_b applied at xipos_b:
        qfrc_gravcomp += J_p(xipos_b, b)^T force
    mj_applyFT(force, torque, point, body):  qfrc += J_p(point, body)^T force + J_r(body)^T torque
    mj_ellipsoidFluidModel: for every geom g of the body (coef > 0): local force/torque (lfrc) from the geom's
        velocity;   mj_applyFT(R_g·lfrc_force, R_g·lfrc_torque, **geom_xpos_g**, body, qfrc_fluid)
    mj_inertiaBoxFluidModel: box_i = sqrt(max(MINVAL, I_j + I_k - I_i)/mass·6);
        viscosity > 0:  diam = (Σ box)/3;  lfrc_ang = -π·diam³·μ·ω_loc;   lfrc_lin = -3π·diam·μ·v_loc
        density   > 0:  lfrc_lin_i -= ½ρ·box_j·box_k·|v_i|·v_i;   lfrc_ang_i -= ρ·box_i·(box_j⁴+box_k⁴)·|ω_i|·ω_i/64
        mj_applyFT(R·lfrc_lin, R·lfrc_ang, xipos, body, qfrc_fluid)
    mj_passive:    qfrc_passive = qfrc_spring + qfrc_damper (+ qfrc_gravcomp for dofs whose joint has no
        actuatorgravcomp) (+ qfrc_fluid)
    mj_comVel:     cvel[0] = 0;  cvel[b] = cvel[parent b] + Σ_{dofs d of b, in order} cdof[d]·qvel[d];
        cdof_dot: FREE: 0 for the 3 translations, then cvel(after translations) ×ₘ cdof for the rotations;
                  BALL: cvel(before the joint) ×ₘ cdof;   HINGE/SLIDE: cvel(before the dof) ×ₘ cdof
    mj_fwdAcceleration:  qfrc_smooth = qfrc_passive - qfrc_bias + qfrc_applied + qfrc_actuator (+ xfrc via mj_applyFT);
        qacc_smooth = M⁻¹ qfrc_smooth
    mj_crb:        M(i,i) = armature_i + cdof_i·(crb_{body i} cdof_i);   M(i,j) = cdof_j·(crb_{body i} cdof_i) for every
        ancestor dof j of i  (row i of the lower triangle, stored from the diagonal backwards)
-/
import MjwVerif.Model.Kernel
namespace Mjw.Spec.Passive
open Mjw

variable {K : Type} [Scalar K]

/-- the state-dependent coefficient  k(x̃) = lin + p₀·x̃ + p₁·x̃²  (x̃ = x for springs, |v| for dampers) -/
def coef (lin : K) (p : V2 K) (xt : K) : K := (lin + p.c0 * xt) + (p.c1 * xt) * xt

/-- "the component is present": some coefficient non-zero and its disable bit clear -/
def present (lin : K) (p : V2 K) (dsbl : Bool) : Bool :=
  ((Scalar.bne lin (Scalar.lit 0 0 : K)) || (Scalar.bne p.c0 (Scalar.lit 0 0 : K)) || (Scalar.bne p.c1 (Scalar.lit 0 0 : K))) && (!dsbl)

/-- scalar spring (slide, hinge, tendon): −x·k(x) -/
def spring1 (k : K) (p : V2 K) (x : K) : K := (-x) * coef k p x
/-- scalar damper: −v·b(|v|) -/
def damper1 (b : K) (p : V2 K) (v : K) : K := (-v) * coef b p (Scalar.abs v)
/-- 3-vector spring (ball, and both halves of free): component i of −k(|dif|)·dif -/
def spring3 (k : K) (p : V2 K) (dif : V3 K) : V3 K :=
  ⟨(-(coef k p (V3.length dif))) * dif.c0, (-(coef k p (V3.length dif))) * dif.c1, (-(coef k p (V3.length dif))) * dif.c2⟩

/-- tendon dead band -/
def deadband (len lower upper : K) : K :=
  if Scalar.gt len upper then len - upper else if Scalar.lt len lower then len - lower else Scalar.lit 0 0

/-- weight compensation force of one body -/
def gravcompForce (g : V3 K) (mass gc : K) : V3 K := V3.muls (V3.muls (V3.neg g) mass) gc

/-- translational Jacobian column of dof `d` at `point` (relative to the subtree com `com` of the body's root):
    `cdof_lin + cdof_ang × (point − com)` -/
def jacpCol (cdof : V6 K) (point com : V3 K) : V3 K := V3.add (V6.bottom cdof) (V3.cross (V6.top cdof) (V3.sub point com))

/-- moment about `about` of a force applied at `at'` -/
def moment (at' about force : V3 K) : V3 K := V3.cross (V3.sub at' about) force

/-- `mj_applyFT` seen from the body's inertial frame origin: a (force, torque) applied at `point` is the same wrench as
    (force, torque + (point − xipos) × force) applied at `xipos` -/
def wrenchAt (xipos point force torque : V3 K) : V3 K × V3 K := (force, V3.add torque (moment point xipos force))

/-! ### body velocities -/

/-- number of dofs of a joint type (mjtJoint: FREE 0, BALL 1, SLIDE 2, HINGE 3) -/
def ndof (t : Int) : Nat := if t = 0 then 6 else if t = 1 then 3 else 1

/-- `c + Σ_{i<n} cdof[d+i]·qvel[d+i]`, added in index order -/
def addDofs (cdof : Int → V6 K) (qvel : Int → K) (c : V6 K) (d : Int) : Nat → V6 K
  | 0 => c
  | n + 1 => V6.add (addDofs cdof qvel c d n) (V6.muls (cdof (d + (n : Int))) (qvel (d + (n : Int))))

/-- total number of dofs of the joints `j, j+1, …, j+n-1` -/
def dofsOf (jnt_type : Int → Int) (j : Int) : Nat → Nat
  | 0 => 0
  | n + 1 => dofsOf jnt_type j n + ndof (jnt_type (j + (n : Int)))

/-! ### inertia matrix row -/

/-- the k-th ancestor dof of `i` (0-th = `i` itself) -/
def ancDof (dof_parentid : Int → Int) (i : Int) : Nat → Int
  | 0 => i
  | n + 1 => dof_parentid (ancDof dof_parentid i n)

end Mjw.Spec.Passive
