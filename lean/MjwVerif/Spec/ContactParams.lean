/-
  Hand-written specification of how MuJoCo C resolves the parameters of a geom-geom contact
  (engine_collision_driver.c: `mj_contactParam`, the parameter part of `mj_collideGeoms`/`mj_setContact`),
  and of the closed-form sphere routines of engine_collision_primitive.c (`mjraw_SphereSphere`, `mjc_PlaneSphere`),
  against which the translated `contact_material_params / contact_margin_gap / contact_params / sphere_sphere /
  plane_sphere` of mujoco_warp are proved in `Props/C04.lean`.
  Core Lean only; generic over `[Scalar K]`; operations in the order the C code performs them.
  The behaviour transcribed here was cross-checked numerically against mujoco 3.13 `mj_collision` (harness/props/c04.py:
  every parameter of every reported contact of the random scenes is compared with MuJoCo's).

    static void mj_contactParam(m, &condim, &gap, solref, solimp, friction, g1, g2, ...):
      // different priority: copy from item with higher priority
      if (priority1 > priority2)       condim = condim1; solref = solref1; solimp = solimp1; friction = friction1
      else if (priority1 < priority2)  condim = condim2; solref = solref2; solimp = solimp2; friction = friction2
      // same priority
      else
        condim = mjMAX(condim1, condim2)
        if      (solmix1 >= mjMINVAL && solmix2 >= mjMINVAL)  mix = solmix1 / (solmix1 + solmix2)
        else if (solmix1 <  mjMINVAL && solmix2 <  mjMINVAL)  mix = 0.5
        else if (solmix1 <  mjMINVAL)                         mix = 0.0
        else                                                  mix = 1.0
        if (solref1[0] > 0 && solref2[0] > 0)  solref[i] = mix*solref1[i] + (1-mix)*solref2[i]     // standard: mix
        else                                   solref[i] = mju_min(solref1[i], solref2[i])         // direct: min
        solimp[i]   = mix*solimp1[i] + (1-mix)*solimp2[i]
        friction[i] = mju_max(friction1[i], friction2[i])                                          // i < 3

    mj_collideGeoms (no explicit pair):   margin = geom_margin[g1] + geom_margin[g2]   (MuJoCo >= 3.4; was max)
                                          gap    = geom_gap[g1] + geom_gap[g2]
                                          friction5 = (f0, f0, f1, f2, f2); solreffriction = 0
                    (explicit pair):      everything from pair_* (margin, gap, dim, solref, solreffriction, solimp, friction5)
    mj_setContact:   con.friction[i] = mju_max(mjMINMU, friction5[i]);  con.includemargin = margin
                     a contact is kept iff dist < margin + gap         (MuJoCo >= 3.4: the gap band lies ABOVE the margin)
-/
import MjwVerif.Model.Vec

namespace Mjw.Spec.ContactParams
open Mjw Mjw.Scalar
variable {K : Type} [Scalar K]

/-- mjMINVAL -/
def minval : K := Scalar.lit 1 (-15)
/-- mjMINMU -/
def minmu : K := Scalar.lit 1 (-5)

/-- the contact-relevant attributes of one geom -/
structure GeomMat (K : Type) where
  condim : Int
  priority : Int
  solmix : K
  solref : V2 K
  solimp : V5 K
  friction : V3 K
  margin : K
  gap : K

/-- the attributes of one explicit `<pair>` -/
structure PairMat (K : Type) where
  dim : Int
  solref : V2 K
  solreffriction : V2 K
  solimp : V5 K
  friction : V5 K
  margin : K
  gap : K

/-- what MuJoCo stores in an `mjContact` besides the geometry -/
structure Params (K : Type) where
  dim : Int
  friction : V5 K
  solref : V2 K
  solreffriction : V2 K
  solimp : V5 K
  margin : K          -- = includemargin
  gap : K

/-- solver mix factor of two geoms of equal priority (four cases of `mj_contactParam`) -/
def mixWeight (s1 s2 : K) : K :=
  if Scalar.ge s1 minval && Scalar.ge s2 minval then s1 / (s1 + s2)
  else if Scalar.lt s1 minval && Scalar.lt s2 minval then Scalar.lit 5 (-1)
  else if Scalar.lt s1 minval then Scalar.lit 0 0
  else Scalar.lit 1 0

/-- solref of two geoms of equal priority: weighted average in standard form, element-wise min otherwise -/
def mixSolref (mix : K) (r1 r2 : V2 K) : V2 K :=
  if Scalar.gt r1.c0 (Scalar.lit 0 0) && Scalar.gt r2.c0 (Scalar.lit 0 0) then
    ⟨mix * r1.c0 + (Scalar.lit 1 0 - mix) * r2.c0, mix * r1.c1 + (Scalar.lit 1 0 - mix) * r2.c1⟩
  else ⟨Scalar.min r1.c0 r2.c0, Scalar.min r1.c1 r2.c1⟩

def mixSolimp (mix : K) (a b : V5 K) : V5 K :=
  ⟨mix * a.c0 + (Scalar.lit 1 0 - mix) * b.c0, mix * a.c1 + (Scalar.lit 1 0 - mix) * b.c1,
   mix * a.c2 + (Scalar.lit 1 0 - mix) * b.c2, mix * a.c3 + (Scalar.lit 1 0 - mix) * b.c3,
   mix * a.c4 + (Scalar.lit 1 0 - mix) * b.c4⟩

/-- `mj_contactParam`: (condim, solref, solimp, friction[3]) -/
def mjContactParam (a b : GeomMat K) : Int × V2 K × V5 K × V3 K :=
  if a.priority > b.priority then (a.condim, a.solref, a.solimp, a.friction)
  else if a.priority < b.priority then (b.condim, b.solref, b.solimp, b.friction)
  else
    let mix := mixWeight a.solmix b.solmix
    (max a.condim b.condim, mixSolref mix a.solref b.solref, mixSolimp mix a.solimp b.solimp,
     ⟨Scalar.max a.friction.c0 b.friction.c0, Scalar.max a.friction.c1 b.friction.c1, Scalar.max a.friction.c2 b.friction.c2⟩)

/-- `mj_setContact`'s clamp of the five friction coefficients -/
def clampFriction (f : V5 K) : V5 K :=
  ⟨Scalar.max minmu f.c0, Scalar.max minmu f.c1, Scalar.max minmu f.c2, Scalar.max minmu f.c3, Scalar.max minmu f.c4⟩

/-- tangential, tangential, torsional, rolling, rolling -/
def unpackFriction (f : V3 K) : V5 K := ⟨f.c0, f.c0, f.c1, f.c2, f.c2⟩

/-- parameters of a contact between two geoms without explicit pair -/
def geomParams (a b : GeomMat K) : Params K :=
  let (cd, sr, si, fr) := mjContactParam a b
  { dim := cd, friction := clampFriction (unpackFriction fr), solref := sr,
    solreffriction := ⟨Scalar.lit 0 0, Scalar.lit 0 0⟩, solimp := si,
    margin := a.margin + b.margin, gap := a.gap + b.gap }

/-- parameters of a contact of an explicit pair -/
def pairParams (p : PairMat K) : Params K :=
  { dim := p.dim, friction := clampFriction p.friction, solref := p.solref, solreffriction := p.solreffriction,
    solimp := p.solimp, margin := p.margin, gap := p.gap }

/-- a candidate at signed distance `dist` becomes a contact iff `dist < margin + gap` -/
def detected (dist margin gap : K) : Bool := Scalar.lt dist (margin + gap)

/-! ### closed-form sphere routines (engine_collision_primitive.c)

    mjraw_SphereSphere:  dist = |p2 - p1| - r1 - r2;  n = normalize(p2 - p1);
                         (|p2 - p1| < mjMINVAL: n = normalize(z1 × z2), or (1,0,0) if that vanishes — not transcribed)
                         pos = p1 + n * (r1 + 0.5 dist)
    mjc_PlaneSphere:     dist = n·(c - p) - r;  pos = c - n * (r + 0.5 dist);  normal = n  -/

/-- non-degenerate branch of `mjraw_SphereSphere` -/
def sphereSphere (p1 : V3 K) (r1 : K) (p2 : V3 K) (r2 : K) : K × V3 K × V3 K :=
  let d := V3.length (V3.sub p2 p1)
  let n := V3.divs (V3.sub p2 p1) d
  let dist := d - r1 - r2
  (dist, V3.add p1 (V3.muls n (r1 + Scalar.lit 5 (-1) * dist)), n)

def planeSphere (n p c : V3 K) (r : K) : K × V3 K :=
  let dist := V3.dot (V3.sub c p) n - r
  (dist, V3.sub c (V3.muls n (r + Scalar.lit 5 (-1) * dist)))

end Mjw.Spec.ContactParams
