/-
  Hand-written specification of the LAUNCH STRUCTURE of `make_constraint` (mujoco_warp/_src/constraint.py),
  as far as the row layout is concerned.  Core Lean only (on top of the arena model `Model/Alloc.lean`).

      wp.launch(_zero_constraint_counts, dim=nworld)                 # ne = nf = nl = nefc = 0
      if not DisableBit.CONSTRAINT:
        if not DisableBit.EQUALITY:
          wp.launch(_equality_connect, dim=(nworld, n_connect))      # k = 3 rows per active constraint
          wp.launch(_equality_weld,    dim=(nworld, n_weld))         # k = 6
          wp.launch(_equality_joint,   dim=(nworld, n_joint))        # k = 1
          wp.launch(_equality_tendon,  dim=(nworld, n_tendon))       # k = 1
          if nflex > 0:
            wp.launch(_equality_flex,  dim=(nworld, n_flex, nflexedge))   # k = 1
            if eq_flexstrain_adr.size: wp.launch(_equality_flexstrain, …)
        if not DisableBit.FRICTIONLOSS:
          wp.launch(_friction_dof,     dim=(nworld, nv))             # k = 1
          wp.launch(_friction_tendon,  dim=(nworld, ntendon))        # k = 1
        if not DisableBit.LIMIT:
          wp.launch(_limit_ball,        …)                           # k = 1
          wp.launch(_limit_slide_hinge, …)                           # k = 1
          wp.launch(_limit_tendon,      …)                           # k = 1
        if not DisableBit.CONTACT:
          wp.launch(_efc_contact_init[_flex], dim=naconmax)          # k = 1 | 2(condim-1) | condim rows per contact
          … Jacobian kernels, _efc_contact_update (they allocate nothing)

  Every thread that contributes rows does `efcid = wp.atomic_add(nefc_out, worldid, k)` on the SAME per-world
  counter.  Launches on one stream are sequential; the threads of one launch run in an arbitrary order.
  A launch is therefore a multiset of arena requests (`Alloc.Req`), a schedule picks an order inside each
  launch, and the counter is threaded through the launches in the order above.  A disabled / absent launch is
  a launch with no requests.
-/
import MjwVerif.Model.Alloc
namespace Mjw.Spec.MakeConstraint
open Mjw.Alloc

/-- the four row classes, in the order of their index ranges -/
inductive RowClass where
  | equality | friction | limit | contact
  deriving DecidableEq, Repr

structure Launch where
  kernel : String
  cls : RowClass
  reqs : List Req

/-- the arena requests of one world, per kernel launch (threads that do not reach their allocating atomic request nothing) -/
structure Requests where
  connect : List Req
  weld : List Req
  joint : List Req
  tendon : List Req
  flex : List Req
  flexstrain : List Req
  frictionDof : List Req
  frictionTendon : List Req
  limitBall : List Req
  limitSlideHinge : List Req
  limitTendon : List Req
  contact : List Req

/-- the allocating launches of `make_constraint`, in program order -/
def launches (R : Requests) : List Launch :=
  [⟨"_equality_connect", .equality, R.connect⟩,
   ⟨"_equality_weld", .equality, R.weld⟩,
   ⟨"_equality_joint", .equality, R.joint⟩,
   ⟨"_equality_tendon", .equality, R.tendon⟩,
   ⟨"_equality_flex", .equality, R.flex⟩,
   ⟨"_equality_flexstrain", .equality, R.flexstrain⟩,
   ⟨"_friction_dof", .friction, R.frictionDof⟩,
   ⟨"_friction_tendon", .friction, R.frictionTendon⟩,
   ⟨"_limit_ball", .limit, R.limitBall⟩,
   ⟨"_limit_slide_hinge", .limit, R.limitSlideHinge⟩,
   ⟨"_limit_tendon", .limit, R.limitTendon⟩,
   ⟨"_efc_contact_init", .contact, R.contact⟩]

/-- number of requested rows per class (`Alloc.final l = Σ k`) -/
def ne (R : Requests) : Int :=
  final R.connect + final R.weld + final R.joint + final R.tendon + final R.flex + final R.flexstrain
def nf (R : Requests) : Int := final R.frictionDof + final R.frictionTendon
def nl (R : Requests) : Int := final R.limitBall + final R.limitSlideHinge + final R.limitTendon
def nc (R : Requests) : Int := final R.contact

/-- the index range `[lo, hi)` reserved for a class -/
def lo (R : Requests) : RowClass → Int
  | .equality => 0
  | .friction => ne R
  | .limit => ne R + nf R
  | .contact => ne R + nf R + nl R
def hi (R : Requests) : RowClass → Int
  | .equality => ne R
  | .friction => ne R + nf R
  | .limit => ne R + nf R + nl R
  | .contact => ne R + nf R + nl R + nc R

/-- a schedule: for every launch, the order in which its threads perform their atomic (any permutation) -/
def IsSchedule : List Launch → List (List Req) → Prop
  | [], [] => True
  | l :: ls, o :: os => o.Perm l.reqs ∧ IsSchedule ls os
  | _, _ => False

/-- run the launches one after the other on the same counter (starting at `c`); one grant list per launch -/
def runLaunches (guard : Guard) (C : Int) : List (List Req) → Int → List (List Grant)
  | [], _ => []
  | o :: os, c => runFrom guard C o c :: runLaunches guard C os (finalFrom o c)

end Mjw.Spec.MakeConstraint
