/-
  Hand-written specification of MuJoCo's constraint impedance / reference-acceleration computation
  (engine_core_constraint.c: `getsolparam`, `getimpedance`, `mj_makeImpedance`, end of `mj_makeConstraint`),
  against which the translated `_efc_row` of mujoco_warp/_src/constraint.py is proved in `Props/C05.lean`.
  Core Lean only; generic over `[Scalar K]`; operations in the order the C code performs them.
  (The C behaviour transcribed here was cross-checked numerically against mujoco 3.13 `mj_forward`
  on the corner cases: width = 0, dmin > dmax, mixed solref, tiny time constant with REFSAFE disabled.)

    static void getsolparam(m, d, i, solref, solreffriction, solimp):
      ... copy the parameters of the constraint's object ...
      if ((solref[0] > 0) ^ (solref[1] > 0)):                       // mixed format
        mju_warning("mixed solref format, replacing with default");  solref = (0.02, 1)
      if (!mjDISABLED(mjDSBL_REFSAFE) && solref[0] > 0):             // integrator safety
        solref[0] = mju_max(solref[0], 2*m->opt.timestep)
      solimp[0] = mju_min(mjMAXIMP, mju_max(mjMINIMP, solimp[0]))    // dmin
      solimp[1] = mju_min(mjMAXIMP, mju_max(mjMINIMP, solimp[1]))    // dmax
      solimp[2] = mju_max(0, solimp[2])                              // width
      solimp[3] = mju_min(mjMAXIMP, mju_max(mjMINIMP, solimp[3]))    // midpoint
      solimp[4] = mju_max(1, solimp[4])                              // power

    static void getimpedance(solimp, pos, margin, *imp, *impP):
      if (solimp[0] == solimp[1] || solimp[2] <= mjMINVAL):          // flat function
        *imp = 0.5*(solimp[0] + solimp[1]);  return
      x = (pos-margin) / solimp[2];  if (x < 0) x = -x
      if (x >= 1 || x <= 0):                                         // fully saturated
        *imp = (x >= 1 ? solimp[1] : solimp[0]);  return
      if (solimp[4] == 1)          y = x                             // linear
      else if (x <= solimp[3])     a = 1/mju_pow(solimp[3], solimp[4]-1);    y = a*mju_pow(x, solimp[4])
      else                         b = 1/mju_pow(1-solimp[3], solimp[4]-1);  y = 1 - b*mju_pow(1-x, solimp[4])
      *imp = solimp[0] + y*(solimp[1]-solimp[0])

    void mj_makeImpedance(m, d):    for every row i
      R[i]  = mju_max(mjMINVAL, (1-imp)*efc_diagApprox[i]/imp)
      K     = ref[0] > 0 ? 1 / mju_max(mjMINVAL, dmax*dmax * ref[0]*ref[0] * ref[1]*ref[1])
                         : -ref[0] / mju_max(mjMINVAL, dmax*dmax)
              (K = 0 for friction-loss rows and the friction dimensions of elliptic contacts)
      B     = ref[1] > 0 ? 2 / mju_max(mjMINVAL, dmax*ref[0])
                         : -ref[1] / mju_max(mjMINVAL, dmax)
      I     = imp
    mj_makeConstraint (end):
      efc_D[i]    = 1 / R[i]
      efc_aref[i] = -B*efc_vel[i] - K*I*(efc_pos[i] - efc_margin[i])

  Constants: mjMINVAL = 1e-15, mjMINIMP = 1e-4, mjMAXIMP = 0.9999, default solref = (0.02, 1).
-/
import MjwVerif.Model.Vec
namespace Mjw.Spec.Impedance
open Mjw

variable {K : Type} [Scalar K]

def mjMINVAL : K := Scalar.lit 1 (-15)
def mjMINIMP : K := Scalar.lit 1 (-4)
def mjMAXIMP : K := Scalar.lit 9999 (-4)
/-- `mj_defaultSolRefImp`: solref = (0.02, 1) -/
def defaultSolref : V2 K := ⟨Scalar.lit 2 (-2), Scalar.lit 1 0⟩

/-- the two solref formats may not be mixed: `(solref[0] > 0) ^ (solref[1] > 0)` -/
def mixedSolref (solref : V2 K) : Bool :=
  Bool.xor (Scalar.gt solref.c0 (Scalar.lit 0 0)) (Scalar.gt solref.c1 (Scalar.lit 0 0))

/-- `getsolparam`, solref part.  `refsafe = true` ⇔ `mjDSBL_REFSAFE` is NOT set. -/
def solrefFix (refsafe : Bool) (timestep : K) (solref : V2 K) : V2 K :=
  let r : V2 K := if mixedSolref solref then defaultSolref else solref
  if refsafe && Scalar.gt r.c0 (Scalar.lit 0 0) then
    ⟨Scalar.max r.c0 (Scalar.lit 2 0 * timestep), r.c1⟩
  else r

/-- `getsolparam`, solimp part -/
def solimpFix (s : V5 K) : V5 K :=
  ⟨Scalar.min mjMAXIMP (Scalar.max mjMINIMP s.c0),
   Scalar.min mjMAXIMP (Scalar.max mjMINIMP s.c1),
   Scalar.max (Scalar.lit 0 0) s.c2,
   Scalar.min mjMAXIMP (Scalar.max mjMINIMP s.c3),
   Scalar.max (Scalar.lit 1 0) s.c4⟩

/-- the sigmoid `y(x)` of `getimpedance` for `0 < x < 1` -/
def sigmoid (x mid power : K) : K :=
  if Scalar.beq power (Scalar.lit 1 0) then x
  else if Scalar.le x mid then
    (Scalar.lit 1 0 / Scalar.pow mid (power - Scalar.lit 1 0)) * Scalar.pow x power
  else
    Scalar.lit 1 0 - (Scalar.lit 1 0 / Scalar.pow (Scalar.lit 1 0 - mid) (power - Scalar.lit 1 0))
      * Scalar.pow (Scalar.lit 1 0 - x) power

/-- `getimpedance` (value only; `s` = the solimp returned by `getsolparam`) -/
def getImpedance (s : V5 K) (pos margin : K) : K :=
  if Scalar.beq s.c0 s.c1 || Scalar.le s.c2 mjMINVAL then
    Scalar.lit 5 (-1) * (s.c0 + s.c1)
  else
    let x : K := Scalar.abs ((pos - margin) / s.c2)
    if Scalar.ge x (Scalar.lit 1 0) then s.c1
    else if Scalar.le x (Scalar.lit 0 0) then s.c0
    else s.c0 + sigmoid x s.c3 s.c4 * (s.c1 - s.c0)

/-- stiffness `K` of `mj_makeImpedance` (`ref` = solref after `getsolparam`); not used for friction rows -/
def stiffness (ref : V2 K) (dmax : K) : K :=
  if Scalar.gt ref.c0 (Scalar.lit 0 0) then
    Scalar.lit 1 0 / Scalar.max mjMINVAL (dmax * dmax * ref.c0 * ref.c0 * ref.c1 * ref.c1)
  else
    (-ref.c0) / Scalar.max mjMINVAL (dmax * dmax)

/-- damping `B` of `mj_makeImpedance` -/
def damping (ref : V2 K) (dmax : K) : K :=
  if Scalar.gt ref.c1 (Scalar.lit 0 0) then
    Scalar.lit 2 0 / Scalar.max mjMINVAL (dmax * ref.c0)
  else
    (-ref.c1) / Scalar.max mjMINVAL dmax

/-- regularizer `R` -/
def regR (imp diagApprox : K) : K :=
  Scalar.max mjMINVAL ((Scalar.lit 1 0 - imp) * diagApprox / imp)

/-- the per-row scalars MuJoCo stores -/
structure Row (K : Type) where
  D : K
  vel : K
  aref : K
  pos : K
  margin : K
  frictionloss : K

/-- one constraint row as MuJoCo computes it: `pos` = `efc_pos` (distance, margin NOT subtracted),
    `margin` = `efc_margin`, `diagApprox` = `efc_diagApprox`, `vel` = `efc_vel = J·qvel`.
    `posImp`/`marginImp`: the pos/margin of the FIRST row of the constraint (`getposdim`; they differ from
    `pos`/`margin` only in the friction dimensions of an elliptic contact). -/
def row (refsafe : Bool) (timestep : K) (solref : V2 K) (solimp : V5 K)
    (pos margin posImp marginImp diagApprox vel frictionloss : K) : Row K :=
  let ref := solrefFix refsafe timestep solref
  let s := solimpFix solimp
  let imp := getImpedance s posImp marginImp
  let k := stiffness ref s.c1
  let b := damping ref s.c1
  { D := Scalar.lit 1 0 / regR imp diagApprox
    vel := vel
    aref := (-b) * vel - k * imp * (pos - margin)
    pos := pos
    margin := margin
    frictionloss := frictionloss }

/-! ### frictional pyramidal contacts

    mj_diagApprox, pyramidal contact, edge pair j:  dA = tran + friction[j]^2 * (j < 2 ? tran : rot)
    mj_makeImpedance, frictional contact starting at row i (R[i] computed from dA[i], i.e. j = 0):
      R[i+1]  = R[i] / mju_max(mjMINVAL, opt.impratio)
      con->mu = friction[0] * mju_sqrt(R[i+1]/R[i])               // mu of the regularized cone
      pyramidal:  Rpy = 2*con->mu*con->mu*R[i];   R[i+j] = Rpy  for all 2(dim-1) rows -/

/-- `efc_diagApprox` of the first edge pair of a pyramidal contact (`tran` = sum of the two bodies' translational
    `body_invweight0`, `mu0 = friction[0]`) -/
def diagApproxPyramid (tran mu0 : K) : K := tran + mu0 * mu0 * tran

/-- the common regularizer `Rpy` of all rows of a pyramidal contact (`R0` = `regR imp (diagApproxPyramid …)`) -/
def pyramidR (R0 mu0 impratio : K) : K :=
  let R1 : K := R0 / Scalar.max mjMINVAL impratio
  let mu : K := mu0 * Scalar.sqrt (R1 / R0)
  Scalar.lit 2 0 * mu * mu * R0

end Mjw.Spec.Impedance
