/-
  Hand-written specification of MuJoCo's `mj_getState` / `mj_setState` state-vector layout
  (mjtState bits, engine_io.c), against which the translated `get_state` / `set_state` kernels of
  mujoco_warp/_src/support.py are proved in `Props/C15.lean`.   Core Lean only.

  mjtState bit k  (k = 0..12):  TIME QPOS QVEL ACT HISTORY WARMSTART CTRL QFRC_APPLIED XFRC_APPLIED
  EQ_ACTIVE MOCAP_POS MOCAP_QUAT USERDATA; bit 13 = PLUGIN has size 0 here (no plugin state).
  The state vector for a signature `sig` is the concatenation, in increasing bit order, of the
  selected components, each flattened in its natural (row-major) order.
-/
import MjwVerif.Model.Kernel
namespace Mjw.Spec.State
open Mjw

/-- the nine model sizes the kernels receive (same order as the kernel parameters) -/
structure Dims where
  nq : Int
  nv : Int
  nu : Int
  na : Int
  nbody : Int
  neq : Int
  nmocap : Int
  nuserdata : Int
  nhistory : Int

/-- all sizes non-negative (always true of a compiled model) -/
structure Dims.Nonneg (dm : Dims) : Prop where
  nq : 0 ≤ dm.nq
  nv : 0 ≤ dm.nv
  nu : 0 ≤ dm.nu
  na : 0 ≤ dm.na
  nbody : 0 ≤ dm.nbody
  neq : 0 ≤ dm.neq
  nmocap : 0 ≤ dm.nmocap
  nuserdata : 0 ≤ dm.nuserdata
  nhistory : 0 ≤ dm.nhistory

/-- number of floats of state component k (mj_stateElemSize) -/
def sizes (dm : Dims) : List Int :=
  [1, dm.nq, dm.nv, dm.na, dm.nhistory, dm.nv, dm.nu, dm.nv, 6 * dm.nbody, dm.neq,
   3 * dm.nmocap, 4 * dm.nmocap, dm.nuserdata]

/-- number of (non-plugin) state components -/
def ncomp : Nat := 13

/-- component k is selected by the signature: the kernels' test `element & sig` with element = 2^k
    (32-bit two's complement `&`) -/
def bit (sig : Int) (k : Nat) : Bool := decide (Mjw.iand ((2 : Int) ^ k) sig ≠ 0)

/-- address of component k in the state vector: total size of the selected components below k -/
def offset (sig : Int) (sz : List Int) : Nat → Int
  | 0 => 0
  | k + 1 => offset sig sz k + (if bit sig k then sz.getD k 0 else 0)

/-- mj_stateSize -/
def stateSize (sig : Int) (sz : List Int) : Int := offset sig sz ncomp

/-- the state-carrying fields of `Data` (all worlds): index functions as the kernels see them -/
structure Data (K : Type) where
  time : Int → K
  qpos : Int → Int → K
  qvel : Int → Int → K
  act : Int → Int → K
  history : Int → Int → K
  qacc_warmstart : Int → Int → K
  ctrl : Int → Int → K
  qfrc_applied : Int → Int → K
  xfrc_applied : Int → Int → V6 K
  eq_active : Int → Int → Bool
  mocap_pos : Int → Int → V3 K
  mocap_quat : Int → Int → Q K
  userdata : Int → Int → K

variable {K : Type} [Scalar K]

/-- Bool → float as `mj_getState` does for `eq_active` (mjtByte → mjtNum) -/
def b2f (b : Bool) : K := if b then (Scalar.lit 1 0 : K) else (Scalar.lit 0 0 : K)

/-- float → Bool as the kernel does for `eq_active`: `state != 0` -/
def f2b (x : K) : Bool := Scalar.bne x (Scalar.lit 0 0)

/-- `[f 0, …, f (n-1)]`, `n` an Int size (empty when n ≤ 0) -/
def tab {α : Type} (n : Int) (f : Int → α) : List α := (List.range n.toNat).map (fun j => f (Int.ofNat j))

/-- component k of world w, flattened (vectors in component order, quaternion as w x y z) -/
def comp (dm : Dims) (d : Data K) (w : Int) : Nat → List K
  | 0 => [d.time w]
  | 1 => tab dm.nq (d.qpos w)
  | 2 => tab dm.nv (d.qvel w)
  | 3 => tab dm.na (d.act w)
  | 4 => tab dm.nhistory (d.history w)
  | 5 => tab dm.nv (d.qacc_warmstart w)
  | 6 => tab dm.nu (d.ctrl w)
  | 7 => tab dm.nv (d.qfrc_applied w)
  | 8 => (tab dm.nbody (fun j => V6.toList (d.xfrc_applied w j))).flatten
  | 9 => tab dm.neq (fun j => b2f (d.eq_active w j))
  | 10 => (tab dm.nmocap (fun j => V3.toList (d.mocap_pos w j))).flatten
  | 11 => (tab dm.nmocap (fun j => Q.toList (d.mocap_quat w j))).flatten
  | 12 => tab dm.nuserdata (d.userdata w)
  | _ => []

/-- the state vector of world w for signature sig (what `mj_getState` returns) -/
def stateVec (sig : Int) (dm : Dims) (d : Data K) (w : Int) : List K :=
  (List.range ncomp).flatMap (fun k => if bit sig k then comp dm d w k else [])

/-- plain stores of `xs` into `state_out[w, adr], state_out[w, adr+1], …` in this order -/
def writesAt (w : Int) : Int → List K → List (Write K)
  | _, [] => []
  | adr, x :: xs => (Write.mk "state_out" [w, adr] (WVal.f x) WKind.set : Write K) :: writesAt w (adr + 1) xs

/-- **specification of the `get_state` thread of world w**: for each selected component, in increasing
    bit order, its floats are stored at consecutive addresses starting at the component's offset -/
def getWrites (sig : Int) (dm : Dims) (d : Data K) (w : Int) : List (Write K) :=
  (List.range ncomp).flatMap (fun k =>
    if bit sig k then writesAt w (offset sig (sizes dm) k) (comp dm d w k) else [])

/-- name of the Data array holding component k (the `set_state` kernel's output parameter) -/
def arrName : Nat → String
  | 0 => "time_out"
  | 1 => "qpos_out"
  | 2 => "qvel_out"
  | 3 => "act_out"
  | 4 => "history_out"
  | 5 => "qacc_warmstart_out"
  | 6 => "ctrl_out"
  | 7 => "qfrc_applied_out"
  | 8 => "xfrc_applied_out"
  | 9 => "eq_active_out"
  | 10 => "mocap_pos_out"
  | 11 => "mocap_quat_out"
  | 12 => "userdata_out"
  | _ => ""

/-- the 13 arrays `set_state` may write -/
def dataArrays : List String := (List.range ncomp).map arrName

/-- element-wise copy `arr[w, j] = s (adr + j)`, j = 0..n-1 -/
def setScalars (arr : String) (w : Int) (n : Int) (s : Int → K) (adr : Int) : List (Write K) :=
  tab n (fun j => (Write.mk arr [w, j] (WVal.f (s (adr + j))) WKind.set : Write K))

/-- vector copy `arr[w, j] = (s (adr + c*j), …, s (adr + c*j + c-1))`, j = 0..n-1 -/
def setVectors (arr : String) (w : Int) (n : Int) (c : Nat) (s : Int → K) (adr : Int) : List (Write K) :=
  tab n (fun j => (Write.mk arr [w, j]
    (WVal.v ((List.range c).map (fun i => s (adr + (c : Int) * j + Int.ofNat i)))) WKind.set : Write K))

/-- writes of `set_state` for component k of world w, reading the state row `s` from address `adr` -/
def setComp (dm : Dims) (s : Int → K) (w : Int) (adr : Int) : Nat → List (Write K)
  | 0 => [(Write.mk "time_out" [w] (WVal.f (s adr)) WKind.set : Write K)]
  | 1 => setScalars "qpos_out" w dm.nq s adr
  | 2 => setScalars "qvel_out" w dm.nv s adr
  | 3 => setScalars "act_out" w dm.na s adr
  | 4 => setScalars "history_out" w dm.nhistory s adr
  | 5 => setScalars "qacc_warmstart_out" w dm.nv s adr
  | 6 => setScalars "ctrl_out" w dm.nu s adr
  | 7 => setScalars "qfrc_applied_out" w dm.nv s adr
  | 8 => setVectors "xfrc_applied_out" w dm.nbody 6 s adr
  | 9 => tab dm.neq (fun j => (Write.mk "eq_active_out" [w, j] (WVal.b (f2b (s (adr + j)))) WKind.set : Write K))
  | 10 => setVectors "mocap_pos_out" w dm.nmocap 3 s adr
  | 11 => setVectors "mocap_quat_out" w dm.nmocap 4 s adr
  | 12 => setScalars "userdata_out" w dm.nuserdata s adr
  | _ => []

/-- **specification of the `set_state` thread of world w** (`s a = state_in[w, a]`): components whose
    bit is clear get no write at all -/
def setWrites (sig : Int) (dm : Dims) (s : Int → K) (w : Int) : List (Write K) :=
  (List.range ncomp).flatMap (fun k =>
    if bit sig k then setComp dm s w (offset sig (sizes dm) k) k else [])

/-! ### memory effect of a write list (for the set → get round trip) -/

/-- generic "last matching update wins" fold; `upd acc w` is the new cell content -/
def lookupG {α : Type} (upd : α → Write K → α) (ws : List (Write K)) (arr : String) (idx : List Int) (dflt : α) : α :=
  ws.foldl (fun acc w => if w.arr == arr && w.idx == idx then upd acc w else acc) dflt

def updV6 (acc : V6 K) (w : Write K) : V6 K :=
  match w.kind, w.val with
  | .set, .v [a, b, c, d, e, f] => ⟨a, b, c, d, e, f⟩
  | _, _ => acc
def updV3 (acc : V3 K) (w : Write K) : V3 K :=
  match w.kind, w.val with
  | .set, .v [a, b, c] => ⟨a, b, c⟩
  | _, _ => acc
def updQ (acc : Q K) (w : Write K) : Q K :=
  match w.kind, w.val with
  | .set, .v [a, b, c, d] => ⟨a, b, c, d⟩
  | _, _ => acc

/-- `Data` after the writes `ws` (named after `set_state`'s output parameters) have been applied to `d`.
    Float and Bool cells use the kernel calculus' own `Write.lookupF` / `Write.lookupB`. -/
def applyWrites (ws : List (Write K)) (d : Data K) : Data K where
  time := fun w => Write.lookupF ws "time_out" [w] (d.time w)
  qpos := fun w j => Write.lookupF ws "qpos_out" [w, j] (d.qpos w j)
  qvel := fun w j => Write.lookupF ws "qvel_out" [w, j] (d.qvel w j)
  act := fun w j => Write.lookupF ws "act_out" [w, j] (d.act w j)
  history := fun w j => Write.lookupF ws "history_out" [w, j] (d.history w j)
  qacc_warmstart := fun w j => Write.lookupF ws "qacc_warmstart_out" [w, j] (d.qacc_warmstart w j)
  ctrl := fun w j => Write.lookupF ws "ctrl_out" [w, j] (d.ctrl w j)
  qfrc_applied := fun w j => Write.lookupF ws "qfrc_applied_out" [w, j] (d.qfrc_applied w j)
  xfrc_applied := fun w j => lookupG updV6 ws "xfrc_applied_out" [w, j] (d.xfrc_applied w j)
  eq_active := fun w j => Write.lookupB ws "eq_active_out" [w, j] (d.eq_active w j)
  mocap_pos := fun w j => lookupG updV3 ws "mocap_pos_out" [w, j] (d.mocap_pos w j)
  mocap_quat := fun w j => lookupG updQ ws "mocap_quat_out" [w, j] (d.mocap_quat w j)
  userdata := fun w j => Write.lookupF ws "userdata_out" [w, j] (d.userdata w j)

/-- value found at address `a` of the state row after `set_state` then `get_state`: the input `s a`,
    except in the EQ_ACTIVE segment where it went through float → Bool → float -/
def roundtripVal (sig : Int) (dm : Dims) (s : Int → K) (a : Int) : K :=
  if bit sig 9 = true ∧ offset sig (sizes dm) 9 ≤ a ∧ a < offset sig (sizes dm) 10 then b2f (f2b (s a)) else s a

end Mjw.Spec.State
