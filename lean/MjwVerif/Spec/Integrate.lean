/-
  Hand-written specification of MuJoCo's time integration (engine_forward.c, engine_util_spatial.c,
  engine_core_util.c), against which the translated kernels of mujoco_warp/_src/forward.py
  (`_next_position`, `_next_velocity`, `_next_activation`, `_next_time`, `_rk_accumulate_*`,
  `_euler_damp_qfrc`) and the host functions `_advance`, `euler`, `rungekutta4` are compared in
  `Props/C08.lean`.   Core Lean only; generic over `[Scalar K]`.

    mjtNum mju_normalize3(vec):   n = |vec|;  if n < mjMINVAL: vec = (1,0,0)  else vec *= 1/n;   return n
    mjtNum mju_normalize4(vec):   n = |vec|;  if n < mjMINVAL: vec = (1,0,0,0)
                                              else if |n - 1| > mjMINVAL: vec *= 1/n;            return n
    void mju_axisAngle2Quat(res, axis, angle):
        if angle == 0: res = (1,0,0,0)   else s = sin(angle/2); res = (cos(angle/2), axis*s)
    void mju_quatIntegrate(quat, vel, scale):
        tmp = vel; angle = scale * mju_normalize3(tmp); mju_axisAngle2Quat(qrot, tmp, angle);
        mju_normalize4(quat); mju_mulQuat(quat, quat, qrot)
    void mj_integratePos(m, qpos, qvel, dt):  for every joint j (padr = jnt_qposadr, vadr = jnt_dofadr)
        FREE : qpos[padr+i] += dt*qvel[vadr+i] (i<3);  mju_quatIntegrate(qpos+padr+3, qvel+vadr+3, dt)
        BALL : mju_quatIntegrate(qpos+padr, qvel+vadr, dt)
        HINGE, SLIDE: qpos[padr] += dt*qvel[vadr]
    mj_nextActivation(m, d, i, act, act_dot):
        FILTEREXACT: tau = max(mjMINVAL, dynprm[0]); act += act_dot*tau*(1 - exp(-dt/tau))
        otherwise  : act += act_dot*dt
        if actlimited: act = clip(act, actrange[0], actrange[1])
    mj_advance(m, d, act_dot, qacc, qvel):
        act  := mj_nextActivation(act, act_dot)          (all activations)
        qvel += dt*qacc
        mj_integratePos(qpos, qvel_arg or (the NEW) d.qvel, dt)
        time += dt;     qacc_warmstart := d.qacc
    mj_RungeKutta(m, d, 4):    A = diag(1/2, 1/2, 1),  B = (1/6, 1/3, 1/3, 1/6),  C_i = Σ_j A_ij
        X0 = (qpos,qvel,act); F0 = (qvel, qacc, act_dot)           (mj_forward has been called)
        for i = 1..3:  dX = A_i * F_{i-1};
                       X_i = (integratePos(X0.qpos, dX.vel, h), X0.qvel + h*dX.acc, X0.act + h*dX.actdot)
                       time = t0 + C_i*h;  d.(qpos,qvel,act) = X_i;  mj_forwardSkip;  F_i = (qvel, qacc, act_dot)
        dX = Σ B_i F_i;  restore time, X0;  mj_advance(m, d, dX.actdot, dX.acc, dX.vel)

  Arrays are functions of an `Int` index (as in the translated code).
-/
import MjwVerif.Model.Kernel
namespace Mjw.Spec.Integrate
open Mjw

variable {K : Type} [Scalar K]

/-! ## constants -/

/-- mjMINVAL = 1e-15 -/
def minval : K := Scalar.lit 1 (-15)

/-- mjtJoint -/
def FREE : Int := 0
def BALL : Int := 1
def SLIDE : Int := 2
def HINGE : Int := 3

/-- mjtDyn (MuJoCo 3.13) -/
def DYN_NONE : Int := 0
def DYN_INTEGRATOR : Int := 1
def DYN_FILTER : Int := 2
def DYN_FILTEREXACT : Int := 3
def DYN_MUSCLE : Int := 4
def DYN_DCMOTOR : Int := 5
def DYN_USER : Int := 7

/-! ## quaternion integration (engine_util_spatial.c) -/

/-- `mju_normalize3`: (normalised vector, norm); a vector shorter than mjMINVAL becomes (1,0,0) -/
def normalize3 (v : V3 K) : V3 K × K :=
  let n : K := Scalar.sqrt (v.c0 * v.c0 + v.c1 * v.c1 + v.c2 * v.c2)
  if Scalar.lt n (minval : K) then (⟨Scalar.lit 1 0, Scalar.lit 0 0, Scalar.lit 0 0⟩, n)
  else
    let inv : K := Scalar.lit 1 0 / n
    (⟨v.c0 * inv, v.c1 * inv, v.c2 * inv⟩, n)

/-- `mju_normalize4` (the vector only) -/
def normalize4 (q : Q K) : Q K :=
  let n : K := Scalar.sqrt (q.c0 * q.c0 + q.c1 * q.c1 + q.c2 * q.c2 + q.c3 * q.c3)
  if Scalar.lt n (minval : K) then ⟨Scalar.lit 1 0, Scalar.lit 0 0, Scalar.lit 0 0, Scalar.lit 0 0⟩
  else if Scalar.gt (Scalar.abs (n - Scalar.lit 1 0)) (minval : K) then
    let inv : K := Scalar.lit 1 0 / n
    ⟨q.c0 * inv, q.c1 * inv, q.c2 * inv, q.c3 * inv⟩
  else q

/-- `mju_axisAngle2Quat` -/
def axisAngle2Quat (axis : V3 K) (angle : K) : Q K :=
  if Scalar.beq angle (Scalar.lit 0 0) then ⟨Scalar.lit 1 0, Scalar.lit 0 0, Scalar.lit 0 0, Scalar.lit 0 0⟩
  else
    let s : K := Scalar.sin (angle * Scalar.lit 5 (-1))
    ⟨Scalar.cos (angle * Scalar.lit 5 (-1)), axis.c0 * s, axis.c1 * s, axis.c2 * s⟩

/-- `mju_mulQuat` (Hamilton product, w first) -/
def mulQuat (a b : Q K) : Q K :=
  ⟨a.c0 * b.c0 - a.c1 * b.c1 - a.c2 * b.c2 - a.c3 * b.c3,
   a.c0 * b.c1 + a.c1 * b.c0 + a.c2 * b.c3 - a.c3 * b.c2,
   a.c0 * b.c2 - a.c1 * b.c3 + a.c2 * b.c0 + a.c3 * b.c1,
   a.c0 * b.c3 + a.c1 * b.c2 - a.c2 * b.c1 + a.c3 * b.c0⟩

/-- `mju_quatIntegrate` -/
def quatIntegrate (q : Q K) (vel : V3 K) (scale : K) : Q K :=
  let nv := normalize3 vel
  mulQuat (normalize4 q) (axisAngle2Quat nv.1 (scale * nv.2))

/-! ## `mj_integratePos`, one joint -/

/-- new contents of the cells `qpos[padr], qpos[padr+1], …` of one joint (7 / 4 / 1 cells; a joint
    type outside 0..3 touches nothing, as the C `switch` has no default) -/
def integratePosJoint (jt padr vadr : Int) (qpos qvel : Int → K) (dt : K) : List K :=
  if jt = FREE then
    let q := quatIntegrate (⟨qpos (padr + 3), qpos (padr + 4), qpos (padr + 5), qpos (padr + 6)⟩ : Q K)
      ⟨qvel (vadr + 3), qvel (vadr + 4), qvel (vadr + 5)⟩ dt
    [qpos padr + dt * qvel vadr, qpos (padr + 1) + dt * qvel (vadr + 1), qpos (padr + 2) + dt * qvel (vadr + 2),
     q.c0, q.c1, q.c2, q.c3]
  else if jt = BALL then
    let q := quatIntegrate (⟨qpos padr, qpos (padr + 1), qpos (padr + 2), qpos (padr + 3)⟩ : Q K)
      ⟨qvel vadr, qvel (vadr + 1), qvel (vadr + 2)⟩ dt
    [q.c0, q.c1, q.c2, q.c3]
  else if jt = SLIDE ∨ jt = HINGE then [qpos padr + dt * qvel vadr]
  else []

/-- plain stores `arr[w, adr + k] := xs[k]`, k = 0, 1, … -/
def cellsAt (arr : String) (w adr : Int) : List K → List (Write K)
  | [] => []
  | x :: xs => Write.mk arr [w, adr] (WVal.f x) WKind.set :: cellsAt arr w (adr + 1) xs

/-! ## velocity, activation, time -/

/-- `mju_addToScl(d->qvel, qacc, dt, nv)`, one dof -/
def eulerVel (qvel qacc dt : K) : K := qvel + dt * qacc

/-- C `mju_clip(x, lo, hi) = max(lo, min(hi, x))` -/
def clip (x lo hi : K) : K := Scalar.max lo (Scalar.min hi x)

/-- `mj_nextActivation`, one activation variable -/
def nextActivation (dyntype : Int) (dynprm0 : K) (actlimited : Bool) (lo hi : K) (act act_dot dt : K) : K :=
  let a : K :=
    if dyntype = DYN_FILTEREXACT then
      let tau : K := Scalar.max (minval : K) dynprm0
      act + act_dot * tau * (Scalar.lit 1 0 - Scalar.exp (-dt / tau))
    else act + act_dot * dt
  if actlimited then clip a lo hi else a

/-! ## whole-state level: `mj_advance`, `mj_Euler`, `mj_RungeKutta(4)`

  The per-model pieces are parameters:
  * `intPos qpos vel dt` = `mj_integratePos` (all joints),
  * `nextAct limit act act_dot dt` = `mj_nextActivation` for all activations (`limit = false`: without the
     final clip — used by the RK stages),
  * `forward : State → Deriv` = `mj_forward` restricted to what the integrators read. -/

/-- the integration state -/
structure State (K : Type) where
  qpos : Int → K
  qvel : Int → K
  act : Int → K
  time : K

/-- what `mj_forward` hands to the integrator: `F = (qvel, qacc, act_dot)` -/
structure Deriv (K : Type) where
  vel : Int → K
  acc : Int → K
  actdot : Int → K

/-- per-model integration primitives -/
structure Prims (K : Type) where
  intPos : (Int → K) → (Int → K) → K → (Int → K)
  nextAct : Bool → (Int → K) → (Int → K) → K → (Int → K)

/-- the result of one step, as far as C08 observes it -/
structure Next (K : Type) where
  state : State K
  warmstart : Int → K

/-- `mj_advance(m, d, act_dot, qacc, qvel)`; `qvelArg = none` is the semi-implicit case (positions
    are advanced with the NEW velocity); `qaccData` is `d->qacc` (copied to the warmstart) -/
def advance (P : Prims K) (dt : K) (s : State K) (actdot qacc : Int → K) (qvelArg : Option (Int → K))
    (qaccData : Int → K) : Next K :=
  let act' := P.nextAct true s.act actdot dt
  let qvel' : Int → K := fun i => eulerVel (s.qvel i) (qacc i) dt
  let qpos' := P.intPos s.qpos (qvelArg.getD qvel') dt
  ⟨⟨qpos', qvel', act', s.time + dt⟩, qaccData⟩

/-- `mj_Euler` without implicit damping (or with `qacc` already replaced by the solution of the
    damped system, see `Props.C08.euler_damp_system`) -/
def eulerStep (P : Prims K) (dt : K) (s : State K) (F : Deriv K) (qacc : Int → K) : Next K :=
  advance P dt s F.actdot qacc none F.acc

/-- RK4 tableau (diagonal of A, and B) exactly as `rungekutta4` writes it -/
def rkA0 : K := Scalar.lit 5 (-1)
def rkA1 : K := Scalar.lit 5 (-1)
def rkA2 : K := Scalar.lit 1 0
def rkB0 : K := Scalar.lit 1 0 / Scalar.lit 6 0
def rkB1 : K := Scalar.lit 1 0 / Scalar.lit 3 0
def rkB2 : K := Scalar.lit 1 0 / Scalar.lit 3 0
def rkB3 : K := Scalar.lit 1 0 / Scalar.lit 6 0

/-- `X0 ⊕ h·a·F`: the perturbed state of an RK stage (C: `mj_integratePos(X0.qpos, a F.vel, h)`,
    `X0.qvel + h a F.acc`, `X0.act + h a F.actdot`); the time of the stage is `t0 + c h` -/
def rkStage (P : Prims K) (dt : K) (s0 : State K) (a c : K) (F : Deriv K) : State K :=
  ⟨P.intPos s0.qpos (fun i => a * F.vel i) dt,
   fun i => s0.qvel i + dt * (a * F.acc i),
   fun i => s0.act i + dt * (a * F.actdot i),
   s0.time + c * dt⟩

/-- the four classical RK4 slopes `k1..k4` of `x' = forward x` -/
structure Slopes (K : Type) where
  k1 : Deriv K
  k2 : Deriv K
  k3 : Deriv K
  k4 : Deriv K

def rk4Slopes (P : Prims K) (forward : State K → Deriv K) (dt : K) (s0 : State K) : Slopes K :=
  let k1 := forward s0
  let k2 := forward (rkStage P dt s0 rkA0 rkA0 k1)
  let k3 := forward (rkStage P dt s0 rkA1 rkA1 k2)
  let k4 := forward (rkStage P dt s0 rkA2 rkA2 k3)
  ⟨k1, k2, k3, k4⟩

/-- `Σ B_i k_i`, component-wise -/
def rkCombine (S : Slopes K) : Deriv K :=
  ⟨fun i => rkB0 * S.k1.vel i + rkB1 * S.k2.vel i + rkB2 * S.k3.vel i + rkB3 * S.k4.vel i,
   fun i => rkB0 * S.k1.acc i + rkB1 * S.k2.acc i + rkB2 * S.k3.acc i + rkB3 * S.k4.acc i,
   fun i => rkB0 * S.k1.actdot i + rkB1 * S.k2.actdot i + rkB2 * S.k3.actdot i + rkB3 * S.k4.actdot i⟩

/-- `mj_RungeKutta(m, d, 4)`: `mj_advance` with the combined slopes; the warmstart is the `qacc` of the
    LAST stage (`d->qacc` after the last `mj_forwardSkip`) -/
def rk4Step (P : Prims K) (forward : State K → Deriv K) (dt : K) (s0 : State K) : Next K :=
  let S := rk4Slopes P forward dt s0
  let dX := rkCombine S
  advance P dt s0 dX.actdot dX.acc (some dX.vel) S.k4.acc

/-! ## the host loop of `mujoco_warp.rungekutta4`, transcribed

  ```
  qpos_t0, qvel_t0, act_t0 = clone(d.qpos, d.qvel, d.act);  qvel_rk = qacc_rk = act_dot_rk = 0
  _rk_accumulate(B[0])                                  # rk += B0 * (d.qvel, d.qacc, d.act_dot)
  for i in 0..2:
      _rk_perturb_state(A[i], qpos_t0, qvel_t0, act_t0) # _next_position(qpos_t0, d.qvel, scale=A[i]) -> d.qpos
                                                        # _next_velocity(qvel_t0, d.qacc, scale=A[i]) -> d.qvel
                                                        # _next_velocity(act_t0, d.act_dot, scale=A[i]) -> d.act   (the SAME kernel
                                                        #   as for qvel: plain act_t0 + A[i]*act_dot*dt for every dynamics type)
      forward(m, d)                                     # d.qacc, d.act_dot recomputed; d.time NOT changed
      _rk_accumulate(B[i+1])
  d.qpos, d.qvel, d.act = qpos_t0, qvel_t0, act_t0;  d.act_dot = act_dot_rk
  _advance(m, d, qacc_rk, qvel_rk)
  ```
  The kernels of `_rk_perturb_state` / `_advance` are parameters of the host model (`HostPrims`); their
  kernel-level meaning is proved in `Props/C08.lean` (`next_position_spec`, `next_velocity_spec`,
  `next_activation_spec`), and the launch list of `_rk_perturb_state` transcribed here
  (`_next_position`, `_next_velocity` on qvel, `_next_velocity` on act) is checked against the regenerated
  host events in `Props/C08.rk_perturb_launches`.  Note the launch order inside `_rk_perturb_state`: the
  position kernel runs FIRST and therefore reads the velocity of the previous stage, as `F_{i-1}.vel` in C. -/

/-- the mutable `Data` fields the loop touches -/
structure HostData (K : Type) where
  qpos : Int → K
  qvel : Int → K
  act : Int → K
  time : K
  qacc : Int → K
  act_dot : Int → K

/-- kernel-level primitives as `rungekutta4`/`_advance` launch them:
    `kPos qpos_in qvel_in scale dt` (`_next_position`), `kVel qvel_in qacc_in scale dt` (`_next_velocity`; also
    launched on `(act_t0, act_dot)` by the RK stages), `kAct act_in act_dot scale limit dt` (`_next_activation`;
    launched by `_advance` only, with scale 1 and `limit = True`) -/
structure HostPrims (K : Type) where
  kPos : (Int → K) → (Int → K) → K → K → (Int → K)
  kVel : (Int → K) → (Int → K) → K → K → (Int → K)
  kAct : (Int → K) → (Int → K) → K → Bool → K → (Int → K)

/-- accumulators `qvel_rk, qacc_rk, act_dot_rk` -/
structure Acc (K : Type) where
  vel : Int → K
  acc : Int → K
  actdot : Int → K

/-- `_rk_accumulate(m, d, scale, …)`: `out += scale * in` on all three accumulators -/
def hostAccumulate (b : K) (d : HostData K) (r : Acc K) : Acc K :=
  ⟨fun i => r.vel i + b * d.qvel i, fun i => r.acc i + b * d.qacc i, fun i => r.actdot i + b * d.act_dot i⟩

/-- `_rk_perturb_state(m, d, a, qpos_t0, qvel_t0, act_t0)` (launch order: position, velocity, activation).
    The activation launch is `_next_velocity` with inputs `[timestep, act_t0, d.act_dot, a]` and output
    `d.act` (since fix a57be8a; `_next_activation(…, limit=False)` before), i.e. `kVel`, not `kAct`. -/
def hostPerturb (H : HostPrims K) (dt a : K) (t0 : State K) (d : HostData K) : HostData K :=
  let qpos' := H.kPos t0.qpos d.qvel a dt
  let qvel' := H.kVel t0.qvel d.qacc a dt
  let act' := H.kVel t0.act d.act_dot a dt
  { d with qpos := qpos', qvel := qvel', act := act' }

/-- `forward(m, d)` as the loop sees it: recomputes `qacc`, `act_dot` from the current
    `(qpos, qvel, act, time)`; leaves those four unchanged (modelling assumption) -/
def hostForward (forward : State K → Deriv K) (d : HostData K) : HostData K :=
  let F := forward ⟨d.qpos, d.qvel, d.act, d.time⟩
  { d with qacc := F.acc, act_dot := F.actdot }

/-- one iteration `i` of `for i in range(3)` -/
def hostIter (H : HostPrims K) (forward : State K → Deriv K) (dt : K) (t0 : State K) (a b : K)
    (st : HostData K × Acc K) : HostData K × Acc K :=
  let d := hostForward forward (hostPerturb H dt a t0 st.1)
  (d, hostAccumulate b d st.2)

/-- state of the loop after the three iterations: `(d, (qvel_rk, qacc_rk, act_dot_rk))` -/
def hostLoop (H : HostPrims K) (forward : State K → Deriv K) (dt : K) (d0 : HostData K) : HostData K × Acc K :=
  let t0 : State K := ⟨d0.qpos, d0.qvel, d0.act, d0.time⟩
  let z : Int → K := fun _ => Scalar.lit 0 0
  let r0 := hostAccumulate rkB0 d0 ⟨z, z, z⟩
  [((rkA0 : K), (rkB1 : K)), (rkA1, rkB2), (rkA2, rkB3)].foldl
    (fun st ab => hostIter H forward dt t0 ab.1 ab.2 st) (d0, r0)

/-- `_advance(m, d, qacc, qvel)` on the host data (launch order: activation, velocity, position, time;
    then `qacc_warmstart := d.qacc`) -/
def hostAdvance (H : HostPrims K) (dt : K) (d : HostData K) (qacc : Int → K) (qvelArg : Option (Int → K)) : Next K :=
  let one : K := Scalar.lit 1 0
  let act' := H.kAct d.act d.act_dot one true dt
  let qvel' := H.kVel d.qvel qacc one dt
  let qpos' := H.kPos d.qpos (qvelArg.getD qvel') one dt
  ⟨⟨qpos', qvel', act', d.time + dt⟩, d.qacc⟩

/-- the whole of `rungekutta4(m, d)` (precondition: `forward` has been called, i.e. `d0.qacc`,
    `d0.act_dot` are `forward` of the state in `d0`) -/
def hostRk4 (H : HostPrims K) (forward : State K → Deriv K) (dt : K) (d0 : HostData K) : Next K :=
  let (d, r) := hostLoop H forward dt d0
  let dEnd : HostData K := { d with qpos := d0.qpos, qvel := d0.qvel, act := d0.act, act_dot := r.actdot }
  hostAdvance H dt dEnd r.acc (some r.vel)

/-- `euler(m, d)` with `qacc` = `d.qacc` or the solution of the damped system -/
def hostEuler (H : HostPrims K) (dt : K) (d : HostData K) (qacc : Int → K) : Next K :=
  hostAdvance H dt d qacc none

/-! ## `_advance`: launch order -/

/-- the order in which `_advance(m, d, qacc, qvel)` touches the state (forward.py) -/
def advanceOrder : List String :=
  ["_next_activation : act := next_act(act, act_dot, scale 1, limit) — reads the OLD act, act_dot",
   "_next_velocity   : qvel := qvel + qacc*dt — qacc is the argument (d.qacc, damped solve, or qacc_rk)",
   "_next_position   : qpos := integratePos(qpos, qvel_arg or the NEW d.qvel, dt)",
   "insert_ctrl_history : history buffers are advanced at the OLD time",
   "_next_time       : time := time + dt (and overflow flags)",
   "wp.copy(qacc_warmstart, d.qacc) : warmstart := d.qacc (not the integrator's qacc argument)",
   "if sleep enabled: sleep, fwd_velocity, update_sleep"]

end Mjw.Spec.Integrate
