/-
  Hand-written specification of MuJoCo's forward kinematics and com-based quantities, transcribed from
  the C sources (engine_core_smooth.c: `mj_kinematics`, `mj_local2Global`, `mj_comPos`;
  engine_util_spatial.c: `mju_rotVecQuat`, `mju_mulQuat`, `mju_axisAngle2Quat`, `mju_quat2Mat`,
  `mju_normalize4`; engine_util_misc / engine_util_blas: `mju_inertCom`, `mju_dofCom`;
  engine_support.c: `mj_jac`).  The translated kernels of mujoco_warp/_src/smooth.py and support.py are
  proved against it in `Props/C01.lean` and `Props/C22.lean`.     Core Lean only; generic over `[Scalar K]`.

  mj_kinematics is a SEQUENTIAL loop `for i = 1 .. nbody-1` with `body_parentid[i] < i`:

      if jntnum == 1 && jnt_type[jntadr] == FREE:
          xpos = qpos[qadr..+3];  xquat = normalize4(qpos[qadr+3..+7])
          xanchor[jntadr] = xpos;  xaxis[jntadr] = jnt_axis[jntadr]
      else:
          (bodypos, bodyquat) = mocap ? (mocap_pos, normalize4(mocap_quat)) : (body_pos, body_quat)
          if pid:  xpos = xmat[pid]*bodypos + xpos[pid];  xquat = xquat[pid] * bodyquat
          else:    xpos = bodypos;  xquat = bodyquat
          for each joint j of the body, in order:
              xaxis   = rotVecQuat(jnt_axis[j], xquat)
              xanchor = rotVecQuat(jnt_pos[j], xquat) + xpos
              SLIDE:       xpos += xaxis * (qpos[qadr] - qpos0[qadr])
              BALL/HINGE:  qloc = BALL ? normalize4(qpos[qadr..+4]) : axisAngle2Quat(jnt_axis[j], qpos[qadr]-qpos0[qadr])
                           xquat = xquat * qloc;   xpos = xanchor - rotVecQuat(jnt_pos[j], xquat)
              (any other type: mjERROR "unknown joint type" — cannot occur in a compiled model; modelled as no-op)
              xanchor[j] = xanchor;  xaxis[j] = xaxis
      xquat[i] = normalize4(xquat);  xpos[i] = xpos;  xmat[i] = quat2Mat(xquat[i])
-/
import MjwVerif.Model.Vec
namespace Mjw.Spec.Kinematics
open Mjw

variable {K : Type} [Scalar K]

/-! ## engine_util_spatial.c -/

/-- mjMINVAL = 1e-15 -/
def mjMINVAL : K := Scalar.lit 1 (-15)

/-- `mju_normalize4` (in place in C):
      norm = sqrt(q·q);
      if norm < mjMINVAL: q = (1,0,0,0)
      else if |norm - 1| > mjMINVAL: q *= 1/norm       (otherwise q is left alone) -/
def normalize4 (q : Q K) : Q K :=
  let norm : K := Scalar.sqrt (q.c0 * q.c0 + q.c1 * q.c1 + q.c2 * q.c2 + q.c3 * q.c3)
  if Scalar.lt norm (mjMINVAL : K) then ⟨Scalar.lit 1 0, Scalar.lit 0 0, Scalar.lit 0 0, Scalar.lit 0 0⟩
  else if Scalar.gt (Scalar.abs (norm - Scalar.lit 1 0)) (mjMINVAL : K) then
    let normInv : K := Scalar.lit 1 0 / norm
    ⟨q.c0 * normInv, q.c1 * normInv, q.c2 * normInv, q.c3 * normInv⟩
  else q

/-- `mju_mulQuat(res, qa, qb)` -/
def mulQuat (a b : Q K) : Q K :=
  ⟨a.c0 * b.c0 - a.c1 * b.c1 - a.c2 * b.c2 - a.c3 * b.c3,
   a.c0 * b.c1 + a.c1 * b.c0 + a.c2 * b.c3 - a.c3 * b.c2,
   a.c0 * b.c2 - a.c1 * b.c3 + a.c2 * b.c0 + a.c3 * b.c1,
   a.c0 * b.c3 + a.c1 * b.c2 - a.c2 * b.c1 + a.c3 * b.c0⟩

/-- is the quaternion literally (1,0,0,0) ("null quat" shortcut of several mju_ functions) -/
def isNullQuat (q : Q K) : Bool :=
  Scalar.beq q.c0 (Scalar.lit 1 0) && Scalar.beq q.c1 (Scalar.lit 0 0) && Scalar.beq q.c2 (Scalar.lit 0 0)
    && Scalar.beq q.c3 (Scalar.lit 0 0)

/-- `mju_rotVecQuat(res, vec, quat)`:
      vec == 0: res = 0;   quat == (1,0,0,0): res = vec;
      else tmp = q_w v + q_xyz × v;  res = v + 2 q_xyz × tmp       (a rotation only for UNIT quat) -/
def rotVecQuat (v : V3 K) (q : Q K) : V3 K :=
  if Scalar.beq v.c0 (Scalar.lit 0 0) && Scalar.beq v.c1 (Scalar.lit 0 0) && Scalar.beq v.c2 (Scalar.lit 0 0) then
    ⟨Scalar.lit 0 0, Scalar.lit 0 0, Scalar.lit 0 0⟩
  else if isNullQuat q then v
  else
    let t0 : K := q.c0 * v.c0 + q.c2 * v.c2 - q.c3 * v.c1
    let t1 : K := q.c0 * v.c1 + q.c3 * v.c0 - q.c1 * v.c2
    let t2 : K := q.c0 * v.c2 + q.c1 * v.c1 - q.c2 * v.c0
    ⟨v.c0 + Scalar.lit 2 0 * (q.c2 * t2 - q.c3 * t1),
     v.c1 + Scalar.lit 2 0 * (q.c3 * t0 - q.c1 * t2),
     v.c2 + Scalar.lit 2 0 * (q.c1 * t1 - q.c2 * t0)⟩

/-- `mju_axisAngle2Quat(res, axis, angle)`: angle == 0 gives (1,0,0,0); else (cos(a/2), axis*sin(a/2)) -/
def axisAngle2Quat (axis : V3 K) (angle : K) : Q K :=
  if Scalar.beq angle (Scalar.lit 0 0) then ⟨Scalar.lit 1 0, Scalar.lit 0 0, Scalar.lit 0 0, Scalar.lit 0 0⟩
  else
    let s : K := Scalar.sin (angle * Scalar.lit 5 (-1))
    ⟨Scalar.cos (angle * Scalar.lit 5 (-1)), axis.c0 * s, axis.c1 * s, axis.c2 * s⟩

/-- `mju_quat2Mat(res, quat)` (row-major res[0..8]); (1,0,0,0) gives the identity by a shortcut -/
def quat2Mat (q : Q K) : M33 K :=
  if isNullQuat q then M33.identity
  else
    let q00 : K := q.c0 * q.c0
    let q01 : K := q.c0 * q.c1
    let q02 : K := q.c0 * q.c2
    let q03 : K := q.c0 * q.c3
    let q11 : K := q.c1 * q.c1
    let q12 : K := q.c1 * q.c2
    let q13 : K := q.c1 * q.c3
    let q22 : K := q.c2 * q.c2
    let q23 : K := q.c2 * q.c3
    let q33 : K := q.c3 * q.c3
    ⟨q00 + q11 - q22 - q33, Scalar.lit 2 0 * (q12 - q03), Scalar.lit 2 0 * (q13 + q02),
     Scalar.lit 2 0 * (q12 + q03), q00 - q11 + q22 - q33, Scalar.lit 2 0 * (q23 - q01),
     Scalar.lit 2 0 * (q13 - q02), Scalar.lit 2 0 * (q23 + q01), q00 - q11 - q22 + q33⟩

/-! ## mj_kinematics -/

/-- position and orientation of a frame -/
structure Pose (K : Type) where
  pos : V3 K
  quat : Q K

/-- mjtJoint -/
def jFREE : Int := 0
def jBALL : Int := 1
def jSLIDE : Int := 2
def jHINGE : Int := 3

/-- the model fields of one joint -/
structure Joint (K : Type) where
  type : Int      -- jnt_type
  qadr : Int      -- jnt_qposadr
  pos : V3 K      -- jnt_pos
  axis : V3 K     -- jnt_axis

/-- the fields of one body that mj_kinematics reads (besides its joints) -/
structure BodyParams (K : Type) where
  pos : V3 K                      -- body_pos
  quat : Q K                      -- body_quat
  mocap : Option (V3 K × Q K)     -- (mocap_pos, mocap_quat) if body_mocapid >= 0

/-- what mj_kinematics writes for one body: its pose and (xanchor, xaxis) of each of its joints, in order -/
structure BodyOut (K : Type) where
  pose : Pose K
  jnt : List (V3 K × V3 K)

/-- four consecutive qpos entries as a quaternion -/
def qposQuat (qpos : Int → K) (a : Int) : Q K := ⟨qpos a, qpos (a + 1), qpos (a + 2), qpos (a + 3)⟩

/-- one pass of the joint loop: returns the new running (xpos, xquat) and the joint's (xanchor, xaxis) -/
def jointApply (qpos qpos0 : Int → K) (j : Joint K) (s : Pose K) : Pose K × (V3 K × V3 K) :=
  let xaxis : V3 K := rotVecQuat j.axis s.quat
  let xanchor : V3 K := V3.add (rotVecQuat j.pos s.quat) s.pos
  let s' : Pose K :=
    if j.type = jSLIDE then
      ⟨V3.add s.pos (V3.muls xaxis (qpos j.qadr - qpos0 j.qadr)), s.quat⟩
    else if j.type = jBALL ∨ j.type = jHINGE then
      let qloc : Q K :=
        if j.type = jBALL then normalize4 (qposQuat qpos j.qadr)
        else axisAngle2Quat j.axis (qpos j.qadr - qpos0 j.qadr)
      let xquat : Q K := mulQuat s.quat qloc
      ⟨V3.sub xanchor (rotVecQuat j.pos xquat), xquat⟩
    else s
  (s', (xanchor, xaxis))

/-- the joint loop -/
def jointsFold (qpos qpos0 : Int → K) : List (Joint K) → Pose K → Pose K × List (V3 K × V3 K)
  | [], s => (s, [])
  | j :: js, s =>
    let r := jointApply qpos qpos0 j s
    let rs := jointsFold qpos qpos0 js r.1
    (rs.1, r.2 :: rs.2)

/-- the frame of the body before its joints are applied.
    `parent = none` is the C branch `pid == 0` (parent is the world: copy);
    `parent = some P` composes with the ALREADY COMPUTED pose of the parent (`xmat[pid] = quat2Mat(xquat[pid])`). -/
def bodyFrame (parent : Option (Pose K)) (bp : BodyParams K) : Pose K :=
  let b : Pose K :=
    match bp.mocap with
    | some (mp, mq) => ⟨mp, normalize4 mq⟩
    | none => ⟨bp.pos, bp.quat⟩
  match parent with
  | some P => ⟨V3.add (M33.mulVec (quat2Mat P.quat) b.pos) P.pos, mulQuat P.quat b.quat⟩
  | none => b

/-- "regular or no joint" branch, including the common tail `mju_normalize4(xquat)` -/
def regularBody (parent : Option (Pose K)) (bp : BodyParams K) (joints : List (Joint K))
    (qpos qpos0 : Int → K) : BodyOut K :=
  let r := jointsFold qpos qpos0 joints (bodyFrame parent bp)
  ⟨⟨r.1.pos, normalize4 r.1.quat⟩, r.2⟩

/-- free-joint branch, including the common tail `mju_normalize4(xquat)` (so the quaternion is normalised twice) -/
def freeBody (j : Joint K) (qpos : Int → K) : BodyOut K :=
  let xpos : V3 K := ⟨qpos j.qadr, qpos (j.qadr + 1), qpos (j.qadr + 2)⟩
  let xquat : Q K := normalize4 (qposQuat qpos (j.qadr + 3))
  ⟨⟨xpos, normalize4 xquat⟩, [(xpos, j.axis)]⟩

/-- **one iteration of mj_kinematics' body loop** -/
def kinBody (parent : Option (Pose K)) (bp : BodyParams K) (joints : List (Joint K))
    (qpos qpos0 : Int → K) : BodyOut K :=
  match joints with
  | [j] => if j.type = jFREE then freeBody j qpos else regularBody parent bp joints qpos qpos0
  | _ => regularBody parent bp joints qpos qpos0

/-- mj_kinematics along a root-to-leaf chain `b 0, b 1, …` (each the parent of the next; the parent of
    `b 0` is the world): the pose of `b n`.  `bp n`, `jn n` are the parameters / joints of `b n`. -/
def kinChain (bp : Nat → BodyParams K) (jn : Nat → List (Joint K)) (qpos qpos0 : Int → K) : Nat → BodyOut K
  | 0 => kinBody none (bp 0) (jn 0) qpos qpos0
  | n + 1 => kinBody (some (kinChain bp jn qpos qpos0 n).pose) (bp (n + 1)) (jn (n + 1)) qpos qpos0

/-- `xmat[i] = mju_quat2Mat(xquat[i])` -/
def bodyMat (p : Pose K) : M33 K := quat2Mat p.quat

/-- `mj_local2Global` (case mjSAMEFRAME_NONE; the other cases are shortcuts that copy the body frame when
    pos = 0 / quat = identity): `xpos = xmat[body]*pos + xpos[body]`, `xmat = quat2Mat(xquat[body]*quat)` -/
def local2Global (body : Pose K) (pos : V3 K) (quat : Q K) : V3 K × M33 K :=
  (V3.add (M33.mulVec (quat2Mat body.quat) pos) body.pos, quat2Mat (mulQuat body.quat quat))

/-! ## mj_comPos -/

/-- the raw backward pass on mass-weighted positions, `for i = n-1 … 1: com[parent i] += com[i]`,
    on an array initialised with `com[i] = body_mass[i] * xipos[i]`.  (The C loop interleaves the
    initialisation and the final division with this accumulation; since `parent i < i` no later
    iteration reads `com[i]` again, so the parents receive exactly these raw sums.) -/
def comPush (parent : Nat → Nat) (c : Nat → V3 K) (i : Nat) : Nat → V3 K :=
  fun k => if k = parent i then V3.add (c k) (c i) else c k

def comBackward (parent : Nat → Nat) : Nat → (Nat → V3 K) → (Nat → V3 K)
  | 0, c => c
  | 1, c => c
  | n + 2, c => comBackward parent (n + 1) (comPush parent c (n + 1))

/-- the final value of `subtree_com[i]` given the raw sum:
      `subtreemass < mjMINVAL ? xipos[i] : raw * (1 / max(mjMINVAL, subtreemass))` -/
def subtreeComFinal (subtreemass : K) (xipos raw : V3 K) : V3 K :=
  if Scalar.lt subtreemass (mjMINVAL : K) then xipos
  else V3.muls raw (Scalar.lit 1 0 / Scalar.max (mjMINVAL : K) subtreemass)

/-- `mju_inertCom(res, inert, mat, dif, mass)` -/
def inertCom (inert : V3 K) (mat : M33 K) (dif : V3 K) (mass : K) : V10 K :=
  -- tmp = diag(inert) * mat'
  let t0 := mat.m00 * inert.c0
  let t1 := mat.m10 * inert.c0
  let t2 := mat.m20 * inert.c0
  let t3 := mat.m01 * inert.c1
  let t4 := mat.m11 * inert.c1
  let t5 := mat.m21 * inert.c1
  let t6 := mat.m02 * inert.c2
  let t7 := mat.m12 * inert.c2
  let t8 := mat.m22 * inert.c2
  ⟨mat.m00 * t0 + mat.m01 * t3 + mat.m02 * t6 + mass * (dif.c1 * dif.c1 + dif.c2 * dif.c2),
   mat.m10 * t1 + mat.m11 * t4 + mat.m12 * t7 + mass * (dif.c0 * dif.c0 + dif.c2 * dif.c2),
   mat.m20 * t2 + mat.m21 * t5 + mat.m22 * t8 + mass * (dif.c0 * dif.c0 + dif.c1 * dif.c1),
   mat.m00 * t1 + mat.m01 * t4 + mat.m02 * t7 - mass * dif.c0 * dif.c1,
   mat.m00 * t2 + mat.m01 * t5 + mat.m02 * t8 - mass * dif.c0 * dif.c2,
   mat.m10 * t2 + mat.m11 * t5 + mat.m12 * t8 - mass * dif.c1 * dif.c2,
   mass * dif.c0, mass * dif.c1, mass * dif.c2, mass⟩

/-- `mju_dofCom(res, axis, offset)`: hinge `(axis, axis × offset)`; slide (offset == NULL) `(0, axis)` -/
def dofCom (axis : V3 K) (offset : Option (V3 K)) : V6 K :=
  match offset with
  | some o => V6.ofV3 axis (V3.cross axis o)
  | none => V6.ofV3 ⟨Scalar.lit 0 0, Scalar.lit 0 0, Scalar.lit 0 0⟩ axis

/-- column `k` (k = 0,1,2) of `xmat` — the axis MuJoCo uses for the rotational dofs of ball / free joints
    (`axis[r] = xmat[9*bi + k + 3 r]`) -/
def matCol (m : M33 K) (k : Int) : V3 K := M33.col m k

/-- the motion dofs mj_comPos writes for joint `j` with `offset = subtree_com[root] - xanchor[j]`:
    list of (dof offset from jnt_dofadr, cdof value) -/
def cdofJoint (jtype : Int) (xmat : M33 K) (xaxis offset : V3 K) : List (Int × V6 K) :=
  let z : K := Scalar.lit 0 0
  let o : K := Scalar.lit 1 0
  if jtype = jFREE then
    [(0, ⟨z, z, z, o, z, z⟩), (1, ⟨z, z, z, z, o, z⟩), (2, ⟨z, z, z, z, z, o⟩),
     (3, dofCom (matCol xmat 0) (some offset)), (4, dofCom (matCol xmat 1) (some offset)),
     (5, dofCom (matCol xmat 2) (some offset))]
  else if jtype = jBALL then
    [(0, dofCom (matCol xmat 0) (some offset)), (1, dofCom (matCol xmat 1) (some offset)),
     (2, dofCom (matCol xmat 2) (some offset))]
  else if jtype = jSLIDE then [(0, dofCom xaxis none)]
  else if jtype = jHINGE then [(0, dofCom xaxis (some offset))]
  else []

/-! ## mj_jac -/

/-- column of `mj_jac` for a dof that is in the kinematic chain of the body, `offset = point - subtree_com[root]`:
    `jacr = cdof_ang`, `jacp = cdof_lin + cdof_ang × offset`; the columns of all other dofs are 0. -/
def jacColumn (cdof : V6 K) (offset : V3 K) (inChain : Bool) : V3 K × V3 K :=
  if inChain then (V3.add (V6.bottom cdof) (V3.cross (V6.top cdof) offset), V6.top cdof)
  else (⟨Scalar.lit 0 0, Scalar.lit 0 0, Scalar.lit 0 0⟩, ⟨Scalar.lit 0 0, Scalar.lit 0 0, Scalar.lit 0 0⟩)

end Mjw.Spec.Kinematics
