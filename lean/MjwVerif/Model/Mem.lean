/- Concrete array memory for the driver: arrays arrive over the line protocol, generated kernels read
   them through index functions.  Core Lean only. -/
import MjwVerif.Model.Kernel
import MjwVerif.Model.Codec
import Std.Data.HashMap
namespace Mjw

structure Arr (K : Type) where
  dims : Array Int
  w : Nat
  fs : Array K
  is : Array Int

abbrev Mem (K : Type) := Std.HashMap String (Arr K)

namespace Arr
variable {K : Type}
/-- row-major offset (in elements) with bounds check -/
def offset (a : Arr K) (idx : List Int) : Option Nat :=
  let rec go (ds : List Int) (ix : List Int) (acc : Int) : Option Int :=
    match ds, ix with
    | [], [] => some acc
    | d :: ds, i :: ix => if 0 ≤ i ∧ i < d then go ds ix (acc * d + i) else none
    | _, _ => none
  (go a.dims.toList idx 0).map Int.toNat
end Arr

namespace Mem
variable {K : Type} [Scalar K]
def shape (m : Mem K) (name : String) (k : Nat) : Int :=
  match m.get? name with
  | some a => a.dims.getD k 0
  | none => 0
def getF (m : Mem K) (name : String) (idx : List Int) (c : Nat) : K :=
  match m.get? name with
  | some a => match a.offset idx with
    | some o => a.fs.getD (o * a.w + c) (Scalar.lit 0 0)
    | none => Scalar.lit 0 0
  | none => Scalar.lit 0 0
def getI (m : Mem K) (name : String) (idx : List Int) (c : Nat) : Int :=
  match m.get? name with
  | some a => match a.offset idx with
    | some o => a.is.getD (o * a.w + c) 0
    | none => 0
  | none => 0
def getV2 (m : Mem K) (n : String) (ix : List Int) : V2 K := ⟨getF m n ix 0, getF m n ix 1⟩
def getV3 (m : Mem K) (n : String) (ix : List Int) : V3 K := ⟨getF m n ix 0, getF m n ix 1, getF m n ix 2⟩
def getV4 (m : Mem K) (n : String) (ix : List Int) : V4 K := ⟨getF m n ix 0, getF m n ix 1, getF m n ix 2, getF m n ix 3⟩
def getQ (m : Mem K) (n : String) (ix : List Int) : Q K := ⟨getF m n ix 0, getF m n ix 1, getF m n ix 2, getF m n ix 3⟩
def getV5 (m : Mem K) (n : String) (ix : List Int) : V5 K := ⟨getF m n ix 0, getF m n ix 1, getF m n ix 2, getF m n ix 3, getF m n ix 4⟩
def getV6 (m : Mem K) (n : String) (ix : List Int) : V6 K := ⟨getF m n ix 0, getF m n ix 1, getF m n ix 2, getF m n ix 3, getF m n ix 4, getF m n ix 5⟩
def getV10 (m : Mem K) (n : String) (ix : List Int) : V10 K :=
  ⟨getF m n ix 0, getF m n ix 1, getF m n ix 2, getF m n ix 3, getF m n ix 4, getF m n ix 5, getF m n ix 6, getF m n ix 7, getF m n ix 8, getF m n ix 9⟩
def getV8 (m : Mem K) (n : String) (ix : List Int) : V8 K :=
  ⟨getF m n ix 0, getF m n ix 1, getF m n ix 2, getF m n ix 3, getF m n ix 4, getF m n ix 5, getF m n ix 6, getF m n ix 7⟩
def getV11 (m : Mem K) (n : String) (ix : List Int) : V11 K :=
  ⟨getF m n ix 0, getF m n ix 1, getF m n ix 2, getF m n ix 3, getF m n ix 4, getF m n ix 5, getF m n ix 6, getF m n ix 7, getF m n ix 8, getF m n ix 9, getF m n ix 10⟩
def getM33 (m : Mem K) (n : String) (ix : List Int) : M33 K :=
  ⟨getF m n ix 0, getF m n ix 1, getF m n ix 2, getF m n ix 3, getF m n ix 4, getF m n ix 5, getF m n ix 6, getF m n ix 7, getF m n ix 8⟩
def getM22 (m : Mem K) (n : String) (ix : List Int) : M22 K := ⟨getF m n ix 0, getF m n ix 1, getF m n ix 2, getF m n ix 3⟩
def getI2 (m : Mem K) (n : String) (ix : List Int) : I2 := ⟨getI m n ix 0, getI m n ix 1⟩
def getI3 (m : Mem K) (n : String) (ix : List Int) : I3 := ⟨getI m n ix 0, getI m n ix 1, getI m n ix 2⟩
def getI4 (m : Mem K) (n : String) (ix : List Int) : I4 := ⟨getI m n ix 0, getI m n ix 1, getI m n ix 2, getI m n ix 3⟩
def getI6 (m : Mem K) (n : String) (ix : List Int) : I6 := ⟨getI m n ix 0, getI m n ix 1, getI m n ix 2, getI m n ix 3, getI m n ix 4, getI m n ix 5⟩
end Mem

/-- parse `arr` request:  name kind(f|i) w ndim d0.. v0..  -/
def parseArr {K : Type} [Codec K] (toks : List String) : Option (String × Arr K) :=
  match toks with
  | name :: kind :: w :: nd :: rest =>
    let ndim := nd.toNat!
    let dims := (rest.take ndim).map String.toInt!
    let vals := rest.drop ndim
    if kind == "f" then
      some (name, { dims := dims.toArray, w := w.toNat!, fs := (vals.map Codec.dec).toArray, is := #[] })
    else
      some (name, { dims := dims.toArray, w := w.toNat!, fs := #[], is := (vals.map String.toInt!).toArray })
  | _ => none

def encWVal {K : Type} [Codec K] : WVal K → String
  | .f x => "f:" ++ Codec.enc x
  | .i n => "i:" ++ toString n
  | .b x => "b:" ++ (if x then "1" else "0")
  | .v xs => "v:" ++ ",".intercalate (xs.map Codec.enc)
  | .iv xs => "iv:" ++ ",".intercalate (xs.map toString)

def encKind : WKind → String
  | .set => "set" | .aadd => "aadd" | .asub => "asub" | .amin => "amin" | .amax => "amax" | .aor => "aor" | .aand => "aand" | .alloc => "alloc"

def encWrites {K : Type} [Codec K] (ws : List (Write K)) : String :=
  ";".intercalate (ws.map (fun w => w.arr ++ "|" ++ ",".intercalate (w.idx.map toString) ++ "|" ++ encKind w.kind ++ "|" ++ encWVal w.val))

end Mjw
