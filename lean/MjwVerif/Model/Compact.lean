/-
  Hand-written model (E2) of the active-DOF compaction of
  /repo/mujoco_warp/_src/island.py  (`update_active_dofs`, kernels `_reset_compact_maps`, `_compact_dofs`).

  What is modelled
  ----------------
  * `_compact_dofs` is ONE THREAD PER WORLD.  Inside the thread a serial loop visits the trees
    `t = 0 .. ntree-1`; for an awake tree (`tree_awake[w,t] == 1`) it visits `j = 0 .. tree_dofnum[t]-1`
    and hands the dof `tree_dofadr[t] + j` the next compact index `count` (only while `count < nvmax`).
    `awakeDofs` is the list of dofs in exactly this visiting order; the k-th entry gets compact index `k`.
  * the write list of the thread (`compactWrites`), in the kernel calculus of `Model/Kernel.lean`
    (same array names, same order as the generated kernel),
  * the closed-form final maps `dofCdof`, `cdofDof`, `ncdof`,
  * the write list of a `_reset_compact_maps` thread (`resetWrites`),
  * integer / scalar array memory and "a launch = every thread's write list (computed from the PRE-launch
    memory) applied in ANY task order" (`launchI`, `launchF`), grids (`IsGrid1`, `IsGrid2`), and the host
    function `update_active_dofs` on the model write lists (`updateModel`),
  * well-formedness predicates of the tree → dof layout (`TreesDisjoint`, `TreesInRange`, `TreesSorted`).

  What is abstracted: `count` is an unbounded `Int` (no int32 wrap); `wp.printf` is ignored; memory is
  unbounded (in-bounds-ness of the writes is a separate statement, `Props/C38.lean`).

  Core Lean only; everything is executable.
-/
import MjwVerif.Model.Kernel
namespace Mjw.Compact

/-- `OverflowType.NVMAX = 1 << 7` -/
def NVMAX : Int := 128

/-- is the NVMAX bit set in an overflow word -/
def hasNvmaxBit (ov : Int) : Bool := Mjw.iand ov NVMAX != 0

/-! ### the visiting order -/

/-- dofs `adr, adr+1, …, adr+num-1` (empty for `num ≤ 0`, as `range(num)`) -/
def dofRange (adr num : Int) : List Int := (List.range num.toNat).map (fun (j : Nat) => adr + (j : Int))

/-- dofs of the awake trees among the first `n` trees, in visiting order `(t, j)` lexicographic -/
def awakeDofsN (n : Nat) (adr num awake : Int → Int) : List Int :=
  (List.range n).flatMap (fun (t : Nat) => if awake (t : Int) = 1 then dofRange (adr (t : Int)) (num (t : Int)) else [])

/-- the awake dofs of one world in the order `_compact_dofs` visits them
    (`awake t = tree_awake[w, t]`, `adr = tree_dofadr`, `num = tree_dofnum`) -/
def awakeDofs (ntree : Int) (adr num awake : Int → Int) : List Int := awakeDofsN ntree.toNat adr num awake

/-- number of awake dofs written as the sum the kernel's `count` computes:
    Σ over awake trees of `max(tree_dofnum t, 0)` -/
def awakeCount (ntree : Int) (num awake : Int → Int) : Nat :=
  ((List.range ntree.toNat).map (fun (t : Nat) => if awake (t : Int) = 1 then (num (t : Int)).toNat else 0)).sum

/-! ### the write list of one `_compact_dofs` thread -/

/-- the two writes of one loop iteration: dof `d` gets compact index `c` (only if `c < nvmax`) -/
def grant {K : Type} (w nvmax c d : Int) : List (Write K) :=
  if c < nvmax then
    [(Write.mk "dof_cdof_out" [w, d] (WVal.i c) WKind.set : Write K),
     (Write.mk "cdof_dof_out" [w, c] (WVal.i d) WKind.set : Write K)]
  else []

/-- writes for the dofs `ds`, the first of which gets index `c` -/
def grantWrites {K : Type} (w nvmax : Int) : Int → List Int → List (Write K)
  | _, [] => []
  | c, d :: ds => grant w nvmax c d ++ grantWrites w nvmax (c + 1) ds

/-- the epilogue: `if count > nvmax: overflow[w] |= NVMAX; ncdof[w] = nvmax  else: ncdof[w] = count` -/
def tailWrites {K : Type} (w nvmax ov count : Int) : List (Write K) :=
  if count > nvmax then
    [(Write.mk "overflow_out" [w] (WVal.i (Mjw.ior ov 128)) WKind.set : Write K),
     (Write.mk "ncdof_out" [w] (WVal.i nvmax) WKind.set : Write K)]
  else
    [(Write.mk "ncdof_out" [w] (WVal.i count) WKind.set : Write K)]

/-- everything thread `w` of `_compact_dofs` writes; `ov` = pre-launch `overflow[w]`, `ds` = `awakeDofs` -/
def compactWrites {K : Type} (w nvmax ov : Int) (ds : List Int) : List (Write K) :=
  grantWrites w nvmax 0 ds ++ tailWrites w nvmax ov (ds.length : Int)

/-- everything thread `(w, i)` of `_reset_compact_maps` writes -/
def resetWrites {K : Type} (nv nvmax_pad w i : Int) : List (Write K) :=
  (if i < nv then [(Write.mk "dof_cdof_out" [w, i] (WVal.i (-1)) WKind.set : Write K)] else [])
    ++ (if i < nvmax_pad then [(Write.mk "cdof_dof_out" [w, i] (WVal.i (-1)) WKind.set : Write K)] else [])

/-! ### closed-form final maps (given the visiting order `ds`) -/

/-- `dof_cdof[w, d]` after reset + compaction, for `d ∈ [0, nv)`: position of `d` in the visiting order if
    it is below `nvmax`, else `-1` -/
def dofCdof (ds : List Int) (nvmax : Int) (d : Int) : Int :=
  if d ∈ ds ∧ (ds.idxOf d : Int) < nvmax then (ds.idxOf d : Int) else -1

/-- `cdof_dof[w, c]` after reset + compaction, for `c ∈ [0, nvmax_pad)` -/
def cdofDof (ds : List Int) (nvmax : Int) (c : Int) : Int :=
  if 0 ≤ c ∧ c < (ds.length : Int) ∧ c < nvmax then ds.getD c.toNat (-1) else -1

/-- `ncdof[w] = min(count, nvmax)` -/
def ncdof (ds : List Int) (nvmax : Int) : Int := min (ds.length : Int) nvmax

/-! ### memory and launches -/

/-- integer arrays: name → index → value -/
abbrev IMem := String → List Int → Int
/-- scalar arrays -/
abbrev FMem (K : Type) := String → List Int → K

/-- effect of one write on integer memory (same case table as `Write.lookupI`) -/
def applyW1I {K : Type} (m : IMem) (w : Write K) : IMem := fun a ix =>
  if w.arr == a && w.idx == ix then
    (match w.kind, w.val with
     | .set, .i x => x
     | .aadd, .i x => m a ix + x
     | .alloc, .i x => m a ix + x
     | .asub, .i x => m a ix - x
     | .amax, .i x => max (m a ix) x
     | .amin, .i x => min (m a ix) x
     | .aor, .i x => Mjw.ior (m a ix) x
     | _, _ => m a ix)
  else m a ix

/-- a thread's write list applied in program order -/
def applyWsI {K : Type} (m : IMem) (ws : List (Write K)) : IMem := ws.foldl applyW1I m

/-- effect of one write on scalar memory (same case table as `Write.lookupF`) -/
def applyW1F {K : Type} [Scalar K] (m : FMem K) (w : Write K) : FMem K := fun a ix =>
  if w.arr == a && w.idx == ix then
    (match w.kind, w.val with
     | .set, .f x => x
     | .aadd, .f x => m a ix + x
     | .alloc, .f x => m a ix + x
     | .asub, .f x => m a ix - x
     | _, _ => m a ix)
  else m a ix

def applyWsF {K : Type} [Scalar K] (m : FMem K) (ws : List (Write K)) : FMem K := ws.foldl applyW1F m

/-- One launch on integer memory.  `W t` = write list of thread `t`, computed from the PRE-launch
    memory (the calculus' convention; the caller builds `W` from the pre-launch memory).  The threads
    run one after the other in the order `order` (any order; see `IsGrid1/2`). -/
def launchI {K T : Type} (W : T → List (Write K)) (order : List T) (m : IMem) : IMem :=
  order.foldl (fun m t => applyWsI m (W t)) m

def launchF {K T : Type} [Scalar K] (W : T → List (Write K)) (order : List T) (m : FMem K) : FMem K :=
  order.foldl (fun m t => applyWsF m (W t)) m

/-- read a 1-D / 2-D / 3-D array out of a memory -/
def rd1 {α : Type} (m : String → List Int → α) (a : String) : Int → α := fun i => m a [i]
def rd2 {α : Type} (m : String → List Int → α) (a : String) : Int → Int → α := fun i j => m a [i, j]
def rd3 {α : Type} (m : String → List Int → α) (a : String) : Int → Int → Int → α := fun i j k => m a [i, j, k]

/-- `order` runs every thread of `dim = (n,)` exactly once, in any order -/
structure IsGrid1 (order : List Int) (n : Int) : Prop where
  nodup : order.Nodup
  mem : ∀ t, t ∈ order ↔ (0 ≤ t ∧ t < n)

/-- `order` runs every thread of `dim = (n0, n1)` exactly once, in any order -/
structure IsGrid2 (order : List (Int × Int)) (n0 n1 : Int) : Prop where
  nodup : order.Nodup
  mem : ∀ t, t ∈ order ↔ (0 ≤ t.1 ∧ t.1 < n0 ∧ 0 ≤ t.2 ∧ t.2 < n1)

/-- canonical task orders -/
def grid1 (n : Int) : List Int := (List.range n.toNat).map (fun (i : Nat) => (i : Int))
def grid2 (n0 n1 : Int) : List (Int × Int) := (grid1 n0).flatMap (fun i => (grid1 n1).map (fun j => (i, j)))

/-- `update_active_dofs` at the level of the model write lists: launch `_reset_compact_maps` on
    `dim = (nworld, max(nv, nvmax_pad))` (task order `o1`), then `_compact_dofs` on `dim = (nworld,)`
    (task order `o2`); `ds w` = visiting order of world `w`.  `K` only types the write lists. -/
def updateModel (K : Type) (nv nvmax_pad nvmax : Int) (ds : Int → List Int)
    (o1 : List (Int × Int)) (o2 : List Int) (m0 : IMem) : IMem :=
  let m1 := launchI (K := K) (fun t => resetWrites nv nvmax_pad t.1 t.2) o1 m0
  launchI (K := K) (fun w => compactWrites w nvmax (m1 "overflow_out" [w]) (ds w)) o2 m1

/-! ### well-formedness of the tree → dof layout (`tree_dofadr`, `tree_dofnum`) -/

/-- the dof ranges `[adr t, adr t + num t)` of different trees are disjoint (empty ranges allowed) -/
def TreesDisjoint (ntree : Int) (adr num : Int → Int) : Prop :=
  ∀ t t', 0 ≤ t → t < t' → t' < ntree →
    num t ≤ 0 ∨ num t' ≤ 0 ∨ adr t + num t ≤ adr t' ∨ adr t' + num t' ≤ adr t

/-- every non-empty dof range lies inside `[0, nv)` -/
def TreesInRange (ntree : Int) (adr num : Int → Int) (nv : Int) : Prop :=
  ∀ t, 0 ≤ t → t < ntree → 0 < num t → 0 ≤ adr t ∧ adr t + num t ≤ nv

/-- the dof ranges come in increasing order along the trees (true of MuJoCo models, where
    `tree_dofadr[t+1] = tree_dofadr[t] + tree_dofnum[t]`) -/
def TreesSorted (ntree : Int) (adr num : Int → Int) : Prop :=
  ∀ t t', 0 ≤ t → t < t' → t' < ntree → 0 < num t → 0 < num t' → adr t + num t ≤ adr t'

/-- dof `d` belongs to an awake tree of the world whose awake flags are `awake` -/
def IsAwakeDof (ntree : Int) (adr num awake : Int → Int) (d : Int) : Prop :=
  ∃ t j : Int, 0 ≤ t ∧ t < ntree ∧ awake t = 1 ∧ 0 ≤ j ∧ j < num t ∧ d = adr t + j

/-- does the write list touch cell `a[ix]` -/
def touches {K : Type} (ws : List (Write K)) (a : String) (ix : List Int) : Bool :=
  ws.any (fun w => w.arr == a && w.idx == ix)

/-- printable projection of a write list: (array, index, integer value) of the integer writes -/
def ivals {K : Type} (ws : List (Write K)) : List (String × List Int × Int) :=
  ws.filterMap (fun w => match w.val with | .i x => some (w.arr, w.idx, x) | _ => none)

/-- printable view of world `w` of a memory: `dof_cdof[w, 0..nv)`, `cdof_dof[w, 0..nvmax_pad)`, `ncdof[w]`,
    `overflow[w]` -/
def snapshot (m : IMem) (w : Int) (nv nvmax_pad : Nat) : List Int × List Int × Int × Int :=
  ((List.range nv).map (fun (d : Nat) => m "dof_cdof_out" [w, (d : Int)]),
   (List.range nvmax_pad).map (fun (c : Nat) => m "cdof_dof_out" [w, (c : Int)]),
   m "ncdof_out" [w], m "overflow_out" [w])

/-! ### a concrete instance used in the examples: 3 trees, dofs {0,1}, {2,3,4}, {5}; trees 0 and 2 awake -/
def adr3 : Int → Int := fun t => if t = 0 then 0 else if t = 1 then 2 else if t = 2 then 5 else 6
def num3 : Int → Int := fun t => if t = 0 then 2 else if t = 1 then 3 else if t = 2 then 1 else 0
def awake3 : Int → Int := fun t => if t = 0 then 1 else if t = 2 then 1 else 0
/-- trees 0 and 1 awake: with `nvmax = 3` tree 1 is split -/
def awake3' : Int → Int := fun t => if t = 0 then 1 else if t = 1 then 1 else 0

/-- a layout that is disjoint but NOT sorted: tree 0 owns dofs {3,4}, tree 1 owns {0,1,2} -/
def adrU : Int → Int := fun t => if t = 0 then 3 else 0
def numU : Int → Int := fun t => if t = 0 then 2 else if t = 1 then 3 else 0

#eval awakeDofs 3 adr3 num3 awake3
#eval ivals (compactWrites (K := Float) 0 2 0 (awakeDofs 3 adr3 num3 awake3))
#eval (List.range 6).map (fun (d : Nat) => dofCdof (awakeDofs 3 adr3 num3 awake3') 3 d)

end Mjw.Compact
