/-
  Hand-written model of the sweep-and-prune broadphase, transcribed statement by statement from
    /repo/mujoco_warp/_src/collision_core.py   : `sap_binary_search`, `sap_range`
    /repo/mujoco_warp/_src/collision_driver.py : `sap_broadphase` (inclusive `array_scan`),
                                                 `_sap_broadphase.kernel` (work-index decoding, stride loop)
  in the conventions of the tier-B translator (arrays = functions of `Int` indices, `while` = `Mjw.whileFuel`,
  `>>` = `Mjw.ishr` (int32), `//` = `Int.tdiv`, `%` = `Int.tmod`).  Core Lean only, executable.

  What is a PARAMETER here (not modelled): the sort.  `_segmented_sort` / `wp.utils.segmented_sort_pairs`
  turn (projection_lower, sort_index) into (`lower`, `sortIndex`) with `lower` non-decreasing per world and
  `lower k = projection_lower (sortIndex k)`; theorems take that contract as a hypothesis.

  Python (collision_core.py):
      def sap_binary_search(values, value, lower, upper):      # "first element > value in sorted array"
        while lower < upper:
          mid = (lower + upper) >> 1
          if values[mid] > value: upper = mid
          else:                   lower = mid + 1
        return upper
      def sap_range(n, lower_in, upper_in, sort_index_in, range_out):
        worldid, sortedid = wp.tid()
        idx = sort_index_in[worldid, sortedid]
        upper = upper_in[worldid, idx]
        limit = sap_binary_search(lower_in[worldid], upper, sortedid + 1, n)
        limit = wp.min(n - 1, limit)
        range_out[worldid, sortedid] = limit - sortedid
-/
import MjwVerif.Model.Kernel
namespace Mjw.Sap

/-- one iteration of the `while` body of `sap_binary_search` on the state `(lower, upper)` -/
def bsStep {α : Type} (gt : α → α → Bool) (values : Int → α) (value : α) (st : Int × Int) : Int × Int :=
  let (lower, upper) := st
  let mid : Int := Mjw.ishr (lower + upper) (1 : Int)
  if gt (values mid) value then (lower, mid) else (mid + (1 : Int), upper)

/-- `sap_binary_search(values, value, lower, upper)`; `gt a b` is the code's `a > b`. -/
def binarySearch {α : Type} (gt : α → α → Bool) (values : Int → α) (value : α) (lower upper : Int)
    (fuel : Nat) : Int :=
  (Mjw.whileFuel fuel (fun (st : Int × Int) => decide (st.1 < st.2)) (bsStep gt values value) (lower, upper)).2

/-- `sap_range`, one world, thread `sortedid`: the value written to `range_out[worldid, sortedid]`.
    `lower` = the SORTED keys (`lower_in[worldid]` after the sort), `upper` = `upper_in[worldid]` (indexed by
    geom id), `sortIndex` = `sort_index_in[worldid]` (sorted position ↦ geom id). -/
def range {α : Type} (gt : α → α → Bool) (n : Int) (lower : Int → α) (upper : Int → α) (sortIndex : Int → Int)
    (sortedid : Int) (fuel : Nat) : Int :=
  let idx : Int := sortIndex sortedid
  let up : α := upper idx
  let limit : Int := binarySearch gt lower up (sortedid + (1 : Int)) n fuel
  let limit : Int := min (n - (1 : Int)) limit
  limit - sortedid

/-- `wp.utils.array_scan(range_, cumulative_sum, inclusive=True)`: `cumsum r k = r 0 + … + r k`. -/
def cumsumNat (r : Int → Int) : Nat → Int
  | 0 => r 0
  | k + 1 => cumsumNat r k + r (Int.ofNat (k + 1))

def cumsum (r : Int → Int) (k : Int) : Int := cumsumNat r k.toNat

/-- the `int > int` test the kernel applies to `cumulative_sum_in` -/
def igt (a b : Int) : Bool := decide (a > b)

/-- Result of decoding one flat work index in `_sap_broadphase.kernel`. -/
structure Work where
  worldid : Int
  i : Int       -- sorted position of the first geom (after `% ngeom`)
  j : Int       -- sorted position of the second geom (after `% ngeom`)
  deriving DecidableEq, Repr

/-- The flat (before `// ngeom`, `% ngeom`) decoding:
      i = sap_binary_search(cumulative_sum_in, worldgeomid, 0, nworldgeom)
      j = i + worldgeomid + 1
      if i > 0: j -= cumulative_sum_in[i - 1]                                   -/
def decodeFlat (cum : Int → Int) (nworldgeom : Int) (worldgeomid : Int) (fuel : Nat) : Int × Int :=
  let i : Int := binarySearch igt cum worldgeomid (0 : Int) nworldgeom fuel
  let j : Int := (i + worldgeomid) + (1 : Int)
  let j : Int := if decide (i > (0 : Int)) then j - cum (i - (1 : Int)) else j
  (i, j)

/--   worldid = i // ngeom ; i = i % ngeom ; j = j % ngeom                       -/
def decode (cum : Int → Int) (ngeom nworldgeom : Int) (worldgeomid : Int) (fuel : Nat) : Work :=
  let (i, j) := decodeFlat cum nworldgeom worldgeomid fuel
  { worldid := Int.tdiv i ngeom, i := Int.tmod i ngeom, j := Int.tmod j ngeom }

/-- The stride loop of one thread of `_sap_broadphase.kernel`:
      worldgeomid = wp.tid()
      while worldgeomid < nworkpackages: … ; worldgeomid += nsweep_in
    returns the work indices the thread processes, in order. -/
def threadWork (nworkpackages nsweep : Int) (tid : Int) (fuel : Nat) : List Int :=
  (Mjw.whileFuel fuel (fun (st : Int × List Int) => decide (st.1 < nworkpackages))
    (fun st => (st.1 + nsweep, st.2 ++ [st.1])) (tid, [])).2

/-- All flat arrays of one `sap_broadphase` call after the sort, for `nworld` worlds of `ngeom` geoms. -/
structure Sorted (α : Type) where
  nworld : Int
  ngeom : Int
  lower : Int → Int → α        -- lower_in[worldid, sortedid]   (sorted keys)
  upper : Int → Int → α        -- upper_in[worldid, geomid]
  sortIndex : Int → Int → Int  -- sort_index_in[worldid, sortedid]

/-- `range_.reshape(-1)`: flat index `t = worldid * ngeom + sortedid` -/
def flatRange {α : Type} (gt : α → α → Bool) (s : Sorted α) (fuel : Nat) (t : Int) : Int :=
  let w := Int.tdiv t s.ngeom
  range gt s.ngeom (s.lower w) (s.upper w) (s.sortIndex w) (Int.tmod t s.ngeom) fuel

/-- geom pair `(geom1, geom2) = (sort_index_in[worldid, i], sort_index_in[worldid, j])` of a work item -/
def geomPair {α : Type} (s : Sorted α) (w : Work) : Int × Int × Int :=
  (w.worldid, s.sortIndex w.worldid w.i, s.sortIndex w.worldid w.j)

/-- The work indices processed by the whole launch `_sap_broadphase` (dim = `nsweep`), thread by thread. -/
def allWork (nworkpackages nsweep : Int) (fuel : Nat) : List Int :=
  (List.range nsweep.toNat).flatMap (fun (tid : Nat) => threadWork nworkpackages nsweep (Int.ofNat tid) fuel)

/-- `cumulative_sum_in` of the launch -/
def cumOf {α : Type} (gt : α → α → Bool) (s : Sorted α) (fuel : Nat) : Int → Int := cumsum (flatRange gt s fuel)

/-- `nworkpackages = cumulative_sum_in[nworldgeom - 1]` -/
def nwork {α : Type} (gt : α → α → Bool) (s : Sorted α) (fuel : Nat) : Int :=
  cumOf gt s fuel (s.nworld * s.ngeom - (1 : Int))

/-- Everything the launch enumerates as `(worldid, i, j)` (sorted positions), thread by thread. -/
def enumeratedWork {α : Type} (gt : α → α → Bool) (s : Sorted α) (nsweep : Int) (fuel : Nat) : List Work :=
  (allWork (nwork gt s fuel) nsweep fuel).map
    (fun k => decode (cumOf gt s fuel) s.ngeom (s.nworld * s.ngeom) k fuel)

/-- … and as `(worldid, geom1, geom2)`: the list handed to the `nxn_pairid` / sleep / filter tests. -/
def enumerated {α : Type} (gt : α → α → Bool) (s : Sorted α) (nsweep : Int) (fuel : Nat) : List (Int × Int × Int) :=
  (enumeratedWork gt s nsweep fuel).map (geomPair s)

/-! ### executable sanity checks (Int keys) -/

private def exLower : Int → Int := fun k => [0, 1, 2, 10, 11].getD k.toNat 100
private def exUpper : Int → Int := fun g => [3, 4, 5, 12, 13].getD g.toNat 100

-- sorted keys 0 1 2 10 11, uppers 3 4 5 12 13 : first index with lower > 3 after position 0 is 3
#guard binarySearch igt exLower 3 1 5 5 == 3
-- ranges: position 0 sweeps 1,2 and the sentinel 3 ; position 3 sweeps 4 (limit clamped to n-1)
#guard (List.range 5).map (fun (k : Nat) => range igt 5 exLower exUpper id (Int.ofNat k) 5) == [3, 2, 1, 1, 0]
#guard (List.range 5).map (fun (k : Nat) => cumsum (fun t => [3, 2, 1, 1, 0].getD t.toNat 0) (Int.ofNat k)) == [3, 5, 6, 7, 7]
#guard (enumerated igt ⟨1, 5, fun _ => exLower, fun _ => exUpper, fun _ k => k⟩ 3 8).length == 7

end Mjw.Sap
