/-
  E3: access-discipline vocabulary.  `Gen/Graph.lean` (regenerated from /repo) is a table of `Access` rows:
  one row per (array access in a kernel) × (field bound to that parameter at some launch).
-/
namespace Mjw.Discipline

inductive IdxClass where
  | w                      -- leading index is the world id
  | wmod (param : Nat)     -- leading index is `worldid % param.shape[0]` (param = interned name id)
  | tid                    -- a non-world thread id component
  | const
  | other
  deriving DecidableEq, Repr

inductive RW where
  | read | write | atomic
  deriving DecidableEq, Repr

inductive FClass where
  | modelBatched   -- Model field with "*" leading dimension (may hold one slice per world)
  | modelShared    -- Model field shared by all worlds
  | dataWorld      -- Data field with leading dimension nworld
  | dataFlat       -- Data field indexed by a flat slot (contacts: naconmax) — ownership by world tag
  | global         -- (1,)-shaped counters
  | temp           -- host-allocated temporary / solver context
  | unbound | unknown
  deriving DecidableEq, Repr

/-- names are interned: `kernel`, `param`, `idx`, `op` are indices into `Gen.Graph.names` (kernel reduction on
    natural-number literals is fast; on strings it is not) -/
structure Access where
  modul : Nat      -- index into `Gen.Graph.moduleNames`
  kernel : Nat
  param : Nat
  field : Nat
  ndim : Nat
  idx0 : IdxClass
  rw : RW
  fclass : FClass
  line : Nat
  idx : Nat        -- full index expression text (interned)
  op : Nat         -- atomic operation name (interned) or the id of ""
  deriving DecidableEq, Repr

/-- the per-row discipline: a batched Model field is read at `worldid % its own shape[0]` and never written by
    a step kernel; a shared Model field is never written; an nworld-led Data field is accessed at the world id. -/
def Access.ok (a : Access) : Bool :=
  match a.fclass with
  | .modelBatched => a.idx0 == .wmod a.param && a.rw == .read
  | .modelShared => a.rw == .read
  | .dataWorld => a.idx0 == .w
  | _ => true

def violations (rows : List Access) : List Access := rows.filter (fun a => !a.ok)

/-- distinct (kernel, param) pairs -/
def keys (rows : List Access) : List (Nat × Nat) := (rows.map (fun a => (a.kernel, a.param))).eraseDups

/-- rows of one kernel are contiguous in the generated table -/
def groups (rows : List Access) : List (List Access) := rows.splitBy (fun a b => a.kernel == b.kernel)

def raceInGroup (rs0 : List Access) : List (Nat × Nat) :=
  (keys rs0).filter (fun k =>
    let rs := rs0.filter (fun a => a.param == k.2)
    let ws := (rs.filter (fun a => a.rw == .write)).map (·.idx)
    let rd := (rs.filter (fun a => a.rw == .read)).map (·.idx)
    let ats := rs.filter (fun a => a.rw == .atomic)
    (!ws.isEmpty && rd.any (fun i => !ws.contains i)) || (!ats.isEmpty && (!ws.isEmpty || !rd.isEmpty)))

/-- (kernel, param) pairs whose cells may be touched by more than one task of a launch in a way that depends on
    order, judged syntactically: the parameter is plainly written and also read at a different index expression,
    or is both atomically and plainly accessed.  Each entry needs a justification (thread-private cells, equal
    values, level structure) or is a finding. -/
def raceCandidates (rows : List Access) : List (Nat × Nat) := ((groups rows).flatMap raceInGroup).eraseDups

def mixedInGroup (rs0 : List Access) : List (Nat × Nat) :=
  (keys rs0).filter (fun k =>
    let ops := ((rs0.filter (fun a => a.param == k.2 && a.rw == .atomic)).map (·.op)).eraseDups
    ops.length > 1)

/-- (kernel, param) pairs atomically updated with more than one kind of operation -/
def mixedAtomics (rows : List Access) : List (Nat × Nat) := ((groups rows).flatMap mixedInGroup).eraseDups

end Mjw.Discipline
