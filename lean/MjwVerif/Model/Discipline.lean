/-
  E3: access-discipline vocabulary.  `Gen/Graph.lean` (regenerated from /repo) is a table of `Access` rows:
  one row per (array access in a kernel) × (field bound to that parameter at some launch).
-/
namespace Mjw.Discipline

inductive IdxClass where
  | w                      -- leading index is the world id
  | wmod (param : String)  -- leading index is `worldid % param.shape[0]`
  | tid                    -- a non-world thread id component
  | const
  | other
  deriving DecidableEq, Repr

inductive RW where
  | read | write | atomic
  deriving DecidableEq, Repr

inductive FClass where
  | modelBatched   -- Model field with "*" leading dimension (may hold one slice per world)
  | modelShared    -- Model field shared by all worlds
  | dataWorld      -- Data field with leading dimension nworld
  | dataFlat       -- Data field indexed by a flat slot (contacts: naconmax) — ownership by world tag
  | global         -- (1,)-shaped counters
  | temp           -- host-allocated temporary / solver context
  | unbound | unknown
  deriving DecidableEq, Repr

structure Access where
  kernel : String
  param : String
  field : String
  ndim : Nat
  idx0 : IdxClass
  rw : RW
  fclass : FClass
  line : Nat
  deriving DecidableEq, Repr

/-- the per-row discipline: a batched Model field is read at `worldid % its own shape[0]` and never written by
    a step kernel; a shared Model field is never written; an nworld-led Data field is accessed at the world id. -/
def Access.ok (a : Access) : Bool :=
  match a.fclass with
  | .modelBatched => a.idx0 == .wmod a.param && a.rw == .read
  | .modelShared => a.rw == .read
  | .dataWorld => a.idx0 == .w
  | _ => true

def violations (rows : List Access) : List Access := rows.filter (fun a => !a.ok)

end Mjw.Discipline
