/-
  LDL: level-parallel sparse LᵀDL elimination and back-substitution over a kinematic forest
  (hand-written model of smooth.py `_factor_i_sparse` / `_solve_LD_sparse_fused`; core-only).

  Indices are dof ids `0 … n-1`.  The forest enters through
    * `depth : Nat → Nat`  — the level of a dof (io.py `dof_depth`, shifted by one so that roots have depth 0);
    * `anc : Nat → Nat → Bool` — `anc i k` = dof `i` is a PROPER ancestor of dof `k` (the pairs `(i, k, Madr_ki)`
      of `m.qLD_updates`; io.py groups them by `dof_depth[i]`).
  Matrices are total functions `A r c` (row, column); only the entries with `c = r ∨ anc c r` (the CSR row of
  MuJoCo's `M_rowadr/M_rownnz/M_colind`) are meaningful.

  One `_qLD_acc` task `(i, k)` does          tmp = A k i / A k k
                                            A i c -= A k c · tmp      for every column c of row i   (atomic_sub)
                                            A k i  = tmp
  and a launch runs all tasks `(i, k)` with `depth i = l`; the levels run from the deepest to 0.
  `factorLevel` is the net effect of one launch (the atomic subtractions into one cell commute), justified by
  `Props/C21.lean: qLD_acc_writes` (exact write list of the generated task) and the fact that within a launch no task reads a
  cell another task of the same launch writes (rows `k` read have `depth k > l`, the cells written are row `i`
  with `depth i = l` and the cell `(k, i)` which only the task itself reads).

  The fused solve kernel runs, between barriers,
     up   level l (deepest → 0):  x i -= A k i · x k   for all (i, k), depth i = l
     diag:                        x i *= Dinv i
     down level l (0 → deepest):  x k -= A k i · x i   for all (i, k), depth i = l
-/
import MjwVerif.Model.Scalar
namespace Mjw.LDL
open Mjw

variable {K : Type} [Scalar K]

/-- `Σ_{k < n} f k` (left to right) -/
def sumTo : Nat → (Nat → K) → K
  | 0, _ => Scalar.lit 0 0
  | n + 1, f => sumTo n f + f n

/-- the strictly-lower coefficient `ℓ k i` read off the factored array: `A k i` if `i` is a proper ancestor of `k`, else 0 -/
def lowerOf (anc : Nat → Nat → Bool) (A : Nat → Nat → K) (k i : Nat) : K :=
  if anc i k then A k i else Scalar.lit 0 0

/-! ### factorisation -/

/-- net effect of the `_qLD_acc` launch for level `l` -/
def factorLevel (n : Nat) (depth : Nat → Nat) (anc : Nat → Nat → Bool) (l : Nat) (A : Nat → Nat → K) : Nat → Nat → K :=
  fun r c =>
    if anc c r && depth c == l then A r c / A r r
    else if depth r == l && (c == r || anc c r) then
      A r c - sumTo n (fun k => if anc r k then A k c * (A k r / A k k) else Scalar.lit 0 0)
    else A r c

/-- levels `nl-1, …, 0` in this order (`for i in reversed(range(len(m.qLD_updates)))`) -/
def factorAll (n : Nat) (depth : Nat → Nat) (anc : Nat → Nat → Bool) : Nat → (Nat → Nat → K) → (Nat → Nat → K)
  | 0, A => A
  | l + 1, A => factorAll n depth anc l (factorLevel n depth anc l A)

/-- `_qLDiag_div` -/
def diagInv (A : Nat → Nat → K) : Nat → K := fun i => Scalar.lit 1 0 / A i i

/-! ### back-substitution -/

/-- forward-substitution level `l` of the fused kernel: `x i -= ℓ k i · x k` for all update pairs with `depth i = l` -/
def upLevel (n : Nat) (depth : Nat → Nat) (ℓ : Nat → Nat → K) (l : Nat) (x : Nat → K) : Nat → K :=
  fun i => if depth i == l then x i - sumTo n (fun k => ℓ k i * x k) else x i

/-- backward-substitution level `l`: `x k -= ℓ k i · x i` for all update pairs with `depth i = l` -/
def downLevel (n : Nat) (depth : Nat → Nat) (ℓ : Nat → Nat → K) (l : Nat) (x : Nat → K) : Nat → K :=
  fun k => x k - sumTo n (fun i => if depth i == l then ℓ k i * x i else Scalar.lit 0 0)

/-- levels `nl-1, …, 0` -/
def upAll (n : Nat) (depth : Nat → Nat) (ℓ : Nat → Nat → K) : Nat → (Nat → K) → (Nat → K)
  | 0, x => x
  | l + 1, x => upAll n depth ℓ l (upLevel n depth ℓ l x)

/-- levels `0, …, nl-1` -/
def downAll (n : Nat) (depth : Nat → Nat) (ℓ : Nat → Nat → K) : Nat → (Nat → K) → (Nat → K)
  | 0, x => x
  | l + 1, x => downLevel n depth ℓ l (downAll n depth ℓ l x)

/-- `x[dofid] *= D[dofid]` -/
def diagMul (dinv : Nat → K) (x : Nat → K) : Nat → K := fun i => x i * dinv i

/-- the fused kernel: copy, up-sweep, diagonal, down-sweep -/
def solve (n : Nat) (depth : Nat → Nat) (nl : Nat) (ℓ : Nat → Nat → K) (dinv : Nat → K) (y : Nat → K) : Nat → K :=
  downAll n depth ℓ nl (diagMul dinv (upAll n depth ℓ nl y))

/-- `L = I + ℓ` -/
def unitLower (ℓ : Nat → Nat → K) (k i : Nat) : K :=
  (if k = i then Scalar.lit 1 0 else Scalar.lit 0 0) + ℓ k i

/-- `(Lᵀ D L) i j = Σ_k L k i · D k · L k j` -/
def ltdl (n : Nat) (ℓ : Nat → Nat → K) (D : Nat → K) (i j : Nat) : K :=
  sumTo n (fun k => unitLower ℓ k i * D k * unitLower ℓ k j)

/-- `(A x) i = Σ_j A i j · x j` -/
def mulVec (n : Nat) (A : Nat → Nat → K) (x : Nat → K) (i : Nat) : K :=
  sumTo n (fun j => A i j * x j)

end Mjw.LDL
