/-
  Hand-written executable model (E2) of the host-side NumPy block of
    /repo/mujoco_warp/_src/io.py  `put_model`   ("# precalculated geom pairs", lines 554-590, 635-646; state of commit 6cb912c,
    which added the rejection of self pairs to the explicit-pair loop)
  that builds `m.nxn_geom_pair`, the contact column of `m.nxn_pairid` (`nxn_pairid_contact`) and the
  host-side filter `nxn_include` / `nxn_geom_pair_filtered` / `nxn_pairid_filtered`.

  Python (io.py):
      filterparent = not (mjm.opt.disableflags & types.DisableBit.FILTERPARENT)
      geom1, geom2 = np.triu_indices(mjm.ngeom, k=1)
      m.nxn_geom_pair = np.stack((geom1, geom2), axis=1)
      bodyid1 = mjm.geom_bodyid[geom1];            bodyid2 = mjm.geom_bodyid[geom2]
      contype1 = mjm.geom_contype[geom1];          contype2 = mjm.geom_contype[geom2]
      conaffinity1 = mjm.geom_conaffinity[geom1];  conaffinity2 = mjm.geom_conaffinity[geom2]
      weldid1 = mjm.body_weldid[bodyid1];          weldid2 = mjm.body_weldid[bodyid2]
      weld_parentid1 = mjm.body_weldid[mjm.body_parentid[weldid1]]
      weld_parentid2 = mjm.body_weldid[mjm.body_parentid[weldid2]]
      self_collision = weldid1 == weldid2
      parent_child_collision = (filterparent & (weldid1 != 0) & (weldid2 != 0)
                                & ((weldid1 == weld_parentid2) | (weldid2 == weld_parentid1)))
      mask = np.array((contype1 & conaffinity2) | (contype2 & conaffinity1), dtype=bool)
      exclude = np.isin((bodyid1 << 16) + bodyid2, mjm.exclude_signature)
      nxn_pairid_contact = -1 * np.ones(len(geom1), dtype=int)
      nxn_pairid_contact[~(mask & ~self_collision & ~parent_child_collision & ~exclude)] = -2
      def upper_tri_index(n, i, j):
        i, j = (j, i) if j < i else (i, j)
        return (i * (2 * n - i - 3)) // 2 + j - 1
      for i in range(mjm.npair):
        # the pair table has one slot per unordered pair of DISTINCT geoms: a self pair would alias another pair's slot
        if mjm.pair_geom1[i] == mjm.pair_geom2[i]:
          raise NotImplementedError(f"Contact pair {i}: a pair of a geom with itself is not supported.")
        nxn_pairid_contact[upper_tri_index(mjm.ngeom, mjm.pair_geom1[i], mjm.pair_geom2[i])] = i
      ...
      nxn_include = (nxn_pairid_contact > -2) | (nxn_pairid_collision >= 0)
      m.nxn_geom_pair_filtered = m.nxn_geom_pair[nxn_include]
      m.nxn_pairid = np.hstack([nxn_pairid_contact.reshape((-1, 1)), nxn_pairid_collision.reshape((-1, 1))])
      m.nxn_pairid_filtered = m.nxn_pairid[nxn_include]

  Conventions
  -----------
  * arrays that are READ are functions `Int → Int` (tier-B convention); the theorems of `Props/C19.lean`
    hold for all such functions.  `proto` builds them from lists with NumPy index semantics (negative index
    wraps once, anything else out of range = IndexError = answer `ERR`).
  * `&`, `|`, `<<`, `+` on the int32 NumPy arrays are the int32 operations `Mjw.iand/ior/ishl`, `wrap32`.
  * the table that is WRITTEN is a `List Int` in the order of `np.triu_indices(ngeom, k=1)` (row-major: `i`
    ascending, then `j` ascending, `i < j`); the explicit-pair write `a[idx] = i` has NumPy semantics (`npSet`):
    `-len ≤ idx < 0` wraps, otherwise out of range → `none` (IndexError, `put_model` raises).
  * the pair id of the `k`-th element of `pairs` is `k` (`for i in range(mjm.npair)`).
  * the loop has THREE outcomes (`Outcome`): it completes (`ok table`), the write raises IndexError
    (`indexError`), or — checked for pair `i` BEFORE its write, so the first offending pair in list order decides —
    `put_model` itself raises NotImplementedError for a pair of a geom with itself (`notImplemented`).
  * NOT modelled: the collision-sensor column `nxn_pairid_collision` (it is an INPUT of `includeMask`);
    int32 overflow of `i * (2 * n - i - 3)` when `pair_geom1[i]` is an `np.int32` scalar (needs ngeom > 46340,
    i.e. a table with > 10^9 entries).

  Text interface (`proto`), ONE line in, ONE line out, tokens separated by single blanks:
      in :  ngeom nbody filterparent npair nexclude
            geom_bodyid[0..ngeom) geom_contype[0..ngeom) geom_conaffinity[0..ngeom)
            body_weldid[0..nbody) body_parentid[0..nbody)
            pair_geom1[0..npair) pair_geom2[0..npair)
            exclude_signature[0..nexclude)
            (all decimal integers; `filterparent` is 0 or 1; total 5 + 3*ngeom + 2*nbody + 2*npair + nexclude tokens)
      out:  the ngeom*(ngeom-1)/2 entries of `nxn_pairid_contact`, blank-separated, in triu order
            (the empty string if ngeom < 2);
            or `ERR` if the NumPy code would raise IndexError (a geom/body id out of range, or an explicit-pair
            index out of range);
            or `NOTIMPL` if `put_model` raises NotImplementedError in the explicit-pair loop (a pair `i` with
            `pair_geom1[i] == pair_geom2[i]`, no earlier pair having raised IndexError);
      `proto` returns `none` on a malformed line (wrong token count, non-integer token, negative count).

  Core Lean only; executable.
-/
import MjwVerif.Model.Scalar
namespace Mjw.PairFilter

/-- int32 wrap-around of a NumPy int32 result -/
def wrap32 (a : Int) : Int := (BitVec.ofInt 32 a).toInt

/-- row `i` of `np.triu_indices(n, k=1)`: `(i, i+1), …, (i, n-1)` -/
def row (n i : Nat) : List (Nat × Nat) := (List.range' (i + 1) (n - (i + 1))).map (fun j => (i, j))

/-- `zip(*np.triu_indices(n, k=1))` = `m.nxn_geom_pair` -/
def triu (n : Nat) : List (Nat × Nat) := (List.range n).flatMap (row n)

/-- inputs of the block -/
structure Cfg where
  ngeom : Nat
  geom_bodyid : Int → Int
  geom_contype : Int → Int
  geom_conaffinity : Int → Int
  body_weldid : Int → Int
  body_parentid : Int → Int
  /-- `not (opt.disableflags & DisableBit.FILTERPARENT)` -/
  filterparent : Bool
  /-- `(pair_geom1[i], pair_geom2[i])`, `i = 0 .. npair-1` -/
  pairs : List (Int × Int)
  /-- `mjm.exclude_signature` -/
  excludes : List Int

/-- `(bodyid1 << 16) + bodyid2` (int32) -/
def signature (b1 b2 : Int) : Int := wrap32 (Mjw.ishl b1 16 + b2)

/-- `mask` : `np.array((contype1 & conaffinity2) | (contype2 & conaffinity1), dtype=bool)` -/
def maskBit (ct1 ca1 ct2 ca2 : Int) : Bool := Mjw.ior (Mjw.iand ct1 ca2) (Mjw.iand ct2 ca1) != 0

/-- the per-pair Booleans of the vectorised block, for the pair `(geom1, geom2)` -/
structure Flags where
  mask : Bool
  self_collision : Bool
  parent_child_collision : Bool
  exclude : Bool
  deriving DecidableEq, Repr

def flags (c : Cfg) (geom1 geom2 : Int) : Flags :=
  let bodyid1 := c.geom_bodyid geom1
  let bodyid2 := c.geom_bodyid geom2
  let contype1 := c.geom_contype geom1
  let contype2 := c.geom_contype geom2
  let conaffinity1 := c.geom_conaffinity geom1
  let conaffinity2 := c.geom_conaffinity geom2
  let weldid1 := c.body_weldid bodyid1
  let weldid2 := c.body_weldid bodyid2
  let weld_parentid1 := c.body_weldid (c.body_parentid weldid1)
  let weld_parentid2 := c.body_weldid (c.body_parentid weldid2)
  { mask := maskBit contype1 conaffinity1 contype2 conaffinity2,
    self_collision := weldid1 == weldid2,
    parent_child_collision :=
      c.filterparent && (weldid1 != 0) && (weldid2 != 0)
        && ((weldid1 == weld_parentid2) || (weldid2 == weld_parentid1)),
    exclude := c.excludes.contains (signature bodyid1 bodyid2) }

/-- value of `nxn_pairid_contact` after the line `nxn_pairid_contact[~(mask & ~self & ~parent & ~exclude)] = -2` -/
def dynEntry (c : Cfg) (geom1 geom2 : Int) : Int :=
  let f := flags c geom1 geom2
  if f.mask && !f.self_collision && !f.parent_child_collision && !f.exclude then -1 else -2

/-- `nxn_pairid_contact` before the explicit-pair loop -/
def baseTable (c : Cfg) : List Int :=
  (triu c.ngeom).map (fun p => dynEntry c (Int.ofNat p.1) (Int.ofNat p.2))

/-- the local `upper_tri_index` of io.py (with the swap; Python `//` = floor division) -/
def upperTriIndex (n i j : Int) : Int :=
  let ij : Int × Int := if j < i then (j, i) else (i, j)
  Int.fdiv (ij.1 * (2 * n - ij.1 - 3)) 2 + ij.2 - 1

/-- NumPy `a[idx] = v` on a 1-d array: `none` = IndexError -/
def npSet (l : List Int) (idx v : Int) : Option (List Int) :=
  let len : Int := Int.ofNat l.length
  if 0 ≤ idx ∧ idx < len then some (l.set idx.toNat v)
  else if -len ≤ idx ∧ idx < 0 then some (l.set (idx + len).toNat v)
  else none

/-- how the explicit-pair loop of `put_model` ends -/
inductive Outcome where
  /-- the loop completes; `put_model` goes on with this `nxn_pairid_contact` -/
  | ok (table : List Int)
  /-- the NumPy write `nxn_pairid_contact[idx] = i` raises IndexError -/
  | indexError
  /-- `raise NotImplementedError("Contact pair i: a pair of a geom with itself is not supported.")` -/
  | notImplemented
  deriving DecidableEq, Repr

/-- `for i in range(k, npair):`
      `if pair_geom1[i] == pair_geom2[i]: raise NotImplementedError(...)`
      `t[upper_tri_index(ngeom, pair_geom1[i], pair_geom2[i])] = i` -/
def applyPairs (n : Int) : List (Int × Int) → Nat → List Int → Outcome
  | [], _, t => .ok t
  | p :: ps, k, t =>
    if p.1 = p.2 then .notImplemented
    else
      match npSet t (upperTriIndex n p.1 p.2) (Int.ofNat k) with
      | none => .indexError
      | some t' => applyPairs n ps (k + 1) t'

/-- the contact column of `m.nxn_pairid` (`nxn_pairid_contact`): `-2` filtered, `-1` geom-geom pair,
    `≥ 0` explicit pair id; or the exception raised by the explicit-pair loop. -/
def pairTable (c : Cfg) : Outcome :=
  applyPairs (Int.ofNat c.ngeom) c.pairs 0 (baseTable c)

/-- `nxn_include = (nxn_pairid_contact > -2) | (nxn_pairid_collision >= 0)` -/
def includeMask (contact collision : List Int) : List Bool :=
  List.zipWith (fun a s => decide (a > -2) || decide (s ≥ 0)) contact collision

/-- `x[nxn_include]` -/
def compress {α : Type} : List Bool → List α → List α
  | b :: bs, x :: xs => if b then x :: compress bs xs else compress bs xs
  | _, _ => []

/-- `(m.nxn_geom_pair_filtered, m.nxn_pairid_filtered)` zipped: what one `_nxn_broadphase` launch iterates over -/
def filtered (n : Nat) (contact collision : List Int) : List ((Nat × Nat) × (Int × Int)) :=
  compress (includeMask contact collision) ((triu n).zip (contact.zip collision))

/-- the in-kernel test of `_sap_broadphase`: `if pairid[0] < -1 and pairid[1] < 0: continue` -/
def sapSkips (pairid : Int × Int) : Bool := decide (pairid.1 < -1) && decide (pairid.2 < 0)

/-! ### specification-side helpers (used to STATE `Props/C19.lean`; not part of the transcription) -/

/-- index (counted from `k`) of the LAST element of the list satisfying `m` -/
def lastMatch {α : Type} (m : α → Bool) : List α → Nat → Option Nat
  | [], _ => none
  | p :: ps, k =>
    match lastMatch m ps (k + 1) with
    | some r => some r
    | none => if m p then some k else none

/-- does the explicit pair `p = (pair_geom1[i], pair_geom2[i])` list the geoms `{g1, g2}` (either order) -/
def listsPair (g1 g2 : Int) (p : Int × Int) : Bool := (p.1 == g1 && p.2 == g2) || (p.1 == g2 && p.2 == g1)

/-- id of the LAST explicit pair that lists `{g1, g2}` -/
def explicitId (pairs : List (Int × Int)) (g1 g2 : Int) : Option Nat := lastMatch (listsPair g1 g2) pairs 0

/-! ### text interface -/

/-- NumPy read `a[i]` of a 1-d array: negative indices wrap once; `none` = IndexError -/
def npGet (l : List Int) (i : Int) : Option Int :=
  let len : Int := Int.ofNat l.length
  if 0 ≤ i ∧ i < len then l[i.toNat]?
  else if -len ≤ i ∧ i < 0 then l[(i + len).toNat]?
  else none

/-- would any of the fancy-indexing reads of the block raise IndexError? (checked for every pair, as NumPy does) -/
def readsOk (ngeom : Nat) (gb bw bp : List Int) : Bool :=
  (List.range ngeom).all (fun g =>
    match npGet gb (Int.ofNat g) with
    | none => false
    | some b =>
      match npGet bw b with
      | none => false
      | some w =>
        match npGet bp w with
        | none => false
        | some p => (npGet bw p).isSome)

def parseInts (l : List String) : Option (List Int) := l.mapM String.toInt?

def fmtInts (l : List Int) : String := " ".intercalate (l.map toString)

/-- list → total function with NumPy wrap (out of range reads are excluded beforehand by `readsOk`) -/
def asFun (l : List Int) : Int → Int := fun i => (npGet l i).getD 0

def proto (args : List String) : Option String := do
  let xs ← parseInts args
  match xs with
  | ngeom :: nbody :: fp :: npair :: nexcl :: rest =>
    if ngeom < 0 ∨ nbody < 0 ∨ npair < 0 ∨ nexcl < 0 ∨ (fp ≠ 0 ∧ fp ≠ 1) then none else
    let ng := ngeom.toNat; let nb := nbody.toNat; let np := npair.toNat; let ne := nexcl.toNat
    if rest.length ≠ 3 * ng + 2 * nb + 2 * np + ne then none else
    let gb := rest.take ng; let rest := rest.drop ng
    let ct := rest.take ng; let rest := rest.drop ng
    let ca := rest.take ng; let rest := rest.drop ng
    let bw := rest.take nb; let rest := rest.drop nb
    let bp := rest.take nb; let rest := rest.drop nb
    let p1 := rest.take np; let rest := rest.drop np
    let p2 := rest.take np; let rest := rest.drop np
    let ex := rest
    -- with fewer than 2 geoms no fancy-indexing read happens (empty index arrays)
    if ng ≥ 2 ∧ !(readsOk ng gb bw bp) then some "ERR" else
    let c : Cfg := { ngeom := ng, geom_bodyid := asFun gb, geom_contype := asFun ct, geom_conaffinity := asFun ca,
                     body_weldid := asFun bw, body_parentid := asFun bp, filterparent := fp == 1,
                     pairs := p1.zip p2, excludes := ex }
    match pairTable c with
    | .indexError => some "ERR"
    | .notImplemented => some "NOTIMPL"
    | .ok t => some (fmtInts t)
  | _ => none

/-! ### executable sanity checks -/

#guard triu 4 == [(0, 1), (0, 2), (0, 3), (1, 2), (1, 3), (2, 3)]
#guard (triu 4).map (fun (p : Nat × Nat) => upperTriIndex 4 p.1 p.2) == [0, 1, 2, 3, 4, 5]
#guard (triu 5).map (fun (p : Nat × Nat) => upperTriIndex 5 p.2 p.1) == (List.range 10).map Int.ofNat

/-- world(0) ← body1 ← body2 (chain), body3 child of world; geoms: g0 on world, g1 on body1, g2 on body2,
    g3 on body3; all contype = conaffinity = 1; exclude (body1, body3) -/
private def exCfg (fp : Bool) (pairs : List (Int × Int)) : Cfg :=
  { ngeom := 4, geom_bodyid := asFun [0, 1, 2, 3], geom_contype := fun _ => 1, geom_conaffinity := fun _ => 1,
    body_weldid := asFun [0, 1, 2, 3], body_parentid := asFun [0, 0, 1, 0], filterparent := fp,
    pairs := pairs, excludes := [1 * 65536 + 3] }

-- (0,1) world-child: kept (weld 0 is exempt from the parent filter); (1,2) parent-child: filtered; (1,3) excluded
#guard pairTable (exCfg true []) == .ok [-1, -1, -1, -2, -2, -1]
#guard pairTable (exCfg false []) == .ok [-1, -1, -1, -1, -2, -1]
-- explicit pairs override the filter, either order, last one wins
#guard pairTable (exCfg true [(2, 1), (1, 2), (3, 0)]) == .ok [-1, -1, 2, 1, -2, -1]
-- a pair of a geom with itself is rejected (its index would be -1 = the LAST entry for (0,0), 5 = the slot of (2,3) for (3,3))
#guard pairTable (exCfg true [(0, 0)]) == .notImplemented
#guard pairTable (exCfg true [(3, 3)]) == .notImplemented
#guard pairTable (exCfg true [(2, 1), (3, 3), (0, 7)]) == .notImplemented
-- (0,7) has index 6: IndexError; the first offending pair decides
#guard pairTable (exCfg true [(0, 7)]) == .indexError
#guard pairTable (exCfg true [(0, 7), (3, 3)]) == .indexError
#guard proto ["2", "2", "1", "0", "0", "0", "1", "1", "1", "1", "1", "0", "1", "0", "0"] == some "-1"
#guard proto ["2", "2", "1", "0", "0", "0", "7", "1", "1", "1", "1", "0", "1", "0", "0"] == some "ERR"
#guard proto ["1", "1", "1", "0", "0", "0", "1", "1", "0", "0"] == some ""
-- two geoms, one explicit pair (1,1): NotImplementedError; also with a single geom (the loop does not depend on ngeom)
#guard proto ["2", "2", "1", "1", "0", "0", "1", "1", "1", "1", "1", "0", "1", "0", "0", "1", "1"] == some "NOTIMPL"
#guard proto ["1", "1", "1", "1", "0", "0", "1", "1", "0", "0", "0", "0"] == some "NOTIMPL"
#guard proto ["2", "2"] == none

end Mjw.PairFilter
