/-
  Scalar: the core-only numeric interface every generated definition is generic over.
  Instances here: Float (binary64), Float32 (binary32).  ℝ lives in Lemmas/Real.lean (Mathlib).
  Comparisons are Bool-valued so that generated `if` conditions evaluate on floats and are
  rewritten to propositions over ℝ by simp lemmas.
-/
namespace Mjw

/-- int32 bit operations (Warp `int` is 32-bit two's complement) -/
def iand (a b : Int) : Int := (BitVec.ofInt 32 a &&& BitVec.ofInt 32 b).toInt
def ior (a b : Int) : Int := (BitVec.ofInt 32 a ||| BitVec.ofInt 32 b).toInt
def ixor (a b : Int) : Int := (BitVec.ofInt 32 a ^^^ BitVec.ofInt 32 b).toInt
def inot (a : Int) : Int := (~~~ BitVec.ofInt 32 a).toInt
def ishl (a b : Int) : Int := (BitVec.ofInt 32 a <<< b.toNat).toInt
def ishr (a b : Int) : Int := (BitVec.sshiftRight (BitVec.ofInt 32 a) b.toNat).toInt

class Scalar (K : Type) where
  add : K → K → K
  sub : K → K → K
  mul : K → K → K
  div : K → K → K
  neg : K → K
  lit : Int → Int → K          -- lit m e = m * 10^e
  lt : K → K → Bool
  le : K → K → Bool
  beq : K → K → Bool
  abs : K → K
  min : K → K → K
  max : K → K → K
  sqrt : K → K
  sin : K → K
  cos : K → K
  tan : K → K
  asin : K → K
  acos : K → K
  atan2 : K → K → K
  exp : K → K
  log : K → K
  pow : K → K → K
  floor : K → K
  ceil : K → K
  isnan : K → Bool
  pi : K
  ofInt : Int → K
  toInt : K → Int              -- C-style truncation (Warp `int(x)`)

namespace Scalar
variable {K : Type} [Scalar K]
instance : Add K := ⟨Scalar.add⟩
instance : Sub K := ⟨Scalar.sub⟩
instance : Mul K := ⟨Scalar.mul⟩
instance : Div K := ⟨Scalar.div⟩
instance : Neg K := ⟨Scalar.neg⟩
@[reducible] def zero : K := Scalar.lit 0 0
@[reducible] def one : K := Scalar.lit 1 0
@[reducible] def two : K := Scalar.lit 2 0
def gt (a b : K) : Bool := Scalar.lt b a
def ge (a b : K) : Bool := Scalar.le b a
def bne (a b : K) : Bool := !(Scalar.beq a b)
/-- Warp `wp.clamp(x, a, b) = min(max(x, a), b)` -/
def clamp (x a b : K) : K := Scalar.min (Scalar.max a x) b
/-- Warp `wp.sign(x)`: -1 for x < 0, else 1 -/
def sign (x : K) : K := if Scalar.lt x (Scalar.lit 0 0) then Scalar.lit (-1) 0 else Scalar.lit 1 0
end Scalar

private def floatLit (m e : Int) : Float :=
  let a := Float.ofScientific m.natAbs (e < 0) e.natAbs
  if m < 0 then -a else a

private def floatToInt (x : Float) : Int :=
  if x < 0 then -((-x).toUInt64.toNat : Int) else (x.toUInt64.toNat : Int)

instance : Scalar Float where
  add := Float.add
  sub := Float.sub
  mul := Float.mul
  div := Float.div
  neg := Float.neg
  lit := floatLit
  lt a b := a < b
  le a b := a ≤ b
  beq a b := a == b
  abs := Float.abs
  min a b := if a.isNaN then b else if b.isNaN then a else if a < b then a else b   -- fminf
  max a b := if a.isNaN then b else if b.isNaN then a else if a > b then a else b   -- fmaxf
  sqrt := Float.sqrt
  sin := Float.sin
  cos := Float.cos
  tan := Float.tan
  asin x := Float.asin (if x < -1 then -1 else if x > 1 then 1 else x)   -- Warp clamps the argument
  acos x := Float.acos (if x < -1 then -1 else if x > 1 then 1 else x)
  atan2 := Float.atan2
  exp := Float.exp
  log := Float.log
  pow := Float.pow
  floor := Float.floor
  ceil := Float.ceil
  isnan := Float.isNaN
  pi := 3.14159265358979323846
  ofInt i := Float.ofInt i
  toInt := floatToInt

private def float32Lit (m e : Int) : Float32 := (floatLit m e).toFloat32

private def float32ToInt (x : Float32) : Int := floatToInt x.toFloat

instance : Scalar Float32 where
  add := Float32.add
  sub := Float32.sub
  mul := Float32.mul
  div := Float32.div
  neg := Float32.neg
  lit := float32Lit
  lt a b := a < b
  le a b := a ≤ b
  beq a b := a == b
  abs := Float32.abs
  min a b := if a.isNaN then b else if b.isNaN then a else if a < b then a else b   -- fminf
  max a b := if a.isNaN then b else if b.isNaN then a else if a > b then a else b   -- fmaxf
  sqrt := Float32.sqrt
  sin := Float32.sin
  cos := Float32.cos
  tan := Float32.tan
  asin x := Float32.asin (if x < -1 then -1 else if x > 1 then 1 else x)
  acos x := Float32.acos (if x < -1 then -1 else if x > 1 then 1 else x)
  atan2 := Float32.atan2
  exp := Float32.exp
  log := Float32.log
  pow := Float32.pow
  floor := Float32.floor
  ceil := Float32.ceil
  isnan := Float32.isNaN
  pi := (3.14159265358979323846 : Float).toFloat32
  ofInt i := (Float.ofInt i).toFloat32
  toInt := float32ToInt

end Mjw
