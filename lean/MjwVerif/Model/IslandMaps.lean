/-
  Hand-written protocol model (E2) of the *island index maps* of
  /repo/mujoco_warp/_src/island.py, host function `compute_island_mapping`:

      _init_island_arrays, _init_dof_arrays, _init_efc_arrays       (zero / -1 initialisation)
      _island_count_dofs          island_nv[c]   += 1   for every dof of island c
      _island_count_constraints   island_nefc[c] += 1,  island_ne[c] / island_nf[c] += 1 by category
      _island_scan_sizes          island_idofadr / island_iefcadr = exclusive prefix sums, nidof = total,
                                  island_nv / island_nefc reset to 0 on [0, nisland)
      _island_map_dofs            slot = adr[c] + atomic_add(island_nv[c], 1)        (or nidof + atomic_add(cnt))
      _island_map_constraints     slot = iefcadr[c] (+ne[c]) (+nf[c]) + atomic_add(category counter[c], 1)

  What is modelled
  ----------------
  ONE world.  A launch = its tasks executed one after another in the order given by a list `order`
  (any permutation of the grid `0..n-1`).  The value `wp.atomic_add` returns to a task is the content of
  the counter cell at the task's turn: `mapDofs` / `mapEfcs` read it from the CURRENT state and hand it to
  the task function (`mapDofTask` / `mapEfcTask`), which has the same interface as the generated kernel
  (`alloc0`, `alloc1`, … are parameters).  Arrays are functions `Int → Int` (one world's row).

  The closed form of the race: `rank key order t` = number of tasks before `t` in `order` with the same
  key (= same counter cell), `slot key order t = Σ_{b < key t} #{key = b} + rank key order t`.

  What is abstracted: other worlds (tasks of different worlds touch disjoint cells), int32 wrap-around.

  Also here: `IMem` / `applyWrites`, an integer-memory semantics of write lists (`set` replaces, `aadd` /
  `alloc` add, `amin` takes the min, …) used by the launch-level statements of `Props/C28Maps.lean`.

  Core Lean only; everything is executable.
-/
import MjwVerif.Model.Kernel
namespace Mjw.IslandMaps

/-! ## generic: counting sort with racing arrivals -/

/-- number of tasks of `l` whose key is `b` -/
def cnt (key : Nat → Nat) (l : List Nat) (b : Nat) : Nat := l.countP (fun t => key t == b)

/-- number of tasks BEFORE `t` in `l` that have the same key as `t`
    (= what `atomic_add(counter[key t], 1)` returns to task `t` when the counter starts at 0) -/
def rank (key : Nat → Nat) : List Nat → Nat → Nat
  | [], _ => 0
  | a :: l, t => if a = t then 0 else (if key a = key t then 1 else 0) + rank key l t

/-- exclusive prefix sum `Σ_{k<n} f k` over ℕ -/
def psumN (f : Nat → Nat) : Nat → Nat
  | 0 => 0
  | n + 1 => psumN f n + f n

/-- the slot task `t` ends up with: start of its key's block + arrival rank inside the block -/
def slot (key : Nat → Nat) (l : List Nat) (t : Nat) : Nat := psumN (cnt key l) (key t) + rank key l t

/-- the task that ends up in slot `i` (0 if none) -/
def invSlot (key : Nat → Nat) (l : List Nat) (i : Nat) : Nat :=
  (l.find? (fun t => slot key l t == i)).getD 0

/-- exclusive prefix sum `Σ_{k<n} f k` of an integer array -/
def psum (f : Int → Int) : Nat → Int
  | 0 => 0
  | n + 1 => psum f n + f (n : Int)

/-- array update -/
def upd (f : Int → Int) (i v : Int) : Int → Int := fun x => if x = i then v else f x

/-! ## `_island_count_dofs`, `_island_count_constraints` -/

/-- writes of one `_island_count_dofs` task; `isl = tree_island[w, dof_treeid[d]]` -/
def countDofWrites {K : Type} (w d isl : Int) : List (Write K) :=
  [(Write.mk "dof_island_out" [w, d] (WVal.i isl) WKind.set : Write K)]
  ++ (if isl ≥ 0 then [(Write.mk "island_nv_out" [w, isl] (WVal.i 1) WKind.aadd : Write K)] else [])

/-- `island_nv` after the count launch (tasks in `order`), from `nv0` -/
def countDofs (isl : Nat → Int) (order : List Nat) (nv0 : Int → Int) : Int → Int :=
  order.foldl (fun f d => if isl d ≥ 0 then upd f (isl d) (f (isl d) + 1) else f) nv0

/-- constraint category: 0 = EQUALITY (type 0), 1 = FRICTION_DOF / FRICTION_TENDON (types 1, 2), 2 = the rest -/
def cat (ty : Int) : Nat := if ty = 0 then 0 else if ty = 1 ∨ ty = 2 then 1 else 2

/-- `efc_island` as computed by `_island_count_constraints` from `efc_tree` and `tree_island` -/
def efcIsland (efcTree : Int) (treeIsland : Int → Int) : Int :=
  if efcTree < 0 then -1 else treeIsland efcTree

/-- writes of one `_island_count_constraints` task; `active` = `efcid < min(njmax, nefc[w])` -/
def countEfcWrites {K : Type} (w e : Int) (active : Bool) (efcTree : Int) (treeIsland : Int → Int) (ty : Int) :
    List (Write K) :=
  if !active then []
  else if efcTree < 0 then [(Write.mk "efc_island_out" [w, e] (WVal.i (-1)) WKind.set : Write K)]
  else
    let isl := treeIsland efcTree
    [(Write.mk "efc_island_out" [w, e] (WVal.i isl) WKind.set : Write K)]
    ++ (if isl ≥ 0 then
          [(Write.mk "island_nefc_out" [w, isl] (WVal.i 1) WKind.aadd : Write K)]
          ++ (if cat ty = 0 then [(Write.mk "island_ne_out" [w, isl] (WVal.i 1) WKind.aadd : Write K)]
              else if cat ty = 1 then [(Write.mk "island_nf_out" [w, isl] (WVal.i 1) WKind.aadd : Write K)]
              else [])
        else [])

/-- the three per-island constraint counters -/
structure EfcCounts where
  nefc : Int → Int
  ne : Int → Int
  nf : Int → Int

def countEfcTask (isl ty : Int) (s : EfcCounts) : EfcCounts :=
  if isl ≥ 0 then
    { nefc := upd s.nefc isl (s.nefc isl + 1),
      ne := if cat ty = 0 then upd s.ne isl (s.ne isl + 1) else s.ne,
      nf := if cat ty = 1 then upd s.nf isl (s.nf isl + 1) else s.nf }
  else s

/-- counters after the count launch over the active constraints `order` -/
def countEfcs (eisl ety : Nat → Int) (order : List Nat) (s : EfcCounts) : EfcCounts :=
  order.foldl (fun s e => countEfcTask (eisl e) (ety e) s) s

/-! ## `_island_scan_sizes` -/

/-- the write list of the single `_island_scan_sizes` task of world `w`, in closed form
    (`nvc`, `nefc` = pre-launch `island_nv[w,·]`, `island_nefc[w,·]`) -/
def scanWrites {K : Type} (w : Int) (nisland : Int) (nvc nefc : Int → Int) : List (Write K) :=
  if nisland = 0 then [(Write.mk "nidof_out" [w] (WVal.i 0) WKind.set : Write K)]
  else
    [(Write.mk "island_idofadr_out" [w, 0] (WVal.i 0) WKind.set : Write K),
     (Write.mk "island_iefcadr_out" [w, 0] (WVal.i 0) WKind.set : Write K)]
    ++ (List.range (nisland - 1).toNat).flatMap (fun (k : Nat) =>
        [(Write.mk "island_idofadr_out" [w, 1 + (k : Int)] (WVal.i (psum nvc (k + 1))) WKind.set : Write K),
         (Write.mk "island_iefcadr_out" [w, 1 + (k : Int)] (WVal.i (psum nefc (k + 1))) WKind.set : Write K)])
    ++ [(Write.mk "nidof_out" [w] (WVal.i (psum nvc nisland.toNat)) WKind.set : Write K)]
    ++ (List.range nisland.toNat).flatMap (fun (k : Nat) =>
        [(Write.mk "island_nv_inout" [w, 0 + (k : Int)] (WVal.i 0) WKind.set : Write K),
         (Write.mk "island_nefc_inout" [w, 0 + (k : Int)] (WVal.i 0) WKind.set : Write K)])

/-- result of the scan on one world's arrays -/
structure Scan where
  idofadr : Int → Int
  iefcadr : Int → Int
  nidof : Int
  islandNv : Int → Int
  islandNefc : Int → Int

/-- `_island_scan_sizes` as a function: prefix sums on `[0, nisland)`, other cells keep their
    pre-launch content (`adr0` … : 0 after `_init_island_arrays`); counters reset on `[0, nisland)` -/
def scanSizes (nisland : Nat) (nvc nefc : Int → Int) (idofadr0 iefcadr0 : Int → Int) : Scan :=
  { idofadr := fun c => if 0 ≤ c ∧ c < nisland then psum nvc c.toNat else idofadr0 c,
    iefcadr := fun c => if 0 ≤ c ∧ c < nisland then psum nefc c.toNat else iefcadr0 c,
    nidof := psum nvc nisland,
    islandNv := fun c => if 0 ≤ c ∧ c < nisland then 0 else nvc c,
    islandNefc := fun c => if 0 ≤ c ∧ c < nisland then 0 else nefc c }

/-! ## `_island_map_dofs` -/

/-- writes of one `_island_map_dofs` task.  `isl = dof_island[w,d]`, `adr = island_idofadr[w,isl]`,
    `nidof = nidof[w]`, `a0` / `a1` = the values returned by the two `atomic_add`s. -/
def mapDofWrites {K : Type} (w d isl adr nidof a0 a1 : Int) : List (Write K) :=
  if isl ≥ 0 then
    [(Write.mk "island_nv_inout" [w, isl] (WVal.i 1) WKind.alloc : Write K),
     (Write.mk "idof_islandid_out" [w, adr + a0] (WVal.i isl) WKind.set : Write K),
     (Write.mk "island_dofadr_out" [w, isl] (WVal.i d) WKind.amin : Write K),
     (Write.mk "map_dof2idof_out" [w, d] (WVal.i (adr + a0)) WKind.set : Write K),
     (Write.mk "map_idof2dof_out" [w, adr + a0] (WVal.i d) WKind.set : Write K)]
  else
    [(Write.mk "unconstrained_cnt_inout" [w, 0] (WVal.i 1) WKind.alloc : Write K),
     (Write.mk "map_dof2idof_out" [w, d] (WVal.i (nidof + a1)) WKind.set : Write K),
     (Write.mk "map_idof2dof_out" [w, nidof + a1] (WVal.i d) WKind.set : Write K)]

/-- one world's cells touched by `_island_map_dofs` -/
structure DofMem where
  islandNv : Int → Int      -- island_nv[w, ·]   (the per-island slot counter)
  uncnt : Int               -- unconstrained_cnt[w, 0]
  dofadr : Int → Int        -- island_dofadr[w, ·]
  dof2idof : Int → Int      -- map_dof2idof[w, ·]
  idof2dof : Int → Int      -- map_idof2dof[w, ·]
  idofIsland : Int → Int    -- dof_islandid[w, ·]  (kernel parameter `idof_islandid_out`)

/-- effect of one `_island_map_dofs` task on the world's cells, given the atomics' return values -/
def mapDofTask (isl adr nidof a0 a1 : Int) (d : Int) (s : DofMem) : DofMem :=
  if isl ≥ 0 then
    { islandNv := upd s.islandNv isl (s.islandNv isl + 1),
      uncnt := s.uncnt,
      dofadr := upd s.dofadr isl (min (s.dofadr isl) d),
      dof2idof := upd s.dof2idof d (adr + a0),
      idof2dof := upd s.idof2dof (adr + a0) d,
      idofIsland := upd s.idofIsland (adr + a0) isl }
  else
    { islandNv := s.islandNv,
      uncnt := s.uncnt + 1,
      dofadr := s.dofadr,
      dof2idof := upd s.dof2idof d (nidof + a1),
      idof2dof := upd s.idof2dof (nidof + a1) d,
      idofIsland := s.idofIsland }

/-- the launch: tasks in `order`; each task's `atomic_add` results are the CURRENT counter contents -/
def mapDofs (isl : Nat → Int) (adr : Int → Int) (nidof : Int) (order : List Nat) (s : DofMem) : DofMem :=
  order.foldl (fun s d => mapDofTask (isl d) (adr (isl d)) nidof (s.islandNv (isl d)) s.uncnt d s) s

/-- the whole dof pipeline of `compute_island_mapping` for one world:
    init (zeros / -1 / `island_dofadr.fill_(nv)` / `unconstrained_cnt = zeros`), count in `order1`,
    scan, map in `order2`.  `isl d = tree_island[w, dof_treeid[d]]`. -/
def dofPipeline (nv nisland : Nat) (isl : Nat → Int) (order1 order2 : List Nat) : DofMem × Scan :=
  let nvc := countDofs isl order1 (fun _ => 0)
  let sc := scanSizes nisland nvc (fun _ => 0) (fun _ => 0) (fun _ => 0)
  (mapDofs isl sc.idofadr sc.nidof order2
    ⟨sc.islandNv, 0, fun _ => nv, fun _ => 0, fun _ => 0, fun _ => -1⟩, sc)

/-- number of tasks of `l` on island `c` -/
def cntI (isl : Nat → Int) (l : List Nat) (c : Int) : Nat := l.countP (fun t => isl t == c)

/-- `#{t < n | isl t = c}` as an integer -/
def islandCount (n : Nat) (isl : Nat → Int) (c : Int) : Int := (cntI isl (List.range n) c : Nat)

/-- sorting key of a dof: its island, or the extra bucket `nisland` for dofs without island -/
def dofKey (nisland : Nat) (isl : Nat → Int) (d : Nat) : Nat :=
  if 0 ≤ isl d then (isl d).toNat else nisland

/-! ## `_island_map_constraints` -/

/-- writes of one `_island_map_constraints` task.  `active` = `efcid < min(njmax, nefc[w])`,
    `isl = efc_island[w,e]`, `ty = efc_type[w,e]`, `adr/ne/nf = island_iefcadr/ne/nf[w,isl]`,
    `a0 a1 a2` = return values of the `atomic_add` on `ne_mapped / nf_mapped / nother_mapped`. -/
def mapEfcWrites {K : Type} (w e : Int) (active : Bool) (isl ty adr ne nf a0 a1 a2 : Int) : List (Write K) :=
  if !active then []
  else if isl ≥ 0 then
    let ctr : String := if cat ty = 0 then "island_ne_mapped_inout"
      else if cat ty = 1 then "island_nf_mapped_inout" else "island_nother_mapped_inout"
    let ic : Int := if cat ty = 0 then adr + a0 else if cat ty = 1 then adr + ne + a1 else adr + ne + nf + a2
    [(Write.mk ctr [w, isl] (WVal.i 1) WKind.alloc : Write K),
     (Write.mk "island_nefc_inout" [w, isl] (WVal.i 1) WKind.aadd : Write K),
     (Write.mk "map_efc2iefc_out" [w, e] (WVal.i ic) WKind.set : Write K),
     (Write.mk "map_iefc2efc_out" [w, ic] (WVal.i e) WKind.set : Write K),
     (Write.mk "iefc_islandid_out" [w, ic] (WVal.i isl) WKind.set : Write K)]
  else []

/-- one world's cells touched by `_island_map_constraints` -/
structure EfcMem where
  neMapped : Int → Int
  nfMapped : Int → Int
  notherMapped : Int → Int
  islandNefc : Int → Int
  efc2iefc : Int → Int
  iefc2efc : Int → Int
  iefcIsland : Int → Int     -- efc_islandid[w, ·]  (kernel parameter `iefc_islandid_out`)

/-- effect of one ACTIVE `_island_map_constraints` task, given the atomics' return values -/
def mapEfcTask (isl ty adr ne nf a0 a1 a2 : Int) (e : Int) (s : EfcMem) : EfcMem :=
  if isl ≥ 0 then
    let ic : Int := if cat ty = 0 then adr + a0 else if cat ty = 1 then adr + ne + a1 else adr + ne + nf + a2
    { neMapped := if cat ty = 0 then upd s.neMapped isl (s.neMapped isl + 1) else s.neMapped,
      nfMapped := if cat ty = 1 then upd s.nfMapped isl (s.nfMapped isl + 1) else s.nfMapped,
      notherMapped := if cat ty = 0 ∨ cat ty = 1 then s.notherMapped else upd s.notherMapped isl (s.notherMapped isl + 1),
      islandNefc := upd s.islandNefc isl (s.islandNefc isl + 1),
      efc2iefc := upd s.efc2iefc e ic,
      iefc2efc := upd s.iefc2efc ic e,
      iefcIsland := upd s.iefcIsland ic isl }
  else s

/-- the launch over the active constraints (`efcid < min(njmax, nefc)`) in `order` -/
def mapEfcs (eisl ety : Nat → Int) (adr ne nf : Int → Int) (order : List Nat) (s : EfcMem) : EfcMem :=
  order.foldl (fun s e => mapEfcTask (eisl e) (ety e) (adr (eisl e)) (ne (eisl e)) (nf (eisl e))
    (s.neMapped (eisl e)) (s.nfMapped (eisl e)) (s.notherMapped (eisl e)) e s) s

/-- the whole constraint pipeline for one world: init, count in `order1`, scan, map in `order2`.
    `eisl e` = `efc_island[w,e]` as written by the count pass, `ety e = efc_type[w,e]`. -/
def efcPipeline (nisland : Nat) (eisl ety : Nat → Int) (order1 order2 : List Nat) : EfcMem × EfcCounts × Scan :=
  let c := countEfcs eisl ety order1 ⟨fun _ => 0, fun _ => 0, fun _ => 0⟩
  let sc := scanSizes nisland (fun _ => 0) c.nefc (fun _ => 0) (fun _ => 0)
  (mapEfcs eisl ety sc.iefcadr c.ne c.nf order2
    ⟨fun _ => 0, fun _ => 0, fun _ => 0, sc.islandNefc, fun _ => 0, fun _ => 0, fun _ => -1⟩, c, sc)

/-- number of constraints of `l` on island `c` with category `j` -/
def cntC (eisl ety : Nat → Int) (l : List Nat) (c : Int) (j : Nat) : Nat :=
  l.countP (fun e => eisl e == c && cat (ety e) == j)

/-- `#{e < n | eisl e = c ∧ cat (ety e) = j}` as an integer -/
def catCount (n : Nat) (eisl ety : Nat → Int) (c : Int) (j : Nat) : Int := (cntC eisl ety (List.range n) c j : Nat)

/-- sorting key of a constraint: `3·island + category`, or the extra bucket `3·nisland` -/
def efcKey (nisland : Nat) (eisl ety : Nat → Int) (e : Nat) : Nat :=
  if 0 ≤ eisl e then 3 * (eisl e).toNat + cat (ety e) else 3 * nisland

/-! ## integer memory semantics of write lists (for the end-to-end statements) -/

/-- integer memory: array name → index → value -/
abbrev IMem := String → List Int → Int

def IMem.set (m : IMem) (arr : String) (idx : List Int) (v : Int) : IMem :=
  fun a i => if a = arr ∧ i = idx then v else m a i

/-- effect of one integer write (`set` replaces, `aadd`/`alloc` add, `asub` subtracts, `amin`/`amax`/`aor`);
    agrees with `Write.lookupI` (`applyWrites_eq_lookupI`) -/
def applyWrite {K : Type} (m : IMem) (x : Write K) : IMem :=
  match x.val with
  | .i v =>
    match x.kind with
    | .set => m.set x.arr x.idx v
    | .aadd => m.set x.arr x.idx (m x.arr x.idx + v)
    | .alloc => m.set x.arr x.idx (m x.arr x.idx + v)
    | .asub => m.set x.arr x.idx (m x.arr x.idx - v)
    | .amin => m.set x.arr x.idx (min (m x.arr x.idx) v)
    | .amax => m.set x.arr x.idx (max (m x.arr x.idx) v)
    | .aor => m.set x.arr x.idx (Mjw.ior (m x.arr x.idx) v)
    | .aand => m
  | _ => m

def applyWrites {K : Type} (m : IMem) (ws : List (Write K)) : IMem := ws.foldl applyWrite m

/-- project a write list to something decidable -/
def wproj {K : Type} (ws : List (Write K)) : List (String × List Int × Int × WKind) :=
  ws.filterMap (fun x => match x.val with | .i v => some (x.arr, x.idx, v, x.kind) | _ => none)

/-! ## small concrete instance used in examples: nv = 5, islands [1,0,-1,1,0] -/

def isl5 : Nat → Int := fun d => [1, 0, -1, 1, 0].getD d (-1)

def snapDof (n : Nat) (s : DofMem) : List Int × List Int × List Int × List Int × List Int :=
  ((List.range n).map (fun (d : Nat) => s.dof2idof d), (List.range n).map (fun (i : Nat) => s.idof2dof i),
   (List.range n).map (fun (i : Nat) => s.idofIsland i), (List.range 2).map (fun (c : Nat) => s.islandNv c),
   (List.range 2).map (fun (c : Nat) => s.dofadr c))

/-! 6 active constraints: islands [0,-1,1,0,1,0], types [5,0,0,1,3,0]
    (5 = contact → "other", 0 = equality, 1 = friction dof, 3 = limit → "other") -/

def eisl6 : Nat → Int := fun e => [0, -1, 1, 0, 1, 0].getD e (-1)
def ety6 : Nat → Int := fun e => [5, 0, 0, 1, 3, 0].getD e 5

def snapEfc (n : Nat) (s : EfcMem) : List Int × List Int × List Int × List Int :=
  ((List.range n).map (fun (e : Nat) => s.efc2iefc e), (List.range n).map (fun (i : Nat) => s.iefc2efc i),
   (List.range n).map (fun (i : Nat) => s.iefcIsland i), (List.range 2).map (fun (c : Nat) => s.islandNefc c))

/-- world 0's memory before the `_island_map_dofs` launch of the nv = 5 instance (kernel parameter names) -/
def mem5 : IMem := fun a i => match a, i with
  | "dof_island_in", [0, d] => isl5 d.toNat
  | "island_idofadr_in", [0, c] => [0, 2].getD c.toNat 0
  | "nidof_in", [0] => 4
  | "island_dofadr_out", _ => 5
  | "idof_islandid_out", _ => -1
  | _, _ => 0

/-- world 0's memory before the `_island_map_constraints` launch of the 6-constraint instance -/
def mem6 : IMem := fun a i => match a, i with
  | "nefc_in", [0] => 6
  | "efc_island_in", [0, e] => eisl6 e.toNat
  | "efc_type_in", [0, e] => ety6 e.toNat
  | "island_iefcadr_in", [0, c] => [0, 3].getD c.toNat 0
  | "island_ne_in", [0, c] => [1, 1].getD c.toNat 0
  | "island_nf_in", [0, c] => [1, 0].getD c.toNat 0
  | "iefc_islandid_out", _ => -1
  | _, _ => 0

#eval snapEfc 6 (efcPipeline 2 eisl6 ety6 (List.range 6) (List.range 6)).1
#eval snapEfc 6 (efcPipeline 2 eisl6 ety6 (List.range 6) (List.range 6).reverse).1
#eval snapDof 5 (dofPipeline 5 2 isl5 (List.range 5) (List.range 5)).1
#eval snapDof 5 (dofPipeline 5 2 isl5 (List.range 5) (List.range 5).reverse).1

end Mjw.IslandMaps
