/-
  Hand-written model (E2) of constraint-island discovery in /repo/mujoco_warp/_src/island.py:
  kernel `_flood_fill` (one thread per world), host `flood_fill` / `island`.

  What is modelled
  ----------------
  * the adjacency matrix of ONE world, `adj i j = tree_tree[worldid, i, j]` (`Int`, nonzero = edge),
    trees are `0 .. n-1` (`n = ntree`);
  * the label array `tree_island[worldid, ·]` (`labels : Nat → Int`, `-1` = no island),
  * the explicit DFS stack (`stack : List Nat`, head = top; the array cell of the k-th element from the
    bottom is `stack_scratch[worldid, k]`, so a push writes cell number `stack.length`),
  * the counter `nisland`, and the exact sequence of array writes the thread performs (`trace`).
  * loops: `for i in range(ntree)` = fold over `List.range n`; `while nstack > 0` = `Mjw.whileFuel`
    with explicit fuel (`n * n` is always enough: `Lemmas/C28.lean`).

  The kernel as the host launches it:  `labels_in` and `tree_island_out` are THE SAME ARRAY
  (`d.tree_island`, filled with -1 by the host), `stack_in` and `stack_out` are the same scratch array
  (`wp.empty((nworld, ntree*ntree))`).  The model has one `labels` and one `stack`: a read sees the
  thread's own earlier writes.  `kernelOpen` below is the kernel's control flow with the read
  resolution as a parameter; with `rdAlias` it is definitionally the generated `Gen.Island._flood_fill`
  (`Props/C28.lean`, `flood_fill_gen_eq_kernelOpen`).

  Abstract spec: `Conn n adj` = reflexive-transitive closure of the edge relation on `0..n-1`,
  `component`, `Touched`, `IsMinTree`.

  Core Lean only; everything except the `Prop`-valued spec is executable (`#eval`).
-/
import MjwVerif.Model.Kernel
namespace Mjw.Island

/-! ## Abstract spec -/

/-- adjacency of one world: `adj i j = tree_tree[worldid, i, j]` -/
abbrev Adj := Nat → Nat → Int

/-- an edge between two trees of the world -/
def Edge (n : Nat) (adj : Adj) (a b : Nat) : Prop := a < n ∧ b < n ∧ adj a b ≠ 0

/-- connectivity: reflexive-transitive closure of `Edge` -/
inductive Conn (n : Nat) (adj : Adj) : Nat → Nat → Prop
  | refl (a : Nat) : Conn n adj a a
  | tail {a b c : Nat} : Conn n adj a b → Edge n adj b c → Conn n adj a c

/-- the connected component of tree `i` -/
def component (n : Nat) (adj : Adj) (i : Nat) : Nat → Prop := fun j => Conn n adj i j

/-- symmetric adjacency (what `_tree_edges` produces: every cross edge is written in both directions) -/
def Symm (n : Nat) (adj : Adj) : Prop := ∀ a b, a < n → b < n → adj a b ≠ 0 → adj b a ≠ 0

/-- tree `i` is touched by a constraint: its row has a nonzero entry (self edge or cross edge) -/
def Touched (n : Nat) (adj : Adj) (i : Nat) : Prop := ∃ j, j < n ∧ adj i j ≠ 0

/-- `r` is the smallest tree of the component of `i` -/
def IsMinTree (n : Nat) (adj : Adj) (r i : Nat) : Prop := Conn n adj i r ∧ ∀ w, Conn n adj i w → r ≤ w

/-! ## The kernel model -/

/-- one array write of the thread, relative to its world: `arr[worldid, idx…] = val` -/
structure MW where
  arr : String
  idx : List Int
  val : Int
  deriving DecidableEq, Repr

/-- the write in the kernel calculus -/
def MW.toWrite {K : Type} (worldid : Int) (m : MW) : Write K :=
  Write.mk m.arr (worldid :: m.idx) (WVal.i m.val) WKind.set

/-- pointwise update of the label array -/
def upd (f : Nat → Int) (i : Nat) (v : Int) : Nat → Int := fun j => if j = i then v else f j

/-- the `has_edge` scan of the kernel -/
def touchedB (n : Nat) (adj : Adj) (i : Nat) : Bool := (List.range n).any (fun j => adj i j != 0)

/-- state of the `while nstack > 0` loop -/
structure DState where
  labels : Nat → Int
  /-- head = top of the stack; `stack.length = nstack` -/
  stack : List Nat
  trace : List MW

/-- the neighbours pushed when `v` has just been labelled: increasing order, edge and still unlabelled -/
def pushList (n : Nat) (adj : Adj) (labels : Nat → Int) (v : Nat) : List Nat :=
  (List.range n).filter (fun j => adj v j != 0 && labels j == -1)

/-- the writes `stack_out[worldid, p] = x`, `stack_out[worldid, p+1] = …` of consecutive pushes -/
def pushEvents : Nat → List Nat → List MW
  | _, [] => []
  | p, x :: xs => ⟨"stack_out", [(p : Int)], (x : Int)⟩ :: pushEvents (p + 1) xs

/-- one iteration of `while nstack > 0` for the island number `c` -/
def dfsStep (n : Nat) (adj : Adj) (c : Nat) (s : DState) : DState :=
  match s.stack with
  | [] => s
  | v :: rest =>
    if s.labels v != -1 then { s with stack := rest }
    else
      let labels' := upd s.labels v (c : Int)
      let ps := pushList n adj labels' v
      { labels := labels', stack := ps.reverse ++ rest,
        trace := s.trace ++ (⟨"tree_island_out", [(v : Int)], (c : Int)⟩ :: pushEvents rest.length ps) }

/-- the `while nstack > 0` loop -/
def dfs (fuel : Nat) (n : Nat) (adj : Adj) (c : Nat) (s : DState) : DState :=
  Mjw.whileFuel fuel (fun s => !s.stack.isEmpty) (dfsStep n adj c) s

/-- state of the outer `for i in range(ntree)` loop -/
structure FState where
  labels : Nat → Int
  nisland : Nat
  trace : List MW

/-- one iteration of the outer loop -/
def outerStep (fuel : Nat) (n : Nat) (adj : Adj) (i : Nat) (s : FState) : FState :=
  if s.labels i != -1 then s
  else if !touchedB n adj i then s
  else
    let d := dfs fuel n adj s.nisland ⟨s.labels, [i], s.trace ++ [⟨"stack_out", [0], (i : Int)⟩]⟩
    ⟨d.labels, s.nisland + 1, d.trace⟩

/-- the whole thread, from an arbitrary initial label array -/
def floodFillFrom (L0 : Nat → Int) (fuel : Nat) (n : Nat) (adj : Adj) : FState :=
  (List.range n).foldl (fun s i => outerStep fuel n adj i s) ⟨L0, 0, []⟩

/-- the whole thread as the host runs it: `d.tree_island.fill_(-1)` first -/
def floodFill (fuel : Nat) (n : Nat) (adj : Adj) : FState := floodFillFrom (fun _ => -1) fuel n adj

/-- all array writes of the thread, in program order (the last one is `nisland_out[worldid] = nisland`) -/
def floodFillWrites (L0 : Nat → Int) (fuel : Nat) (n : Nat) (adj : Adj) : List MW :=
  let r := floodFillFrom L0 fuel n adj
  r.trace ++ [⟨"nisland_out", [], (r.nisland : Int)⟩]

/-- printable results -/
def labelList (n : Nat) (s : FState) : List Int := (List.range n).map s.labels

/-- largest stack depth reached in the first `k` iterations of a DFS (for tests of the scratch size) -/
def maxDepth (n : Nat) (adj : Adj) (c : Nat) : Nat → DState → Nat
  | 0, s => s.stack.length
  | k + 1, s => max s.stack.length (maxDepth n adj c k (dfsStep n adj c s))

/-! ## The kernel's control flow with the read resolution as a parameter

`kernelOpen rdL rdS` is, statement by statement, the generated `Gen.Island._flood_fill`, except that a
read of `labels_in[worldid, v]` is `rdL ws v` and a read of `stack_in[worldid, p]` is `rdS ws p`, where
`ws` is the list of writes the thread has performed so far.
* `rdL ws v = Write.lookupI ws "tree_island_out" [worldid, v] (labels_in worldid v)` etc. (`rdAlias`: reads
  see the thread's own writes, because the host passes the same array twice) — this is what the generated
  code does since the translator takes the launch bindings into account;
* `rdL _ v = labels_in worldid v`, `rdS _ p = stack_in worldid p` (`rdPre`: reads see PRE-launch contents) is
  the reading of an earlier translator; it is NOT the kernel (kept only to document the difference). -/
set_option linter.unusedVariables false in
/-- the `has_edge` scan (with its `break` flag) -/
def koHasEdge (ntree : Int) (tree_tree_in : Int → Int → Int → Int) (worldid i : Int) : Int × Bool :=
  Mjw.forRange (0 : Int) ntree ((0 : Int), false) (fun (j : Int) (st : (Int × Bool)) =>
      let (has_edge, brk_2) := st
      if brk_2 then st else
      if (decide ((tree_tree_in worldid i j) ≠ (0 : Int))) then
        let has_edge : Int := (1 : Int)
        (has_edge, true)
      else
        (has_edge, brk_2))

/-- the `for neighbor in range(ntree)` push loop -/
def koPush {K : Type} (rdL : List (Write K) → Int → Int) (ntree : Int) (tree_tree_in : Int → Int → Int → Int)
    (worldid v : Int) (init : List (Write K) × Int) : List (Write K) × Int :=
  Mjw.forRange (0 : Int) ntree init (fun (neighbor : Int) (st : (List (Write K) × Int)) =>
      let (ws, nstack) := st
      let (ws, nstack) :=
        if (decide ((tree_tree_in worldid v neighbor) ≠ (0 : Int))) then
          let (ws, nstack) :=
            if (decide ((rdL ws neighbor) = (-1 : Int))) then
              let ws : List (Write K) := ws ++ [(Write.mk "stack_out" [worldid, nstack] (WVal.i neighbor) WKind.set : Write K)]
              let nstack : Int := (nstack + (1 : Int))
              (ws, nstack)
            else
              (ws, nstack)
          (ws, nstack)
        else
          (ws, nstack)
      (ws, nstack))

/-- body of `while nstack > 0` -/
def koWhileBody {K : Type} (rdL rdS : List (Write K) → Int → Int) (ntree : Int)
    (tree_tree_in : Int → Int → Int → Int) (worldid nisland : Int) (st : Int × List (Write K)) :
    Int × List (Write K) :=
  let (nstack, ws) := st
  let nstack : Int := (nstack - (1 : Int))
  let v : Int := (rdS ws nstack)
  if (decide ((rdL ws v) ≠ (-1 : Int))) then
    (nstack, ws)
  else
    let ws : List (Write K) := ws ++ [(Write.mk "tree_island_out" [worldid, v] (WVal.i nisland) WKind.set : Write K)]
    let (ws, nstack) := koPush rdL ntree tree_tree_in worldid v (ws, nstack)
    (nstack, ws)

set_option linter.unusedVariables false in
/-- body of `for i in range(ntree)` -/
def koOuterBody {K : Type} (rdL rdS : List (Write K) → Int → Int) (ntree : Int)
    (tree_tree_in : Int → Int → Int → Int) (fuel : Nat) (worldid i : Int) (st : List (Write K) × Int) :
    List (Write K) × Int :=
  let (ws, nisland) := st
  if (decide ((rdL ws i) ≠ (-1 : Int))) then
    (ws, nisland)
  else
    let (has_edge, brk_2) := koHasEdge ntree tree_tree_in worldid i
    if (decide (has_edge = (0 : Int))) then
      (ws, nisland)
    else
      let nstack : Int := (0 : Int)
      let ws : List (Write K) := ws ++ [(Write.mk "stack_out" [worldid, nstack] (WVal.i i) WKind.set : Write K)]
      let nstack : Int := (nstack + (1 : Int))
      let (nstack, ws) := Mjw.whileFuel fuel (fun (st : (Int × List (Write K))) =>
          let (nstack, ws) := st
          (decide (nstack > (0 : Int)))) (koWhileBody rdL rdS ntree tree_tree_in worldid nisland) (nstack, ws)
      let nisland : Int := (nisland + (1 : Int))
      (ws, nisland)

def kernelOpen {K : Type} (rdL rdS : List (Write K) → Int → Int)
    (ntree : Int) (tree_tree_in : Int → Int → Int → Int) (fuel : Nat) (tid0 : Int) : List (Write K) :=
  let ws : List (Write K) := []
  let worldid : Int := tid0
  let nisland : Int := (0 : Int)
  let (ws, nisland) := Mjw.forRange (0 : Int) ntree (ws, nisland)
    (fun (i : Int) (st : (List (Write K) × Int)) => koOuterBody rdL rdS ntree tree_tree_in fuel worldid i st)
  let ws : List (Write K) := ws ++ [(Write.mk "nisland_out" [worldid] (WVal.i nisland) WKind.set : Write K)]
  ws

/-- adjacency of world `w` as the model sees it: `adj a b = tree_tree_in[w, a, b]` -/
def adjOf (w : Int) (tt : Int → Int → Int → Int) : Adj := fun a b => tt w (a : Int) (b : Int)

/-- reads see pre-launch contents (NOT what the kernel does; the reading of an earlier translator) -/
def rdPre {K : Type} (pre : Int → Int) : List (Write K) → Int → Int := fun _ v => pre v
/-- reads see the thread's own writes to the aliased output array `out` (the real kernel = the generated code) -/
def rdAlias {K : Type} (out : String) (worldid : Int) (pre : Int → Int) : List (Write K) → Int → Int :=
  fun ws v => Write.lookupI ws out [worldid, v] (pre v)

/-! ## Executable reference (brute force) used as a test oracle in examples -/

/-- undirected adjacency from an edge list (`(i, i)` = self edge) -/
def adjOfEdges (es : List (Nat × Nat)) : Adj :=
  fun i j => if es.contains (i, j) || es.contains (j, i) then 1 else 0

/-- reachability by `n` rounds of relaxation -/
def reachB (n : Nat) (adj : Adj) (i j : Nat) : Bool :=
  let step (r : List Nat) : List Nat :=
    (List.range n).filter (fun b => r.contains b || r.any (fun a => a < n && adj a b != 0))
  ((List.range n).foldl (fun r _ => step r) [i]).contains j || i == j

/-- smallest tree of the component of `i` -/
def compMin (n : Nat) (adj : Adj) (i : Nat) : Nat :=
  ((List.range n).find? (fun r => reachB n adj r i)).getD i

/-- reference labelling: `-1` for untouched trees, otherwise the number of component roots (= touched
    trees that are the smallest of their component) below the component's smallest tree -/
def specLabel (n : Nat) (adj : Adj) (i : Nat) : Int :=
  if touchedB n adj i then
    (((List.range (compMin n adj i)).filter (fun r => touchedB n adj r && compMin n adj r == r)).length : Int)
  else -1

def specLabels (n : Nat) (adj : Adj) : List Int := (List.range n).map (specLabel n adj)
def specNisland (n : Nat) (adj : Adj) : Nat :=
  ((List.range n).filter (fun r => touchedB n adj r && compMin n adj r == r)).length

/-! ### examples -/

/-- 4 trees, edges {0-2, 1-1}: islands {0,2} ↦ 0, {1} ↦ 1, tree 3 untouched -/
def ex4 : Adj := adjOfEdges [(0, 2), (1, 1)]
/-- 6 trees, a path 5-3-1 and an edge 4-0, tree 2 untouched -/
def ex6 : Adj := adjOfEdges [(5, 3), (3, 1), (4, 0)]
/-- complete graph on 5 trees (deep stack) -/
def k5 : Adj := fun i j => if i = j then 0 else 1

#eval labelList 4 (floodFill 16 4 ex4)
#eval (floodFill 16 4 ex4).nisland
#eval floodFillWrites (fun _ => -1) 16 4 ex4
#eval (labelList 6 (floodFill 36 6 ex6), specLabels 6 ex6)
#eval maxDepth 5 k5 0 25 ⟨fun _ => -1, [0], []⟩

end Mjw.Island
