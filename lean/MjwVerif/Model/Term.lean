/-
  Hand-written protocol model (E2) of the solver *termination protocol* of
  /repo/mujoco_warp/_src/solver.py  (`_solve`, `_solver_iteration`, kernel `_solve_done`).

  What is modelled
  ----------------
  * per world:   `solver_niter[w]`, `ctx.done[w]`, `overflow[w]`       (`WState`)
  * global:      `nsolving[0]`  (the counter `wp.capture_while` tests)  (`GState.nsolving`)
  * one launch of `_solve_done` = one task per world, executed in ANY task order (`iterStep`),
  * the two host loops:  `for _ in range(opt.iterations)` (`runFixed`) and
    `wp.capture_while(nsolving, …)` = "launch while nsolving[0] ≠ 0" (`runWhile`, explicit fuel).

  What is abstracted
  ------------------
  All numerics.  `conv w k` = "the tolerance test of world `w` succeeds in the launch that makes
  `solver_niter[w] = k`" is an arbitrary oracle.  (Worlds that are done are skipped by every other
  solver kernel, so the k-th test of a world depends only on that world's own k iterations.)
  int32 wrap-around of `solver_niter` is not modelled (Int).

  Core Lean only; everything is executable (`#eval`).
  `Props/C25.lean` proves that the generated kernel `Mjw.Gen.Solver._solve_done__kernel` performs
  exactly `taskWrites worldid (worldStep …)`.
-/
import MjwVerif.Model.Kernel
namespace Mjw.Term

abbrev WorldId := Nat

/-- `OverflowType.ITERATIONS = 1 << 9` -/
def ITERATIONS : Int := 512

/-- is the ITERATIONS bit set in an overflow word -/
def hasIterBit (ov : Int) : Bool := Mjw.iand ov ITERATIONS != 0

/-- per-world protocol state: `solver_niter[w]`, `ctx.done[w]`, `overflow[w]` -/
structure WState where
  niter : Int
  done : Bool
  overflow : Int
  deriving DecidableEq, Repr, Inhabited

/-- what one task of `_solve_done` does for its world -/
structure StepOut where
  /-- `false` = the world was already done: the task returns immediately, no writes -/
  active : Bool
  /-- the world's state after the task -/
  post : WState
  /-- the task set `ctx.done := true` and did `atomic_add(nsolving, 0, -1)` -/
  stopped : Bool
  /-- the task or-ed `ITERATIONS` into `overflow[w]` -/
  hitLimit : Bool
  deriving DecidableEq, Repr

/-- One task of `_solve_done` on one world.  `c` = result of the tolerance test in this launch. -/
def worldStep (iterations : Int) (c : Bool) (s : WState) : StepOut :=
  if s.done then ⟨false, s, false, false⟩
  else
    let n := s.niter + 1
    let limit : Bool := decide (n = iterations)
    if c || limit then
      let hit : Bool := !c && limit
      ⟨true, ⟨n, true, if hit then Mjw.ior s.overflow ITERATIONS else s.overflow⟩, true, hit⟩
    else
      ⟨true, ⟨n, false, s.overflow⟩, false, false⟩

/-- The array updates a task performs, as a list in the kernel calculus (same array names, same order
    as the generated kernel). -/
def taskWrites {K : Type} (worldid : Int) (o : StepOut) : List (Write K) :=
  if o.active then
    [(Write.mk "solver_niter_out" [worldid] (WVal.i o.post.niter) WKind.set : Write K)]
    ++ (if o.hitLimit then [(Write.mk "overflow_out" [worldid] (WVal.i o.post.overflow) WKind.set : Write K)] else [])
    ++ (if o.stopped then
          [(Write.mk "ctx_done_out" [worldid] (WVal.b true) WKind.set : Write K),
           (Write.mk "nsolving_out" [(0 : Int)] (WVal.i (-1 : Int)) WKind.aadd : Write K)]
        else [])
  else []

/-- tolerance-test oracle: `conv w k` = world `w` meets the tolerance at its `k`-th iteration -/
abbrev Oracle := WorldId → Int → Bool

/-- per-world transition of one launch, with the oracle of that world -/
def wstep (iterations : Int) (c : Int → Bool) (s : WState) : WState :=
  (worldStep iterations (c (s.niter + 1)) s).post

/-- does the world stop (set done, decrement `nsolving`) in this launch -/
def wstopped (iterations : Int) (c : Int → Bool) (s : WState) : Bool :=
  (worldStep iterations (c (s.niter + 1)) s).stopped

/-- global protocol state -/
structure GState where
  ws : WorldId → WState
  nsolving : Int

/-- pointwise update -/
def upd (f : WorldId → WState) (w : WorldId) (v : WState) : WorldId → WState :=
  fun x => if x = w then v else f x

/-- one task (thread `w`) of a launch applied to the global state: it touches only `ws w` and
    atomically adds to the shared counter -/
def task (iterations : Int) (conv : Oracle) (g : GState) (w : WorldId) : GState :=
  { ws := upd g.ws w (wstep iterations (conv w) (g.ws w)),
    nsolving := g.nsolving + (if wstopped iterations (conv w) (g.ws w) then -1 else 0) }

/-- one launch of `_solve_done` (dim = nworld): the tasks run one after the other in the given order -/
def iterStep (iterations : Int) (conv : Oracle) (order : List WorldId) (g : GState) : GState :=
  order.foldl (task iterations conv) g

/-- `k` launches; launch number `j` (0-based) uses task order `orders j` -/
def launches (iterations : Int) (conv : Oracle) (orders : Nat → List WorldId) : Nat → GState → GState
  | 0, g => g
  | k + 1, g => iterStep iterations conv (orders k) (launches iterations conv orders k g)

/-- host loop `for _ in range(m.opt.iterations): _solver_iteration(...)`  (`range(n) = []` for `n ≤ 0`) -/
def runFixed (iterations : Int) (conv : Oracle) (orders : Nat → List WorldId) (g : GState) : GState :=
  launches iterations conv orders iterations.toNat g

/-- host loop `wp.capture_while(nsolving, _solver_iteration)`: launch while `nsolving[0] ≠ 0`.
    Returns (number of launches performed, final state).  If the result still has `nsolving ≠ 0`
    the fuel ran out (the real loop would go on). -/
def runWhileAux (fuel : Nat) (iterations : Int) (conv : Oracle) (orders : Nat → List WorldId) (g : GState) :
    Nat × GState :=
  Mjw.whileFuel fuel (fun s : Nat × GState => s.2.nsolving != 0)
    (fun s => (s.1 + 1, iterStep iterations conv (orders s.1) s.2)) (0, g)

def runWhile (fuel : Nat) (iterations : Int) (conv : Oracle) (orders : Nat → List WorldId) (g : GState) : GState :=
  (runWhileAux fuel iterations conv orders g).2

def runWhileCount (fuel : Nat) (iterations : Int) (conv : Oracle) (orders : Nat → List WorldId) (g : GState) : Nat :=
  (runWhileAux fuel iterations conv orders g).1

/-- state on entry of the loops in `_solve`: `_solve_init_efc` set `solver_niter = 0`, `done = False`;
    `nsolving = wp.full(1, nworld)`; `overflow` is whatever it was (it is only cleared by `reset_data`). -/
def init (nworld : Nat) (ov0 : WorldId → Int) : GState :=
  { ws := fun w => ⟨0, false, ov0 w⟩, nsolving := nworld }

/-- number of worlds `< nworld` that are not done -/
def undone (nworld : Nat) (g : GState) : Nat :=
  (List.range nworld).countP (fun w => !(g.ws w).done)

/-- task orders for tests -/
def canonical (nworld : Nat) : Nat → List WorldId := fun _ => List.range nworld
def reversed (nworld : Nat) : Nat → List WorldId := fun _ => (List.range nworld).reverse
/-- rotate the canonical order by `j` at launch `j` -/
def rotating (nworld : Nat) : Nat → List WorldId := fun j => (List.range nworld).rotateLeft (j % (nworld + 1))

/-- printable view of the first `nworld` worlds and the counter -/
def snapshot (nworld : Nat) (g : GState) : List (Int × Bool × Int) × Int :=
  ((List.range nworld).map (fun w => ((g.ws w).niter, (g.ws w).done, (g.ws w).overflow)), g.nsolving)

/-- build a state from a list of worlds (for the driver) -/
def ofList (l : List WState) (nsolving : Int) : GState :=
  { ws := fun w => l.getD w default, nsolving := nsolving }

/-- oracle from a table: `tbl[w]` = list of iteration numbers (1-based) at which world `w` passes the test -/
def oracleOfTable (tbl : List (List Int)) : Oracle :=
  fun w k => (tbl.getD w []).contains k

/-! ### a concrete 3-world oracle used in examples: world 0 converges at iteration 2, world 1 at
    iteration 4, world 2 never -/
def conv3 : Oracle := fun w k => (w == 0 && decide (2 ≤ k)) || (w == 1 && decide (4 ≤ k))

#eval snapshot 3 (runFixed 5 conv3 (canonical 3) (init 3 (fun _ => 0)))
#eval snapshot 3 (runWhile 100 5 conv3 (reversed 3) (init 3 (fun _ => 0)))
#eval runWhileCount 100 5 conv3 (rotating 3) (init 3 (fun _ => 0))

end Mjw.Term
