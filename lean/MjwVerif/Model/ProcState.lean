/-
  Hand-written executable model (E2) of the PROCESS-GLOBAL state of mujoco_warp that survives from one
  model / simulation to the next inside one Python process:

  (A) the kernel cache  `/repo/mujoco_warp/_src/warp_util.py:148-167`
        _KERNEL_CACHE = {}
        def cache_kernel(func):
          @functools.wraps(func)
          def wrapper(*args):
            def _hash_arg(a):
              if hasattr(a, "size"):   return a.size
              if isinstance(a, list):  return hash(tuple(a))
              return hash(a)
            key = tuple(_hash_arg(a) for a in args) + (hash(func.__name__),)
            if key not in _KERNEL_CACHE:
              _KERNEL_CACHE[key] = func(*args)
            return _KERNEL_CACHE[key]
          return wrapper
  (B) the table of all `@cache_kernel` builders (`builders`), written by hand from the source: per parameter
      its kind at the call sites and which attributes the nested kernel closure reads;
  (C) the primitive-narrowphase dispatch list `/repo/mujoco_warp/_src/collision_primitive.py:1516-1553`
      (module-level and accumulating before commit aa3ef03, built per call now).

  Python facts transcribed in `pyHashInt / pyHash / hashArg` (checked on CPython 3.12):
    hash(n) = sign(n)·(|n| mod (2^61-1)), with -1 ↦ -2;  hash(True) = 1, hash(False) = 0;  hash(1.0) = hash(1);
    an object with a `size` attribute is keyed by `a.size` ONLY (TileSet, wp.array — and every NumPy scalar,
    whose `.size` is 1);  a list is keyed by `hash(tuple(a))` (items hashed by Python's `hash`, not `_hash_arg`).
  Modelling assumptions (not theorems): (a) the hash of a tuple is an injective function of the item hashes
  (`KeyC.tup` keeps the list of item hashes); (b) `hash(func.__name__)` is injective in the name (`Key.2` is the
  name itself); (c) objects hashed by identity (functions, types) have distinct hashes (`Arg.obj id`);
  (d) floats are integer-valued (`Arg.float n` = the float `n.0`).

  Core Lean only; executable.
-/
namespace Mjw.ProcState

/-! ## A. the kernel cache -/

/-- Python values passed to `@cache_kernel` builders -/
inductive Arg where
  /-- Python `int` (also `IntEnum` / `IntFlag` members: they hash and compare as their value) -/
  | int (n : Int)
  | bool (b : Bool)
  /-- the float `n.0` -/
  | float (n : Int)
  /-- any object with a `size` attribute; `payload` stands for everything else the object carries
      (`TileSet.adr`, `TileSet.elemid`, array contents, the VALUE of a NumPy scalar whose size is 1) -/
  | sized (size : Int) (payload : Int)
  /-- an object hashed by identity (function, class) -/
  | obj (id : Int)
  | list (items : List Arg)
  deriving Repr, Inhabited

/-- `hash(n)` of a Python int -/
def pyHashInt (n : Int) : Int :=
  let m : Int := 2305843009213693951   -- 2^61 - 1
  let h : Int := if n ≥ 0 then n % m else -((-n) % m)
  if h = -1 then -2 else h

/-- Python `hash(x)`; `none` = TypeError (unhashable list) -/
def pyHash : Arg → Option Int
  | .int n => some (pyHashInt n)
  | .bool b => some (pyHashInt (if b then 1 else 0))
  | .float n => some (pyHashInt n)
  | .sized _ payload => some payload         -- the object's own __hash__ (identity / content), NOT its size
  | .obj id => some id
  | .list _ => none

/-- one component of the cache key -/
inductive KeyC where
  | num (n : Int)
  /-- `hash(tuple(a))`, kept as the list of item hashes (assumption (a)) -/
  | tup (hs : List Int)
  deriving DecidableEq, Repr

/-- `_hash_arg` -/
def hashArg : Arg → Option KeyC
  | .sized size _ => some (.num size)
  | .list items => (items.mapM pyHash).map KeyC.tup
  | a => (pyHash a).map KeyC.num

/-- `tuple(_hash_arg(a) for a in args) + (hash(func.__name__),)` -/
abbrev Key := List KeyC × String

def key (name : String) (args : List Arg) : Option Key := (args.mapM hashArg).map (fun ks => (ks, name))

/-- a decorated builder: `func.__name__` and the function itself (`κ` = kernels) -/
structure Builder (κ : Type) where
  name : String
  build : List Arg → κ

/-- `_KERNEL_CACHE` (a dict: at most one entry per key; newest first) -/
abbrev Cache (κ : Type) := List (Key × κ)

/-- one call `wrapper(*args)`: returns the kernel and the new cache; `none` = TypeError while hashing -/
def cachedBuild {κ : Type} (cache : Cache κ) (b : Builder κ) (args : List Arg) : Option (κ × Cache κ) :=
  match key b.name args with
  | none => none
  | some k =>
    match cache.lookup k with
    | some kern => some (kern, cache)
    | none => some (b.build args, (k, b.build args) :: cache)

/-- a call history: the cache after the calls (calls that raise leave the cache unchanged) -/
def runHistory {κ : Type} : List (Builder κ × List Arg) → Cache κ → Cache κ
  | [], c => c
  | (b, a) :: rest, c =>
    match cachedBuild c b a with
    | none => runHistory rest c
    | some (_, c') => runHistory rest c'

/-! ## B. the builders -/

/-- kind of a builder parameter AT ITS CALL SITES -/
inductive PKind where
  /-- Python int or IntEnum/IntFlag member, `0 ≤ n < 2^61 - 1` (counts, sizes, iteration limits, enum values) -/
  | nat
  | bool
  /-- enum member (`types.ConeType`), passed as the member or as its int value -/
  | enum
  /-- `types.TileSet` (has `.size`) -/
  | tile
  /-- list of tuples of `GeomType` members -/
  | listTuples
  /-- list of `wp.Function` objects -/
  | listFuncs
  /-- NumPy scalar (`.size = 1`): the key does not see its value.  No builder has such a parameter. -/
  | npScalar
  deriving DecidableEq, Repr

/-- what the nested kernel closure reads from a parameter -/
inductive Read where
  /-- the value through `==`, arithmetic, `range`, tile shapes, `wp.static(...)` -/
  | value
  /-- `.size` -/
  | size
  /-- any other attribute of a sized object (`.adr`, `.elemid`, contents) -/
  | payload
  /-- `x[i]`, `x[i][j]` -/
  | elems
  /-- `len(x)` -/
  | len
  /-- the Python type / identity (`x is True`, `type(x)`) -/
  | pytype
  deriving DecidableEq, Repr

structure ParamInfo where
  name : String
  kind : PKind
  reads : List Read
  deriving Repr

structure BuilderInfo where
  name : String
  file : String
  /-- line of the `def` (the `@cache_kernel` decorator is on the line before) -/
  line : Nat
  params : List ParamInfo
  deriving Repr

/-- what the key component of a parameter of this kind determines -/
def distinguishes : PKind → List Read
  | .nat => [.value]
  | .bool => [.value]
  | .enum => [.value]
  | .tile => [.size]
  | .listTuples => [.elems, .len]
  | .listFuncs => [.elems, .len]
  | .npScalar => []

/-- semantics of the kinds: which argument values the call sites pass for a parameter of kind `k` -/
def ofKind (k : PKind) (a : Arg) : Bool :=
  match k, a with
  | .nat, .int n => decide (0 ≤ n) && decide (n < 2305843009213693951)
  | .enum, .int n => decide (0 ≤ n) && decide (n < 2305843009213693951)
  | .bool, .int n => decide (0 ≤ n) && decide (n < 2305843009213693951)
  | .nat, .bool _ => true
  | .enum, .bool _ => true
  | .bool, .bool _ => true
  | .tile, .sized _ _ => true
  | .listTuples, .list items => items.all (fun i => (pyHash i).isSome)
  | .listFuncs, .list items => items.all (fun i => (pyHash i).isSome)
  | .npScalar, .sized s _ => s == 1
  | _, _ => false

/-- what a closure observes through a read -/
inductive Obs where
  | int (n : Int)
  | ints (l : List Int)
  | nothing
  deriving DecidableEq, Repr

/-- semantics of the reads.  `.value` identifies `True`/`1`/`1.0` (Python `==`); `.pytype` tells them apart;
    the items of a list are observed through their hashes (assumption (a)/(c)). -/
def observe : Read → Arg → Obs
  | .value, .int n => .int n
  | .value, .bool b => .int (if b then 1 else 0)
  | .value, .float n => .int n
  | .value, .sized _ p => .int p
  | .size, .sized s _ => .int s
  | .payload, .sized _ p => .int p
  | .elems, .list items => .ints (items.map (fun i => (pyHash i).getD 0))
  | .len, .list items => .int (Int.ofNat items.length)
  | .pytype, .int _ => .int 0
  | .pytype, .bool _ => .int 1
  | .pytype, .float _ => .int 2
  | .pytype, .sized _ _ => .int 3
  | .pytype, .obj _ => .int 4
  | .pytype, .list _ => .int 5
  | _, _ => .nothing

/-- closure reads ⊆ what the key distinguishes -/
def safe (b : BuilderInfo) : Bool :=
  b.params.all (fun p => p.reads.all (fun r => (distinguishes p.kind).contains r))

/-- ALL `@cache_kernel` builders of /repo/mujoco_warp/_src (75), in file order.
    Source of each entry: `<file>:<line>`; the reads were collected from every occurrence of the parameter name
    in the builder body (including the nested kernel and nested `wp.func`s). -/
def builders : List BuilderInfo := [
  ⟨"ccd_hfield_kernel_builder", "collision_convex.py", 164, [⟨"geomtype1", .nat, [.value]⟩, ⟨"geomtype2", .nat, [.value]⟩, ⟨"gjk_iterations", .nat, [.value]⟩, ⟨"epa_iterations", .nat, [.value]⟩, ⟨"geomgeomid", .nat, [.value]⟩, ⟨"warn_overflow", .bool, [.value]⟩]⟩,
  ⟨"ccd_kernel_builder", "collision_convex.py", 734, [⟨"geomtype1", .nat, [.value]⟩, ⟨"geomtype2", .nat, [.value]⟩, ⟨"gjk_iterations", .nat, [.value]⟩, ⟨"epa_iterations", .nat, [.value]⟩, ⟨"use_multiccd", .bool, [.value]⟩, ⟨"geomgeomid", .nat, [.value]⟩, ⟨"block_dim", .nat, [.value]⟩, ⟨"warn_overflow", .bool, [.value]⟩]⟩,
  ⟨"_sap_project", "collision_driver.py", 375, [⟨"opt_broadphase", .nat, [.value]⟩]⟩,
  ⟨"_sap_broadphase", "collision_driver.py", 424, [⟨"opt_broadphase_filter", .nat, [.value]⟩, ⟨"ngeom_aabb", .nat, [.value]⟩, ⟨"ngeom_rbound", .nat, [.value]⟩, ⟨"ngeom_margin", .nat, [.value]⟩, ⟨"ngeom_gap", .nat, [.value]⟩, ⟨"enable_sleep", .bool, [.value]⟩, ⟨"incremental", .bool, [.value]⟩]⟩,
  ⟨"_segmented_sort", "collision_driver.py", 540, [⟨"tile_size", .nat, [.value]⟩]⟩,
  ⟨"_nxn_broadphase", "collision_driver.py", 685, [⟨"opt_broadphase_filter", .nat, [.value]⟩, ⟨"ngeom_aabb", .nat, [.value]⟩, ⟨"ngeom_rbound", .nat, [.value]⟩, ⟨"ngeom_margin", .nat, [.value]⟩, ⟨"ngeom_gap", .nat, [.value]⟩, ⟨"enable_sleep", .bool, [.value]⟩, ⟨"incremental", .bool, [.value]⟩]⟩,
  ⟨"_flex_broadphase", "collision_flex.py", 101, [⟨"warn_overflow", .bool, [.value]⟩]⟩,
  ⟨"_flex_broadphase_plane", "collision_flex.py", 241, [⟨"warn_overflow", .bool, [.value]⟩]⟩,
  ⟨"_flex_plane_narrowphase", "collision_flex.py", 818, [⟨"warn_overflow", .bool, [.value]⟩]⟩,
  ⟨"_flex_geom_vertex_narrowphase_detect", "collision_flex.py", 912, [⟨"warn_overflow", .bool, [.value]⟩]⟩,
  ⟨"_self_flex_sap_sweep", "collision_flex.py", 1255, [⟨"warn_overflow", .bool, [.value]⟩]⟩,
  ⟨"_flex_flex_sap_sweep", "collision_flex.py", 1360, [⟨"warn_overflow", .bool, [.value]⟩]⟩,
  ⟨"_flex_narrowphase", "collision_flex.py", 1494, [⟨"warn_overflow", .bool, [.value]⟩]⟩,
  ⟨"_flex_active_element_collisions_detect", "collision_flex.py", 1747, [⟨"warn_overflow", .bool, [.value]⟩]⟩,
  ⟨"_flex_narrowphase_unified", "collision_flex.py", 1985, [⟨"warn_overflow", .bool, [.value]⟩]⟩,
  ⟨"_flex_narrowphase_tet_detect", "collision_flex.py", 2275, [⟨"warn_overflow", .bool, [.value]⟩]⟩,
  ⟨"_write_filtered_contacts", "collision_flex.py", 2577, [⟨"warn_overflow", .bool, [.value]⟩]⟩,
  ⟨"_populate_group_starts", "collision_flex.py", 2787, [⟨"warn_overflow", .bool, [.value]⟩]⟩,
  ⟨"_primitive_narrowphase", "collision_primitive.py", 1353, [⟨"primitive_collisions_types", .listTuples, [.elems]⟩, ⟨"primitive_collisions_func", .listFuncs, [.elems, .len]⟩]⟩,
  ⟨"_equality_connect", "constraint.py", 156, [⟨"is_sparse", .bool, [.value]⟩, ⟨"newton", .bool, [.value]⟩]⟩,
  ⟨"_equality_joint", "constraint.py", 500, [⟨"is_sparse", .bool, [.value]⟩, ⟨"newton", .bool, [.value]⟩]⟩,
  ⟨"_equality_tendon", "constraint.py", 642, [⟨"is_sparse", .bool, [.value]⟩, ⟨"newton", .bool, [.value]⟩]⟩,
  ⟨"_equality_flex", "constraint.py", 831, [⟨"is_sparse", .bool, [.value]⟩, ⟨"newton", .bool, [.value]⟩]⟩,
  ⟨"_equality_weld", "constraint.py", 966, [⟨"is_sparse", .bool, [.value]⟩, ⟨"newton", .bool, [.value]⟩]⟩,
  ⟨"_equality_flexstrain", "constraint.py", 1443, [⟨"is_sparse", .bool, [.value]⟩, ⟨"newton", .bool, [.value]⟩]⟩,
  ⟨"_friction_dof", "constraint.py", 1766, [⟨"is_sparse", .bool, [.value]⟩, ⟨"newton", .bool, [.value]⟩]⟩,
  ⟨"_friction_tendon", "constraint.py", 1867, [⟨"is_sparse", .bool, [.value]⟩, ⟨"newton", .bool, [.value]⟩]⟩,
  ⟨"_limit_slide_hinge", "constraint.py", 1991, [⟨"is_sparse", .bool, [.value]⟩, ⟨"newton", .bool, [.value]⟩]⟩,
  ⟨"_limit_ball", "constraint.py", 2107, [⟨"is_sparse", .bool, [.value]⟩, ⟨"newton", .bool, [.value]⟩]⟩,
  ⟨"_limit_tendon", "constraint.py", 2243, [⟨"is_sparse", .bool, [.value]⟩, ⟨"newton", .bool, [.value]⟩]⟩,
  ⟨"_efc_contact_init", "constraint.py", 2642, [⟨"cone_type", .enum, [.value]⟩, ⟨"is_sparse", .bool, [.value]⟩, ⟨"newton", .bool, [.value]⟩, ⟨"flg_adhesion", .bool, [.value]⟩]⟩,
  ⟨"_efc_contact_init_flex", "constraint.py", 2759, [⟨"cone_type", .enum, [.value]⟩, ⟨"is_sparse", .bool, [.value]⟩, ⟨"newton", .bool, [.value]⟩, ⟨"flg_adhesion", .bool, [.value]⟩]⟩,
  ⟨"_efc_contact_jac_sparse", "constraint.py", 3101, [⟨"cone_type", .enum, [.value]⟩]⟩,
  ⟨"_efc_contact_jac_sparse_flex", "constraint.py", 3253, [⟨"cone_type", .enum, [.value]⟩]⟩,
  ⟨"_efc_contact_jac_dense", "constraint.py", 3752, [⟨"tile_size", .nat, [.value]⟩, ⟨"cone_type", .enum, [.value]⟩]⟩,
  ⟨"_efc_contact_jac_dense_flex", "constraint.py", 3881, [⟨"tile_size", .nat, [.value]⟩, ⟨"cone_type", .enum, [.value]⟩]⟩,
  ⟨"_efc_contact_update", "constraint.py", 4198, [⟨"cone_type", .enum, [.value]⟩, ⟨"flg_adhesion", .bool, [.value]⟩]⟩,
  ⟨"_efc_contact_update_flex", "constraint.py", 4347, [⟨"cone_type", .enum, [.value]⟩, ⟨"flg_adhesion", .bool, [.value]⟩]⟩,
  ⟨"_add_surface_vel", "constraint.py", 4798, [⟨"is_pyramidal", .bool, [.value]⟩]⟩,
  ⟨"_next_time_builder", "forward.py", 222, [⟨"warn_overflow", .bool, [.value]⟩]⟩,
  ⟨"_qfrc_smooth", "forward.py", 1256, [⟨"enable_sleep", .bool, [.value]⟩]⟩,
  ⟨"_qfrc_passive_kernel", "passive.py", 631, [⟨"has_fluid", .bool, [.value]⟩, ⟨"flg_adhesion", .bool, [.value]⟩, ⟨"gravity_enabled", .bool, [.value]⟩]⟩,
  ⟨"_contact_sort", "sensor.py", 2475, [⟨"maxmatch", .nat, [.value]⟩]⟩,
  ⟨"_energy_vel_kinetic", "sensor.py", 2978, [⟨"nv", .nat, [.value]⟩]⟩,
  ⟨"_small_cholesky_factorize_block", "smooth.py", 1236, [⟨"block_size", .nat, [.value]⟩]⟩,
  ⟨"_tile_cholesky_factorize_block", "smooth.py", 1280, [⟨"tile", .tile, [.size]⟩]⟩,
  ⟨"_solve_LD_sparse_fused", "smooth.py", 2985, [⟨"nv", .nat, [.value]⟩, ⟨"nlevels", .nat, [.value]⟩]⟩,
  ⟨"_small_cholesky_solve_block", "smooth.py", 3101, [⟨"block_size", .nat, [.value]⟩]⟩,
  ⟨"_tile_cholesky_solve_block", "smooth.py", 3128, [⟨"tile", .tile, [.size]⟩]⟩,
  ⟨"_tile_cholesky_factorize_solve_block", "smooth.py", 3228, [⟨"tile", .tile, [.size]⟩]⟩,
  ⟨"_small_cholesky_factorize_solve_block", "smooth.py", 3267, [⟨"block_size", .nat, [.value]⟩]⟩,
  ⟨"_factor_solve_lu_sparse_fused", "smooth.py", 3376, [⟨"nv", .nat, [.value]⟩]⟩,
  ⟨"_linesearch_iterative_kernel", "solver.py", 836, [⟨"ls_iterations", .nat, [.value]⟩, ⟨"cone_type", .enum, [.value]⟩, ⟨"fuse_jv", .bool, [.value]⟩, ⟨"is_sparse", .bool, [.value]⟩, ⟨"incremental", .bool, [.value]⟩, ⟨"warn_overflow", .bool, [.value]⟩]⟩,
  ⟨"_linesearch_jv_fused_kernel", "solver.py", 1437, [⟨"is_sparse", .bool, [.value]⟩, ⟨"nv", .nat, [.value]⟩, ⟨"dofs_per_thread", .nat, [.value]⟩, ⟨"compact", .bool, [.value]⟩]⟩,
  ⟨"_solve_init_dof", "solver.py", 1566, [⟨"warmstart", .bool, [.value]⟩, ⟨"sparse", .bool, [.value]⟩]⟩,
  ⟨"_solve_init_jaref_kernel", "solver.py", 1609, [⟨"is_sparse", .bool, [.value]⟩, ⟨"nv", .nat, [.value]⟩, ⟨"dofs_per_thread", .nat, [.value]⟩, ⟨"compact", .bool, [.value]⟩]⟩,
  ⟨"_update_constraint_efc", "solver.py", 1699, [⟨"track_changes", .bool, [.value]⟩]⟩,
  ⟨"_update_constraint_init_qfrc_constraint_sparse", "solver.py", 1846, [⟨"compact", .bool, [.value]⟩]⟩,
  ⟨"_update_constraint_init_qfrc_constraint_dense", "solver.py", 1913, [⟨"stable_fast", .bool, [.value]⟩]⟩,
  ⟨"_update_gradient_h_incremental_sparse", "solver.py", 1998, [⟨"compact", .bool, [.value]⟩]⟩,
  ⟨"_update_gradient_zero_grad_dot", "solver.py", 2120, [⟨"stable_fast", .bool, [.value]⟩]⟩,
  ⟨"_update_gradient_grad", "solver.py", 2169, [⟨"stable_fast", .bool, [.value]⟩]⟩,
  ⟨"_update_gradient_init_h_sparse", "solver.py", 2237, [⟨"compact", .bool, [.value]⟩]⟩,
  ⟨"_update_gradient_JTDAJ_dense_tiled_compact", "solver.py", 2303, [⟨"nv_pad", .nat, [.value]⟩, ⟨"tile_size", .nat, [.value]⟩, ⟨"njmax", .nat, [.value]⟩]⟩,
  ⟨"_update_gradient_JTDAJ_dense_tiled", "solver.py", 2366, [⟨"nv_pad", .nat, [.value]⟩, ⟨"tile_size", .nat, [.value]⟩, ⟨"njmax", .nat, [.value]⟩, ⟨"nC", .nat, [.value]⟩]⟩,
  ⟨"_update_gradient_cholesky", "solver.py", 2568, [⟨"tile_size", .nat, [.value]⟩, ⟨"skip_noflip", .bool, [.value]⟩]⟩,
  ⟨"_update_gradient_cholesky_blocked", "solver.py", 2607, [⟨"tile_size", .nat, [.value]⟩, ⟨"matrix_size", .nat, [.value]⟩, ⟨"vector_size", .nat, [.value]⟩]⟩,
  ⟨"_cholesky_factorize_solve_blocked", "solver.py", 2645, [⟨"tile_size", .nat, [.value]⟩, ⟨"matrix_size", .nat, [.value]⟩]⟩,
  ⟨"_update_gradient_cholesky_blocked_skip_unchanged", "solver.py", 2670, [⟨"tile_size", .nat, [.value]⟩, ⟨"matrix_size", .nat, [.value]⟩, ⟨"vector_size", .nat, [.value]⟩, ⟨"skip_noflip", .bool, [.value]⟩]⟩,
  ⟨"_JTDACJ_sparse", "solver.py", 2801, [⟨"compact", .bool, [.value]⟩, ⟨"cone_type", .enum, [.value]⟩, ⟨"max_condim", .nat, [.value]⟩]⟩,
  ⟨"_solve_cg_finalize", "solver.py", 3403, [⟨"warn_overflow", .bool, [.value]⟩]⟩,
  ⟨"_solve_done", "solver.py", 3455, [⟨"warn_overflow", .bool, [.value]⟩]⟩,
  ⟨"mul_m_kernel", "support.py", 154, [⟨"check_skip", .bool, [.value]⟩]⟩,
  ⟨"mul_m_dense", "support.py", 191, [⟨"nv", .nat, [.value]⟩, ⟨"check_skip", .bool, [.value]⟩]⟩,
  ⟨"_make_jac_kernel", "support.py", 536, [⟨"has_jacp", .bool, [.value]⟩, ⟨"has_jacr", .bool, [.value]⟩]⟩

]

/-! ## C. the primitive-narrowphase dispatch list -/

/-- a geom-type pair `(GeomType.value, GeomType.value)` -/
abbrev PairType := Nat × Nat

def PLANE : Nat := 0
def SPHERE : Nat := 2
def CAPSULE : Nat := 3
def ELLIPSOID : Nat := 4
def CYLINDER : Nat := 5
def BOX : Nat := 6
def MESH : Nat := 7

/-- keys of `_PRIMITIVE_COLLISIONS` in dict order (collision_primitive.py:1335-1349) -/
def PRIMITIVE_COLLISIONS : List PairType :=
  [(PLANE, SPHERE), (PLANE, CAPSULE), (PLANE, ELLIPSOID), (PLANE, CYLINDER), (PLANE, BOX), (PLANE, MESH),
   (SPHERE, SPHERE), (SPHERE, CAPSULE), (SPHERE, CYLINDER), (SPHERE, BOX), (CAPSULE, CAPSULE), (CAPSULE, BOX),
   (BOX, BOX)]

/-- what `primitive_narrowphase(m, d, ctx, collision_table)` looks at -/
structure ModelInfo where
  /-- `collision_table`: the pair types routed to the PRIMITIVE path (`_narrowphase`: box-box is added when
      `DisableBit.NATIVECCD` is set) -/
  table : List PairType
  /-- `m.geom_pair_type_count[upper_trid_index(...)]` -/
  count : PairType → Nat

/-- the loop body shared by the old and the new code:
      for types, func in _PRIMITIVE_COLLISIONS.items():
        if types not in collision_table: continue
        if m.geom_pair_type_count[idx] and types not in LIST: LIST.append(types) -/
def appendWanted (list : List PairType) (m : ModelInfo) : List PairType :=
  PRIMITIVE_COLLISIONS.foldl
    (fun l t => if m.table.contains t && m.count t != 0 && !(l.contains t) then l ++ [t] else l) list

/-- OLD code (before aa3ef03): LIST = the module-level `_PRIMITIVE_COLLISION_TYPES`; state = that list.
    Returns (new global list, list the kernel is built from). -/
def stepAccumulating (global : List PairType) (m : ModelInfo) : List PairType × List PairType :=
  let g := appendWanted global m
  (g, g)

/-- NEW code: LIST = a fresh local list; the module-level list is untouched -/
def stepPerCall (global : List PairType) (m : ModelInfo) : List PairType × List PairType :=
  (global, appendWanted [] m)

/-- dispatch list used for `m` after the models of `hist` were simulated earlier in the process -/
def dispatchAfter (step : List PairType → ModelInfo → List PairType × List PairType)
    (hist : List ModelInfo) (m : ModelInfo) : List PairType :=
  (step (hist.foldl (fun g x => (step g x).1) []) m).2

/-! ### executable sanity checks -/

#guard pyHashInt (-1) == -2 && pyHashInt (-2) == -2 && pyHashInt 2305843009213693951 == 0
#guard key "f" [.bool true] == key "f" [.int 1]
#guard key "f" [.sized 4 10] == key "f" [.sized 4 11]
#guard key "f" [.list [.int 0, .int 2]] != key "f" [.list [.int 0, .int 3]]
#guard key "f" [.list [.list []]] == none
#guard builders.length == 75

end Mjw.ProcState
