/-
  Hand-written model of the per-pixel ray cast of the renderer, transcribed from
    /repo/mujoco_warp/_src/render.py : `_make_cast_ray.cast_ray` (closest-hit variant, `first_hit=False`) and the
                                       depth / segmentation stores of `render._render_megakernel`.
  These two are NOT translated into `Gen/` (closure factory + opaque Warp builtins `wp.bvh_query_ray`,
  `wp.bvh_query_next`, `wp.mesh_query_ray`), so they are modelled here.  Core Lean only, executable.

  Python (render.py, abbreviated):
      dist = max_dist ; geom_id = -1                       # max_dist = MJ_MAXVAL = 1e10 for primary rays
      query = wp.bvh_query_ray(bvh_id, origin, dir, group_root)
      while wp.bvh_query_next(query, bounds_nr, dist):     # <- Warp builtin; `dist` = current best = pruning bound
        ...  d, n = ray_<type>(geom bounds_nr)             # d = -1.0 for "no hit"
        if cull_backfaces and d >= 0.0 and wp.dot(ray_dir_world, n) > 0.0:
          d = -1.0
        if d >= 0.0 and d < dist:                          # STRICT: on an exact tie the earlier candidate stays
          dist = d ; geom_id = hit_geom_id ; ...
      return geom_id, dist, ...
  and in the kernel
      if render_seg and geom_id != -1: seg_out[...] = (geom_id, GEOM)     # seg buffer is pre-filled with (-1,-1)
      if geom_id == -1: depth_out[...] = 0.0 ; return
      depth_out[...] = dist * -ray_dir_local_cam[2]                         # planar depth

  What is a PARAMETER here: the scene BVH is Warp's builtin `wp.Bvh` (constructor "sah"); its tree shape, the
  order in which `bvh_query_next` pops nodes and its ray/box test are not visible from /repo.  `traverse` below
  is a model of ANY such traversal: an arbitrary binary tree with a box per node, an arbitrary pruning test
  `visit box tmax` evaluated with the CURRENT best distance, an arbitrary child order `order box tmax`.
  Theorems take the contract of the box test as a hypothesis (`Sound`).
-/
import MjwVerif.Model.Vec
namespace Mjw.RayCast
open Mjw

/-- loop state of `cast_ray`: `(dist, geom_id)` -/
structure Best (K : Type) where
  dist : K
  id : Int

/-- `if cull_backfaces and d >= 0.0 and wp.dot(ray_dir_world, n) > 0.0: d = -1.0` -/
def cull {K : Type} [Scalar K] (cullBackfaces : Bool) (d : K) (dotDirN : K) : K :=
  if cullBackfaces && Scalar.ge d (Scalar.lit 0 0) && Scalar.gt dotDirN (Scalar.lit 0 0) then Scalar.lit (-1) 0 else d

/-- `if d >= 0.0 and d < dist: dist = d; geom_id = hit_geom_id` -/
def step {K : Type} [Scalar K] (b : Best K) (id : Int) (d : K) : Best K :=
  if Scalar.ge d (Scalar.lit 0 0) && Scalar.lt d b.dist then ⟨d, id⟩ else b

/-- brute force: every candidate `(id, d)` is offered to the loop body, in list order -/
def castFrom {K : Type} [Scalar K] (b : Best K) (cands : List (Int × K)) : Best K :=
  cands.foldl (fun b c => step b c.1 c.2) b

/-- `cast_ray` over an explicit candidate list: `dist = max_dist`, `geom_id = -1` -/
def castList {K : Type} [Scalar K] (maxDist : K) (cands : List (Int × K)) : Best K :=
  castFrom ⟨maxDist, -1⟩ cands

/-- the value stored to `depth_out` (`rayLocalZ` = `ray_dir_local_cam[2]`) -/
def depthOut {K : Type} [Scalar K] (r : Best K) (rayLocalZ : K) : K :=
  if r.id = -1 then Scalar.lit 0 0 else r.dist * (-rayLocalZ)

/-- the content of `seg_out` after the kernel (`-1,-1` = the pre-fill; 5 = `ObjType.GEOM` = mjOBJ_GEOM) -/
def segOut {K : Type} (r : Best K) : Int × Int :=
  if r.id = -1 then (-1, -1) else (r.id, 5)

/-! ### BVH traversal (model of the opaque `wp.bvh_query_next`) -/

/-- a binary BVH: every node carries a box of type `B`; a leaf carries the primitive index handed to the callback -/
inductive BvhTree (B : Type) where
  | leaf : B → Int → BvhTree B
  | node : B → BvhTree B → BvhTree B → BvhTree B

namespace BvhTree
variable {B : Type}
def box : BvhTree B → B
  | leaf b _ => b
  | node b _ _ => b
/-- primitive indices, left to right -/
def leaves : BvhTree B → List Int
  | leaf _ i => [i]
  | node _ l r => leaves l ++ leaves r
end BvhTree

/-- depth-first traversal with pruning against the current best distance.
    `visit b tmax`  : the traversal's ray/box test (node is skipped when false), `tmax` = current `dist`;
    `order b tmax`  : which child is descended first (true = right first);
    `hitD i`        : distance the leaf callback computes for primitive `i` (-1 = miss, after culling). -/
def traverse {K B : Type} [Scalar K] (visit : B → K → Bool) (order : B → K → Bool) (hitD : Int → K) :
    BvhTree B → Best K → Best K
  | .leaf b i, best => if visit b best.dist then step best i (hitD i) else best
  | .node b l r, best =>
    if visit b best.dist then
      if order b best.dist then traverse visit order hitD l (traverse visit order hitD r best)
      else traverse visit order hitD r (traverse visit order hitD l best)
    else best

/-- `cast_ray` with the BVH: start from `(max_dist, -1)` at the group root -/
def castTree {K B : Type} [Scalar K] (visit : B → K → Bool) (order : B → K → Bool) (hitD : Int → K)
    (maxDist : K) (t : BvhTree B) : Best K :=
  traverse visit order hitD t ⟨maxDist, -1⟩

/-- axis-aligned box `[lo, hi]` as produced by `bvh._compute_*_bounds` -/
structure Box (K : Type) where
  lo : V3 K
  hi : V3 K

/-! ### host code `bvh.build_mesh_bvh` (numpy, not translated): the half extent handed to the mesh leaf box

      pmin = np.min(points, axis=0) ; pmax = np.max(points, axis=0)
      half = np.maximum(np.abs(pmin), np.abs(pmax))           # since repo commit 670227b (was 0.5 * (pmax - pmin))

    `_compute_bvh_bounds` then uses `_compute_box_bounds(pos, rot, half)`: a box centred at the geom frame origin. -/

/-- `np.min(points, axis=0)` / `np.max(points, axis=0)` of a non-empty vertex list `v0 :: vs` -/
def meshMin {K : Type} [Scalar K] (v0 : V3 K) (vs : List (V3 K)) : V3 K := vs.foldl V3.vmin v0
def meshMax {K : Type} [Scalar K] (v0 : V3 K) (vs : List (V3 K)) : V3 K := vs.foldl V3.vmax v0

/-- `half = np.maximum(np.abs(pmin), np.abs(pmax))` -/
def meshHalf {K : Type} [Scalar K] (v0 : V3 K) (vs : List (V3 K)) : V3 K :=
  V3.vmax (V3.vabs (meshMin v0 vs)) (V3.vabs (meshMax v0 vs))

end Mjw.RayCast
