/- E3 (host side): vocabulary of the flattened host event lists (Gen/Host.lean). Names are interned Nat ids. -/
namespace Mjw.HostGraph

inductive EvKind where
  | launch | hostWrite | hostCopy
  deriving DecidableEq, Repr

/-- one host event: a kernel launch (subject = kernel), or a host-side array write/copy (subject = field) -/
structure Event where
  kind : EvKind
  subject : Nat
  conds : List Nat      -- enclosing host conditions (source text, interned), outermost first
  reads : List Nat      -- fields (binding expressions) read
  writes : List Nat     -- fields written
  deriving DecidableEq, Repr

def launches (evs : List Event) : List Event := evs.filter (fun e => e.kind == .launch)

/-- kernel sequence of an event list, keeping only events whose conditions all pass `keep` -/
def kernelSeq (keep : Nat → Bool) (evs : List Event) : List Nat :=
  ((launches evs).filter (fun e => e.conds.all keep)).map (·.subject)

/-- fields read by some event before any earlier event (in list order) wrote them, and not among `inputs` -/
def readBeforeWrite (inputs : List Nat) (evs : List Event) : List Nat :=
  let rec go (evs : List Event) (written : List Nat) (acc : List Nat) : List Nat :=
    match evs with
    | [] => acc
    | e :: rest =>
      let fresh := e.reads.filter (fun f => !written.contains f && !inputs.contains f && !acc.contains f)
      go rest (written ++ e.writes) (acc ++ fresh)
  go evs [] []

/-- all fields written by the events -/
def writtenFields (evs : List Event) : List Nat := (evs.flatMap (·.writes)).eraseDups

/-- events whose condition list mentions condition id `c` -/
def guardedBy (c : Nat) (evs : List Event) : List Event := evs.filter (fun e => e.conds.contains c)

end Mjw.HostGraph
