/-
  Hand-written abstract model (spec) of the history (delay) buffers of
  /repo/mujoco_warp/_src/history.py  (`_history_find_index`, `_history_insert_scalar`,
  `_history_read_scalar`).

  Physical layout of one buffer inside a row `buf[worldid, ·]` of `d.history`, at offset `off`,
  for `n` samples of dimension 1:

      off      : user slot (interval sensors: time of the last computation)
      off+1    : cursor   (float holding an integer; physical index of the NEWEST sample)
      off+2+p  : times[p]      p = 0..n-1
      off+2+n+p: values[p]     p = 0..n-1

  The buffer is circular: logical index `l` (0 = oldest, n-1 = newest) lives in physical slot
  `phys cursor n l = (cursor + 1 + l) mod n`.

  What is modelled
  ----------------
  * `logical buf w off n` : the LOGICAL view = list of `(time, value)` pairs oldest → newest.
  * `Spec.findIdx`, `Spec.insert`, `Spec.read` : what the code does, as functions on the logical list.
    They are a case-by-case transcription of the CODE (the code is the model), at any `[Scalar K]`.
  * `applyWrites` : the effect of a write list (as produced by the translated `wp.func`s) on an array.

  Where MuJoCo C differs / is not known to agree (comments, not theorems):
  * `mj_initCtrlHistory(times = NULL)` is documented (mujoco.h) to KEEP the existing timestamps;
    `_init_ctrl_history_kernel` with `has_times = 0` writes `-mjMAXVAL` into EVERY time slot, which makes
    the times non-increasing (violates `Spec.Sorted`).
  * MuJoCo initialises every buffer in `mj_makeData/mj_resetData` to
    `[user = 0, cursor = n-1, times = -n·dt … -dt, values = 0]` (`Spec.mjInit`); mujoco_warp's
    `make_data`/`reset_data` leave `d.history` all zeros (`Props/C30Witness.lean`).
  * case "older than the oldest sample" of insert: the code REPLACES the oldest sample (time and value)
    by the new, even older one.  (A buffer of "the last n samples" would drop such a sample.)

  Core Lean only; everything is executable (`#eval`) at `Float`/`Float32`.
-/
import MjwVerif.Model.Kernel
namespace Mjw.Hist

variable {K : Type} [Scalar K]

/-- merge / extrapolation window of the code (`1e-6`, an absolute time) -/
def eps : K := Scalar.lit 1 (-6)

/-- logical index → physical slot (mathematical `mod`; the code uses C `%` on non-negative operands) -/
def phys (cursor n logical : Int) : Int := (cursor + 1 + logical) % n

/-- the cursor the code reads: `int(buf[worldid, off+1])` (C truncation of the float cell) -/
def cursorOf (buf : Int → Int → K) (w off : Int) : Int := Scalar.toInt (buf w (off + 1))

/-- time stamp of logical sample `l` -/
def ltime (buf : Int → Int → K) (w off n : Int) (l : Int) : K :=
  buf w (off + 2 + phys (cursorOf buf w off) n l)

/-- value of logical sample `l` -/
def lval (buf : Int → Int → K) (w off n : Int) (l : Int) : K :=
  buf w (off + 2 + n + phys (cursorOf buf w off) n l)

/-- LOGICAL view of the buffer: `(time, value)` pairs, oldest first, newest last -/
def logical (buf : Int → Int → K) (w off n : Int) : List (K × K) :=
  (List.range n.toNat).map (fun (i : Nat) => (ltime buf w off n i, lval buf w off n i))

/-- effect of the write list of one task on a 2-d float array named `arr`: exactly the kernel
    calculus' own read-back semantics (`Write.lookupF`), for every cell -/
def applyWrites (arr : String) (ws : List (Write K)) (a : Int → Int → K) : Int → Int → K :=
  fun w k => Write.lookupF ws arr [w, k] (a w k)

/-- total list access (default `(0,0)`; never reached on the paths the theorems use) -/
def nth (l : List (K × K)) (i : Nat) : K × K := l.getD i (Scalar.lit 0 0, Scalar.lit 0 0)

namespace Spec

/-- times strictly increasing (Bool-valued, executable) -/
def sortedB : List (K × K) → Bool
  | [] => true
  | [_] => true
  | a :: b :: r => Scalar.lt a.1 b.1 && sortedB (b :: r)

/-- `_history_find_index` on a sorted logical list: least `i` with `t ≤ time_i`, or `n` if none -/
def findIdx (l : List (K × K)) (t : K) : Nat := l.findIdx (fun p => Scalar.le t p.1)

/-- `_history_insert_scalar` on the logical list (length is preserved in every case):
    1. `i < n` and `|t - time_i| < eps` : overwrite the VALUE of sample `i` (its time is kept);
    2. `i = 0` (t older than the oldest) : REPLACE the oldest sample by `(t, v)`;
    3. `i = n` (t newer than the newest) : append `(t, v)`, evict the oldest (cursor advances);
    4. otherwise (out of order)          : evict the oldest, insert `(t, v)` in order
                                           (samples 1..i-1 shift left, new sample at i-1). -/
def insert (l : List (K × K)) (t v : K) : List (K × K) :=
  let n := l.length
  let i := findIdx l t
  if i < n ∧ Scalar.lt (Scalar.abs (t - (nth l i).1)) (eps : K) = true then
    l.set i ((nth l i).1, v)
  else if i = 0 then
    l.set 0 (t, v)
  else if i = n then
    l.drop 1 ++ [(t, v)]
  else
    (l.drop 1).take (i - 1) ++ (t, v) :: l.drop i

/-- `_history_read_scalar` on the logical list. `interp`: 0 = zero-order hold, 1 = linear,
    otherwise cubic (Catmull-Rom, finite-difference slopes, slope 0 at the two ends). -/
def read (l : List (K × K)) (t : K) (interp : Int) : K :=
  let n := l.length
  let oldest := nth l 0
  let newest := nth l (n - 1)
  if Scalar.le t (oldest.1 + (eps : K)) then oldest.2            -- before (or within eps after) the oldest
  else if Scalar.ge t (newest.1 - (eps : K)) then newest.2       -- after (or within eps before) the newest
  else
    let i := findIdx l t
    let hi := nth l i
    if Scalar.lt (Scalar.abs (t - hi.1)) (eps : K) then hi.2     -- exact match (within eps below time_i)
    else
      let lo := nth l (i - 1)
      if interp = 0 then lo.2                                    -- zero-order hold
      else
        let dt : K := hi.1 - lo.1
        let alpha : K := (t - lo.1) / dt
        let v_lo := lo.2
        let v_hi := hi.2
        if interp = 1 then v_lo + alpha * (v_hi - v_lo)          -- linear
        else
          let alpha2 : K := alpha * alpha
          let alpha3 : K := alpha2 * alpha
          let h00 : K := (Scalar.lit 2 0 : K) * alpha3 - (Scalar.lit 3 0 : K) * alpha2 + (Scalar.lit 1 0 : K)
          let h10 : K := alpha3 - (Scalar.lit 2 0 : K) * alpha2 + alpha
          let h01 : K := (Scalar.lit (-2) 0 : K) * alpha3 + (Scalar.lit 3 0 : K) * alpha2
          let h11 : K := alpha3 - alpha2
          let m_lo : K :=
            if i > 1 then (v_hi - (nth l (i - 2)).2) / (hi.1 - (nth l (i - 2)).1) else (Scalar.lit 0 0 : K)
          let m_hi : K :=
            if i + 1 < n then ((nth l (i + 1)).2 - v_lo) / ((nth l (i + 1)).1 - lo.1) else (Scalar.lit 0 0 : K)
          h00 * v_lo + h10 * dt * m_lo + h01 * v_hi + h11 * dt * m_hi

/-- MuJoCo's initial logical view (`mj_makeData`, `mj_resetData`): times `-n·dt … -dt`, values 0 -/
def mjInit (n : Nat) (dt : K) : List (K × K) :=
  (List.range n).map (fun (j : Nat) => ((Scalar.ofInt ((j : Int) - (n : Int)) : K) * dt, (Scalar.lit 0 0 : K)))

/-- insert a list of samples one after the other -/
def insertMany (l : List (K × K)) (samples : List (K × K)) : List (K × K) :=
  samples.foldl (fun acc s => insert acc s.1 s.2) l

end Spec

/-- one call of a write-producing function applied to the buffer array `buf_out` -/
def step (f : (Int → Int → K) → List (Write K)) (buf : Int → Int → K) : Int → Int → K :=
  applyWrites "buf_out" (f buf) buf

end Mjw.Hist
