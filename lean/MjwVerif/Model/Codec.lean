/- Bit-exact float transport for the line protocol: floats travel as the decimal value of their
   IEEE bit pattern (Float32: 32 bits, Float: 64 bits). -/
import MjwVerif.Model.Vec
namespace Mjw

class Codec (K : Type) where
  dec : String → K
  enc : K → String

instance : Codec Float32 where
  dec s := Float32.ofBits (UInt32.ofNat s.toNat!)
  enc x := toString x.toBits.toNat

instance : Codec Float where
  dec s := Float.ofBits (UInt64.ofNat s.toNat!)
  enc x := toString x.toBits.toNat

end Mjw
