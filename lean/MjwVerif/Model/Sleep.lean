/-
  Hand-written protocol model (E2) of /repo/mujoco_warp/_src/sleep.py.

  Encoding (one world): `asleep : List Int`, one entry per tree (`ntree = asleep.length`)
      entry < 0   the tree is AWAKE; the value is its countdown, from `AWAKE_VAL = -(1+MINAWAKE) = -11`
                  (fully awake) up to `-1` (ready to sleep)
      entry ≥ 0   the tree is ASLEEP; the value is the next tree of its sleep cycle.

  What is modelled: every kernel of sleep.py that touches `tree_asleep`, at the granularity
  ONE TASK = ONE ATOMIC STEP.  A launch = its tasks executed one after another in the order given by a list
  (`order`, any permutation of the grid); each task reads the CURRENT state.

      _wake_tree                 `wakeCells` / `wakeTree`        (cycle walk, reads its own writes)
      _wake_kernel               `wakeKernelTask` / `wakeKernelLaunch`
      _tree_can_sleep            `canSleepSpec`                  (closed form of the three early-return loops)
      _wake_collision_kernel     `collisionTarget` / `collisionTaskOf` / `collisionTask` / `collisionLaunch`
      _wake_tendon_kernel        `wrapTree`, `tendonTrees`, `tendonScan` (pass 1), `tendonWakeWrites` (pass 2)
      _wake_equality_kernel      `eqTrees`, `eqBodyWrites`; `_tendon_wake_val` = `tendonWakeVal`
      generic                    `wakeLaunch` (tasks = (tree, wake value)), `launchK` (generated kernels on the state)
      _sweep_awake_trees         `sweepVal` / `sweepTask` / `sweep`, `countdown`, `trail`
      _check_island_can_sleep    `checkTask` / `check` / `islandCanSleep`, `applyIcs`
      _build_cycles              `buildCycles` (state), `buildCyclesWrites` (exact write list, incl. qvel/qacc zeroing)
      _update_sleep_trees        `updTreesWrites`, `treeAwake`;  _zero_sleep_counters  `zeroCountersWrites`
      sleep()                    `sleepStep` = sweep; check (from ones); build
      well-formedness            `WF` (sleeping entries form cycles), `InRange`, `onCycle`

  What is abstracted: other worlds (every kernel reads and writes row `worldid` only), int32 wrap-around,
  the interleaving INSIDE a task (a task's reads and writes are one atomic step).

  Core Lean only; everything is executable.
-/
import MjwVerif.Model.Kernel
namespace Mjw.Sleep

/-- `MJ_MINAWAKE` -/
def MINAWAKE : Int := 10
/-- `K_AWAKE_VAL = -(1 + MJ_MINAWAKE)`: `tree_asleep` value of a fully awake tree -/
def AWAKE_VAL : Int := -(1 + MINAWAKE)

/-! ## one world's `tree_asleep` row as a list -/

/-- read cell `t` (0 outside the array; the kernels never read there) -/
def rd (s : List Int) (t : Int) : Int := if 0 ≤ t then s.getD t.toNat 0 else 0

/-- write cell `t` (no effect outside the array) -/
def wr (s : List Int) (t v : Int) : List Int := if 0 ≤ t then s.set t.toNat v else s

/-- iterate a "next tree" function -/
def iter (f : Int → Int) : Nat → Int → Int
  | 0, x => x
  | k + 1, x => iter f k (f x)

/-- a write to `tree_asleep_out[w, c]` -/
def setAsleep {K : Type} (w c v : Int) : Write K := Write.mk "tree_asleep_out" [w, c] (WVal.i v) WKind.set

/-- effect of one write on world `w`'s `tree_asleep` row (only plain stores occur on this array) -/
def applyAsleep1 {K : Type} (w : Int) (s : List Int) (x : Write K) : List Int :=
  match x.val, x.kind, x.idx with
  | .i v, .set, [w', c] => if x.arr = "tree_asleep_out" ∧ w' = w then wr s c v else s
  | _, _, _ => s

def applyAsleep {K : Type} (w : Int) (s : List Int) (ws : List (Write K)) : List Int := ws.foldl (applyAsleep1 w) s

/-- the array a task of ANY world sees when the modelled world's row is `s` (rows of other worlds are
    irrelevant: a task reads and writes row `worldid` only) -/
def asArr (s : List Int) : Int → Int → Int := fun _ c => rd s c

/-- project a write list to something decidable -/
def wproj {K : Type} (ws : List (Write K)) : List (String × List Int × Int × WKind) :=
  ws.filterMap (fun x => match x.val with | .i v => some (x.arr, x.idx, v, x.kind) | _ => none)

/-! ## `_wake_tree` -/

/-- the cycle walk of `_wake_tree`: `vis` = cells already written (with `v`), `cur` = current tree.
    The walk READS ITS OWN WRITES: a cell already written holds `v`. -/
def wakePathAux (n : Int) (a : Int → Int) (t v : Int) : Nat → List Int → Int → List Int
  | 0, vis, _ => vis
  | k + 1, vis, cur =>
    let next := if cur ∈ vis then v else a cur
    if next < 0 ∨ next ≥ n then vis
    else if next = t then vis ++ [cur]
    else wakePathAux n a t v k (vis ++ [cur]) next

/-- the cells `_wake_tree(ntree = n, treeid = t, wakeval = v)` stores `v` into, in program order, when the
    row holds `a`:  nothing for `t` out of range; for an AWAKE `t` only `t` itself and only if `v` is smaller
    (more awake); for a SLEEPING `t` the walk along `a` (at most `n+1` steps). -/
def wakeCells (n : Int) (a : Int → Int) (t v : Int) : List Int :=
  if t < 0 ∨ t ≥ n then []
  else if a t < 0 then (if v < a t then [t] else [])
  else wakePathAux n a t v (n + 1).toNat [] t

/-- the write list of `_wake_tree` -/
def wakeTreeWrites {K : Type} (w n : Int) (a : Int → Int) (t v : Int) : List (Write K) :=
  (wakeCells n a t v).map (fun c => setAsleep w c v)

/-- the return value of `_wake_tree` (number of trees woken) -/
def wakeCount (n : Int) (a : Int → Int) (t v : Int) : Int :=
  if t < 0 ∨ t ≥ n then 0 else if a t < 0 then 0 else (wakeCells n a t v).length

/-- `_wake_tree` as a state transition -/
def wakeTree (s : List Int) (t v : Int) : List Int :=
  (wakeCells s.length (rd s) t v).foldl (fun s c => wr s c v) s

/-- a launch all of whose tasks are one `_wake_tree(tree, value)` call, in the given order -/
def wakeLaunch (tasks : List (Int × Int)) (s : List Int) : List Int :=
  tasks.foldl (fun s tv => wakeTree s tv.1 tv.2) s

/-- the set of awake trees, as a Bool row -/
def awakeSet (s : List Int) : List Bool := s.map (fun x => decide (x < 0))

/-! ## well-formedness: sleeping entries form cycles -/

/-- `u` lies on the walk from `t` along `f` within `n` steps -/
def onCycle (n : Nat) (f : Int → Int) (t u : Int) : Prop := ∃ k ∈ List.range n, iter f k t = u

instance (n : Nat) (f : Int → Int) (t u : Int) : Decidable (onCycle n f t u) := by
  unfold onCycle; exact inferInstance

/-- WF: every sleeping tree's successor is a sleeping tree of the array, and following `asleep` from a
    sleeping tree returns to it within `ntree` steps.  (Hence the sleeping entries form disjoint cycles.) -/
def WF (s : List Int) : Prop :=
  ∀ t ∈ List.range s.length, rd s (t : Nat) ≥ 0 →
    (rd s (t : Nat) < s.length ∧ rd s (rd s (t : Nat)) ≥ 0 ∧ ∃ k ∈ List.range s.length, iter (rd s) (k + 1) (t : Nat) = (t : Nat))

instance (s : List Int) : Decidable (WF s) := by
  unfold WF; exact inferInstance

/-- weaker than WF: a sleeping entry points inside the array -/
def InRange (s : List Int) : Prop := ∀ t ∈ List.range s.length, rd s (t : Nat) < s.length

instance (s : List Int) : Decidable (InRange s) := by
  unfold InRange; exact inferInstance

/-! ## `_wake_kernel` -/

/-- one `_wake_kernel` task for tree `t`: if `t` is asleep NOW and (`tree_awake[t] == 1` or the tree cannot
    sleep at tolerance 0, i.e. has applied force / nonzero velocity / policy NEVER) — `trigger t` — wake it
    with `K_AWAKE_VAL` -/
def wakeKernelWrites {K : Type} (w n : Int) (a : Int → Int) (trigger : Bool) (t : Int) : List (Write K) :=
  if a t ≥ 0 ∧ trigger then wakeTreeWrites w n a t AWAKE_VAL else []

def wakeKernelTask (trigger : Int → Bool) (s : List Int) (t : Int) : List Int :=
  if rd s t ≥ 0 ∧ trigger t then wakeTree s t AWAKE_VAL else s

def wakeKernelLaunch (trigger : Int → Bool) (order : List Int) (s : List Int) : List Int :=
  order.foldl (wakeKernelTask trigger) s

/-! ## `_wake_collision_kernel` -/

/-- what a `_wake_collision_kernel` task does, given the two trees of the contact and their `tree_awake`
    flags: `none`, or `some (tree to wake, tree whose CURRENT countdown is the wake value)` -/
def collisionTarget (tree1 tree2 awake1 awake2 : Int) : Option (Int × Int) :=
  if tree1 < 0 ∨ tree2 < 0 then none
  else if awake1 = 1 ∧ awake2 = 1 then none
  else if awake1 = 0 ∧ awake2 = 0 then none
  else if awake1 = 1 then some (tree2, tree1) else some (tree1, tree2)

/-- one collision task on the state: the wake value is READ FROM THE CURRENT STATE -/
def collisionTask (s : List Int) (c : Option (Int × Int)) : List Int :=
  match c with
  | none => s
  | some (t, src) => wakeTree s t (rd s src)

def collisionLaunch (tasks : List (Option (Int × Int))) (s : List Int) : List Int := tasks.foldl collisionTask s

/-! ## `_sweep_awake_trees` -/

/-- new countdown of a tree: asleep → unchanged; can sleep → one step toward −1; cannot → reset to −11 -/
def sweepVal (can : Bool) (a : Int) : Int :=
  if a ≥ 0 then a else if can then (if a < -1 then a + 1 else a) else AWAKE_VAL

def sweepWrites {K : Type} (w t : Int) (can : Bool) (a : Int) : List (Write K) :=
  if a ≥ 0 then [] else if can then (if a < -1 then [setAsleep w t (a + 1)] else []) else [setAsleep w t AWAKE_VAL]

def sweepTask (can : Int → Bool) (s : List Int) (t : Int) : List Int :=
  let a := rd s t
  if a ≥ 0 then s else if can t then (if a < -1 then wr s t (a + 1) else s) else wr s t AWAKE_VAL

def sweep (can : Int → Bool) (order : List Int) (s : List Int) : List Int := order.foldl (sweepTask can) s

/-! ## `_check_island_can_sleep` -/

def checkWrites {K : Type} (w nisland isl a : Int) : List (Write K) :=
  if 0 ≤ isl ∧ isl < nisland ∧ a < -1 then
    [(Write.mk "island_can_sleep_out" [w, isl] (WVal.i 0) WKind.amin : Write K)] else []

/-- one task: `atomic_min(island_can_sleep[island t], 0)` if the tree has a valid island and is not ready -/
def checkTask (island : Int → Int) (nisland : Int) (s : List Int) (ics : List Int) (t : Int) : List Int :=
  if 0 ≤ island t ∧ island t < nisland ∧ rd s t < -1 then wr ics (island t) (min (rd ics (island t)) 0) else ics

def check (island : Int → Int) (nisland : Int) (s : List Int) (order : List Int) (ics : List Int) : List Int :=
  order.foldl (checkTask island nisland s) ics

/-- closed form: island `i` may sleep iff none of its trees has a countdown below −1 -/
def islandCanSleep (island : Int → Int) (s : List Int) (i : Int) : Int :=
  if ∃ t ∈ List.range s.length, island (t : Nat) = i ∧ rd s (t : Nat) < -1 then 0 else 1

/-! ## `_build_cycles` -/

/-- trees `< n` of island `i`, increasing -/
def members (n : Nat) (island : Int → Int) (i : Int) : List Int :=
  ((List.range n).map (fun (k : Nat) => (k : Int))).filter (fun t => island t = i)

/-- consecutive pairs `(prev, m₁), (m₁, m₂), …` -/
def linkPairs : Int → List Int → List (Int × Int)
  | _, [] => []
  | prev, m :: ms => (prev, m) :: linkPairs m ms

/-- link `ms = [m₀, …, m_k]` into the cycle `m₀ → m₁ → … → m_k → m₀` (stores in this order) -/
def linkCycle (s : List Int) (ms : List Int) : List Int :=
  match ms with
  | [] => s
  | m0 :: rest => wr ((linkPairs m0 rest).foldl (fun s p => wr s p.1 p.2) s) ((m0 :: rest).getLastD (-1)) m0

/-- phase 1: every island `i < nisland` with `island_can_sleep[i] == 1` becomes one cycle (all its trees,
    whatever their state); phase 2: a tree WITHOUT valid island whose countdown (pre-launch content; phase 1
    and earlier iterations never store into its cell) is −1 becomes a self-cycle -/
def buildCycles (island : Int → Int) (nisland : Int) (ics : Int → Int) (s : List Int) : List Int :=
  let n := s.length
  let s1 := (List.range nisland.toNat).foldl (fun s' (i : Nat) =>
    if ics i = 1 then linkCycle s' (members n island i) else s') s
  (List.range n).foldl (fun s' (t : Nat) =>
    if (island t < 0 ∨ island t ≥ nisland) ∧ rd s t = -1 then wr s' t t else s') s1

/-- zeroing of `qvel` / `qacc` of the dofs `adr … adr+num-1` -/
def zeroDofs {K : Type} [Scalar K] (w adr num : Int) : List (Write K) :=
  (List.range num.toNat).flatMap (fun (d : Nat) =>
    [(Write.mk "qvel_out" [w, adr + (d : Int)] (WVal.f (Scalar.lit 0 0 : K)) WKind.set : Write K),
     (Write.mk "qacc_out" [w, adr + (d : Int)] (WVal.f (Scalar.lit 0 0 : K)) WKind.set : Write K)])

/-- writes of the inner loop of phase 1 over the members of one island; `prev` = previous member (−1: none) -/
def linkFrom {K : Type} [Scalar K] (w : Int) (dofadr dofnum : Int → Int) : Int → List Int → List (Write K)
  | _, [] => []
  | prev, m :: ms =>
    (if prev ≠ -1 then [setAsleep w prev m] else []) ++ zeroDofs w (dofadr m) (dofnum m) ++ linkFrom w dofadr dofnum m ms

def islandWrites {K : Type} [Scalar K] (w : Int) (n : Nat) (dofadr dofnum island ics : Int → Int) (i : Int) : List (Write K) :=
  if ics i = 1 then
    let ms := members n island i
    linkFrom w dofadr dofnum (-1) ms
      ++ (if ms.headD (-1) ≠ -1 then [setAsleep w (ms.getLastD (-1)) (ms.headD (-1))] else [])
  else []

def phase2Writes {K : Type} [Scalar K] (w nisland : Int) (dofadr dofnum island a : Int → Int) (t : Int) : List (Write K) :=
  if island t < 0 ∨ island t ≥ nisland then
    (if a t = -1 then [setAsleep w t t] else [])
      ++ (if a t = -1 ∨ a t ≥ 0 then zeroDofs w (dofadr t) (dofnum t) else [])
  else []

/-- the exact write list of the `_build_cycles` task of world `w` (`a` = pre-launch `tree_asleep[w, ·]`) -/
def buildCyclesWrites {K : Type} [Scalar K] (w : Int) (n : Nat) (nisland : Int) (dofadr dofnum island ics a : Int → Int) :
    List (Write K) :=
  (List.range nisland.toNat).flatMap (fun (i : Nat) => islandWrites w n dofadr dofnum island ics i)
    ++ (List.range n).flatMap (fun (t : Nat) => phase2Writes w nisland dofadr dofnum island a t)

/-! ## `sleep()` = sweep, check, build -/

/-- one call of `sleep(m, d)`: sweep in `o1`, `island_can_sleep = ones`, check in `o2`, build -/
def sleepStep (can : Int → Bool) (island : Int → Int) (nisland : Int) (o1 o2 : List Int) (s : List Int) : List Int :=
  let s1 := sweep can o1 s
  let ics := check island nisland s1 o2 (List.replicate s.length 1)
  buildCycles island nisland (rd ics) s1

/-- the countdown of an awake tree over successive sweeps (`c j` = "below tolerance, no applied force" at
    sweep `j`), starting from `v0` -/
def countdown (c : Nat → Bool) (v0 : Int) : Nat → Int
  | 0 => v0
  | j + 1 => sweepVal (c j) (countdown c v0 j)

/-- number of consecutive `true`s of `c` immediately before index `k` -/
def trail (c : Nat → Bool) : Nat → Nat
  | 0 => 0
  | k + 1 => if c k then trail c k + 1 else 0

/-! ## `_update_sleep_trees`, `_zero_sleep_counters` -/

def updTreesWrites {K : Type} (w t a : Int) : List (Write K) :=
  if a < 0 then
    [(Write.mk "tree_awake_out" [w, t] (WVal.i 1) WKind.set : Write K),
     (Write.mk "ntree_awake_out" [w] (WVal.i 1) WKind.aadd : Write K)]
  else [(Write.mk "tree_awake_out" [w, t] (WVal.i 0) WKind.set : Write K)]

/-- `tree_awake` after `update_sleep` -/
def treeAwake (s : List Int) : List Int := s.map (fun x => if x < 0 then 1 else 0)

def zeroCountersWrites {K : Type} (w : Int) : List (Write K) :=
  [(Write.mk "ntree_awake_out" [w] (WVal.i 0) WKind.set : Write K),
   (Write.mk "nbody_awake_out" [w] (WVal.i 0) WKind.set : Write K),
   (Write.mk "nv_awake_out" [w] (WVal.i 0) WKind.set : Write K)]

/-! ## launches of GENERATED kernels on the list state -/

/-- fold a kernel (given the current `tree_asleep` array it returns its write list) over the task order -/
def launchK {K τ : Type} (w : Int) (task : (Int → Int → Int) → τ → List (Write K)) (order : List τ) (s : List Int) : List Int :=
  order.foldl (fun s tid => applyAsleep w s (task (asArr s) tid)) s


/-! ## `_tree_can_sleep` in closed form -/

/-- some component of a spatial force is nonzero (`!=` as the scalar type decides it) -/
def anyNonzero6 {K : Type} [Scalar K] (x : V6 K) : Bool :=
  Scalar.bne x.c0 (Scalar.lit 0 0 : K) || Scalar.bne x.c1 (Scalar.lit 0 0 : K) || Scalar.bne x.c2 (Scalar.lit 0 0 : K)
    || Scalar.bne x.c3 (Scalar.lit 0 0 : K) || Scalar.bne x.c4 (Scalar.lit 0 0 : K) || Scalar.bne x.c5 (Scalar.lit 0 0 : K)

/-- `_tree_can_sleep(treeid, tol)`: policy is not NEVER (= 1), no body of the tree has a nonzero `xfrc_applied`
    component, no dof of the tree has nonzero `qfrc_applied`, and every dof is slow:
    `|dof_length · qvel| < tol` if `tol > 0`, `qvel == 0` otherwise -/
def canSleepSpec {K : Type} [Scalar K] (nbody : Int) (body_treeid : Int → Int) (dof_length : Int → K)
    (adr num policy : Int) (qvel qfrc : Int → K) (xfrc : Int → V6 K) (treeid : Int) (tol : K) : Bool :=
  if policy = 1 then false
  else if (List.range nbody.toNat).any (fun (b : Nat) => decide (body_treeid b = treeid) && anyNonzero6 (xfrc b)) then false
  else if (List.range num.toNat).any (fun (d : Nat) => Scalar.bne (qfrc (adr + d)) (Scalar.lit 0 0 : K)) then false
  else if (List.range num.toNat).any (fun (d : Nat) =>
      if Scalar.gt tol (Scalar.lit 0 0 : K) then Scalar.ge (Scalar.abs (dof_length (adr + d) * qvel (adr + d))) tol
      else Scalar.bne (qvel (adr + d)) (Scalar.lit 0 0 : K)) then false
  else true

/-! ## what a `_wake_collision_kernel` thread does to world `w` -/

def collisionTaskOf (w : Int) (body_treeid geom_bodyid : Int → Int) (tree_awake_in : Int → Int → Int)
    (contact_geom_in : Int → I2) (contact_worldid_in nacon_in : Int → Int) (conid : Int) : Option (Int × Int) :=
  if conid < nacon_in 0 ∧ 0 ≤ (contact_geom_in conid).c0 ∧ 0 ≤ (contact_geom_in conid).c1 ∧ contact_worldid_in conid = w then
    collisionTarget (body_treeid (geom_bodyid (contact_geom_in conid).c0)) (body_treeid (geom_bodyid (contact_geom_in conid).c1))
      (tree_awake_in w (body_treeid (geom_bodyid (contact_geom_in conid).c0)))
      (tree_awake_in w (body_treeid (geom_bodyid (contact_geom_in conid).c1)))
  else none

/-! ## `island_can_sleep` row -/

def applyIcs1 {K : Type} (w : Int) (ics : List Int) (x : Write K) : List Int :=
  match x.val, x.kind, x.idx with
  | .i v, .amin, [w', c] => if x.arr = "island_can_sleep_out" ∧ w' = w then wr ics c (min (rd ics c) v) else ics
  | _, _, _ => ics

def applyIcs {K : Type} (w : Int) (ics : List Int) (ws : List (Write K)) : List Int := ws.foldl (applyIcs1 w) ics


/-! ## tendons and equalities -/

/-- tree of the `idx`-th wrap object of a tendon path (JOINT = 1, SITE = 3, SPHERE = 4, CYLINDER = 5; else −1) -/
def wrapTree (body_treeid jnt_bodyid geom_bodyid site_bodyid wrap_type wrap_objid : Int → Int) (idx : Int) : Int :=
  if wrap_type idx = 1 then body_treeid (jnt_bodyid (wrap_objid idx))
  else if wrap_type idx = 3 then body_treeid (site_bodyid (wrap_objid idx))
  else if wrap_type idx = 4 ∨ wrap_type idx = 5 then body_treeid (geom_bodyid (wrap_objid idx))
  else -1

/-- the trees along a tendon, in path order -/
def tendonTrees (wt : Int → Int) (adr num : Int) : List Int := (List.range num.toNat).map (fun (i : Nat) => wt (adr + (i : Int)))

/-- `_wake_tendon_trees` / pass 2 of `_wake_tendon_kernel`: one `_wake_tree(t, v)` (all on the PRE-TASK array `a`)
    for every tree of the path whose `tree_awake` flag is 0 -/
def tendonWakeCells (n : Int) (a awake : Int → Int) (trees : List Int) (v : Int) : List Int :=
  trees.flatMap (fun t => if t ≥ 0 ∧ awake t = 0 then wakeCells n a t v else [])

def tendonWakeWrites {K : Type} (w n : Int) (a awake : Int → Int) (trees : List Int) (v : Int) : List (Write K) :=
  (tendonWakeCells n a awake trees v).map (fun c => setAsleep w c v)

/-- pass 1 of `_wake_tendon_kernel`: `(any_awake, wakeval)`; `wakeval` starts at `K_AWAKE_VAL` and is lowered to
    the countdown of every flag-1 tree -/
def tendonScan (a awake : Int → Int) (trees : List Int) : Int × Int :=
  trees.foldl (fun st t => if t ≥ 0 ∧ awake t = 1 then ((1 : Int), if a t < st.2 then a t else st.2) else st) ((0 : Int), AWAKE_VAL)

/-- `_tendon_wake_val`: the smallest countdown among the flag-1 trees of the path, 0 if there is none -/
def tendonWakeVal (a awake : Int → Int) (trees : List Int) : Int :=
  trees.foldl (fun wv t => if t ≥ 0 ∧ awake t = 1 then (if wv = 0 ∨ a t < wv then a t else wv) else wv) 0

/-- the two trees of a CONNECT (0) / WELD (1) / JOINT (2) equality -/
def eqTrees (body_treeid jnt_bodyid site_bodyid : Int → Int) (eqtype objtype id1 id2 : Int) : Int × Int :=
  if eqtype = 0 ∨ eqtype = 1 then
    (if objtype = 1 then (body_treeid id1, body_treeid id2) else (body_treeid (site_bodyid id1), body_treeid (site_bodyid id2)))
  else if eqtype = 2 then
    ((if id1 ≥ 0 then body_treeid (jnt_bodyid id1) else -1), (if id2 ≥ 0 then body_treeid (jnt_bodyid id2) else -1))
  else (-1, -1)

/-- the writes of a CONNECT / WELD / JOINT equality task, given the two trees, their states
    (`tree_awake` flag, or −1 = STATIC for "no tree") and the two `_sleep_cycle` values -/
def eqBodyWrites {K : Type} (w n : Int) (a : Int → Int) (t1 t2 s1 s2 c1 c2 : Int) : List (Write K) :=
  if s1 ≠ 0 ∧ s2 ≠ 0 then []
  else if s1 = -1 ∨ s2 = -1 then []
  else if t1 = t2 then []
  else if s1 = 0 ∧ s2 = 0 then
    (if c1 ≠ c2 then wakeTreeWrites w n a t1 AWAKE_VAL ++ wakeTreeWrites w n a t2 AWAKE_VAL else [])
  else wakeTreeWrites w n a (if s1 = 0 then t1 else t2) AWAKE_VAL

/-! ## small concrete instances -/

#eval wakeTree [1, 2, 0] 0 (-3)
#eval wakeLaunch [(0, -3), (1, -7)] [1, 2, 0]
#eval wakeLaunch [(1, -7), (0, -3)] [1, 2, 0]
#eval sleepStep (fun _ => true) (fun t => [0, 0, -1, 1].getD t.toNat (-1)) 2 [0, 1, 2, 3] [3, 2, 1, 0] [-2, -1, -1, -3]
#eval sleepStep (fun _ => true) (fun t => [0, 0, -1, 1].getD t.toNat (-1)) 2 [0, 1, 2, 3] [3, 2, 1, 0] [-2, -2, -2, -2]

end Mjw.Sleep
