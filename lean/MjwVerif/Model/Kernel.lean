/-
  Tier-B kernel calculus: a kernel task, given the pre-launch contents of its array parameters
  (as functions of integer indices) and its thread id, yields the list of array updates it performs.
-/
import MjwVerif.Model.Vec
namespace Mjw

inductive WVal (K : Type) where
  | f (x : K)
  | i (n : Int)
  | b (x : Bool)
  | v (xs : List K)
  | iv (xs : List Int)

inductive WKind where
  | set | aadd | asub | amin | amax | aor | aand
  | alloc   -- atomic add whose returned (old) value the thread uses, e.g. as a slot index
  deriving DecidableEq, Repr

structure Write (K : Type) where
  arr : String
  idx : List Int
  val : WVal K
  kind : WKind

namespace Write
def rename {K : Type} (m : List (String × String)) (w : Write K) : Write K :=
  match m.find? (fun p => p.1 == w.arr) with
  | some p => { w with arr := p.2 }
  | none => w
/-- value of cell `arr[idx]` as seen by the thread itself after its own earlier updates `ws`
    (own plain writes replace, own atomic adds accumulate); `dflt` is the pre-launch content -/
def lookupF {K : Type} [Scalar K] (ws : List (Write K)) (arr : String) (idx : List Int) (dflt : K) : K :=
  ws.foldl (fun acc w => if w.arr == arr && w.idx == idx then
      (match w.kind, w.val with
       | .set, .f x => x
       | .aadd, .f x => acc + x
       | .alloc, .f x => acc + x
       | .asub, .f x => acc - x
       | _, _ => acc) else acc) dflt
def lookupI {K : Type} (ws : List (Write K)) (arr : String) (idx : List Int) (dflt : Int) : Int :=
  ws.foldl (fun acc w => if w.arr == arr && w.idx == idx then
      (match w.kind, w.val with
       | .set, .i x => x
       | .aadd, .i x => acc + x
       | .alloc, .i x => acc + x
       | .asub, .i x => acc - x
       | .amax, .i x => max acc x
       | .amin, .i x => min acc x
       | .aor, .i x => Mjw.ior acc x
       | _, _ => acc) else acc) dflt
def lookupV {K : Type} (ws : List (Write K)) (arr : String) (idx : List Int) (dflt : List K) : List K :=
  ws.foldl (fun acc w => if w.arr == arr && w.idx == idx then
      (match w.kind, w.val with
       | .set, .v x => x
       | _, _ => acc) else acc) dflt
def lookupB {K : Type} (ws : List (Write K)) (arr : String) (idx : List Int) (dflt : Bool) : Bool :=
  ws.foldl (fun acc w => if w.arr == arr && w.idx == idx then
      (match w.kind, w.val with
       | .set, .b x => x
       | _, _ => acc) else acc) dflt
def renameAll {K : Type} (m : List (String × String)) (ws : List (Write K)) : List (Write K) := ws.map (rename m)
end Write

/-- `for i in range(lo, hi)` as a left fold -/
def forRange {σ : Type} (lo hi : Int) (init : σ) (f : Int → σ → σ) : σ :=
  (List.range (hi - lo).toNat).foldl (fun s (k : Nat) => f (lo + Int.ofNat k) s) init

/-- `for i in range(lo, hi, step)` (step ≠ 0) as a left fold -/
def forRangeStep {σ : Type} (lo hi step : Int) (init : σ) (f : Int → σ → σ) : σ :=
  let n : Nat := if step > 0 then ((hi - lo + step - 1) / step).toNat else if step < 0 then ((lo - hi - step - 1) / (-step)).toNat else 0
  (List.range n).foldl (fun s (k : Nat) => f (lo + step * Int.ofNat k) s) init

/-- `while cond: body` with explicit fuel (termination is a proof obligation of whoever picks the fuel) -/
def whileFuel {σ : Type} : Nat → (σ → Bool) → (σ → σ) → σ → σ
  | 0, _, _, s => s
  | n + 1, c, b, s => if c s then whileFuel n c b (b s) else s

end Mjw
