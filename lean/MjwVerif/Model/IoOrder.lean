/-
  Hand-written executable model (core-only) of the INDEX COMPUTATIONS of the host/device conversion in
    /repo/mujoco_warp/_src/io.py   `put_data` (contact / efc part, lines 2021-2051, 74-105) and
                                   `get_data_into` (lines 2200-2252, 2331-2346, 2383-2392).
  The code is host NumPy, which the kernel translator does not translate; this model is tied to the source by
  `harness/props/c31.py`, which sends the integer inputs of real device states to `proto` (via Driver/ProtoIo.lean)
  and compares every answer with what the real `put_data` / `get_data_into` produced.

  Python (`put_data`):
      val = np.tile(mjd.contact.<f>, (nworld,) + ...); val = np.pad(val, (0, naconmax - val.shape[0]))   # every column
      contact.efc_address = np.full((naconmax, nmaxpyramid), -1)
      for i in range(mjd.ncon):
        efc_address = mjd.contact.efc_address[i]
        if efc_address == -1: continue
        condim = mjd.contact.dim[i]
        ndim = max(1, 2 * (condim - 1)) if cone == PYRAMIDAL else condim
        for j in range(nworld):
          contact.efc_address[j * mjd.ncon + i, :ndim] = efc_address + np.arange(ndim)
      contact.worldid = np.pad(np.repeat(np.arange(nworld), mjd.ncon), (0, naconmax - nworld * mjd.ncon))
      efc.<f>[:, :mjd.nefc] = np.tile(mjd.efc_<f>, (nworld, 1))          # zero beyond nefc, njmax columns
      d.nacon = [mjd.ncon * nworld];  d.ne/nf/nl/nefc = mjd's, for every world

  Python (`get_data_into`, world `world_id`):
      nacon = min(d.nacon[0], d.naconmax);  nefc = min(d.nefc[world_id], d.njmax)
      ncon_filter[:nacon] = d.contact.worldid[:nacon] == world_id;  ncon = ncon_filter.sum()
      if ncon > 0:
        efc_idx_efl = np.arange(ne + nf + nl)
        contact_dim = d.contact.dim[ncon_filter];  contact_efc_address = d.contact.efc_address[ncon_filter]
        efc_idx_c = [];  contact_efc_address_ordered = [];  efc_adr = ne + nf + nl
        for i in range(ncon):
          ndim = max(1, 2 * (dim_i - 1)) if PYRAMIDAL else dim_i
          if contact_efc_address[i, 0] < 0:          # contact without constraint rows: no rows, address -1   (fix e4120b4)
            contact_efc_address_ordered.append(-1);  continue
          efc_idx_c.append(contact_efc_address[i, :ndim])
          contact_efc_address_ordered.append(efc_adr);  efc_adr += ndim
        efc_idx = np.concatenate((efc_idx_efl, *efc_idx_c)).astype(int)
      else:
        efc_idx = np.arange(nefc);  contact_efc_address_ordered = []
      efc_idx = efc_idx[:nefc]
      result.contact.<f>[:ncon] = d.contact.<f>[ncon_filter];  result.contact.efc_address[:ncon] = contact_efc_address_ordered
      efc_J = d.efc.J[world_id, :nefc, :nv]   (dense; sparse: mju_sparse2dense of the first nefc rows);  result.efc_J = efc_J[efc_idx]
      result.efc_<f>[:] = d.efc.<f>[world_id, efc_idx]                   # result.efc_<f> has nefc entries

  Conventions
  * payloads are abstract: `α` = everything else a contact slot carries (dist, pos, frame, …), `β` = everything an efc row
    carries (type, id, J row, pos, …).  The model moves payloads, it never looks into them.
  * `a[idx]` with an integer index array has NumPy semantics (`pyGet`): `0 ≤ i < n` → `a[i]`; `-n ≤ i < 0` → `a[n+i]`
    (so the address `-1` of an excluded contact silently reads the LAST of the njmax rows); otherwise IndexError = `none`.
  * `result.efc_x[:] = v` with `len(result.efc_x) = nefc`: `len v = nefc` → copy; `len v = 1` → NumPy broadcast;
    otherwise ValueError = `none`.
  * `a[i, :ndim]` of a row with `nmaxpyramid` columns is `List.take`.  `nmaxpyramid ≥ 1` always (`np.maximum(1, …)`), so
    `contact_efc_address[i, 0]` exists; the model reads an empty address row as "not negative" (never occurs; `proto` answers
    ERR for nmaxpyr = 0 with a selected contact, where NumPy raises IndexError).

  Text interface (`proto`), one line in, one line out, blank-separated decimal integers:
    put pyr nworld naconmax njmax nmaxpyr ncon nefc  dim[ncon] adr[ncon]
        -> nacon | worldid[naconmax] | dim[naconmax] | adr[naconmax*nmaxpyr] | src[naconmax] | rowsrc[njmax]
           (src = index of the host contact the slot was copied from, -1 for padding; rowsrc likewise for efc rows)
    get pyr w nacon naconmax njmax njmax_pad nmaxpyr nefc ne nf nl  worldid[naconmax] dim[naconmax] adr[naconmax*nmaxpyr]
        -> ncon | slot[ncon] | adrOrdered[ncon] | rowidx[nefc] | jrowidx[nefc] | drowidx[nefc]
           (indices into the device arrays, after wrap: rowidx for the njmax-long columns, jrowidx for efc_J, drowidx for the
            njmax_pad-long columns efc.D / efc.state)
           or ERR if NumPy would raise.
-/
namespace Mjw.IoOrder

/-- number of efc rows of a contact of dimension `dim` -/
def ndim (pyr : Bool) (dim : Nat) : Nat := if pyr then max 1 (2 * (dim - 1)) else dim

/-- `np.arange(n)` -/
def arange (n : Nat) : List Int := (List.range n).map Int.ofNat

/-- a MuJoCo (host) contact: `adr = -1` means excluded from the constraint list -/
structure HCon (α : Type) where
  dim : Nat
  adr : Int
  pay : α
  deriving DecidableEq, Repr

/-- a device contact slot -/
structure DCon (α : Type) where
  worldid : Nat
  dim : Nat
  adr : List Int
  pay : α
  deriving DecidableEq, Repr

/-- what `put_data` reads from MjData -/
structure Host (α β : Type) where
  cons : List (HCon α)
  rows : List β
  ne : Nat
  nf : Nat
  nl : Nat
  deriving DecidableEq, Repr

/-- what `put_data` builds / `get_data_into` reads -/
structure Dev (α β : Type) where
  cons : List (DCon α)
  nacon : Nat
  rows : Nat → List β
  nefc : Nat → Nat
  ne : Nat → Nat
  nf : Nat → Nat
  nl : Nat → Nat

/-- `contact.efc_address[slot, :]` after `put_data` -/
def putAdr {α} (pyr : Bool) (nmaxpyr : Nat) (c : HCon α) : List Int :=
  if c.adr = -1 then List.replicate nmaxpyr (-1)
  else (arange (ndim pyr c.dim)).map (fun k => c.adr + k) ++ List.replicate (nmaxpyr - ndim pyr c.dim) (-1)

def putSlot {α} (pyr : Bool) (nmaxpyr : Nat) (j : Nat) (c : HCon α) : DCon α := ⟨j, c.dim, putAdr pyr nmaxpyr c, c.pay⟩

/-- `put_data` (contact and efc part); `zp`/`zr` are the payloads of the zero padding -/
def put {α β} (pyr : Bool) (nmaxpyr nworld naconmax njmax : Nat) (zp : α) (zr : β) (h : Host α β) : Dev α β :=
  { cons := (List.range nworld).flatMap (fun j => h.cons.map (putSlot pyr nmaxpyr j))
            ++ List.replicate (naconmax - nworld * h.cons.length) ⟨0, 0, List.replicate nmaxpyr (-1), zp⟩
    nacon := h.cons.length * nworld
    rows := fun _ => h.rows ++ List.replicate (njmax - h.rows.length) zr
    nefc := fun _ => h.rows.length
    ne := fun _ => h.ne
    nf := fun _ => h.nf
    nl := fun _ => h.nl }

/-- `d.contact.X[ncon_filter]`: world `w`'s contacts, in slot order -/
def sel {α β} (d : Dev α β) (w : Nat) : List (DCon α) :=
  ((d.cons.take (min d.nacon d.cons.length)).filter (fun c => c.worldid == w))

/-- `contact_efc_address[i, 0] < 0`: a contact without constraint rows -/
def inactive {α} (c : DCon α) : Bool :=
  match c.adr with
  | a :: _ => decide (a < 0)
  | [] => false

/-- the rows a contact contributes to `efc_idx`: none if inactive, else `contact_efc_address[i, :ndim]` -/
def blk {α} (pyr : Bool) (c : DCon α) : List Int := if inactive c then [] else c.adr.take (ndim pyr c.dim)

/-- `contact_efc_address_ordered` (`efc_adr` is the running first argument) -/
def adrOrdered {α} (pyr : Bool) : Nat → List (DCon α) → List Int
  | _, [] => []
  | a, c :: cs => if inactive c then (-1) :: adrOrdered pyr a cs else Int.ofNat a :: adrOrdered pyr (a + ndim pyr c.dim) cs

def nefcOf {α β} (d : Dev α β) (njmax w : Nat) : Nat := min (d.nefc w) njmax
def neflOf {α β} (d : Dev α β) (w : Nat) : Nat := d.ne w + d.nf w + d.nl w

/-- `efc_idx` before truncation -/
def efcIdxFull {α β} (pyr : Bool) (njmax : Nat) (d : Dev α β) (w : Nat) : List Int :=
  if 0 < (sel d w).length then
    arange (neflOf d w) ++ (sel d w).flatMap (blk pyr)
  else arange (nefcOf d njmax w)

/-- `efc_idx` -/
def efcIdx {α β} (pyr : Bool) (njmax : Nat) (d : Dev α β) (w : Nat) : List Int :=
  (efcIdxFull pyr njmax d w).take (nefcOf d njmax w)

/-- NumPy integer indexing of a 1-d array -/
def pyGet {β} (l : List β) (i : Int) : Option β :=
  if 0 ≤ i then l[i.toNat]?
  else if -(l.length : Int) ≤ i then l[((l.length : Int) + i).toNat]?
  else none

/-- `a[idx]` for an integer index array `idx` (IndexError if any index is out of range) -/
def pyGetAll {β} (l : List β) : List Int → Option (List β)
  | [] => some []
  | i :: is =>
    match pyGet l i, pyGetAll l is with
    | some x, some xs => some (x :: xs)
    | _, _ => none

/-- `dst[:] = v` where `dst` has `n` entries -/
def assignAll {β} (n : Nat) (v : List β) : Option (List β) :=
  if v.length = n then some v
  else match v with
    | [x] => some (List.replicate n x)
    | _ => none

/-- what `get_data_into` writes: contacts (with re-derived addresses), efc rows, counts -/
structure Got (α β : Type) where
  cons : List (HCon α)
  rows : List β
  jrows : List β
  ne : Nat
  nf : Nat
  nl : Nat
  deriving DecidableEq, Repr

def getCons {α β} (pyr : Bool) (d : Dev α β) (w : Nat) : List (HCon α) :=
  List.zipWith (fun (c : DCon α) (a : Int) => (⟨c.dim, a, c.pay⟩ : HCon α)) (sel d w) (adrOrdered pyr (neflOf d w) (sel d w))

/-- `result.efc_x[:] = a[efc_idx]` for ANY per-world device array `a` (`efc.D` and `efc.state` have `njmax_pad ≥ njmax`
    entries, so a negative index wraps around `njmax_pad` there) -/
def getRowsOf {α β γ} (pyr : Bool) (njmax : Nat) (d : Dev α β) (w : Nat) (a : List γ) : Option (List γ) :=
  (pyGetAll a (efcIdx pyr njmax d w)).bind (assignAll (nefcOf d njmax w))

def getRows {α β} (pyr : Bool) (njmax : Nat) (d : Dev α β) (w : Nat) : Option (List β) :=
  getRowsOf pyr njmax d w (d.rows w)

/-- the rows of `efc_J` (block `if nefc > 0:`; for nefc = 0 `efc_idx` is empty).  The write `result.efc_J[:nefc*nv] = efc_J[efc_idx].flatten()`
    (dense) / `mju_dense2sparse(result.efc_J, efc_J[efc_idx], result.efc_J_rownnz, …)` (sparse) needs exactly nefc rows: otherwise
    ValueError / TypeError = `none` (not modelled: the dense write would broadcast for nv = 1 and a single index).  So the
    length-1 broadcast of `assignAll` can only matter for nefc = 1.
    Rows of `efc_J`: `efc_J = d.efc.J[world_id, :nefc, :nv]` (or the densified first nefc sparse rows) is indexed by
    `efc_idx`, so a negative index wraps around `nefc`, not `njmax`, and an index `≥ nefc` raises -/
def getJRows {α β} (pyr : Bool) (njmax : Nat) (d : Dev α β) (w : Nat) : Option (List β) :=
  if (efcIdx pyr njmax d w).length = nefcOf d njmax w then
    pyGetAll ((d.rows w).take (nefcOf d njmax w)) (efcIdx pyr njmax d w)
  else none

def get {α β} (pyr : Bool) (njmax : Nat) (d : Dev α β) (w : Nat) : Option (Got α β) :=
  (getJRows pyr njmax d w).bind (fun j => (getRows pyr njmax d w).map (fun r => ⟨getCons pyr d w, r, j, d.ne w, d.nf w, d.nl w⟩))

/-- the view of a `Host` that `get` is supposed to reproduce -/
def Host.got {α β} (h : Host α β) : Got α β := ⟨h.cons, h.rows, h.rows, h.ne, h.nf, h.nl⟩

/-! ### text interface -/

def parseInts (toks : List String) : Option (List Int) := toks.mapM String.toInt?

def chunks {γ} (n : Nat) : Nat → List γ → List (List γ)
  | 0, _ => []
  | k + 1, l => l.take n :: chunks n k (l.drop n)

def showInts (l : List Int) : String := " ".intercalate (l.map toString)

/-- index (after wrap) that `pyGet` reads, for reporting -/
def pyIdx (n : Nat) (i : Int) : Option Int :=
  if 0 ≤ i then (if i < n then some i else none)
  else if -(n : Int) ≤ i then some ((n : Int) + i) else none

def protoPut (a : List Int) : Option String :=
  match a with
  | pyr :: nworld :: naconmax :: njmax :: nmaxpyr :: ncon :: nefc :: rest =>
    let ncon := ncon.toNat
    if rest.length ≠ 2 * ncon then none else
    let dims := rest.take ncon
    let adrs := rest.drop ncon
    let cons : List (HCon Int) := (List.range ncon).map (fun (i : Nat) => ⟨(dims.getD i 0).toNat, adrs.getD i 0, Int.ofNat i⟩)
    let h : Host Int Int := ⟨cons, arange nefc.toNat, 0, 0, 0⟩
    let d := put (pyr != 0) nmaxpyr.toNat nworld.toNat naconmax.toNat njmax.toNat (-1) (-1) h
    some (showInts [d.nacon] ++ " | " ++ showInts (d.cons.map (fun c => (c.worldid : Int))) ++ " | " ++ showInts (d.cons.map (fun c => (c.dim : Int)))
          ++ " | " ++ showInts (d.cons.flatMap (·.adr)) ++ " | " ++ showInts (d.cons.map (·.pay)) ++ " | " ++ showInts (d.rows 0))
  | _ => none

def protoGet (a : List Int) : Option String :=
  match a with
  | pyr :: w :: nacon :: naconmax :: njmax :: njmaxpad :: nmaxpyr :: nefc :: ne :: nf :: nl :: rest =>
    let n := naconmax.toNat
    let p := nmaxpyr.toNat
    if rest.length ≠ 2 * n + n * p then none else
    let wid := rest.take n
    let dims := (rest.drop n).take n
    let adrs := chunks p n (rest.drop (2 * n))
    let cons : List (DCon Int) := (List.range n).map (fun (i : Nat) => ⟨(wid.getD i 0).toNat, (dims.getD i 0).toNat, adrs.getD i [], Int.ofNat i⟩)
    let d : Dev Int Int := ⟨cons, nacon.toNat, fun _ => arange njmax.toNat, fun _ => nefc.toNat,
                            fun _ => ne.toNat, fun _ => nf.toNat, fun _ => nl.toNat⟩
    if p = 0 ∧ 0 < (sel d w.toNat).length then some "ERR" else
    match get (pyr != 0) njmax.toNat d w.toNat, getRowsOf (pyr != 0) njmax.toNat d w.toNat (arange njmaxpad.toNat) with
    | none, _ => some "ERR"
    | _, none => some "ERR"
    | some g, some dr => some (showInts [(g.cons.length : Int)] ++ " | " ++ showInts (g.cons.map (·.pay)) ++ " | " ++ showInts (g.cons.map (·.adr))
                      ++ " | " ++ showInts g.rows ++ " | " ++ showInts g.jrows ++ " | " ++ showInts dr)
  | _ => none

/-- one request line → one answer line (`none` = malformed request) -/
def proto (toks : List String) : Option String :=
  match toks with
  | "put" :: rest => (parseInts rest).bind protoPut
  | "get" :: rest => (parseInts rest).bind protoGet
  | _ => none

end Mjw.IoOrder
