/-
  Hand-written protocol model (E2) of the *capacity-bounded arena allocation* idiom used all over
  /repo/mujoco_warp/_src  (constraint.py row builders, collision_core.py `write_contact`,
  collision_driver.py `_add_geom_pair`):

      off = wp.atomic_add(counter, worldid, k)      # reserve k slots, counter keeps counting
      if <guard off k capacity>: return             # capacity guard (differs from kernel to kernel)
      ... write slots off .. off+k-1 ...

  and, at the end of the step (`forward.py:_next_time`):   if <report counter capacity>: set overflow bit.

  What is modelled
  ----------------
  * a request = (task id, k);  the tasks of one or several launches perform their atomic in SOME order:
    an `order : List Req` (any permutation of the request multiset);
  * the atomic returns the running sum (`off`), the counter ends at Σk whatever the guards decide;
  * a request is GRANTED iff `guard off k C` — the guard is a PARAMETER so that the model can be
    instantiated with the exact predicate a kernel uses (`idealGuard`: connect/weld, `geGuard`: the k = 1 builders;
    `geMinusGuard`: the pre-repair connect/weld guard, kept as a counter-example);
  * the report `r final C` is a parameter as well (`idealReport` = what `_next_time` computes).
  * a block that is granted row by row (`_efc_contact_init`: rows `off+i < C` are kept) is `k` unit
    requests that happen to be adjacent (`Req.units`).

  What is abstracted: everything else (what is written into the slots).  int32 wrap-around of the counter
  is not modelled (Int).

  Core Lean only; everything is executable (`#eval`).
-/
namespace Mjw.Alloc

/-- one allocation request: task `id` asks for `k` consecutive slots -/
structure Req where
  id : Nat
  k : Nat
  deriving DecidableEq, Repr, Inhabited

/-- outcome of a request: the offset the atomic returned and whether the capacity guard let it pass -/
structure Grant where
  id : Nat
  off : Int
  k : Nat
  granted : Bool
  deriving DecidableEq, Repr, Inhabited

/-- a capacity guard: `guard off k C = true` ⇔ the task goes on and writes its `k` slots -/
abbrev Guard := Int → Nat → Int → Bool
/-- an overflow report: `r final C = true` ⇔ the overflow bit is set at the end of the step -/
abbrev Report := Int → Int → Bool

/-- process the requests in the given order, counter starting at `c` -/
def runFrom (guard : Guard) (C : Int) : List Req → Int → List Grant
  | [], _ => []
  | q :: qs, c => ⟨q.id, c, q.k, guard c q.k C⟩ :: runFrom guard C qs (c + q.k)

/-- counter value after the requests, starting at `c`  (guards play no role) -/
def finalFrom : List Req → Int → Int
  | [], c => c
  | q :: qs, c => finalFrom qs (c + q.k)

/-- a step: the counter is zeroed (`_zero_constraint_counts`), then the requests come in `order` -/
def run (guard : Guard) (C : Int) (order : List Req) : List Grant := runFrom guard C order 0

/-- final counter value `= Σ k` -/
def final (order : List Req) : Int := finalFrom order 0

/-- does the end-of-step report fire -/
def reported (r : Report) (C : Int) (order : List Req) : Bool := r (final order) C

/-- the slots a grant covers: `[off, off + k)` -/
def Grant.lo (g : Grant) : Int := g.off
def Grant.hi (g : Grant) : Int := g.off + g.k

/-- the granted requests, as requests -/
def grantedReqs (gs : List Grant) : List Req := (gs.filter (·.granted)).map (fun g => ⟨g.id, g.k⟩)

/-- the dropped requests -/
def droppedReqs (gs : List Grant) : List Req := (gs.filter (! ·.granted)).map (fun g => ⟨g.id, g.k⟩)

/-! ### the guards and reports that occur -/

/-- the ideal guard: the block fits, `off + k ≤ C` -/
def idealGuard : Guard := fun off k C => decide (off + (k : Int) ≤ C)
/-- the ideal report (what `_next_time` computes): `final > C` -/
def idealReport : Report := fun fin C => decide (fin > C)
/-- unbounded capacity: every request is granted -/
def noGuard : Guard := fun _ _ _ => true

/-- `if off >= C: return` — the guard of the k = 1 builders, of `write_contact` and `_add_geom_pair` -/
def geGuard : Guard := fun off _ C => !(decide (off ≥ C))
/-- `if off >= C - k: return` — HISTORICAL: the guard `_equality_connect` (k = 3) and `_equality_weld` (k = 6) used
    before the repair (now `if off + k > C: return` = `idealGuard`); kept to document that it drops the exact fit -/
def geMinusGuard : Guard := fun off k C => !(decide (off ≥ C - (k : Int)))

/-- a block of `k` slots requested by task `id`, seen as `k` adjacent unit requests
    (row-by-row granting of `_efc_contact_init`) -/
def Req.units (q : Req) : List Req := List.replicate q.k ⟨q.id, 1⟩

/-! ### examples (exact fit, overflow, order) -/

def ex3 : List Req := [⟨0, 3⟩, ⟨1, 1⟩, ⟨2, 6⟩]

#eval run idealGuard 10 ex3          -- exact fit: all granted
#eval run idealGuard 9 ex3           -- the last one is dropped …
#eval reported idealReport 9 ex3     -- … and reported
#eval run idealGuard 9 ex3.reverse   -- other order: another one is dropped, same report
#eval run geMinusGuard 3 [⟨0, 3⟩]    -- pre-repair connect guard at exact fit: dropped
#eval reported idealReport 3 [⟨0, 3⟩] -- … and NOT reported

end Mjw.Alloc
