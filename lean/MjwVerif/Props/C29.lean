/-
  C29  "Sleeping follows MuJoCo's sleep semantics".

  Source: /repo/mujoco_warp/_src/sleep.py (translated: `Mjw.Gen.Sleep.*`, regenerated on every run) and its
  call sites in forward.py.  Model: `Model/Sleep.lean` — ONE world, `asleep : List Int` (entry < 0 = awake
  countdown −11 … −1, entry ≥ 0 = asleep, value = next tree of the sleep cycle); a launch = its tasks one
  after another in ANY order, each task one atomic step on the CURRENT state.

  § 1  kernel refinements (every scalar type `K`, EVERY input — the generated `_wake_tree` walks with
       `for step in range(ntree + 1)`, no fuel parameter): the write list of `_wake_tree`, `_wake_kernel`,
       `_wake_collision_kernel`, `_wake_tendon_kernel`, `_wake_equality_kernel` (+ `_wake_tendon_trees`,
       `_tendon_wake_val`), `_sweep_awake_trees`, `_check_island_can_sleep`, `_build_cycles`, `_update_sleep_trees`,
       `_zero_sleep_counters` IS the model's; applied to the state it is the model's transition; launches of the
       generated kernels are the model's launches (`*_launch_refines`).
  § 2  `wellformed_invariant`: WF (sleeping entries form cycles) is kept by every operation;
       `wake_wakes_whole_cycle`; `_build_cycles` makes each sleeping island one cycle (`build_cycles_island_cycle`,
       `build_cycles_establishes_wf`).
  § 3  `falls_asleep_only_if` + `countdown_needs_minawake` (`sweep_closed_form`, `check_closed_form`).
  § 4  `wakes_if_*`: applied force / velocity (`_wake_kernel`; what `_tree_can_sleep` tests: `tree_can_sleep_refines`,
       `can_sleep_zero_tol_iff`), contact, limited tendon, active equality — model level and on the generated launches,
       all task orders.
  § 5  `wake_order`: which value is written (`wake_tree_values`); the final VALUES depend on the task order (witness
       file), the SET of awake trees does not (`awake_set_order_independent`, `collision_awake_set_order_independent`);
       `_wake_kernel` launches are fully order independent (`wake_kernel_order_independent`).
  § 6  `sleeping_tree_frozen_partial`.
  § 7  examples.

  Modelling assumptions (NOT theorems):
  (a) a launch = serial execution of its tasks in an arbitrary order; INSIDE a task reads and writes are one
      atomic step (the real `_wake_tree` walk is not atomic: two walks on one cycle can interleave).
  (b) one world; Int instead of int32.  A task's `tree_asleep_out` parameter is the current row for every
      world index (`asArr`); only stores to row `w` are applied (`applyAsleep`); `wake_tree_writes_row`: a
      `_wake_tree` of world `w` only stores into row `w`.
  (c) inside ONE task that calls `_wake_tree` several times (`_wake_equality_kernel`, `_wake_tendon_kernel`) the
      translation hands every call the PRE-TASK array (a later call does not see an earlier call's stores).  All
      calls of one task store the same value and only wake, so `wakes_if_tendon_generated` /
      `wakes_if_equality_generated` do not depend on it, but the exact write lists (1k–1n) do.
  (d) `tree_awake` is an INPUT of the wake kernels (a snapshot made by `update_sleep` before the launch); the
      theorems that need it consistent with `tree_asleep` say so (`hcons`, `hflags`).

  Findings recorded here rather than hidden:
  * wake values are order dependent (§ 5, `Props/C29Witness.lean`).
  * `_wake_tree` on a sleeping tree whose entry is ≥ ntree (corrupt) wakes nothing (`wake_tree_corrupt_no_wake`).
  * `_build_cycles` phase 1 relinks EVERY tree of an island with `island_can_sleep == 1`, also trees that are
    already asleep (their old cycle is then broken) — `_check_island_can_sleep` only vetoes countdowns < −1.
    `build_cycles_establishes_wf` therefore needs the hypothesis that no sleeping tree is in such an island;
    witness `build_cycles_breaks_cycle_witness`.
  * `_wake_tendon_kernel` / TENDON equalities: `wakeval` starts at K_AWAKE_VAL = −11 and is only lowered, and
    countdowns are ≥ −11, so they always wake with −11 (not with the neighbour's countdown).
  * a tree woken by contact inherits the waker's countdown; if that is −1 it may fall asleep again at the next
    step without MINAWAKE quiet steps of its own (`countdown_needs_minawake` is relative to a reset to −11).
-/
import MjwVerif.Lemmas.Real
import MjwVerif.Lemmas.C29
import MjwVerif.Gen.Sleep
import MjwVerif.Gen.Forward

namespace Mjw.Props.C29
open Mjw Mjw.Sleep Mjw.Lemmas.C29

/-! ## 1. Kernel refinements -/

/-- (1a) **`_wake_tree`**, all inputs: it returns `wakeCount` and its write list stores `wakeval` into exactly
    the cells `wakeCells` (nothing if `treeid` is out of range; only `treeid` itself, and only if `wakeval` is
    smaller, if the tree is awake; else the walk along `tree_asleep`, reading its own writes, ≤ ntree+1 steps). -/
theorem wake_tree_refines {K : Type} [Scalar K] (ntree w t v : Int) (tree_asleep_out : Int → Int → Int) :
    Gen.Sleep._wake_tree (K := K) ntree w t v tree_asleep_out
      = (wakeCount ntree (tree_asleep_out w) t v, wakeTreeWrites w ntree (tree_asleep_out w) t v) :=
  wake_tree_eq ntree w t v tree_asleep_out

/-- (1a') on the list state: applying the generated write list is the model transition `wakeTree` -/
theorem wake_tree_transition {K : Type} [Scalar K] (w : Int) (s : List Int) (t v : Int) :
    applyAsleep w s (Gen.Sleep._wake_tree (K := K) s.length w t v (asArr s)).2 = wakeTree s t v := by
  rw [wake_tree_refines]; exact applyAsleep_wakeTreeWrites w s t v

/-- (1a'') all stores of `_wake_tree` go to row `worldid` of `tree_asleep_out`, cells inside `[0, ntree)` -/
theorem wake_tree_writes_row {K : Type} [Scalar K] (ntree w t v : Int) (arr : Int → Int → Int) :
    ∀ x ∈ (Gen.Sleep._wake_tree (K := K) ntree w t v arr).2,
      ∃ c, 0 ≤ c ∧ c < ntree ∧ x = setAsleep w c v := by
  rw [wake_tree_refines]
  intro x hx
  obtain ⟨c, hc, e⟩ := List.mem_map.mp hx
  exact ⟨c, (wakeCells_inrange _ _ _ _ c hc).1, (wakeCells_inrange _ _ _ _ c hc).2, e.symm⟩

/-- (1b) **`_wake_kernel`**, thread `(w, t)`: if `tree_asleep[w,t] ≥ 0` and (`tree_awake[w,t] == 1` or
    `_tree_can_sleep(…, tolerance 0)` is false) it performs `_wake_tree(t, K_AWAKE_VAL = −11)`; else nothing. -/
theorem wake_kernel_refines {K : Type} [Scalar K] (nbody ntree : Int) (body_treeid : Int → Int) (dof_length : Int → K)
    (tree_dofadr tree_dofnum tree_sleep_policy : Int → Int) (qvel_in qfrc_applied_in : Int → Int → K)
    (xfrc_applied_in : Int → Int → V6 K) (tree_awake_in tree_asleep_out : Int → Int → Int) (w t : Int) :
    Gen.Sleep._wake_kernel (K := K) nbody ntree body_treeid dof_length tree_dofadr tree_dofnum tree_sleep_policy qvel_in
        qfrc_applied_in xfrc_applied_in tree_awake_in tree_asleep_out w t
      = wakeKernelWrites w ntree (tree_asleep_out w)
          (decide (tree_awake_in w t = 1) || !(Gen.Sleep._tree_can_sleep (K := K) nbody body_treeid dof_length tree_dofadr
            tree_dofnum tree_sleep_policy qvel_in qfrc_applied_in xfrc_applied_in w t (Scalar.lit 0 0))) t := by
  unfold Gen.Sleep._wake_kernel wakeKernelWrites
  simp only [wake_tree_refines, renameAll_self, lookupI_nil]
  by_cases h : tree_asleep_out w t ≥ 0
  · by_cases hc : (decide (tree_awake_in w t = 1) || !(Gen.Sleep._tree_can_sleep (K := K) nbody body_treeid dof_length
        tree_dofadr tree_dofnum tree_sleep_policy qvel_in qfrc_applied_in xfrc_applied_in w t (Scalar.lit 0 0))) = true
    · simp only [h, hc, decide_true, if_true, and_self]
      simp [AWAKE_VAL, MINAWAKE]
    · simp [h, hc]
  · simp [h]

/-- (1c) **`_sweep_awake_trees`**, thread `(w, t)`: asleep → nothing; can sleep → countdown + 1 unless already −1;
    cannot sleep (`_tree_can_sleep` false: applied force, speed ≥ tolerance, policy NEVER) → reset to −11. -/
theorem sweep_refines {K : Type} [Scalar K] (nbody : Int) (body_treeid : Int → Int) (dof_length : Int → K)
    (tree_dofadr tree_dofnum tree_sleep_policy : Int → Int) (qvel_in qfrc_applied_in : Int → Int → K)
    (xfrc_applied_in : Int → Int → V6 K) (opt_sleep_tolerance : Int → K) (tree_asleep_out : Int → Int → Int)
    (shape0 w t : Int) :
    Gen.Sleep._sweep_awake_trees (K := K) nbody body_treeid dof_length tree_dofadr tree_dofnum tree_sleep_policy qvel_in
        qfrc_applied_in xfrc_applied_in opt_sleep_tolerance tree_asleep_out shape0 w t
      = sweepWrites w t (Gen.Sleep._tree_can_sleep (K := K) nbody body_treeid dof_length tree_dofadr tree_dofnum
          tree_sleep_policy qvel_in qfrc_applied_in xfrc_applied_in w t (opt_sleep_tolerance (Int.tmod w shape0)))
          (tree_asleep_out w t) := by
  unfold Gen.Sleep._sweep_awake_trees sweepWrites
  have hl : Write.lookupI ([] : List (Write K)) "tree_asleep_out" [w, t] (tree_asleep_out w t) = tree_asleep_out w t := rfl
  simp only [hl]
  by_cases h : tree_asleep_out w t ≥ 0
  · simp [h]
  · by_cases hc : Gen.Sleep._tree_can_sleep (K := K) nbody body_treeid dof_length tree_dofadr tree_dofnum
        tree_sleep_policy qvel_in qfrc_applied_in xfrc_applied_in w t (opt_sleep_tolerance (Int.tmod w shape0)) = true
    · by_cases h1 : tree_asleep_out w t < -1 <;> simp [h, hc, h1, setAsleep]
    · simp [h, hc, setAsleep, AWAKE_VAL, MINAWAKE]

/-- (1d) **`_check_island_can_sleep`**, thread `(w, t)`: `atomic_min(island_can_sleep[w, island], 0)` iff the
    tree has a valid island and a countdown < −1.  (A tree that is already asleep does not veto.) -/
theorem check_refines {K : Type} [Scalar K] (ntree : Int) (nisland_in : Int → Int)
    (tree_asleep_in tree_island_in island_can_sleep_out : Int → Int → Int) (w t : Int) :
    Gen.Sleep._check_island_can_sleep (K := K) ntree nisland_in tree_asleep_in tree_island_in island_can_sleep_out w t
      = checkWrites w (nisland_in w) (tree_island_in w t) (tree_asleep_in w t) := by
  unfold Gen.Sleep._check_island_can_sleep checkWrites
  by_cases h1 : tree_island_in w t ≥ 0 <;> by_cases h2 : tree_island_in w t < nisland_in w <;>
    by_cases h3 : tree_asleep_in w t < -1 <;> simp [h1, h2, h3]

/-- (1e) **`_build_cycles`**, thread `w`, all inputs: its exact write list.  Phase 1, for every island
    `i < nisland[w]` with `island_can_sleep[w,i] == 1`: its trees `m₀ < m₁ < … < m_k` get
    `tree_asleep[m_j] := m_{j+1}`, `tree_asleep[m_k] := m₀`, and `qvel`, `qacc` of all their dofs are zeroed.
    Phase 2, for every tree WITHOUT valid island: if its countdown is −1 it becomes a self-cycle, and if it is
    (now) asleep its `qvel`, `qacc` are zeroed.  The loop reads its own writes; they never hit. -/
theorem build_cycles_refines {K : Type} [Scalar K] (ntree : Int) (tree_dofadr tree_dofnum nisland_in : Int → Int)
    (tree_island_in island_can_sleep_in tree_asleep_out : Int → Int → Int) (qvel_out qacc_out : Int → Int → K) (w : Int) :
    Gen.Sleep._build_cycles (K := K) ntree tree_dofadr tree_dofnum nisland_in tree_island_in island_can_sleep_in
        tree_asleep_out qvel_out qacc_out w
      = buildCyclesWrites w ntree.toNat (nisland_in w) tree_dofadr tree_dofnum (tree_island_in w) (island_can_sleep_in w)
          (tree_asleep_out w) :=
  build_cycles_eq ntree tree_dofadr tree_dofnum nisland_in tree_island_in island_can_sleep_in tree_asleep_out qvel_out qacc_out w

/-- (1e') on the list state: applying the generated write list is the model transition `buildCycles` -/
theorem build_cycles_transition {K : Type} [Scalar K] (w : Int) (s : List Int) (tree_dofadr tree_dofnum nisland_in : Int → Int)
    (tree_island_in island_can_sleep_in : Int → Int → Int) (qvel_out qacc_out : Int → Int → K) :
    applyAsleep w s (Gen.Sleep._build_cycles (K := K) s.length tree_dofadr tree_dofnum nisland_in tree_island_in
        island_can_sleep_in (asArr s) qvel_out qacc_out w)
      = buildCycles (tree_island_in w) (nisland_in w) (island_can_sleep_in w) s := by
  rw [build_cycles_refines]
  exact applyAsleep_buildCyclesWrites w (nisland_in w) tree_dofadr tree_dofnum (tree_island_in w) (island_can_sleep_in w) s

/-- (1f) **`_update_sleep_trees`**: `tree_awake[w,t] := (tree_asleep[w,t] < 0)`, and `ntree_awake[w] += 1` if so -/
theorem update_sleep_trees_refines {K : Type} [Scalar K] (tree_asleep_in : Int → Int → Int) (ntree_awake_out : Int → Int)
    (tree_awake_out : Int → Int → Int) (w t : Int) :
    Gen.Sleep._update_sleep_trees (K := K) tree_asleep_in ntree_awake_out tree_awake_out w t
      = updTreesWrites w t (tree_asleep_in w t) := by
  unfold Gen.Sleep._update_sleep_trees updTreesWrites
  by_cases h : tree_asleep_in w t < 0 <;> simp [h]

/-- (1g) **`_zero_sleep_counters`** -/
theorem zero_sleep_counters_refines {K : Type} [Scalar K] (a b c : Int → Int) (w : Int) :
    Gen.Sleep._zero_sleep_counters (K := K) a b c w = zeroCountersWrites w := rfl

/-- (1h) **`_wake_collision_kernel`**, thread `conid < nacon`, geoms ≥ 0: with `tree1/2` the trees of the two
    geoms and `awake1/2 = tree_awake[w, tree1/2]` (w = the contact's world): nothing if a tree is < 0 (static),
    both flags are 1, or both are 0; else `_wake_tree(the tree whose flag is not 1, CURRENT tree_asleep of the
    other tree)`. -/
theorem wake_collision_refines {K : Type} [Scalar K] (ntree : Int) (body_treeid geom_bodyid : Int → Int)
    (tree_awake_in : Int → Int → Int) (contact_geom_in : Int → I2) (contact_worldid_in nacon_in : Int → Int)
    (tree_asleep_out : Int → Int → Int) (conid : Int)
    (hact : conid < nacon_in 0) (hg : 0 ≤ (contact_geom_in conid).c0 ∧ 0 ≤ (contact_geom_in conid).c1) :
    let w := contact_worldid_in conid
    let tree1 := body_treeid (geom_bodyid (contact_geom_in conid).c0)
    let tree2 := body_treeid (geom_bodyid (contact_geom_in conid).c1)
    Gen.Sleep._wake_collision_kernel (K := K) ntree body_treeid geom_bodyid tree_awake_in contact_geom_in contact_worldid_in
        nacon_in tree_asleep_out conid
      = match collisionTarget tree1 tree2 (tree_awake_in w tree1) (tree_awake_in w tree2) with
        | none => []
        | some (t, src) => wakeTreeWrites w ntree (tree_asleep_out w) t (tree_asleep_out w src) := by
  unfold Gen.Sleep._wake_collision_kernel collisionTarget
  have h0 : ¬ conid ≥ nacon_in 0 := by omega
  have hg1 : ¬ (contact_geom_in conid).c0 < 0 := by omega
  have hg2 : ¬ (contact_geom_in conid).c1 < 0 := by omega
  simp only [wake_tree_refines, renameAll_self, lookupI_nil, h0, hg1, hg2, decide_false, Bool.or_self, Bool.false_eq_true,
    if_false, List.nil_append]
  generalize contact_worldid_in conid = w
  generalize body_treeid (geom_bodyid (contact_geom_in conid).c0) = tree1
  generalize body_treeid (geom_bodyid (contact_geom_in conid).c1) = tree2
  by_cases ht : tree1 < 0 ∨ tree2 < 0
  · have : (decide (tree1 < 0) || decide (tree2 < 0)) = true := by simpa using ht
    simp only [this, if_true, if_pos ht]
  · have : (decide (tree1 < 0) || decide (tree2 < 0)) = false := by simpa using ht
    simp only [this, Bool.false_eq_true, if_false, if_neg ht]
    by_cases h11 : tree_awake_in w tree1 = 1 ∧ tree_awake_in w tree2 = 1
    · simp [h11]
    · have : (decide (tree_awake_in w tree1 = 1) && decide (tree_awake_in w tree2 = 1)) = false := by simpa using h11
      simp only [this, Bool.false_eq_true, if_false, if_neg h11]
      by_cases h00 : tree_awake_in w tree1 = 0 ∧ tree_awake_in w tree2 = 0
      · simp [h00]
      · have : (decide (tree_awake_in w tree1 = 0) && decide (tree_awake_in w tree2 = 0)) = false := by simpa using h00
        simp only [this, Bool.false_eq_true, if_false, if_neg h00]
        by_cases h1 : tree_awake_in w tree1 = 1
        · simp only [h1, decide_true, if_true]
        · simp only [h1, decide_false, Bool.false_eq_true, if_false]

/-- (1h') threads beyond `nacon`, or with a negative geom id, write nothing -/
theorem wake_collision_inactive {K : Type} [Scalar K] (ntree : Int) (body_treeid geom_bodyid : Int → Int)
    (tree_awake_in : Int → Int → Int) (contact_geom_in : Int → I2) (contact_worldid_in nacon_in : Int → Int)
    (tree_asleep_out : Int → Int → Int) (conid : Int)
    (h : conid ≥ nacon_in 0 ∨ (contact_geom_in conid).c0 < 0 ∨ (contact_geom_in conid).c1 < 0) :
    Gen.Sleep._wake_collision_kernel (K := K) ntree body_treeid geom_bodyid tree_awake_in contact_geom_in contact_worldid_in
        nacon_in tree_asleep_out conid = [] := by
  unfold Gen.Sleep._wake_collision_kernel
  by_cases h0 : conid ≥ nacon_in 0
  · simp [h0]
  · have hg : (contact_geom_in conid).c0 < 0 ∨ (contact_geom_in conid).c1 < 0 := by tauto
    have : (decide ((contact_geom_in conid).c0 < 0) || decide ((contact_geom_in conid).c1 < 0)) = true := by simpa using hg
    simp [h0, this]

/-- (1k) **`_wake_tendon_trees`** (callee of the equality kernel): one `_wake_tree(t, wakeval)` — all on the array it
    was handed — for every tree along tendon `tenid` whose `tree_awake` flag is 0 -/
theorem wake_tendon_trees_refines {K : Type} [Scalar K] (ntree : Int)
    (body_treeid jnt_bodyid geom_bodyid site_bodyid tendon_adr tendon_num wrap_type wrap_objid : Int → Int)
    (tree_awake_in : Int → Int → Int) (w tenid v : Int) (arr : Int → Int → Int) :
    Gen.Sleep._wake_tendon_trees (K := K) ntree body_treeid jnt_bodyid geom_bodyid site_bodyid tendon_adr tendon_num wrap_type
        wrap_objid tree_awake_in w tenid v arr
      = if tenid < 0 then [] else
          tendonWakeWrites w ntree (arr w) (tree_awake_in w)
            (tendonTrees (wrapTree body_treeid jnt_bodyid geom_bodyid site_bodyid wrap_type wrap_objid) (tendon_adr tenid)
              (tendon_num tenid)) v :=
  wake_tendon_trees_eq ntree body_treeid jnt_bodyid geom_bodyid site_bodyid tendon_adr tendon_num wrap_type wrap_objid
    tree_awake_in w tenid v arr

/-- (1l) **`_tendon_wake_val`**: the smallest countdown among the flag-1 trees of the tendon (0: none) -/
theorem tendon_wake_val_refines {K : Type} [Scalar K]
    (body_treeid jnt_bodyid geom_bodyid site_bodyid tendon_adr tendon_num wrap_type wrap_objid : Int → Int)
    (tree_awake_in : Int → Int → Int) (w tenid : Int) (arr : Int → Int → Int) :
    Gen.Sleep._tendon_wake_val (K := K) body_treeid jnt_bodyid geom_bodyid site_bodyid tendon_adr tendon_num wrap_type
        wrap_objid tree_awake_in w tenid arr
      = if tenid < 0 then 0 else
          tendonWakeVal (arr w) (tree_awake_in w)
            (tendonTrees (wrapTree body_treeid jnt_bodyid geom_bodyid site_bodyid wrap_type wrap_objid) (tendon_adr tenid)
              (tendon_num tenid)) :=
  tendon_wake_val_eq body_treeid jnt_bodyid geom_bodyid site_bodyid tendon_adr tendon_num wrap_type wrap_objid tree_awake_in
    w tenid arr

/-- (1m) **`_wake_tendon_kernel`**, thread `(w, tenid)`: pass 1 scans the tendon's trees (`tendonScan`: is any flag 1;
    the wake value, starting from −11); if so AND the tendon's limit is active (`_tendon_limit_active`), pass 2
    wakes every flag-0 tree of the tendon with that value. -/
theorem wake_tendon_kernel_refines {K : Type} [Scalar K] (ntree ntendon : Int)
    (body_treeid jnt_bodyid geom_bodyid site_bodyid tendon_adr tendon_num tendon_limited : Int → Int)
    (tendon_range : Int → Int → V2 K) (tendon_margin : Int → Int → K) (wrap_type wrap_objid : Int → Int)
    (ten_length_in : Int → Int → K) (tree_awake_in arr : Int → Int → Int) (sh0 sh1 w tenid : Int) :
    Gen.Sleep._wake_tendon_kernel (K := K) ntree ntendon body_treeid jnt_bodyid geom_bodyid site_bodyid tendon_adr tendon_num
        tendon_limited tendon_range tendon_margin wrap_type wrap_objid ten_length_in tree_awake_in arr sh0 sh1 w tenid
      = if (tendonScan (arr w) (tree_awake_in w) (tendonTrees (wrapTree body_treeid jnt_bodyid geom_bodyid site_bodyid
              wrap_type wrap_objid) (tendon_adr tenid) (tendon_num tenid))).1 = 1
            ∧ Gen.Sleep._tendon_limit_active (K := K) tendon_limited tendon_range tendon_margin ten_length_in w tenid sh0 sh1 = true
        then tendonWakeWrites w ntree (arr w) (tree_awake_in w)
          (tendonTrees (wrapTree body_treeid jnt_bodyid geom_bodyid site_bodyid wrap_type wrap_objid) (tendon_adr tenid)
            (tendon_num tenid))
          (tendonScan (arr w) (tree_awake_in w) (tendonTrees (wrapTree body_treeid jnt_bodyid geom_bodyid site_bodyid
              wrap_type wrap_objid) (tendon_adr tenid) (tendon_num tenid))).2
        else [] :=
  wake_tendon_kernel_eq ntree ntendon body_treeid jnt_bodyid geom_bodyid site_bodyid tendon_adr tendon_num tendon_limited
    tendon_range tendon_margin wrap_type wrap_objid ten_length_in tree_awake_in arr sh0 sh1 w tenid

/-- (1m') pass 1 in closed form: `any_awake = 1` iff some tree of the tendon has flag 1; the wake value is ≤ −11,
    and it IS −11 whenever the flag-1 trees' countdowns are ≥ −11 (always, for legal states): the tendon kernel never
    hands on a neighbour's countdown. -/
theorem tendon_scan_closed_form (a awake : Int → Int) (trees : List Int) :
    ((tendonScan a awake trees).1 = 1 ↔ ∃ t ∈ trees, t ≥ 0 ∧ awake t = 1) ∧ (tendonScan a awake trees).2 ≤ AWAKE_VAL ∧
    ((∀ t ∈ trees, t ≥ 0 → awake t = 1 → AWAKE_VAL ≤ a t) → (tendonScan a awake trees).2 = AWAKE_VAL) :=
  tendonScan_spec a awake trees

/-- (1n) **`_wake_equality_kernel`**, thread `(w, eqid)`: inactive → nothing.  CONNECT / WELD / JOINT: with the two
    trees `eqTrees` and their states (flag, or −1 = STATIC if there is no tree) → `eqBodyWrites`: nothing unless one
    of them is asleep (flag 0), none is static and they differ; both asleep: wake both with −11 iff their
    `_sleep_cycle` ids differ; one asleep: wake it with −11.  TENDON (3): with `w1, w2 = _tendon_wake_val` of the two
    tendons: if one is negative, `_wake_tendon_trees` on both tendons with `min(−11, the negative ones)`.  Other
    types (FLEX…): nothing. -/
theorem wake_equality_kernel_refines {K : Type} [Scalar K] (ntree neq : Int)
    (body_treeid jnt_bodyid geom_bodyid site_bodyid eq_type eq_obj1id eq_obj2id eq_objtype tendon_adr tendon_num wrap_type
      wrap_objid : Int → Int) (eq_active_in : Int → Int → Bool) (tree_awake_in arr : Int → Int → Int) (w eqid : Int) :
    Gen.Sleep._wake_equality_kernel (K := K) ntree neq body_treeid jnt_bodyid geom_bodyid site_bodyid eq_type eq_obj1id eq_obj2id
        eq_objtype tendon_adr tendon_num wrap_type wrap_objid eq_active_in tree_awake_in arr w eqid
      = if eq_active_in w eqid = false then []
        else if eq_type eqid = 0 ∨ eq_type eqid = 1 ∨ eq_type eqid = 2 then
          let tt := eqTrees body_treeid jnt_bodyid site_bodyid (eq_type eqid) (eq_objtype eqid) (eq_obj1id eqid) (eq_obj2id eqid)
          eqBodyWrites w ntree (arr w) tt.1 tt.2
            (if tt.1 ≥ 0 then tree_awake_in w tt.1 else -1) (if tt.2 ≥ 0 then tree_awake_in w tt.2 else -1)
            (Gen.Sleep._sleep_cycle (K := K) arr ntree w tt.1) (Gen.Sleep._sleep_cycle (K := K) arr ntree w tt.2)
        else if eq_type eqid = 3 then
          let w1 := Gen.Sleep._tendon_wake_val (K := K) body_treeid jnt_bodyid geom_bodyid site_bodyid tendon_adr tendon_num wrap_type
            wrap_objid tree_awake_in w (eq_obj1id eqid) arr
          let w2 := Gen.Sleep._tendon_wake_val (K := K) body_treeid jnt_bodyid geom_bodyid site_bodyid tendon_adr tendon_num wrap_type
            wrap_objid tree_awake_in w (eq_obj2id eqid) arr
          if w1 < 0 ∨ w2 < 0 then
            let v1 : Int := if w1 < 0 ∧ w1 < -11 then w1 else -11
            let v : Int := if w2 < 0 ∧ w2 < v1 then w2 else v1
            Gen.Sleep._wake_tendon_trees (K := K) ntree body_treeid jnt_bodyid geom_bodyid site_bodyid tendon_adr tendon_num wrap_type
                wrap_objid tree_awake_in w (eq_obj1id eqid) v arr
              ++ Gen.Sleep._wake_tendon_trees (K := K) ntree body_treeid jnt_bodyid geom_bodyid site_bodyid tendon_adr tendon_num
                wrap_type wrap_objid tree_awake_in w (eq_obj2id eqid) v arr
          else []
        else [] :=
  wake_equality_kernel_eq ntree neq body_treeid jnt_bodyid geom_bodyid site_bodyid eq_type eq_obj1id eq_obj2id eq_objtype
    tendon_adr tendon_num wrap_type wrap_objid eq_active_in tree_awake_in arr w eqid

/-! ### launches of the generated kernels are the model's launches -/

/-- (1i) the `_wake_kernel` launch on the list state, tasks in ANY order -/
theorem wake_kernel_launch_refines {K : Type} [Scalar K] (nbody : Int) (body_treeid : Int → Int) (dof_length : Int → K)
    (tree_dofadr tree_dofnum tree_sleep_policy : Int → Int) (qvel_in qfrc_applied_in : Int → Int → K)
    (xfrc_applied_in : Int → Int → V6 K) (tree_awake_in : Int → Int → Int) (w : Int) (order : List Int) (s : List Int) :
    launchK w (fun arr (t : Int) => Gen.Sleep._wake_kernel (K := K) nbody s.length body_treeid dof_length tree_dofadr
        tree_dofnum tree_sleep_policy qvel_in qfrc_applied_in xfrc_applied_in tree_awake_in arr w t) order s
      = wakeKernelLaunch (fun t => decide (tree_awake_in w t = 1) || !(Gen.Sleep._tree_can_sleep (K := K) nbody body_treeid
          dof_length tree_dofadr tree_dofnum tree_sleep_policy qvel_in qfrc_applied_in xfrc_applied_in w t (Scalar.lit 0 0)))
          order s := by
  -- the length of the state never changes, so `ntree = s.length` stays right
  apply launchK_eq_inv w _ _ (fun s' => s'.length = s.length) _ _ order s rfl
  · intro s' a hl
    rw [wake_kernel_refines, ← hl]
    exact applyAsleep_wakeKernelWrites w s' (fun t => decide (tree_awake_in w t = 1) || !(Gen.Sleep._tree_can_sleep (K := K)
      nbody body_treeid dof_length tree_dofadr tree_dofnum tree_sleep_policy qvel_in qfrc_applied_in xfrc_applied_in w t
      (Scalar.lit 0 0))) a
  · intro s' a hl
    rw [length_wakeKernelTask]; exact hl

/-- (1j) the `_sweep_awake_trees` launch on the list state, tasks in ANY order -/
theorem sweep_launch_refines {K : Type} [Scalar K] (nbody : Int) (body_treeid : Int → Int) (dof_length : Int → K)
    (tree_dofadr tree_dofnum tree_sleep_policy : Int → Int) (qvel_in qfrc_applied_in : Int → Int → K)
    (xfrc_applied_in : Int → Int → V6 K) (opt_sleep_tolerance : Int → K) (shape0 w : Int) (order : List Int) (s : List Int) :
    launchK w (fun arr (t : Int) => Gen.Sleep._sweep_awake_trees (K := K) nbody body_treeid dof_length tree_dofadr
        tree_dofnum tree_sleep_policy qvel_in qfrc_applied_in xfrc_applied_in opt_sleep_tolerance arr shape0 w t) order s
      = sweep (fun t => Gen.Sleep._tree_can_sleep (K := K) nbody body_treeid dof_length tree_dofadr tree_dofnum
          tree_sleep_policy qvel_in qfrc_applied_in xfrc_applied_in w t (opt_sleep_tolerance (Int.tmod w shape0))) order s := by
  apply launchK_eq
  intro s' t
  rw [sweep_refines]
  exact applyAsleep_sweepWrites w s' (fun t => Gen.Sleep._tree_can_sleep (K := K) nbody body_treeid dof_length tree_dofadr
    tree_dofnum tree_sleep_policy qvel_in qfrc_applied_in xfrc_applied_in w t (opt_sleep_tolerance (Int.tmod w shape0))) t

/-- (1o) the `_check_island_can_sleep` launch on the `island_can_sleep` row (`atomic_min` applied to the CURRENT
    cell), tasks in ANY order -/
theorem check_launch_refines {K : Type} [Scalar K] (ntree : Int) (nisland_in : Int → Int) (tree_island_in : Int → Int → Int)
    (w : Int) (order : List Int) (s ics : List Int) :
    order.foldl (fun ics (t : Int) => applyIcs w ics (Gen.Sleep._check_island_can_sleep (K := K) ntree nisland_in (asArr s)
        tree_island_in (asArr ics) w t)) ics
      = check (tree_island_in w) (nisland_in w) s order ics := by
  unfold check
  induction order generalizing ics with
  | nil => rfl
  | cons a l ih =>
    rw [List.foldl_cons, List.foldl_cons, check_refines]
    have : applyIcs w ics (checkWrites (K := K) w (nisland_in w) (tree_island_in w a) (asArr s w a))
        = checkTask (tree_island_in w) (nisland_in w) s ics a := by
      unfold checkWrites checkTask
      show applyIcs w ics (if 0 ≤ tree_island_in w a ∧ tree_island_in w a < nisland_in w ∧ rd s a < -1 then _ else _) = _
      by_cases h : 0 ≤ tree_island_in w a ∧ tree_island_in w a < nisland_in w ∧ rd s a < -1
      · rw [if_pos h, if_pos h]; simp [applyIcs, applyIcs1]
      · rw [if_neg h, if_neg h]; rfl
    rw [this]
    exact ih _

/-! ## 2. Well-formedness -/

/-- (2a) **wake_wakes_whole_cycle**: on a well-formed state, `_wake_tree` on a sleeping tree `t` stores the wake
    value into EVERY tree of `t`'s cycle and into no other cell (whatever the value; for `v < 0`: it wakes
    exactly the whole cycle). -/
theorem wake_wakes_whole_cycle (s : List Int) (hwf : WF s) (t v u : Int) (h0 : 0 ≤ t) (h1 : t < s.length) (h2 : rd s t ≥ 0) :
    rd (wakeTree s t v) u = if onCycle s.length (rd s) t u then v else rd s u := by
  have hiff := onCycle_iff_Cyc ((WF_iff s).mp hwf) s.length rfl t u h0 h1 h2
  obtain ⟨a, b⟩ := rd_wakeTree_cycle s hwf t v u h0 h1 h2
  by_cases hc : onCycle s.length (rd s) t u
  · rw [if_pos hc]; exact a (hiff.mp hc)
  · rw [if_neg hc]; exact b (fun h => hc (hiff.mpr h))

/-- (2b) `_wake_tree` with a negative value keeps the state well-formed (the other cycles are untouched) -/
theorem wake_preserves_wf (s : List Int) (hwf : WF s) (t v : Int) (hv : v < 0) : WF (wakeTree s t v) :=
  Intact.wf hwf (wake_step s s hwf (Intact.refl s) t v hv).1

/-- (2c) **`_build_cycles` makes every island it puts to sleep ONE cycle**: with `m₀ < … < m_k` the trees of
    island `i` (`i < nisland`, `island_can_sleep[i] = 1`), `tree_asleep[m_j] = m_{(j+1) mod (k+1)}` afterwards. -/
theorem build_cycles_island_cycle (island : Int → Int) (nisland : Int) (ics : Int → Int) (s : List Int) (i : Int)
    (hi0 : 0 ≤ i) (hi1 : i < nisland) (hc : ics i = 1) (j : Nat) (hj : j < (members s.length island i).length) :
    rd (buildCycles island nisland ics s) ((members s.length island i).getD j (-1))
      = (members s.length island i).getD ((j + 1) % (members s.length island i).length) (-1) :=
  buildCycles_island island nisland ics s i hi0 hi1 hc j hj

/-- (2d) closed form of `_build_cycles` on `tree_asleep`: a tree of a sleeping island gets its successor in the
    island; a tree of an island that may not sleep is untouched; a tree without island becomes a self-cycle iff
    its countdown was −1. -/
theorem build_cycles_closed_form (island : Int → Int) (nisland : Int) (ics : Int → Int) (s : List Int) :
    (buildCycles island nisland ics s).length = s.length ∧
    ∀ u : Int, 0 ≤ u → u < s.length →
      ((0 ≤ island u ∧ island u < nisland) → ics (island u) = 1 →
        ∃ j, j < (members s.length island (island u)).length ∧ (members s.length island (island u)).getD j (-1) = u ∧
          rd (buildCycles island nisland ics s) u
            = (members s.length island (island u)).getD ((j + 1) % (members s.length island (island u)).length) (-1)) ∧
      ((0 ≤ island u ∧ island u < nisland) → ics (island u) ≠ 1 → rd (buildCycles island nisland ics s) u = rd s u) ∧
      ((island u < 0 ∨ island u ≥ nisland) → rd (buildCycles island nisland ics s) u = if rd s u = -1 then u else rd s u) :=
  buildCycles_spec island nisland ics s

/-- (2e) **`_build_cycles` establishes WF** for the trees it puts to sleep and keeps it for the others —
    PROVIDED no tree that is already asleep lies in an island that is put to sleep (hypothesis `H`; without it
    the statement is false: `build_cycles_breaks_cycle_witness`). -/
theorem build_cycles_establishes_wf (island : Int → Int) (nisland : Int) (ics : Int → Int) (s : List Int) (hwf : WF s)
    (H : ∀ u : Int, 0 ≤ u → u < s.length → 0 ≤ island u → island u < nisland → ics (island u) = 1 → rd s u < 0) :
    WF (buildCycles island nisland ics s) :=
  buildCycles_wf island nisland ics s hwf H

/-- (2f) **wellformed_invariant**: every operation of the model keeps WF — `_wake_tree` (negative value), the
    `_wake_kernel` launch, the collision launch (wake values read from trees that are awake), the sweep, and
    `_build_cycles` (under `H` of (2e)); all launches in ANY task order. -/
theorem wellformed_invariant (s : List Int) (hwf : WF s) :
    (∀ t v : Int, v < 0 → WF (wakeTree s t v)) ∧
    (∀ (tasks : List (Int × Int)), (∀ tv ∈ tasks, tv.2 < 0) → WF (wakeLaunch tasks s)) ∧
    (∀ (trigger : Int → Bool) (order : List Int), WF (wakeKernelLaunch trigger order s)) ∧
    (∀ (tasks : List (Option (Int × Int))),
      (∀ t src, some (t, src) ∈ tasks → 0 ≤ src ∧ src < s.length ∧ rd s src < 0) → WF (collisionLaunch tasks s)) ∧
    (∀ (can : Int → Bool) (order : List Int), WF (sweep can order s)) ∧
    (∀ (island : Int → Int) (nisland : Int) (ics : Int → Int),
      (∀ u : Int, 0 ≤ u → u < s.length → 0 ≤ island u → island u < nisland → ics (island u) = 1 → rd s u < 0) →
      WF (buildCycles island nisland ics s)) := by
  refine ⟨fun t v hv => wake_preserves_wf s hwf t v hv, fun tasks hv => ?_, fun trigger order => ?_, fun tasks hsrc => ?_,
    fun can order => ?_, fun island nisland ics H => buildCycles_wf island nisland ics s hwf H⟩
  · exact Intact.wf hwf (wakeLaunch_awake s hwf tasks hv s (Intact.refl s)).1
  · exact Intact.wf hwf (wakeKernelLaunch_spec s hwf trigger order s (Intact.refl s) (fun _ _ _ => Or.inl rfl)).1
  · exact Intact.wf hwf (collisionLaunch_awake s hwf tasks hsrc s (Intact.refl s)).1
  · exact Intact.wf hwf (sweep_intact s s hwf (Intact.refl s) can order)

/-! ## 3. Falling asleep -/

/-- (3a) the sweep launch in closed form, ANY duplicate-free order: every awake tree's countdown moves by
    `sweepVal` (quiet → one step toward −1, stopping at −1; not quiet → −11), sleeping trees are untouched -/
theorem sweep_closed_form (can : Int → Bool) (order : List Int) (hnd : order.Nodup) (s : List Int) (u : Int) :
    rd (sweep can order s) u = if u ∈ order ∧ 0 ≤ u ∧ u < s.length then sweepVal (can u) (rd s u) else rd s u :=
  rd_sweep can order hnd s u

/-- (3b) the check launch in closed form, ANY order, from `island_can_sleep = ones`: island `i` keeps its 1
    iff none of its trees has a countdown below −1 -/
theorem check_closed_form (island : Int → Int) (nisland : Int) (s : List Int) (order : List Int) (n : Nat) (i : Int)
    (hi0 : 0 ≤ i) (hi1 : i < n) :
    rd (check island nisland s order (List.replicate n 1)) i
      = if ∃ t ∈ order, island t = i ∧ i < nisland ∧ rd s t < -1 then 0 else 1 := by
  rw [rd_check island nisland s order _ i hi0 (by simpa using hi1), rd_replicate n 1 i hi0 hi1]
  rfl

/-- (3c) **falls_asleep_only_if**.  One call of `sleep()` = sweep (order `o1`), check (order `o2`, from ones),
    `_build_cycles`; both orders arbitrary enumerations of all trees (`o1` without duplicates), `nisland ≤ ntree`.
    If tree `u` was AWAKE before and is ASLEEP after, then
    * `u` was quiet in this sweep (`can u`: below tolerance, no applied force, policy allows),
    * its countdown was −2 or −1 before the sweep and −1 after it,
    * if `u` has a valid island: EVERY tree of that island has, after the sweep, a countdown ≥ −1 —
      i.e. exactly −1, or it is a tree that was already asleep (`_check_island_can_sleep` does not veto those). -/
theorem falls_asleep_only_if (can : Int → Bool) (island : Int → Int) (nisland : Int) (o1 o2 : List Int) (s : List Int)
    (hnd : o1.Nodup) (hall1 : ∀ t : Int, 0 ≤ t → t < s.length → t ∈ o1) (hall2 : ∀ t : Int, 0 ≤ t → t < s.length → t ∈ o2)
    (hnisl : nisland ≤ s.length) (u : Int) (hu0 : 0 ≤ u) (hu1 : u < s.length)
    (hawake : rd s u < 0) (hasleep : rd (sleepStep can island nisland o1 o2 s) u ≥ 0) :
    can u = true ∧ (rd s u = -2 ∨ rd s u = -1) ∧ rd (sweep can o1 s) u = -1 ∧
    ((0 ≤ island u ∧ island u < nisland) →
      ∀ t : Int, 0 ≤ t → t < s.length → island t = island u → rd (sweep can o1 s) t ≥ -1) := by
  unfold sleepStep at hasleep
  simp only [] at hasleep
  have hlen : (sweep can o1 s).length = s.length := length_sweep can o1 s
  have hs1 : rd (sweep can o1 s) u = sweepVal (can u) (rd s u) := by
    rw [rd_sweep can o1 hnd s u, if_pos ⟨hall1 u hu0 hu1, hu0, hu1⟩]
  have hs1neg : rd (sweep can o1 s) u < 0 := by rw [hs1]; exact sweepVal_neg _ _ hawake
  obtain ⟨-, hspec⟩ := buildCycles_spec island nisland
    (rd (check island nisland (sweep can o1 s) o2 (List.replicate s.length 1))) (sweep can o1 s)
  obtain ⟨-, sB, sC⟩ := hspec u hu0 (by rw [hlen]; exact hu1)
  -- island_can_sleep of a valid island in closed form
  have hics : ∀ i : Int, 0 ≤ i → i < nisland →
      rd (check island nisland (sweep can o1 s) o2 (List.replicate s.length 1)) i = 1 →
      ∀ t : Int, 0 ≤ t → t < s.length → island t = i → rd (sweep can o1 s) t ≥ -1 := by
    intro i hi0 hi1 h1 t ht0 ht1 hti
    rw [check_closed_form island nisland _ o2 s.length i hi0 (by omega)] at h1
    by_contra hlt
    rw [if_pos ⟨t, hall2 t ht0 ht1, hti, hi1, by omega⟩] at h1
    omega
  -- after the sweep the countdown is −1
  have hm1 : rd (sweep can o1 s) u = -1 ∧
      ((0 ≤ island u ∧ island u < nisland) →
        ∀ t : Int, 0 ≤ t → t < s.length → island t = island u → rd (sweep can o1 s) t ≥ -1) := by
    by_cases hv : 0 ≤ island u ∧ island u < nisland
    · by_cases hc : rd (check island nisland (sweep can o1 s) o2 (List.replicate s.length 1)) (island u) = 1
      · have hall := hics (island u) hv.1 hv.2 hc
        have := hall u hu0 hu1 rfl
        exact ⟨by omega, fun _ => hall⟩
      · rw [sB hv hc] at hasleep; omega
    · have hinv : island u < 0 ∨ island u ≥ nisland := by omega
      rw [sC hinv] at hasleep
      by_cases h1 : rd (sweep can o1 s) u = -1
      · exact ⟨h1, fun h => absurd h hv⟩
      · rw [if_neg h1] at hasleep; omega
  refine ⟨?_, ?_, hm1.1, hm1.2⟩
  · by_contra hc
    have : can u = false := by simpa using hc
    rw [hs1, this] at hm1
    unfold sweepVal AWAKE_VAL MINAWAKE at hm1
    rw [if_neg (by omega)] at hm1
    simp at hm1
  · have h := hm1.1
    rw [hs1] at h
    unfold sweepVal AWAKE_VAL MINAWAKE at h
    rw [if_neg (by omega)] at h
    cases hcan : can u
    · rw [hcan] at h; simp at h
    · rw [hcan] at h
      simp only [if_true] at h
      split at h <;> omega

/-- (3d) the countdown of a tree that stays awake, started at −11 (initial state, or the reset the sweep
    performs whenever the tree is not quiet), after `k` sweeps: `−11 + min(10, number of consecutive quiet
    sweeps immediately before)`. -/
theorem countdown_closed_form (c : Nat → Bool) (k : Nat) :
    countdown c AWAKE_VAL k = AWAKE_VAL + min 10 (trail c k : Int) := countdown_closed c k

/-- (3e) **countdown_needs_minawake** (induction over sweeps).  Let `x j` be the countdown of a tree BEFORE sweep
    `j`, with `x 0 ≤ −11` and, between sweeps, the countdown only ever lowered (`x (j+1) ≤ sweepVal (c j) (x j)`:
    this is what the wake kernels do to a tree that stays awake — `_wake_tree` on an awake tree stores the wake
    value only if it is smaller).  If `x k = −1` — the only countdown from which `_build_cycles` puts a tree to
    sleep, (3c) — then `k ≥ MJ_MINAWAKE = 10` and the last 10 sweeps were all quiet. -/
theorem countdown_needs_minawake (c : Nat → Bool) (x : Nat → Int) (hx0 : x 0 ≤ AWAKE_VAL)
    (hstep : ∀ j, x (j + 1) ≤ sweepVal (c j) (x j)) (k : Nat) (hk : x k = -1) :
    10 ≤ k ∧ ∀ j, k - 10 ≤ j → j < k → c j = true := by
  have hle : ∀ j, x j ≤ countdown c AWAKE_VAL j ∧ x j < 0 := by
    intro j
    induction j with
    | zero => exact ⟨hx0, by unfold AWAKE_VAL MINAWAKE at hx0; omega⟩
    | succ j ih =>
      have hcd : countdown c AWAKE_VAL j < 0 := by
        rw [countdown_closed]; unfold AWAKE_VAL MINAWAKE; omega
      have h1 := sweepVal_mono (c j) _ _ ih.1 hcd
      have h2 := sweepVal_neg (c j) _ ih.2
      have := hstep j
      exact ⟨le_trans this h1, by omega⟩
  have := (hle k).1
  rw [hk, countdown_closed] at this
  unfold AWAKE_VAL MINAWAKE at this
  have ht : 10 ≤ trail c k := by omega
  exact trail_ge c k 10 ht

/-! ## 4. Waking -/

/-- (4a) **wakes_if (applied force / velocity)**: after the `_wake_kernel` launch, in ANY task order that
    contains tree `t`, a tree whose trigger holds — `tree_awake[t] == 1`, or `_tree_can_sleep(t, tolerance 0)`
    false: some `xfrc_applied` component of one of its bodies ≠ 0, some `qfrc_applied` of its dofs ≠ 0, some
    `qvel` of its dofs ≠ 0, or policy NEVER — is awake (state well-formed before the launch). -/
theorem wakes_if_triggered (s : List Int) (hwf : WF s) (trigger : Int → Bool) (order : List Int) (t : Int)
    (ht : t ∈ order) (h0 : 0 ≤ t) (h1 : t < s.length) (htr : trigger t = true) :
    rd (wakeKernelLaunch trigger order s) t < 0 := by
  obtain ⟨-, -, h⟩ := wakeKernelLaunch_spec s hwf trigger order s (Intact.refl s) (fun _ _ _ => Or.inl rfl)
  rw [h t h0 h1]
  by_cases ha : rd s t < 0
  · exact Or.inl ha
  · exact Or.inr ⟨t, ht, htr, h0, h1, by omega, Cyc.refl _ _⟩

/-- (4a') … and with it its whole sleep cycle -/
theorem wakes_if_triggered_cycle (s : List Int) (hwf : WF s) (trigger : Int → Bool) (order : List Int) (t u : Int)
    (ht : t ∈ order) (h0 : 0 ≤ t) (h1 : t < s.length) (hs : rd s t ≥ 0) (htr : trigger t = true)
    (hu0 : 0 ≤ u) (hu1 : u < s.length) (hc : onCycle s.length (rd s) t u) :
    rd (wakeKernelLaunch trigger order s) u = AWAKE_VAL := by
  obtain ⟨-, hval, h⟩ := wakeKernelLaunch_spec s hwf trigger order s (Intact.refl s) (fun _ _ _ => Or.inl rfl)
  have hcy := (onCycle_iff_Cyc ((WF_iff s).mp hwf) s.length rfl t u h0 h1 hs).mp hc
  have hneg : rd (wakeKernelLaunch trigger order s) u < 0 := (h u hu0 hu1).mpr (Or.inr ⟨t, ht, htr, h0, h1, hs, hcy⟩)
  rcases hval u hu0 hu1 with e | e
  · -- untouched: then `u` would be asleep
    obtain ⟨k, hk⟩ := hcy
    have := (orbit_sleeping ((WF_iff s).mp hwf) k t h0 h1 hs).2.2
    rw [hk] at this
    omega
  · exact e.1

/-- (4b) **wakes_if (contact)**: after the collision launch (ANY order), the tree addressed by a task — the
    tree whose `tree_awake` flag is not 1, in a contact whose other tree has flag 1 — is awake, provided the
    flag-1 trees are really awake before the launch (`tree_awake` consistent with `tree_asleep`). -/
theorem wakes_if_contact (s : List Int) (hwf : WF s) (tasks : List (Option (Int × Int)))
    (hsrc : ∀ t src, some (t, src) ∈ tasks → 0 ≤ src ∧ src < s.length ∧ rd s src < 0)
    (t src : Int) (hm : some (t, src) ∈ tasks) (h0 : 0 ≤ t) (h1 : t < s.length) :
    rd (collisionLaunch tasks s) t < 0 := by
  obtain ⟨-, h⟩ := collisionLaunch_awake s hwf tasks hsrc s (Intact.refl s)
  rw [h t h0 h1]
  by_cases ha : rd s t < 0
  · exact Or.inl ha
  · exact Or.inr ⟨t, src, hm, h0, h1, by omega, Cyc.refl _ _⟩

/-! ### what the triggers test, and the generated launches -/

/-- (4c) **`_tree_can_sleep` in closed form** (every scalar type): policy ≠ NEVER, no nonzero `xfrc_applied`
    component on a body of the tree, no nonzero `qfrc_applied` on its dofs, every dof slow
    (`|dof_length·qvel| < tol` for `tol > 0`, `qvel == 0` for `tol ≤ 0`). -/
theorem tree_can_sleep_refines {K : Type} [Scalar K] (nbody : Int) (body_treeid : Int → Int) (dof_length : Int → K)
    (tree_dofadr tree_dofnum tree_sleep_policy : Int → Int) (qvel_in qfrc_applied_in : Int → Int → K)
    (xfrc_applied_in : Int → Int → V6 K) (w t : Int) (tol : K) :
    Gen.Sleep._tree_can_sleep (K := K) nbody body_treeid dof_length tree_dofadr tree_dofnum tree_sleep_policy qvel_in
        qfrc_applied_in xfrc_applied_in w t tol
      = canSleepSpec nbody body_treeid dof_length (tree_dofadr t) (tree_dofnum t) (tree_sleep_policy t) (qvel_in w)
          (qfrc_applied_in w) (xfrc_applied_in w) t tol :=
  tree_can_sleep_eq nbody body_treeid dof_length tree_dofadr tree_dofnum tree_sleep_policy qvel_in qfrc_applied_in
    xfrc_applied_in w t tol

/-- (4d) over ℝ, at tolerance 0 (the test of `_wake_kernel`): the tree "can sleep" iff its policy is not NEVER and
    all applied forces and all velocities of the tree are exactly zero -/
theorem can_sleep_zero_tol_iff (nbody : Int) (body_treeid : Int → Int) (dof_length : Int → ℝ) (adr num policy : Int)
    (qvel qfrc : Int → ℝ) (xfrc : Int → V6 ℝ) (t : Int) :
    canSleepSpec nbody body_treeid dof_length adr num policy qvel qfrc xfrc t (Scalar.lit 0 0 : ℝ) = true ↔
      policy ≠ 1 ∧
      (∀ b : Nat, (b : Int) < nbody → body_treeid b = t →
        (xfrc b).c0 = 0 ∧ (xfrc b).c1 = 0 ∧ (xfrc b).c2 = 0 ∧ (xfrc b).c3 = 0 ∧ (xfrc b).c4 = 0 ∧ (xfrc b).c5 = 0) ∧
      (∀ d : Nat, (d : Int) < num → qfrc (adr + d) = 0 ∧ qvel (adr + d) = 0) := by
  unfold canSleepSpec anyNonzero6
  by_cases hp : policy = 1
  · simp [hp]
  · simp only [hp, if_false, ne_eq, not_false_eq_true, true_and]
    have hgt : Scalar.gt (Scalar.lit 0 0 : ℝ) (Scalar.lit 0 0 : ℝ) = false := by
      rw [Bool.eq_false_iff]; simp
    simp only [hgt, Bool.false_eq_true, if_false]
    constructor
    · intro h
      by_cases h1 : (List.range nbody.toNat).any (fun (b : Nat) => decide (body_treeid b = t) &&
          (Scalar.bne (xfrc b).c0 (Scalar.lit 0 0 : ℝ) || Scalar.bne (xfrc b).c1 (Scalar.lit 0 0 : ℝ) || Scalar.bne (xfrc b).c2 (Scalar.lit 0 0 : ℝ)
            || Scalar.bne (xfrc b).c3 (Scalar.lit 0 0 : ℝ) || Scalar.bne (xfrc b).c4 (Scalar.lit 0 0 : ℝ) || Scalar.bne (xfrc b).c5 (Scalar.lit 0 0 : ℝ))) = true
      · rw [if_pos h1] at h; exact absurd h (by simp)
      · rw [if_neg h1] at h
        by_cases h2 : (List.range num.toNat).any (fun (d : Nat) => Scalar.bne (qfrc (adr + d)) (Scalar.lit 0 0 : ℝ)) = true
        · rw [if_pos h2] at h; exact absurd h (by simp)
        · rw [if_neg h2] at h
          by_cases h3 : (List.range num.toNat).any (fun (d : Nat) => Scalar.bne (qvel (adr + d)) (Scalar.lit 0 0 : ℝ)) = true
          · rw [if_pos h3] at h; exact absurd h (by simp)
          · simp only [List.any_eq_true, List.mem_range, not_exists, not_and, Bool.and_eq_true, decide_eq_true_eq,
              Bool.or_eq_true, sbne, slit] at h1 h2 h3
            norm_num at h1 h2 h3
            refine ⟨fun b hb hbt => ?_, fun d hd => ⟨h2 d (by omega), h3 d (by omega)⟩⟩
            have := h1 b (by omega) hbt
            tauto
    · rintro ⟨h1, h2⟩
      rw [if_neg, if_neg, if_neg]
      · simp only [List.any_eq_true, List.mem_range, not_exists, not_and, sbne, slit]
        intro d hd; norm_num; exact (h2 d (by omega)).2
      · simp only [List.any_eq_true, List.mem_range, not_exists, not_and, sbne, slit]
        intro d hd; norm_num; exact (h2 d (by omega)).1
      · simp only [List.any_eq_true, List.mem_range, not_exists, not_and, Bool.and_eq_true, decide_eq_true_eq,
          Bool.or_eq_true, sbne, slit]
        intro b hb hbt
        obtain ⟨a0, a1, a2, a3, a4, a5⟩ := h1 b (by omega) hbt
        norm_num [a0, a1, a2, a3, a4, a5]

/-- (4e) **wakes_if (generated launch)**, ℝ: run the GENERATED `_wake_kernel` over the trees in ANY order containing
    `t`, on a well-formed state.  If some dof of tree `t` has nonzero velocity, or nonzero `qfrc_applied`, or some
    body of the tree a nonzero `xfrc_applied` component (or the policy is NEVER, or `tree_awake[t] == 1`) — i.e.
    NOT (4d) — then `t` is awake afterwards. -/
theorem wakes_if_applied_force_or_velocity (nbody : Int) (body_treeid : Int → Int) (dof_length : Int → ℝ)
    (tree_dofadr tree_dofnum tree_sleep_policy : Int → Int) (qvel_in qfrc_applied_in : Int → Int → ℝ)
    (xfrc_applied_in : Int → Int → V6 ℝ) (tree_awake_in : Int → Int → Int) (w : Int) (order : List Int) (s : List Int)
    (hwf : WF s) (t : Int) (ht : t ∈ order) (h0 : 0 ≤ t) (h1 : t < s.length)
    (htrig : tree_awake_in w t = 1 ∨
      ¬ (tree_sleep_policy t ≠ 1 ∧
        (∀ b : Nat, (b : Int) < nbody → body_treeid b = t →
          (xfrc_applied_in w b).c0 = 0 ∧ (xfrc_applied_in w b).c1 = 0 ∧ (xfrc_applied_in w b).c2 = 0 ∧
          (xfrc_applied_in w b).c3 = 0 ∧ (xfrc_applied_in w b).c4 = 0 ∧ (xfrc_applied_in w b).c5 = 0) ∧
        (∀ d : Nat, (d : Int) < tree_dofnum t →
          qfrc_applied_in w (tree_dofadr t + d) = 0 ∧ qvel_in w (tree_dofadr t + d) = 0))) :
    rd (launchK w (fun arr (t : Int) => Gen.Sleep._wake_kernel (K := ℝ) nbody s.length body_treeid dof_length tree_dofadr
        tree_dofnum tree_sleep_policy qvel_in qfrc_applied_in xfrc_applied_in tree_awake_in arr w t) order s) t < 0 := by
  rw [wake_kernel_launch_refines]
  apply wakes_if_triggered s hwf _ order t ht h0 h1
  rcases htrig with h | h
  · simp [h]
  · have : Gen.Sleep._tree_can_sleep (K := ℝ) nbody body_treeid dof_length tree_dofadr tree_dofnum tree_sleep_policy qvel_in
        qfrc_applied_in xfrc_applied_in w t (Scalar.lit 0 0) = false := by
      rw [Bool.eq_false_iff, tree_can_sleep_refines]
      intro hc
      exact h ((can_sleep_zero_tol_iff _ _ _ _ _ _ _ _ _ _).mp hc)
    simp only [this, Bool.not_false, Bool.or_true]

/-- (4f) the `_wake_collision_kernel` launch on the list state, threads in ANY order: thread `conid` does to
    world `w` what `collisionTaskOf` says (nothing if inactive or if the contact belongs to another world) -/
theorem wake_collision_launch_refines {K : Type} [Scalar K] (body_treeid geom_bodyid : Int → Int)
    (tree_awake_in : Int → Int → Int) (contact_geom_in : Int → I2) (contact_worldid_in nacon_in : Int → Int)
    (w : Int) (order : List Int) (s : List Int) :
    launchK w (fun arr (conid : Int) => Gen.Sleep._wake_collision_kernel (K := K) s.length body_treeid geom_bodyid tree_awake_in
        contact_geom_in contact_worldid_in nacon_in arr conid) order s
      = collisionLaunch (order.map (collisionTaskOf w body_treeid geom_bodyid tree_awake_in contact_geom_in contact_worldid_in
          nacon_in)) s := by
  unfold collisionLaunch
  rw [List.foldl_map]
  apply launchK_eq_inv w _ _ (fun s' => s'.length = s.length) _ _ order s rfl
  · intro s' conid hl
    unfold collisionTaskOf
    by_cases hact : conid < nacon_in 0 ∧ 0 ≤ (contact_geom_in conid).c0 ∧ 0 ≤ (contact_geom_in conid).c1
    · have href := wake_collision_refines (K := K) s.length body_treeid geom_bodyid tree_awake_in contact_geom_in
        contact_worldid_in nacon_in (asArr s') conid hact.1 hact.2
      simp only [] at href
      rw [href]
      by_cases hw : contact_worldid_in conid = w
      · rw [if_pos ⟨hact.1, hact.2.1, hact.2.2, hw⟩, hw]
        cases collisionTarget (body_treeid (geom_bodyid (contact_geom_in conid).c0))
            (body_treeid (geom_bodyid (contact_geom_in conid).c1))
            (tree_awake_in w (body_treeid (geom_bodyid (contact_geom_in conid).c0)))
            (tree_awake_in w (body_treeid (geom_bodyid (contact_geom_in conid).c1))) with
        | none => rfl
        | some ts =>
          obtain ⟨t, src⟩ := ts
          show applyAsleep w s' (wakeTreeWrites w s.length (rd s') t (rd s' src)) = wakeTree s' t (rd s' src)
          rw [← hl]; exact applyAsleep_wakeTreeWrites w s' t (rd s' src)
      · rw [if_neg (fun h => hw h.2.2.2)]
        cases collisionTarget (body_treeid (geom_bodyid (contact_geom_in conid).c0))
            (body_treeid (geom_bodyid (contact_geom_in conid).c1))
            (tree_awake_in (contact_worldid_in conid) (body_treeid (geom_bodyid (contact_geom_in conid).c0)))
            (tree_awake_in (contact_worldid_in conid) (body_treeid (geom_bodyid (contact_geom_in conid).c1))) with
        | none => rfl
        | some ts =>
          obtain ⟨t, src⟩ := ts
          exact applyAsleep_wakeTreeWrites_other w _ hw s' _ _ _ _
    · rw [if_neg (fun h => hact ⟨h.1, h.2.1, h.2.2.1⟩)]
      rw [wake_collision_inactive]
      · rfl
      · by_contra hn
        apply hact
        refine ⟨by omega, by omega, by omega⟩
  · intro s' conid hl
    show (collisionTask s' _).length = s.length
    cases collisionTaskOf w body_treeid geom_bodyid tree_awake_in contact_geom_in contact_worldid_in nacon_in conid with
    | none => exact hl
    | some ts => obtain ⟨t, src⟩ := ts; show (wakeTree s' t (rd s' src)).length = _; rw [length_wakeTree]; exact hl

/-- (4g) **wakes_if (contact, generated launch)**: run the GENERATED `_wake_collision_kernel` over ANY order of
    threads on a well-formed state whose `tree_awake` flags are 0/1 and consistent (`flag = 1 ⇒ tree_asleep < 0`,
    tree inside the array).  If an active contact `c` of world `w` joins tree `a` with flag 1 and tree `t` of the array with
    flag ≠ 1 (not both 0: excluded by `a`'s flag), then `t` is awake afterwards. -/
theorem wakes_if_contact_generated {K : Type} [Scalar K] (body_treeid geom_bodyid : Int → Int)
    (tree_awake_in : Int → Int → Int) (contact_geom_in : Int → I2) (contact_worldid_in nacon_in : Int → Int)
    (w : Int) (order : List Int) (s : List Int) (hwf : WF s)
    (hflags : ∀ a : Int, tree_awake_in w a = 0 ∨ tree_awake_in w a = 1)
    (hcons : ∀ a : Int, 0 ≤ a → tree_awake_in w a = 1 → a < s.length ∧ rd s a < 0)
    (c : Int) (hc : c ∈ order) (t src : Int)
    (htask : collisionTaskOf w body_treeid geom_bodyid tree_awake_in contact_geom_in contact_worldid_in nacon_in c = some (t, src))
    (h0 : 0 ≤ t) (h1 : t < s.length) :
    rd (launchK w (fun arr (conid : Int) => Gen.Sleep._wake_collision_kernel (K := K) s.length body_treeid geom_bodyid
        tree_awake_in contact_geom_in contact_worldid_in nacon_in arr conid) order s) t < 0 := by
  rw [wake_collision_launch_refines]
  apply wakes_if_contact s hwf _ _ t src (by rw [← htask]; exact List.mem_map_of_mem hc) h0 h1
  -- every task's source tree has flag 1, hence is awake
  intro t' src' hm
  obtain ⟨c', -, hc'⟩ := List.mem_map.mp hm
  unfold collisionTaskOf collisionTarget at hc'
  split_ifs at hc' with a1 a2 a3 a4 a5
  · cases hc'
    obtain ⟨b1, b2⟩ := hcons _ (by omega) a5
    exact ⟨by omega, b1, b2⟩
  · cases hc'
    -- flag of tree1 is 0 (not 1), so the flag of tree2 is not 0, hence 1
    have f1 : tree_awake_in w (body_treeid (geom_bodyid (contact_geom_in c').c0)) = 0 := by
      rcases hflags (body_treeid (geom_bodyid (contact_geom_in c').c0)) with h | h
      · exact h
      · exact absurd h a5
    have f2 : tree_awake_in w (body_treeid (geom_bodyid (contact_geom_in c').c1)) = 1 := by
      rcases hflags (body_treeid (geom_bodyid (contact_geom_in c').c1)) with h | h
      · exact absurd ⟨f1, h⟩ a4
      · exact h
    obtain ⟨b1, b2⟩ := hcons _ (by omega) f2
    exact ⟨by omega, b1, b2⟩

/-- (4h) **wakes_if (limited tendon, generated launch)**: run the GENERATED `_wake_tendon_kernel` over the tendons in
    ANY order containing `tenid`, on a state whose sleeping entries point inside the array.  If tendon `tenid` has
    an active limit, some tree on it has `tree_awake` flag 1, and tree `t` of the array is on it with flag 0, then `t`
    is awake afterwards. -/
theorem wakes_if_tendon_generated {K : Type} [Scalar K] (ntendon : Int)
    (body_treeid jnt_bodyid geom_bodyid site_bodyid tendon_adr tendon_num tendon_limited : Int → Int)
    (tendon_range : Int → Int → V2 K) (tendon_margin : Int → Int → K) (wrap_type wrap_objid : Int → Int)
    (ten_length_in : Int → Int → K) (tree_awake_in : Int → Int → Int) (sh0 sh1 w : Int) (order : List Int) (s : List Int)
    (hin : InRange s) (tenid : Int) (hmem : tenid ∈ order)
    (hlim : Gen.Sleep._tendon_limit_active (K := K) tendon_limited tendon_range tendon_margin ten_length_in w tenid sh0 sh1 = true)
    (t a : Int)
    (ht : t ∈ tendonTrees (wrapTree body_treeid jnt_bodyid geom_bodyid site_bodyid wrap_type wrap_objid) (tendon_adr tenid) (tendon_num tenid))
    (ha : a ∈ tendonTrees (wrapTree body_treeid jnt_bodyid geom_bodyid site_bodyid wrap_type wrap_objid) (tendon_adr tenid) (tendon_num tenid))
    (ha0 : a ≥ 0) (haw : tree_awake_in w a = 1) (ht0 : 0 ≤ t) (ht1 : t < s.length) (htf : tree_awake_in w t = 0) :
    rd (launchK w (fun arr (tid : Int) => Gen.Sleep._wake_tendon_kernel (K := K) s.length ntendon body_treeid jnt_bodyid geom_bodyid
        site_bodyid tendon_adr tendon_num tendon_limited tendon_range tendon_margin wrap_type wrap_objid ten_length_in
        tree_awake_in arr sh0 sh1 w tid) order s) t < 0 := by
  refine wake_only_launch w _ ?hwo order s t tenid hmem ?hhit
  case hwo =>
    intro s' tid
    rw [wake_tendon_kernel_refines]
    refine wakeOnly_ite _ (wakeOnly_tendonWakeWrites _ _ _ _ _ _ ?_) wakeOnly_nil
    have := (tendonScan_spec (asArr s' w) (tree_awake_in w) (tendonTrees (wrapTree body_treeid jnt_bodyid geom_bodyid
      site_bodyid wrap_type wrap_objid) (tendon_adr tid) (tendon_num tid))).2.1
    have hA : AWAKE_VAL < 0 := by decide
    omega
  case hhit =>
    intro s' hr hs
    rw [wake_tendon_kernel_refines]
    have hsc := tendonScan_spec (asArr s' w) (tree_awake_in w) (tendonTrees (wrapTree body_treeid jnt_bodyid geom_bodyid
        site_bodyid wrap_type wrap_objid) (tendon_adr tenid) (tendon_num tenid))
    rw [if_pos ⟨hsc.1.mpr ⟨a, ha, ha0, haw⟩, hlim⟩]
    unfold tendonWakeWrites
    rw [rd_applyAsleep_cells w s' _ _ t (by
      intro c hc
      have := tendonWakeCells_inrange _ _ _ _ _ c hc
      rw [hr.1]; exact this)]
    have hmemc : t ∈ tendonWakeCells s.length (asArr s' w) (tree_awake_in w) (tendonTrees (wrapTree body_treeid jnt_bodyid
        geom_bodyid site_bodyid wrap_type wrap_objid) (tendon_adr tenid) (tendon_num tenid))
        (tendonScan (asArr s' w) (tree_awake_in w) (tendonTrees (wrapTree body_treeid jnt_bodyid geom_bodyid site_bodyid
          wrap_type wrap_objid) (tendon_adr tenid) (tendon_num tenid))).2 := by
      unfold tendonWakeCells
      apply List.mem_flatMap.mpr
      refine ⟨t, ht, ?_⟩
      rw [if_pos ⟨by omega, htf⟩]
      apply mem_wakeCells_self _ _ _ _ ht0 ht1 hs
      show rd s' t < s.length
      rw [hr.2 t hs]
      have := hin t.toNat (List.mem_range.mpr (by omega))
      rwa [show ((t.toNat : Nat) : Int) = t by omega] at this
    rw [if_pos hmemc]
    have hA : AWAKE_VAL < 0 := by decide
    have := hsc.2.1
    omega

/-- (4i) **wakes_if (active equality, generated launch)**: run the GENERATED `_wake_equality_kernel` over the
    equalities in ANY order containing `eqid`, on a state whose sleeping entries point inside the array.  If `eqid` is
    active, of type CONNECT / WELD / JOINT, joins two DIFFERENT trees `≥ 0` of which `tsleep` (in the array) has
    `tree_awake` flag 0 and the other flag 1, then `tsleep` is awake afterwards. -/
theorem wakes_if_equality_generated {K : Type} [Scalar K] (neq : Int)
    (body_treeid jnt_bodyid geom_bodyid site_bodyid eq_type eq_obj1id eq_obj2id eq_objtype tendon_adr tendon_num wrap_type
      wrap_objid : Int → Int) (eq_active_in : Int → Int → Bool) (tree_awake_in : Int → Int → Int) (w : Int)
    (order : List Int) (s : List Int) (hin : InRange s) (eqid : Int) (hmem : eqid ∈ order)
    (hact : eq_active_in w eqid = true) (hty : eq_type eqid = 0 ∨ eq_type eqid = 1 ∨ eq_type eqid = 2)
    (t1 t2 : Int)
    (htt : eqTrees body_treeid jnt_bodyid site_bodyid (eq_type eqid) (eq_objtype eqid) (eq_obj1id eqid) (eq_obj2id eqid) = (t1, t2))
    (h1 : t1 ≥ 0) (h2 : t2 ≥ 0) (hne : t1 ≠ t2)
    (hflags : (tree_awake_in w t1 = 0 ∧ tree_awake_in w t2 = 1) ∨ (tree_awake_in w t1 = 1 ∧ tree_awake_in w t2 = 0))
    (tsleep : Int) (hts : tsleep = if tree_awake_in w t1 = 0 then t1 else t2) (hr1 : tsleep < s.length) :
    rd (launchK w (fun arr (tid : Int) => Gen.Sleep._wake_equality_kernel (K := K) s.length neq body_treeid jnt_bodyid geom_bodyid
        site_bodyid eq_type eq_obj1id eq_obj2id eq_objtype tendon_adr tendon_num wrap_type wrap_objid eq_active_in tree_awake_in
        arr w tid) order s) tsleep < 0 := by
  have hA : AWAKE_VAL < 0 := by decide
  refine wake_only_launch w _ ?hwo order s tsleep eqid hmem ?hhit
  case hwo =>
    -- every write of every equality task stores a negative value
    intro s' tid
    rw [wake_equality_kernel_refines]
    refine wakeOnly_ite _ wakeOnly_nil (wakeOnly_ite _ (wakeOnly_eqBodyWrites _ _ _ _ _ _ _ _ _) (wakeOnly_ite _ ?_ wakeOnly_nil))
    simp only []
    generalize Gen.Sleep._tendon_wake_val (K := K) body_treeid jnt_bodyid geom_bodyid site_bodyid tendon_adr tendon_num wrap_type
      wrap_objid tree_awake_in w (eq_obj1id tid) (asArr s') = w1
    generalize Gen.Sleep._tendon_wake_val (K := K) body_treeid jnt_bodyid geom_bodyid site_bodyid tendon_adr tendon_num wrap_type
      wrap_objid tree_awake_in w (eq_obj2id tid) (asArr s') = w2
    have hv1 : (if w1 < 0 ∧ w1 < -11 then w1 else -11) ≤ -11 := by split <;> omega
    have hv : (if w2 < 0 ∧ w2 < (if w1 < 0 ∧ w1 < -11 then w1 else -11) then w2 else (if w1 < 0 ∧ w1 < -11 then w1 else -11)) < 0 := by
      split <;> omega
    refine wakeOnly_ite _ ?_ wakeOnly_nil
    rw [wake_tendon_trees_refines, wake_tendon_trees_refines]
    exact wakeOnly_append (wakeOnly_ite _ wakeOnly_nil (wakeOnly_tendonWakeWrites _ _ _ _ _ _ hv))
      (wakeOnly_ite _ wakeOnly_nil (wakeOnly_tendonWakeWrites _ _ _ _ _ _ hv))
  case hhit =>
    intro s' hr hs
    rw [wake_equality_kernel_refines, if_neg (by simp [hact]), if_pos hty]
    simp only [htt]
    have hs1 : (if t1 ≥ 0 then tree_awake_in w t1 else -1) = tree_awake_in w t1 := if_pos h1
    have hs2 : (if t2 ≥ 0 then tree_awake_in w t2 else -1) = tree_awake_in w t2 := if_pos h2
    rw [hs1, hs2]
    have hw : eqBodyWrites (K := K) w s.length (asArr s' w) t1 t2 (tree_awake_in w t1) (tree_awake_in w t2)
        (Gen.Sleep._sleep_cycle (K := K) (asArr s') s.length w t1) (Gen.Sleep._sleep_cycle (K := K) (asArr s') s.length w t2)
        = wakeTreeWrites w s.length (rd s') tsleep AWAKE_VAL := by
      unfold eqBodyWrites
      rcases hflags with ⟨f1, f2⟩ | ⟨f1, f2⟩
      · rw [f1, f2, hts, f1]; simp [hne]; rfl
      · rw [f1, f2, hts, f1]; simp [hne]; rfl
    rw [hw]
    have hts0 : 0 ≤ tsleep := by rw [hts]; split <;> omega
    unfold wakeTreeWrites
    rw [rd_applyAsleep_cells w s' _ _ tsleep (by
      intro c hc
      have := wakeCells_inrange _ _ _ _ c hc
      rw [hr.1]; exact this)]
    rw [if_pos (mem_wakeCells_self _ _ _ _ hts0 hr1 hs (by
      rw [hr.2 tsleep hs]
      have := hin tsleep.toNat (List.mem_range.mpr (by omega))
      rwa [show ((tsleep.toNat : Nat) : Int) = tsleep by omega] at this))]
    exact hA

/-! ## 5. Which value, and in which order -/

/-- (5a) **the value `_wake_tree` writes**.  (i) An AWAKE addressed tree takes the MINIMUM of its countdown and
    the wake value, nothing else changes.  (ii) A SLEEPING addressed tree (well-formed state): it and every other
    member of its cycle take the wake value itself — the first waker's value. -/
theorem wake_tree_values (s : List Int) (t v : Int) (h0 : 0 ≤ t) (h1 : t < s.length) :
    (rd s t < 0 → rd (wakeTree s t v) t = min v (rd s t) ∧ ∀ u, u ≠ t → rd (wakeTree s t v) u = rd s u) ∧
    (WF s → rd s t ≥ 0 → ∀ u, onCycle s.length (rd s) t u → rd (wakeTree s t v) u = v) := by
  constructor
  · intro ha
    have hc : wakeCells s.length (rd s) t v = if v < rd s t then [t] else [] := by
      unfold wakeCells; rw [if_neg (by omega), if_pos ha]
    refine ⟨?_, fun u hu => ?_⟩
    · rw [rd_wakeTree, hc]
      by_cases hv : v < rd s t
      · rw [if_pos hv, if_pos (by simp)]; omega
      · rw [if_neg hv, if_neg (by simp)]; omega
    · rw [rd_wakeTree, hc]
      by_cases hv : v < rd s t
      · rw [if_pos hv, if_neg (by simpa using hu)]
      · rw [if_neg hv, if_neg (by simp)]
  · intro hwf hs u hc
    rw [wake_wakes_whole_cycle s hwf t v u h0 h1 hs, if_pos hc]

/-- (5b) **awake_set_order_independent**: a launch whose tasks are `_wake_tree(tree, value)` calls with negative
    values, on a well-formed state: the SET of awake trees afterwards is the same for every task order
    (the VALUES are not: `Props/C29Witness.lean`).  Closed form: `wake_launch_awake_iff`. -/
theorem awake_set_order_independent (s : List Int) (hwf : WF s) (tasks tasks' : List (Int × Int))
    (hp : tasks.Perm tasks') (hv : ∀ tv ∈ tasks, tv.2 < 0) :
    awakeSet (wakeLaunch tasks s) = awakeSet (wakeLaunch tasks' s) := by
  have hv' : ∀ tv ∈ tasks', tv.2 < 0 := fun tv h => hv tv (hp.mem_iff.mpr h)
  obtain ⟨hI, h⟩ := wakeLaunch_awake s hwf tasks hv s (Intact.refl s)
  obtain ⟨hI', h'⟩ := wakeLaunch_awake s hwf tasks' hv' s (Intact.refl s)
  apply awakeSet_eq_of _ _ (by rw [hI.1, hI'.1])
  intro u hu0 hu1
  rw [hI.1] at hu1
  rw [h u hu0 hu1, h' u hu0 hu1]
  constructor
  · rintro (a | ⟨tv, hm, b⟩)
    · exact Or.inl a
    · exact Or.inr ⟨tv, hp.mem_iff.mp hm, b⟩
  · rintro (a | ⟨tv, hm, b⟩)
    · exact Or.inl a
    · exact Or.inr ⟨tv, hp.mem_iff.mpr hm, b⟩

/-- (5b') the awake set after such a launch: the trees awake before, plus the cycles of the addressed sleeping trees -/
theorem wake_launch_awake_iff (s : List Int) (hwf : WF s) (tasks : List (Int × Int)) (hv : ∀ tv ∈ tasks, tv.2 < 0)
    (u : Int) (hu0 : 0 ≤ u) (hu1 : u < s.length) :
    rd (wakeLaunch tasks s) u < 0 ↔
      rd s u < 0 ∨ ∃ tv ∈ tasks, 0 ≤ tv.1 ∧ tv.1 < s.length ∧ rd s tv.1 ≥ 0 ∧ onCycle s.length (rd s) tv.1 u := by
  rw [(wakeLaunch_awake s hwf tasks hv s (Intact.refl s)).2 u hu0 hu1]
  constructor
  · rintro (a | ⟨tv, hm, b0, b1, b2, b3⟩)
    · exact Or.inl a
    · exact Or.inr ⟨tv, hm, b0, b1, b2, (onCycle_iff_Cyc ((WF_iff s).mp hwf) s.length rfl _ u b0 b1 b2).mpr b3⟩
  · rintro (a | ⟨tv, hm, b0, b1, b2, b3⟩)
    · exact Or.inl a
    · exact Or.inr ⟨tv, hm, b0, b1, b2, (onCycle_iff_Cyc ((WF_iff s).mp hwf) s.length rfl _ u b0 b1 b2).mp b3⟩

/-- (5c) the same for the collision launch, whose wake values are read from the CURRENT state -/
theorem collision_awake_set_order_independent (s : List Int) (hwf : WF s) (tasks tasks' : List (Option (Int × Int)))
    (hp : tasks.Perm tasks')
    (hsrc : ∀ t src, some (t, src) ∈ tasks → 0 ≤ src ∧ src < s.length ∧ rd s src < 0) :
    awakeSet (collisionLaunch tasks s) = awakeSet (collisionLaunch tasks' s) := by
  have hsrc' : ∀ t src, some (t, src) ∈ tasks' → 0 ≤ src ∧ src < s.length ∧ rd s src < 0 :=
    fun t src h => hsrc t src (hp.mem_iff.mpr h)
  obtain ⟨hI, h⟩ := collisionLaunch_awake s hwf tasks hsrc s (Intact.refl s)
  obtain ⟨hI', h'⟩ := collisionLaunch_awake s hwf tasks' hsrc' s (Intact.refl s)
  apply awakeSet_eq_of _ _ (by rw [hI.1, hI'.1])
  intro u hu0 hu1
  rw [hI.1] at hu1
  rw [h u hu0 hu1, h' u hu0 hu1]
  constructor
  · rintro (a | ⟨t, src, hm, b⟩)
    · exact Or.inl a
    · exact Or.inr ⟨t, src, hp.mem_iff.mp hm, b⟩
  · rintro (a | ⟨t, src, hm, b⟩)
    · exact Or.inl a
    · exact Or.inr ⟨t, src, hp.mem_iff.mpr hm, b⟩

/-- (5d) **wake_kernel_order_independent**: all wakers of `_wake_kernel` store the same value −11 and never
    address an awake tree, so the WHOLE state after the launch is independent of the task order. -/
theorem wake_kernel_order_independent (s : List Int) (hwf : WF s) (trigger : Int → Bool) (order order' : List Int)
    (hp : order.Perm order') : wakeKernelLaunch trigger order s = wakeKernelLaunch trigger order' s := by
  obtain ⟨hI, hval, h⟩ := wakeKernelLaunch_spec s hwf trigger order s (Intact.refl s) (fun _ _ _ => Or.inl rfl)
  obtain ⟨hI', hval', h'⟩ := wakeKernelLaunch_spec s hwf trigger order' s (Intact.refl s) (fun _ _ _ => Or.inl rfl)
  apply ext_rd _ _ (by rw [hI.1, hI'.1])
  intro k hk
  rw [hI.1] at hk
  have hk0 : (0 : Int) ≤ (k : Int) := by omega
  have hk1 : (k : Int) < s.length := by omega
  have hiff : rd (wakeKernelLaunch trigger order s) k < 0 ↔ rd (wakeKernelLaunch trigger order' s) k < 0 := by
    rw [h k hk0 hk1, h' k hk0 hk1]
    constructor
    · rintro (a | ⟨t, hm, b⟩)
      · exact Or.inl a
      · exact Or.inr ⟨t, hp.mem_iff.mp hm, b⟩
    · rintro (a | ⟨t, hm, b⟩)
      · exact Or.inl a
      · exact Or.inr ⟨t, hp.mem_iff.mpr hm, b⟩
  have hA : AWAKE_VAL < 0 := by decide
  rcases hval k hk0 hk1 with e | e <;> rcases hval' k hk0 hk1 with e' | e'
  · rw [e, e']
  · -- order' woke it, order did not
    have : rd (wakeKernelLaunch trigger order s) k < 0 := hiff.mpr (by rw [e'.1]; exact hA)
    rw [e] at this; omega
  · have : rd (wakeKernelLaunch trigger order' s) k < 0 := hiff.mp (by rw [e.1]; exact hA)
    rw [e'] at this; omega
  · rw [e.1, e'.1]

/-- (5e) a sleeping entry that points outside the array (corrupt state) is never woken: `_wake_tree` stores nothing.
    Every theorem of § 4 therefore carries `WF` or `InRange`. -/
theorem wake_tree_corrupt_no_wake (s : List Int) (t v : Int) (h : rd s t ≥ s.length) : wakeTree s t v = s :=
  wakeTree_corrupt s t v h

/-! ## 6. Sleeping trees are frozen (partial) -/

/-- (6a) `_update_sleep_bodies`: a body of a tree whose `tree_awake` flag is not 1 is marked ASLEEP (0) and is NOT
    appended to `body_awake_ind` -/
theorem update_sleep_bodies_asleep {K : Type} [Scalar K] (body_parentid body_rootid body_mocapid body_treeid : Int → Int)
    (tree_awake_in : Int → Int → Int) (flg : Int) (nbody_awake_out : Int → Int) (body_awake_out body_awake_ind_out : Int → Int → Int)
    (alloc0 w b : Int) (ht : body_treeid b ≥ 0) (ha : tree_awake_in w (body_treeid b) ≠ 1) :
    Gen.Sleep._update_sleep_bodies (K := K) body_parentid body_rootid body_mocapid body_treeid tree_awake_in flg nbody_awake_out
        body_awake_out body_awake_ind_out alloc0 w b
      = [(Write.mk "body_awake_out" [w, b] (WVal.i 0) WKind.set : Write K)] := by
  unfold Gen.Sleep._update_sleep_bodies
  have : ¬ body_treeid b < 0 := by omega
  simp [this, ha]

/-- (6b) `_update_sleep_dofs`: a dof whose body is not AWAKE (1) writes nothing — it is not in `dof_awake_ind`, not
    counted in `nv_awake`; a dof of an awake tree body takes the next slot -/
theorem update_sleep_dofs_refines {K : Type} [Scalar K] (body_treeid dof_bodyid : Int → Int) (body_awake_in : Int → Int → Int)
    (nv_awake_out : Int → Int) (dof_awake_ind_out : Int → Int → Int) (alloc0 w d : Int) :
    Gen.Sleep._update_sleep_dofs (K := K) body_treeid dof_bodyid body_awake_in nv_awake_out dof_awake_ind_out alloc0 w d
      = if body_treeid (dof_bodyid d) ≥ 0 ∧ body_awake_in w (dof_bodyid d) = 1 then
          [(Write.mk "nv_awake_out" [w] (WVal.i 1) WKind.alloc : Write K),
           (Write.mk "dof_awake_ind_out" [w, alloc0] (WVal.i d) WKind.set : Write K)]
        else [] := by
  unfold Gen.Sleep._update_sleep_dofs
  by_cases h1 : body_treeid (dof_bodyid d) ≥ 0 <;> by_cases h2 : body_awake_in w (dof_bodyid d) = 1 <;> simp [h1, h2]

/-- (6c) `_build_cycles` ZEROES `qvel` and `qacc` of every dof of every tree it puts to sleep (tree of an island
    with `island_can_sleep = 1`; tree without island whose countdown is −1) or finds asleep without island; and every
    store it makes into `qvel` / `qacc` is a zero store (so the cell holds 0 after the task, whatever the order of
    its stores). -/
theorem build_cycles_zeroes {K : Type} [Scalar K] (ntree : Int) (tree_dofadr tree_dofnum nisland_in : Int → Int)
    (tree_island_in island_can_sleep_in tree_asleep_out : Int → Int → Int) (qvel_out qacc_out : Int → Int → K) (w t : Int)
    (ht0 : 0 ≤ t) (ht1 : t < ntree)
    (hcase : (0 ≤ tree_island_in w t ∧ tree_island_in w t < nisland_in w ∧ island_can_sleep_in w (tree_island_in w t) = 1) ∨
      ((tree_island_in w t < 0 ∨ tree_island_in w t ≥ nisland_in w) ∧ (tree_asleep_out w t = -1 ∨ tree_asleep_out w t ≥ 0)))
    (d : Nat) (hd : (d : Int) < tree_dofnum t) :
    let ws := Gen.Sleep._build_cycles (K := K) ntree tree_dofadr tree_dofnum nisland_in tree_island_in island_can_sleep_in
      tree_asleep_out qvel_out qacc_out w
    qvelZero w (tree_dofadr t + d) ∈ ws ∧ qaccZero w (tree_dofadr t + d) ∈ ws ∧ ∀ x ∈ ws, BuildShape w x := by
  intro ws
  have hws : ws = _ := build_cycles_refines ntree tree_dofadr tree_dofnum nisland_in tree_island_in island_can_sleep_in
    tree_asleep_out qvel_out qacc_out w
  rw [hws]
  obtain ⟨a, b⟩ := zero_mem_buildCyclesWrites (K := K) w ntree.toNat (nisland_in w) tree_dofadr tree_dofnum (tree_island_in w)
    (island_can_sleep_in w) (tree_asleep_out w) t ht0 (by omega) hcase d hd
  exact ⟨a, b, shape_buildCyclesWrites _ _ _ _ _ _ _ _⟩

/-- (6d) `_next_velocity` uses NO awake mask: it integrates every dof, `qvel' = qvel + scale·qacc·dt`.  Over ℝ, a
    dof with `qvel = 0` and `qacc = 0` keeps velocity 0. -/
theorem next_velocity_frozen (opt_timestep : Int → ℝ) (qvel_in qacc_in : Int → Int → ℝ) (scale : ℝ) (qvel_out : Int → Int → ℝ)
    (sh w d : Int) (hv : qvel_in w d = 0) (ha : qacc_in w d = 0) :
    Gen.Forward._next_velocity opt_timestep qvel_in qacc_in scale qvel_out sh w d
      = [(Write.mk "qvel_out" [w, d] (WVal.f (0 : ℝ)) WKind.set : Write ℝ)] := by
  unfold Gen.Forward._next_velocity
  simp [hv, ha]

/-- (6e) `_next_position` uses NO awake mask either.  Over ℝ, a hinge / slide joint (type ∉ {FREE = 0, BALL = 1})
    whose dof has velocity 0 keeps its position. -/
theorem next_position_frozen (opt_timestep : Int → ℝ) (jnt_type jnt_qposadr jnt_dofadr : Int → Int)
    (qpos_in qvel_in : Int → Int → ℝ) (scale : ℝ) (qpos_out : Int → Int → ℝ) (sh w j : Int)
    (hty : jnt_type j ≠ 0 ∧ jnt_type j ≠ 1) (hv : qvel_in w (jnt_dofadr j) = 0) :
    Gen.Forward._next_position opt_timestep jnt_type jnt_qposadr jnt_dofadr qpos_in qvel_in scale qpos_out sh w j
      = [(Write.mk "qpos_out" [w, jnt_qposadr j] (WVal.f (qpos_in w (jnt_qposadr j))) WKind.set : Write ℝ)] := by
  unfold Gen.Forward._next_position
  simp [hty.1, hty.2, hv]

/-- (6f) `_qfrc_smooth` with sleeping enabled: the smooth force of a dof of a tree whose `tree_awake` flag is 0 is
    set to exactly 0 -/
theorem qfrc_smooth_asleep {K : Type} [Scalar K] (body_treeid dof_bodyid : Int → Int) (qfrc_applied_in : Int → Int → K)
    (tree_awake_in : Int → Int → Int) (qfrc_bias_in qfrc_passive_in qfrc_actuator_in qfrc_smooth_out : Int → Int → K)
    (w d : Int) (ht : body_treeid (dof_bodyid d) ≥ 0) (ha : tree_awake_in w (body_treeid (dof_bodyid d)) = 0) :
    Gen.Forward._qfrc_smooth__kernel (K := K) body_treeid dof_bodyid qfrc_applied_in tree_awake_in qfrc_bias_in qfrc_passive_in
        qfrc_actuator_in qfrc_smooth_out true w d
      = [(Write.mk "qfrc_smooth_out" [w, d] (WVal.f (Scalar.lit 0 0 : K)) WKind.set : Write K)] := by
  unfold Gen.Forward._qfrc_smooth__kernel
  simp [ht, ha]

/-- (6) **sleeping_tree_frozen_partial**.  What is proved about "a sleeping tree's position and velocity do not
    change":
    * falling asleep: `_build_cycles` stores 0 into `qvel` and `qacc` of all dofs of the tree (6c);
    * masks: `tree_awake = (tree_asleep < 0)` (1f); bodies of a flag-0 tree are marked ASLEEP and dropped from
      `body_awake_ind` (6a); their dofs are dropped from `dof_awake_ind` / `nv_awake` (6b); `_qfrc_smooth` of such a dof
      is exactly 0 (6f);
    * integration: `_next_velocity` / `_next_position` (forward.py `_advance`) use NO mask; with `qvel = 0` and
      `qacc = 0` the velocity stays 0 and a hinge / slide coordinate stays put (6d, 6e, over ℝ).
    Stated here as one conjunction for one dof `d` of a hinge/slide joint `j` of a sleeping tree.

    FULL statement (not proved): for every step with sleeping enabled and every tree `t` with `tree_asleep[t] ≥ 0` before
    and after the step, `qpos` and `qvel` of all its dofs are unchanged.  MISSING:
    (i) `qacc = 0` on later steps is produced elsewhere — the compact solve scatters exactly 0 into `qacc` of dofs
        with `dof_cdof < 0` (`Props.C38.gather_scatter_id`), and `dof_cdof < 0` for dofs of non-awake trees
        (`Props.C38.compact_final_maps`); the chaining `tree_asleep ≥ 0 ⇒ tree_awake = 0 ⇒ dof_cdof < 0 ⇒ qacc = 0`
        across the launches of `forward()` / `_advance` (host order, parameter ↔ field names) is not modelled here;
    (ii) FREE / BALL joints: `_next_position` calls `quat_integrate`, which re-normalises the quaternion — identity only
        for unit quaternions, and only over ℝ;
    (iii) float semantics (`0·dt`, `x + 0` are exact in IEEE arithmetic for finite values, but this is not proved), and
        the integrators other than Euler (`implicit`, RK4 re-use `_advance` with other `qacc`/`qvel` arguments);
    (iv) that nothing else writes `qpos` / `qvel` of a sleeping tree during a step. -/
theorem sleeping_tree_frozen_partial (opt_timestep : Int → ℝ) (jnt_type jnt_qposadr jnt_dofadr : Int → Int)
    (qpos qvel qacc : Int → Int → ℝ) (qpos_out qvel_out : Int → Int → ℝ) (sh w j : Int)
    (body_treeid dof_bodyid : Int → Int) (body_awake_in : Int → Int → Int) (nv_awake_out : Int → Int)
    (dof_awake_ind_out : Int → Int → Int) (alloc0 : Int)
    (hty : jnt_type j ≠ 0 ∧ jnt_type j ≠ 1)
    (hasleep : body_awake_in w (dof_bodyid (jnt_dofadr j)) ≠ 1)
    (hv : qvel w (jnt_dofadr j) = 0) (ha : qacc w (jnt_dofadr j) = 0) :
    -- the dof is not in the awake list
    Gen.Sleep._update_sleep_dofs (K := ℝ) body_treeid dof_bodyid body_awake_in nv_awake_out dof_awake_ind_out alloc0 w (jnt_dofadr j) = [] ∧
    -- its velocity stays 0
    Gen.Forward._next_velocity opt_timestep qvel qacc 1 qvel_out sh w (jnt_dofadr j)
      = [(Write.mk "qvel_out" [w, jnt_dofadr j] (WVal.f (0 : ℝ)) WKind.set : Write ℝ)] ∧
    -- its position stays put
    Gen.Forward._next_position opt_timestep jnt_type jnt_qposadr jnt_dofadr qpos qvel 1 qpos_out sh w j
      = [(Write.mk "qpos_out" [w, jnt_qposadr j] (WVal.f (qpos w (jnt_qposadr j))) WKind.set : Write ℝ)] := by
  refine ⟨?_, next_velocity_frozen _ _ _ _ _ _ _ _ hv ha, next_position_frozen _ _ _ _ _ _ _ _ _ _ _ hty hv⟩
  rw [update_sleep_dofs_refines, if_neg (fun h => hasleep h.2)]

/-! ## 7. Examples (non-vacuity, concrete states) -/

/-- a well-formed state: trees 0,1,2 one cycle, tree 3 awake (countdown −4), tree 4 a self-cycle -/
example : WF [1, 2, 0, -4, 4] ∧ InRange [1, 2, 0, -4, 4] := by decide

/-- … not well-formed: tree 1 points at 0, but 0 → 2 → 0 never returns to 1 -/
example : ¬ WF [2, 0, 0] := by decide

/-- `_wake_tree(0, −11)` on it wakes exactly the cycle {0,1,2} -/
example : wakeTree [1, 2, 0, -4, 4] 0 (-11) = [-11, -11, -11, -4, 4] := by decide

/-- `_wake_tree` on the AWAKE tree 3: lowered to −7, but not raised to −2 -/
example : wakeTree [1, 2, 0, -4, 4] 3 (-7) = [1, 2, 0, -7, 4] ∧ wakeTree [1, 2, 0, -4, 4] 3 (-2) = [1, 2, 0, -4, 4] := by decide

/-- the GENERATED `_wake_tree` on that state: its write list and return value -/
example : wproj (Gen.Sleep._wake_tree (K := Float) 5 7 1 (-11) (asArr [1, 2, 0, -4, 4])).2
      = [("tree_asleep_out", [7, 1], -11, WKind.set), ("tree_asleep_out", [7, 2], -11, WKind.set),
         ("tree_asleep_out", [7, 0], -11, WKind.set)]
    ∧ (Gen.Sleep._wake_tree (K := Float) 5 7 1 (-11) (asArr [1, 2, 0, -4, 4])).1 = 3 := by decide

/-- the walk is defined for every wake value: with the (never used) value 1 on `[1, 0]` it stores 1 into cells 0 and 1
    and stops when it is back at tree 0 -/
example : wakeCells 2 (rd [1, 0]) 0 1 = [0, 1] := by decide

/-- hypotheses of `awake_set_order_independent` / `wake_kernel_order_independent` are satisfiable, and the `_wake_kernel`
    launch in two orders gives the same state -/
example : wakeKernelLaunch (fun t => t == 1 || t == 3) [0, 1, 2, 3, 4] [1, 2, 0, -4, 4] = [-11, -11, -11, -4, 4]
    ∧ wakeKernelLaunch (fun t => t == 1 || t == 3) [4, 3, 2, 1, 0] [1, 2, 0, -4, 4] = [-11, -11, -11, -4, 4] := by decide

/-- one call of `sleep()`: 4 trees, islands [0, 0, −1, 1]; countdowns [−2, −1, −1, −3], all quiet.  After the sweep
    [−1, −1, −1, −2]: island 0 sleeps (cycle 0 ↔ 1), tree 2 (no island) becomes a self-cycle, island 1 must wait. -/
example : sleepStep (fun _ => true) (fun t => [0, 0, -1, 1].getD t.toNat (-1)) 2 [0, 1, 2, 3] [3, 2, 1, 0] [-2, -1, -1, -3]
      = [1, 0, 2, -2]
    ∧ WF (sleepStep (fun _ => true) (fun t => [0, 0, -1, 1].getD t.toNat (-1)) 2 [0, 1, 2, 3] [3, 2, 1, 0] [-2, -1, -1, -3]) := by
  decide

/-- the same, tree 1 not quiet: its countdown is reset to −11 and island 0 stays awake -/
example : sleepStep (fun t => t != 1) (fun t => [0, 0, -1, 1].getD t.toNat (-1)) 2 [0, 1, 2, 3] [3, 2, 1, 0] [-2, -1, -1, -3]
      = [-1, -11, 2, -2] := by decide

/-- the countdown: from −11, ten quiet sweeps reach −1, the eleventh stays there; a noisy sweep resets -/
example : (List.range 13).map (countdown (fun j => j != 11) AWAKE_VAL) = [-11, -10, -9, -8, -7, -6, -5, -4, -3, -2, -1, -1, -11] := by
  decide

/-- the GENERATED `_build_cycles` (world 0, 3 trees with 1 dof each, islands [0, −1, 0], `island_can_sleep[0] = 1`):
    exact write list -/
example : wproj (Gen.Sleep._build_cycles (K := Float) 3 (fun t => t) (fun _ => 1) (fun _ => 1)
      (fun _ t => [0, -1, 0].getD t.toNat (-1)) (fun _ _ => 1) (asArr [-1, -1, -1]) (fun _ _ => 0) (fun _ _ => 0) 0)
    = [("tree_asleep_out", [0, 0], 2, WKind.set), ("tree_asleep_out", [0, 2], 0, WKind.set),
       ("tree_asleep_out", [0, 1], 1, WKind.set)] := by decide

/-- the GENERATED sweep / check kernels on concrete inputs -/
example : wproj (Gen.Sleep._check_island_can_sleep (K := Float) 3 (fun _ => 2) (fun _ t => [-3, -1, 5].getD t.toNat 0)
      (fun _ t => [1, 1, 0].getD t.toNat (-1)) (fun _ _ => 1) 0 0)
    = [("island_can_sleep_out", [0, 1], 0, WKind.amin)] := by decide

/-- the hypotheses of `falls_asleep_only_if` are met by the `sleep()` example above for tree 0 (awake −2 before, asleep
    after), and its conclusion there: quiet, countdown −2 → −1, island-mate tree 1 at −1 -/
example :
    let s : List Int := [-2, -1, -1, -3]
    let island : Int → Int := fun t => [0, 0, -1, 1].getD t.toNat (-1)
    ([0, 1, 2, 3] : List Int).Nodup ∧ (∀ t : Int, 0 ≤ t → t < s.length → t ∈ ([0, 1, 2, 3] : List Int)) ∧
    (∀ t : Int, 0 ≤ t → t < s.length → t ∈ ([3, 2, 1, 0] : List Int)) ∧ (2 : Int) ≤ s.length ∧
    rd s 0 < 0 ∧ rd (sleepStep (fun _ => true) island 2 [0, 1, 2, 3] [3, 2, 1, 0] s) 0 ≥ 0 ∧
    rd (sweep (fun _ => true) [0, 1, 2, 3] s) 0 = -1 ∧ rd (sweep (fun _ => true) [0, 1, 2, 3] s) 1 = -1 := by
  refine ⟨by decide, ?_, ?_, by decide, by decide, by decide, by decide, by decide⟩
  · intro t h0 h1
    have h1' : t < 4 := h1
    have : t = 0 ∨ t = 1 ∨ t = 2 ∨ t = 3 := by omega
    rcases this with rfl | rfl | rfl | rfl <;> simp
  · intro t h0 h1
    have h1' : t < 4 := h1
    have : t = 0 ∨ t = 1 ∨ t = 2 ∨ t = 3 := by omega
    rcases this with rfl | rfl | rfl | rfl <;> simp

/-- the hypotheses of `countdown_needs_minawake` are met by the undisturbed countdown itself, which reaches −1 at
    sweep 10 when all sweeps are quiet -/
example : countdown (fun _ => true) AWAKE_VAL 0 ≤ AWAKE_VAL ∧
    (∀ j, countdown (fun _ => true) AWAKE_VAL (j + 1) ≤ sweepVal true (countdown (fun _ => true) AWAKE_VAL j)) ∧
    countdown (fun _ => true) AWAKE_VAL 10 = -1 :=
  ⟨le_refl _, fun _ => le_refl _, by decide⟩

end Mjw.Props.C29
