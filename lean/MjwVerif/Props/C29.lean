/-
  C29  "Sleeping follows MuJoCo's sleep semantics".

  Source: /repo/mujoco_warp/_src/sleep.py (translated: `Mjw.Gen.Sleep.*`, regenerated on every run) and its
  call sites in forward.py.  Model: `Model/Sleep.lean` — ONE world, `asleep : List Int` (entry < 0 = awake
  countdown −11 … −1, entry ≥ 0 = asleep, value = next tree of the sleep cycle); a launch = its tasks one
  after another in ANY order, each task one atomic step on the CURRENT state.

  § 1  kernel refinements (every scalar type `K`, every input): the write list of `_wake_tree`, `_wake_kernel`,
       `_wake_collision_kernel`, `_sweep_awake_trees`, `_check_island_can_sleep`, `_build_cycles`,
       `_update_sleep_trees`, `_zero_sleep_counters` IS the model's; applied to the state it is the model's
       transition; launches of the generated kernels are the model's launches.
  § 2  `wellformed_invariant`: WF (sleeping entries form cycles) is kept by every operation;
       `wake_wakes_whole_cycle`; `_build_cycles` makes each sleeping island one cycle.
  § 3  `falls_asleep_only_if` + `countdown_needs_minawake`.
  § 4  `wakes_if_*`.
  § 5  `wake_order`: which value is written; the final VALUES depend on the task order (witness file), the
       SET of awake trees does not (`awake_set_order_independent`, `collision_awake_set_order_independent`);
       `_wake_kernel` launches are fully order independent (`wake_kernel_order_independent`).
  § 6  `sleeping_tree_frozen_partial`.
  § 7  examples.

  Modelling assumptions (NOT theorems):
  (a) a launch = serial execution of its tasks in an arbitrary order; INSIDE a task reads and writes are one
      atomic step (the real `_wake_tree` walk is not atomic: two walks on one cycle can interleave).
  (b) one world; Int instead of int32.  A task's `tree_asleep_out` parameter is the current row for every
      world index (`asArr`); only stores to row `w` are applied (`applyAsleep`).
  (c) inside ONE task that calls `_wake_tree` several times (`_wake_equality_kernel`, `_wake_tendon_kernel`) the
      translation hands every call the PRE-TASK array; § 4 treats those kernels at task level only.

  Findings recorded here rather than hidden:
  * wake values are order dependent (§ 5, `Props/C29Witness.lean`).
  * `_wake_tree` on a sleeping tree whose entry is ≥ ntree (corrupt) wakes nothing (`wake_tree_corrupt_no_wake`).
  * `_build_cycles` phase 1 relinks EVERY tree of an island with `island_can_sleep == 1`, also trees that are
    already asleep (their old cycle is then broken) — `_check_island_can_sleep` only vetoes countdowns < −1.
    `build_cycles_establishes_wf` therefore needs the hypothesis that no sleeping tree is in such an island;
    witness `build_cycles_breaks_cycle_witness`.
  * `_wake_tendon_kernel` / TENDON equalities: `wakeval` starts at K_AWAKE_VAL = −11 and is only lowered, and
    countdowns are ≥ −11, so they always wake with −11 (not with the neighbour's countdown).
  * a tree woken by contact inherits the waker's countdown; if that is −1 it may fall asleep again at the next
    step without MINAWAKE quiet steps of its own (`countdown_needs_minawake` is relative to a reset to −11).
-/
import MjwVerif.Lemmas.Real
import MjwVerif.Lemmas.C29
import MjwVerif.Gen.Sleep
import MjwVerif.Gen.Forward

namespace Mjw.Props.C29
open Mjw Mjw.Sleep Mjw.Lemmas.C29

/-! ## 1. Kernel refinements -/

/-- (1a) **`_wake_tree`**, all inputs: it returns `wakeCount` and its write list stores `wakeval` into exactly
    the cells `wakeCells` (nothing if `treeid` is out of range; only `treeid` itself, and only if `wakeval` is
    smaller, if the tree is awake; else the walk along `tree_asleep`, reading its own writes, ≤ ntree+1 steps). -/
theorem wake_tree_refines {K : Type} [Scalar K] (ntree w t v : Int) (tree_asleep_out : Int → Int → Int) :
    Gen.Sleep._wake_tree (K := K) ntree w t v tree_asleep_out
      = (wakeCount ntree (tree_asleep_out w) t v, wakeTreeWrites w ntree (tree_asleep_out w) t v) :=
  wake_tree_eq ntree w t v tree_asleep_out

/-- (1a') on the list state: applying the generated write list is the model transition `wakeTree` -/
theorem wake_tree_transition {K : Type} [Scalar K] (w : Int) (s : List Int) (t v : Int) :
    applyAsleep w s (Gen.Sleep._wake_tree (K := K) s.length w t v (asArr s)).2 = wakeTree s t v := by
  rw [wake_tree_refines]; exact applyAsleep_wakeTreeWrites w s t v

/-- (1a'') all stores of `_wake_tree` go to row `worldid` of `tree_asleep_out`, cells inside `[0, ntree)` -/
theorem wake_tree_writes_row {K : Type} [Scalar K] (ntree w t v : Int) (arr : Int → Int → Int) :
    ∀ x ∈ (Gen.Sleep._wake_tree (K := K) ntree w t v arr).2,
      ∃ c, 0 ≤ c ∧ c < ntree ∧ x = setAsleep w c v := by
  rw [wake_tree_refines]
  intro x hx
  obtain ⟨c, hc, e⟩ := List.mem_map.mp hx
  exact ⟨c, (wakeCells_inrange _ _ _ _ c hc).1, (wakeCells_inrange _ _ _ _ c hc).2, e.symm⟩

/-- (1b) **`_wake_kernel`**, thread `(w, t)`: if `tree_asleep[w,t] ≥ 0` and (`tree_awake[w,t] == 1` or
    `_tree_can_sleep(…, tolerance 0)` is false) it performs `_wake_tree(t, K_AWAKE_VAL = −11)`; else nothing. -/
theorem wake_kernel_refines {K : Type} [Scalar K] (nbody ntree : Int) (body_treeid : Int → Int) (dof_length : Int → K)
    (tree_dofadr tree_dofnum tree_sleep_policy : Int → Int) (qvel_in qfrc_applied_in : Int → Int → K)
    (xfrc_applied_in : Int → Int → V6 K) (tree_awake_in tree_asleep_out : Int → Int → Int) (w t : Int) :
    Gen.Sleep._wake_kernel (K := K) nbody ntree body_treeid dof_length tree_dofadr tree_dofnum tree_sleep_policy qvel_in
        qfrc_applied_in xfrc_applied_in tree_awake_in tree_asleep_out w t
      = wakeKernelWrites w ntree (tree_asleep_out w)
          (decide (tree_awake_in w t = 1) || !(Gen.Sleep._tree_can_sleep (K := K) nbody body_treeid dof_length tree_dofadr
            tree_dofnum tree_sleep_policy qvel_in qfrc_applied_in xfrc_applied_in w t (Scalar.lit 0 0))) t := by
  unfold Gen.Sleep._wake_kernel wakeKernelWrites
  simp only [wake_tree_refines, renameAll_self]
  by_cases h : tree_asleep_out w t ≥ 0
  · by_cases hc : (decide (tree_awake_in w t = 1) || !(Gen.Sleep._tree_can_sleep (K := K) nbody body_treeid dof_length
        tree_dofadr tree_dofnum tree_sleep_policy qvel_in qfrc_applied_in xfrc_applied_in w t (Scalar.lit 0 0))) = true
    · simp only [h, hc, decide_true, if_true, and_self]
      simp [AWAKE_VAL, MINAWAKE]
    · simp [h, hc]
  · simp [h]

/-- (1c) **`_sweep_awake_trees`**, thread `(w, t)`: asleep → nothing; can sleep → countdown + 1 unless already −1;
    cannot sleep (`_tree_can_sleep` false: applied force, speed ≥ tolerance, policy NEVER) → reset to −11. -/
theorem sweep_refines {K : Type} [Scalar K] (nbody : Int) (body_treeid : Int → Int) (dof_length : Int → K)
    (tree_dofadr tree_dofnum tree_sleep_policy : Int → Int) (qvel_in qfrc_applied_in : Int → Int → K)
    (xfrc_applied_in : Int → Int → V6 K) (opt_sleep_tolerance : Int → K) (tree_asleep_out : Int → Int → Int)
    (shape0 w t : Int) :
    Gen.Sleep._sweep_awake_trees (K := K) nbody body_treeid dof_length tree_dofadr tree_dofnum tree_sleep_policy qvel_in
        qfrc_applied_in xfrc_applied_in opt_sleep_tolerance tree_asleep_out shape0 w t
      = sweepWrites w t (Gen.Sleep._tree_can_sleep (K := K) nbody body_treeid dof_length tree_dofadr tree_dofnum
          tree_sleep_policy qvel_in qfrc_applied_in xfrc_applied_in w t (opt_sleep_tolerance (Int.tmod w shape0)))
          (tree_asleep_out w t) := by
  unfold Gen.Sleep._sweep_awake_trees sweepWrites
  have hl : Write.lookupI ([] : List (Write K)) "tree_asleep_out" [w, t] (tree_asleep_out w t) = tree_asleep_out w t := rfl
  simp only [hl]
  by_cases h : tree_asleep_out w t ≥ 0
  · simp [h]
  · by_cases hc : Gen.Sleep._tree_can_sleep (K := K) nbody body_treeid dof_length tree_dofadr tree_dofnum
        tree_sleep_policy qvel_in qfrc_applied_in xfrc_applied_in w t (opt_sleep_tolerance (Int.tmod w shape0)) = true
    · by_cases h1 : tree_asleep_out w t < -1 <;> simp [h, hc, h1, setAsleep]
    · simp [h, hc, setAsleep, AWAKE_VAL, MINAWAKE]

/-- (1d) **`_check_island_can_sleep`**, thread `(w, t)`: `atomic_min(island_can_sleep[w, island], 0)` iff the
    tree has a valid island and a countdown < −1.  (A tree that is already asleep does not veto.) -/
theorem check_refines {K : Type} [Scalar K] (ntree : Int) (nisland_in : Int → Int)
    (tree_asleep_in tree_island_in island_can_sleep_out : Int → Int → Int) (w t : Int) :
    Gen.Sleep._check_island_can_sleep (K := K) ntree nisland_in tree_asleep_in tree_island_in island_can_sleep_out w t
      = checkWrites w (nisland_in w) (tree_island_in w t) (tree_asleep_in w t) := by
  unfold Gen.Sleep._check_island_can_sleep checkWrites
  by_cases h1 : tree_island_in w t ≥ 0 <;> by_cases h2 : tree_island_in w t < nisland_in w <;>
    by_cases h3 : tree_asleep_in w t < -1 <;> simp [h1, h2, h3]

/-- (1e) **`_build_cycles`**, thread `w`, all inputs: its exact write list.  Phase 1, for every island
    `i < nisland[w]` with `island_can_sleep[w,i] == 1`: its trees `m₀ < m₁ < … < m_k` get
    `tree_asleep[m_j] := m_{j+1}`, `tree_asleep[m_k] := m₀`, and `qvel`, `qacc` of all their dofs are zeroed.
    Phase 2, for every tree WITHOUT valid island: if its countdown is −1 it becomes a self-cycle, and if it is
    (now) asleep its `qvel`, `qacc` are zeroed.  The loop reads its own writes; they never hit. -/
theorem build_cycles_refines {K : Type} [Scalar K] (ntree : Int) (tree_dofadr tree_dofnum nisland_in : Int → Int)
    (tree_island_in island_can_sleep_in tree_asleep_out : Int → Int → Int) (qvel_out qacc_out : Int → Int → K) (w : Int) :
    Gen.Sleep._build_cycles (K := K) ntree tree_dofadr tree_dofnum nisland_in tree_island_in island_can_sleep_in
        tree_asleep_out qvel_out qacc_out w
      = buildCyclesWrites w ntree.toNat (nisland_in w) tree_dofadr tree_dofnum (tree_island_in w) (island_can_sleep_in w)
          (tree_asleep_out w) :=
  build_cycles_eq ntree tree_dofadr tree_dofnum nisland_in tree_island_in island_can_sleep_in tree_asleep_out qvel_out qacc_out w

/-- (1e') on the list state: applying the generated write list is the model transition `buildCycles` -/
theorem build_cycles_transition {K : Type} [Scalar K] (w : Int) (s : List Int) (tree_dofadr tree_dofnum nisland_in : Int → Int)
    (tree_island_in island_can_sleep_in : Int → Int → Int) (qvel_out qacc_out : Int → Int → K) :
    applyAsleep w s (Gen.Sleep._build_cycles (K := K) s.length tree_dofadr tree_dofnum nisland_in tree_island_in
        island_can_sleep_in (asArr s) qvel_out qacc_out w)
      = buildCycles (tree_island_in w) (nisland_in w) (island_can_sleep_in w) s := by
  rw [build_cycles_refines]
  exact applyAsleep_buildCyclesWrites w (nisland_in w) tree_dofadr tree_dofnum (tree_island_in w) (island_can_sleep_in w) s

/-- (1f) **`_update_sleep_trees`**: `tree_awake[w,t] := (tree_asleep[w,t] < 0)`, and `ntree_awake[w] += 1` if so -/
theorem update_sleep_trees_refines {K : Type} [Scalar K] (tree_asleep_in : Int → Int → Int) (ntree_awake_out : Int → Int)
    (tree_awake_out : Int → Int → Int) (w t : Int) :
    Gen.Sleep._update_sleep_trees (K := K) tree_asleep_in ntree_awake_out tree_awake_out w t
      = updTreesWrites w t (tree_asleep_in w t) := by
  unfold Gen.Sleep._update_sleep_trees updTreesWrites
  by_cases h : tree_asleep_in w t < 0 <;> simp [h]

/-- (1g) **`_zero_sleep_counters`** -/
theorem zero_sleep_counters_refines {K : Type} [Scalar K] (a b c : Int → Int) (w : Int) :
    Gen.Sleep._zero_sleep_counters (K := K) a b c w = zeroCountersWrites w := rfl

/-- (1h) **`_wake_collision_kernel`**, thread `conid < nacon`, geoms ≥ 0: with `tree1/2` the trees of the two
    geoms and `awake1/2 = tree_awake[w, tree1/2]` (w = the contact's world): nothing if a tree is < 0 (static),
    both flags are 1, or both are 0; else `_wake_tree(the tree whose flag is not 1, CURRENT tree_asleep of the
    other tree)`. -/
theorem wake_collision_refines {K : Type} [Scalar K] (ntree : Int) (body_treeid geom_bodyid : Int → Int)
    (tree_awake_in : Int → Int → Int) (contact_geom_in : Int → I2) (contact_worldid_in nacon_in : Int → Int)
    (tree_asleep_out : Int → Int → Int) (conid : Int)
    (hact : conid < nacon_in 0) (hg : 0 ≤ (contact_geom_in conid).c0 ∧ 0 ≤ (contact_geom_in conid).c1) :
    let w := contact_worldid_in conid
    let tree1 := body_treeid (geom_bodyid (contact_geom_in conid).c0)
    let tree2 := body_treeid (geom_bodyid (contact_geom_in conid).c1)
    Gen.Sleep._wake_collision_kernel (K := K) ntree body_treeid geom_bodyid tree_awake_in contact_geom_in contact_worldid_in
        nacon_in tree_asleep_out conid
      = match collisionTarget tree1 tree2 (tree_awake_in w tree1) (tree_awake_in w tree2) with
        | none => []
        | some (t, src) => wakeTreeWrites w ntree (tree_asleep_out w) t (tree_asleep_out w src) := by
  unfold Gen.Sleep._wake_collision_kernel collisionTarget
  have h0 : ¬ conid ≥ nacon_in 0 := by omega
  have hg1 : ¬ (contact_geom_in conid).c0 < 0 := by omega
  have hg2 : ¬ (contact_geom_in conid).c1 < 0 := by omega
  simp only [wake_tree_refines, renameAll_self, h0, hg1, hg2, decide_false, Bool.or_self, Bool.false_eq_true, if_false,
    List.nil_append]
  generalize contact_worldid_in conid = w
  generalize body_treeid (geom_bodyid (contact_geom_in conid).c0) = tree1
  generalize body_treeid (geom_bodyid (contact_geom_in conid).c1) = tree2
  by_cases ht : tree1 < 0 ∨ tree2 < 0
  · have : (decide (tree1 < 0) || decide (tree2 < 0)) = true := by simpa using ht
    simp only [this, if_true, if_pos ht]
  · have : (decide (tree1 < 0) || decide (tree2 < 0)) = false := by simpa using ht
    simp only [this, Bool.false_eq_true, if_false, if_neg ht]
    by_cases h11 : tree_awake_in w tree1 = 1 ∧ tree_awake_in w tree2 = 1
    · simp [h11]
    · have : (decide (tree_awake_in w tree1 = 1) && decide (tree_awake_in w tree2 = 1)) = false := by simpa using h11
      simp only [this, Bool.false_eq_true, if_false, if_neg h11]
      by_cases h00 : tree_awake_in w tree1 = 0 ∧ tree_awake_in w tree2 = 0
      · simp [h00]
      · have : (decide (tree_awake_in w tree1 = 0) && decide (tree_awake_in w tree2 = 0)) = false := by simpa using h00
        simp only [this, Bool.false_eq_true, if_false, if_neg h00]
        by_cases h1 : tree_awake_in w tree1 = 1
        · simp only [h1, decide_true, if_true]
        · simp only [h1, decide_false, Bool.false_eq_true, if_false]

/-- (1h') threads beyond `nacon`, or with a negative geom id, write nothing -/
theorem wake_collision_inactive {K : Type} [Scalar K] (ntree : Int) (body_treeid geom_bodyid : Int → Int)
    (tree_awake_in : Int → Int → Int) (contact_geom_in : Int → I2) (contact_worldid_in nacon_in : Int → Int)
    (tree_asleep_out : Int → Int → Int) (conid : Int)
    (h : conid ≥ nacon_in 0 ∨ (contact_geom_in conid).c0 < 0 ∨ (contact_geom_in conid).c1 < 0) :
    Gen.Sleep._wake_collision_kernel (K := K) ntree body_treeid geom_bodyid tree_awake_in contact_geom_in contact_worldid_in
        nacon_in tree_asleep_out conid = [] := by
  unfold Gen.Sleep._wake_collision_kernel
  by_cases h0 : conid ≥ nacon_in 0
  · simp [h0]
  · have hg : (contact_geom_in conid).c0 < 0 ∨ (contact_geom_in conid).c1 < 0 := by tauto
    have : (decide ((contact_geom_in conid).c0 < 0) || decide ((contact_geom_in conid).c1 < 0)) = true := by simpa using hg
    simp [h0, this]

/-! ### launches of the generated kernels are the model's launches -/

/-- (1i) the `_wake_kernel` launch on the list state, tasks in ANY order -/
theorem wake_kernel_launch_refines {K : Type} [Scalar K] (nbody : Int) (body_treeid : Int → Int) (dof_length : Int → K)
    (tree_dofadr tree_dofnum tree_sleep_policy : Int → Int) (qvel_in qfrc_applied_in : Int → Int → K)
    (xfrc_applied_in : Int → Int → V6 K) (tree_awake_in : Int → Int → Int) (w : Int) (order : List Int) (s : List Int) :
    launchK w (fun arr (t : Int) => Gen.Sleep._wake_kernel (K := K) nbody s.length body_treeid dof_length tree_dofadr
        tree_dofnum tree_sleep_policy qvel_in qfrc_applied_in xfrc_applied_in tree_awake_in arr w t) order s
      = wakeKernelLaunch (fun t => decide (tree_awake_in w t = 1) || !(Gen.Sleep._tree_can_sleep (K := K) nbody body_treeid
          dof_length tree_dofadr tree_dofnum tree_sleep_policy qvel_in qfrc_applied_in xfrc_applied_in w t (Scalar.lit 0 0)))
          order s := by
  -- the length of the state never changes, so `ntree = s.length` stays right
  apply launchK_eq_inv w _ _ (fun s' => s'.length = s.length) _ _ order s rfl
  · intro s' a hl
    rw [wake_kernel_refines, ← hl]
    exact applyAsleep_wakeKernelWrites w s' (fun t => decide (tree_awake_in w t = 1) || !(Gen.Sleep._tree_can_sleep (K := K)
      nbody body_treeid dof_length tree_dofadr tree_dofnum tree_sleep_policy qvel_in qfrc_applied_in xfrc_applied_in w t
      (Scalar.lit 0 0))) a
  · intro s' a hl
    rw [length_wakeKernelTask]; exact hl

/-- (1j) the `_sweep_awake_trees` launch on the list state, tasks in ANY order -/
theorem sweep_launch_refines {K : Type} [Scalar K] (nbody : Int) (body_treeid : Int → Int) (dof_length : Int → K)
    (tree_dofadr tree_dofnum tree_sleep_policy : Int → Int) (qvel_in qfrc_applied_in : Int → Int → K)
    (xfrc_applied_in : Int → Int → V6 K) (opt_sleep_tolerance : Int → K) (shape0 w : Int) (order : List Int) (s : List Int) :
    launchK w (fun arr (t : Int) => Gen.Sleep._sweep_awake_trees (K := K) nbody body_treeid dof_length tree_dofadr
        tree_dofnum tree_sleep_policy qvel_in qfrc_applied_in xfrc_applied_in opt_sleep_tolerance arr shape0 w t) order s
      = sweep (fun t => Gen.Sleep._tree_can_sleep (K := K) nbody body_treeid dof_length tree_dofadr tree_dofnum
          tree_sleep_policy qvel_in qfrc_applied_in xfrc_applied_in w t (opt_sleep_tolerance (Int.tmod w shape0))) order s := by
  apply launchK_eq
  intro s' t
  rw [sweep_refines]
  exact applyAsleep_sweepWrites w s' (fun t => Gen.Sleep._tree_can_sleep (K := K) nbody body_treeid dof_length tree_dofadr
    tree_dofnum tree_sleep_policy qvel_in qfrc_applied_in xfrc_applied_in w t (opt_sleep_tolerance (Int.tmod w shape0))) t

end Mjw.Props.C29
