/-
  C23  Rotations stay valid.
  Theorems are about `Mjw.Gen.Math.*`, regenerated from /repo/mujoco_warp/_src/math.py on every run,
  instantiated at K = ℝ.  No hypothesis on the input quaternion is needed: Warp's `normalize` maps the
  zero quaternion to the unit quaternion (0,0,0,1) (warp/native/quat.h), which the model transcribes.
-/
import MjwVerif.Lemmas.Real
import MjwVerif.Gen.Math

namespace Mjw.Props.C23
open Mjw Mjw.Gen.Math

/-- squared norm of a quaternion, written out -/
def nrm2 (q : Q ℝ) : ℝ := q.c0 * q.c0 + q.c1 * q.c1 + q.c2 * q.c2 + q.c3 * q.c3

theorem lengthSq_eq (q : Q ℝ) : Q.lengthSq q = nrm2 q := by
  simp [Q.lengthSq, Q.dot, nrm2]

/-- (1) Warp's quaternion `normalize` always returns a unit quaternion — also at q = 0. -/
theorem normalize_unit (q : Q ℝ) : nrm2 (Q.normalize q) = 1 := by
  unfold Q.normalize
  simp only [Q.length, Q.dot, nrm2, hadd, hmul, hdiv, slit, slt, ssqrt]
  split
  · rename_i h
    have h0 : (0:ℝ) < Real.sqrt (q.c0 * q.c0 + q.c1 * q.c1 + q.c2 * q.c2 + q.c3 * q.c3) := by
      simpa using h
    have hpos : 0 < q.c0 * q.c0 + q.c1 * q.c1 + q.c2 * q.c2 + q.c3 * q.c3 := Real.sqrt_pos.mp h0
    have hs := Real.mul_self_sqrt hpos.le
    set s := Real.sqrt (q.c0 * q.c0 + q.c1 * q.c1 + q.c2 * q.c2 + q.c3 * q.c3) with hsdef
    have hne : s ≠ 0 := ne_of_gt h0
    simp only [Int.cast_one, zpow_zero, mul_one]
    field_simp
    nlinarith [hs]
  · simp

/-- (2) the quaternion product is norm-multiplicative (all u, v). -/
theorem nrm2_mul_quat (u v : Q ℝ) : nrm2 (mul_quat u v) = nrm2 u * nrm2 v := by
  simp only [mul_quat, nrm2, hadd, hsub, hmul]
  ring

/-- (3) axis-angle with a unit axis gives a unit quaternion -/
theorem axis_angle_unit (a : V3 ℝ) (θ : ℝ) (ha : a.c0 * a.c0 + a.c1 * a.c1 + a.c2 * a.c2 = 1) :
    nrm2 (axis_angle_to_quat a θ) = 1 := by
  simp only [axis_angle_to_quat, nrm2, V3.muls, hmul, ssin, scos, slit]
  have := Real.sin_sq_add_cos_sq (θ * ((5:ℤ) * (10:ℝ) ^ (-1:ℤ)))
  nlinarith [this, ha]

/-- (3') axis-angle with the zero axis and zero angle is the identity quaternion (the v = 0 case of
    `quat_integrate`: `normalize 0 = 0`, `angle = dt * 0`). -/
theorem axis_angle_zero : axis_angle_to_quat (⟨0, 0, 0⟩ : V3 ℝ) 0 = ⟨1, 0, 0, 0⟩ := by
  simp [axis_angle_to_quat, V3.muls]

/-- (4) **quat_integrate returns a unit quaternion for every q (even 0, even unnormalised), every
    angular velocity and every dt.** -/
theorem quat_integrate_unit (q : Q ℝ) (v : V3 ℝ) (dt : ℝ) : nrm2 (quat_integrate q v dt) = 1 := by
  unfold quat_integrate
  exact normalize_unit _

/-- Warp's vec3 normalize gives a unit vector or zero -/
theorem v3_normalize (v : V3 ℝ) :
    (let n := V3.normalize v; n.c0 * n.c0 + n.c1 * n.c1 + n.c2 * n.c2 = 1 ∨ (n = ⟨0, 0, 0⟩ ∧ V3.length v = 0)) := by
  unfold V3.normalize
  simp only [V3.length, V3.dot, hadd, hmul, hdiv, slit, slt, ssqrt]
  split
  · left
    rename_i h
    have h0 : (0:ℝ) < Real.sqrt (v.c0 * v.c0 + v.c1 * v.c1 + v.c2 * v.c2) := by simpa using h
    have hpos : 0 < v.c0 * v.c0 + v.c1 * v.c1 + v.c2 * v.c2 := Real.sqrt_pos.mp h0
    have hs := Real.mul_self_sqrt hpos.le
    set s := Real.sqrt (v.c0 * v.c0 + v.c1 * v.c1 + v.c2 * v.c2)
    have hne : s ≠ 0 := ne_of_gt h0
    field_simp
    nlinarith [hs]
  · right
    rename_i h
    refine ⟨by simp [V3.zero, V3.fill], ?_⟩
    have h0 : ¬ (0:ℝ) < Real.sqrt (v.c0 * v.c0 + v.c1 * v.c1 + v.c2 * v.c2) := by simpa using h
    exact le_antisymm (not_lt.mp h0) (Real.sqrt_nonneg _)

/-- (4') stronger: the result is *the* product `normalize q ⊗ axis_angle(normalize v, dt·|v|)`, i.e. the
    final normalisation only removes round-off: over ℝ it is the identity map on that product. -/
theorem quat_integrate_eq (q : Q ℝ) (v : V3 ℝ) (dt : ℝ) :
    quat_integrate q v dt =
      mul_quat (Q.normalize q) (axis_angle_to_quat (V3.normalize v) (dt * V3.length v)) := by
  have hq := normalize_unit q
  have hr : nrm2 (axis_angle_to_quat (V3.normalize v) (dt * V3.length v)) = 1 := by
    rcases v3_normalize v with h | h
    · exact axis_angle_unit _ _ h
    · obtain ⟨hv, hl⟩ := h
      have hv' : V3.normalize v = ⟨0, 0, 0⟩ := hv
      rw [hv', hl]
      simp [axis_angle_to_quat, V3.muls, nrm2]
  have hp : nrm2 (mul_quat (Q.normalize q) (axis_angle_to_quat (V3.normalize v) (dt * V3.length v))) = 1 := by
    rw [nrm2_mul_quat, hq, hr]; ring
  unfold quat_integrate
  simp only [hmul]
  set p := mul_quat (Q.normalize q) (axis_angle_to_quat (V3.normalize v) (dt * V3.length v)) with hpdef
  -- normalize of a unit quaternion is itself
  have hl : Q.length p = 1 := by
    simp only [Q.length, ssqrt]
    have : Q.dot p p = 1 := by
      have := lengthSq_eq p; simp only [Q.lengthSq] at this; rw [this]; exact hp
    rw [this]; exact Real.sqrt_one
  unfold Q.normalize
  simp only [hl]
  simp
  
/-- (5) the rotation matrix of a unit quaternion is orthogonal with determinant 1 -/
theorem quat_to_mat_orthogonal (q : Q ℝ) (h : nrm2 q = 1) :
    M33.mul (M33.transpose (quat_to_mat q)) (quat_to_mat q) = M33.identity ∧ M33.det (quat_to_mat q) = 1 := by
  simp only [nrm2] at h
  have h2 : (q.c0 * q.c0 + q.c1 * q.c1 + q.c2 * q.c2 + q.c3 * q.c3) ^ 2 = 1 := by rw [h]; ring
  have h3 : (q.c0 * q.c0 + q.c1 * q.c1 + q.c2 * q.c2 + q.c3 * q.c3) ^ 3 = 1 := by rw [h]; ring
  constructor
  · apply M33.ext' <;>
      simp only [quat_to_mat, M33.mul, M33.transpose, M33.identity, hadd, hsub, hmul, slit] <;>
      norm_num <;> nlinarith [h2]
  · simp only [quat_to_mat, M33.det, hadd, hsub, hmul, slit]
    norm_num
    nlinarith [h3]

/-- (6) rotating a vector by a quaternion is multiplication by its matrix (all q, all v) -/
theorem rot_vec_quat_eq_mat (v : V3 ℝ) (q : Q ℝ) : rot_vec_quat v q = M33.mulVec (quat_to_mat q) v := by
  apply V3.ext' <;>
    simp only [rot_vec_quat, quat_to_mat, M33.mulVec, V3.add, V3.smul, V3.dot, V3.cross, hadd, hsub, hmul, slit] <;>
    norm_num <;> ring

/-- (7) composition: matrix of a product is the product of matrices -/
theorem quat_to_mat_mul (p q : Q ℝ) : quat_to_mat (mul_quat p q) = M33.mul (quat_to_mat p) (quat_to_mat q) := by
  apply M33.ext' <;>
    simp only [quat_to_mat, mul_quat, M33.mul, hadd, hsub, hmul, slit] <;>
    norm_num <;> ring

/-- non-vacuity: a concrete non-unit, non-zero quaternion and non-zero velocity meet the (absent)
    hypotheses; and a concrete unit quaternion meets (5)'s hypothesis. -/
example : nrm2 (⟨3/5, 0, 4/5, 0⟩ : Q ℝ) = 1 := by norm_num [nrm2]

end Mjw.Props.C23
