/-
  C39  contact_force reports the contact wrench.

  Theorems are about `Mjw.Gen.Support._decode_pyramid / contact_force_fn / contact_force_kernel`
  (regenerated from /repo/mujoco_warp/_src/support.py on every run) at K = ℝ, against the hand-written
  MuJoCo reference `Mjw.Spec.ContactForce` (mju_decodePyramid, mju_encodePyramid, mj_contactForce).

  What is TRUE of the code (all proved below):
   1. `_decode_pyramid` = `mju_decodePyramid(efc_force + efc_address, friction, condim)` for condim ∈ {1,3,4,6}
      when all rows are < njmax; in general rows ≥ njmax are READ AS 0 (`decode_pyramid_masked`).
   2. decode ∘ encode = id (spec and code).
   3. non-negative edge forces ⇒ decoded force in the friction pyramid.
   4. elliptic cone: the `condim` row forces `efc_force[contact.efc_address[id, i]]` are copied; rows with
      address ≥ njmax are skipped (stay 0).
   5. guards: efc_address < 0, id < 0, id > nacon ⇒ zero.  `contact_force_fn` ACCEPTS id = nacon
      (`<=`, off by one; witness in Props/C39Witness.lean) but `contact_force_kernel` returns early for
      id ≥ nacon, so the kernel never passes it: the kernel processes exactly the ids < nacon
      (negative ids included: it then WRITES zero), and for id ≥ nacon leaves `out[tid]` UNTOUCHED
      (mj_contactForce would zero the result).
   6. to_world_frame: (frameᵀ·force, frameᵀ·torque), norm-preserving for orthonormal frames.
   7. adhesion: this code base subtracts `contact.adhesion[id]` from the normal component of every active
      contact ("net interface force"); mj_contactForce has no such term.  So the result equals
      mj_contactForce exactly when `contact.adhesion[id] = 0` (`contact_force_fn_eq_mj_contactForce`), and is
      mj_contactForce − adhesion·e₀ otherwise (`adhesion_shift`).
  What is NOT guarded (witness file): the elliptic loop tests only `address < njmax`, not `address ≥ 0`, so a
  contact whose trailing rows were truncated by nefc overflow (address −1 written by `_efc_contact_init`)
  makes it read `efc_force[worldid, -1]`.
-/
import MjwVerif.Lemmas.C39

set_option linter.unusedVariables false
set_option linter.unusedSimpArgs false

namespace Mjw.Props.C39
open Mjw Mjw.Gen.Support Mjw.Spec.ContactForce Mjw.Lemmas.C39

/-- the contact dimensions MuJoCo allows -/
def ValidDim (d : Int) : Prop := d = 1 ∨ d = 3 ∨ d = 4 ∨ d = 6

/-! ## 1. `_decode_pyramid` is `mju_decodePyramid` -/

/-- (1a) for condim 3/4/6 and ANY row address: `_decode_pyramid` is `mju_decodePyramid` of the edge forces
    `efc_force[efc_address + k]` in which every row `efc_address + k ≥ njmax_in` is read as 0 — exactly
    the two `adr < njmax_in` guards of the source. -/
theorem decode_pyramid_masked (njmax : Int) (p : Int → ℝ) (adr : Int) (mu : V5 ℝ) (condim : Int)
    (hc : condim = 3 ∨ condim = 4 ∨ condim = 6) :
    _decode_pyramid njmax p adr mu condim = decodePyramid (masked njmax p adr) mu condim := by
  rcases hc with rfl | rfl | rfl
  exacts [decode3_masked _ _ _ _, decode4_masked _ _ _ _, decode6_masked _ _ _ _]

/-- (1b) **`_decode_pyramid` = `mju_decodePyramid(efc_force + efc_address, mu, condim)`** for every valid
    condim, provided all `2(condim-1)` rows are below njmax_in (condim = 1 has no guard in the source: the
    single row `efc_address` is read unconditionally). -/
theorem decode_pyramid_eq_spec (njmax : Int) (p : Int → ℝ) (adr : Int) (mu : V5 ℝ) (condim : Int)
    (hc : ValidDim condim) (hr : condim = 1 ∨ adr + 2 * (condim - 1) ≤ njmax) :
    _decode_pyramid njmax p adr mu condim = decodePyramid (shifted p adr) mu condim := by
  rcases hc with rfl | hc
  · exact decode1 _ _ _ _
  · have hr' : adr + 2 * (condim - 1) ≤ njmax := by
      rcases hr with h | h
      · rcases hc with rfl | rfl | rfl <;> omega
      · exact h
    rw [decode_pyramid_masked _ _ _ _ _ hc]
    apply decodePyramid_congr _ _ _ _ (Or.inr hc)
    intro k hk0 hk
    apply masked_eq_shifted
    rcases hc with rfl | rfl | rfl <;> omega

/-- (1c) written out, condim = 3: normal = Σ of the 4 edge forces, tangent i = (p₂ᵢ − p₂ᵢ₊₁)·μᵢ. -/
theorem decode_pyramid_condim3 (njmax : Int) (p : Int → ℝ) (adr : Int) (mu : V5 ℝ)
    (hr : adr + 4 ≤ njmax) :
    _decode_pyramid njmax p adr mu 3 =
      ⟨p adr + p (adr + 1) + p (adr + 2) + p (adr + 3),
       (p adr - p (adr + 1)) * mu.c0, (p (adr + 2) - p (adr + 3)) * mu.c1, 0, 0, 0⟩ := by
  rw [decode_pyramid_eq_spec _ _ _ _ _ (Or.inr (Or.inl rfl)) (Or.inr (by omega))]
  simp [decodePyramid, tangent, sumTo, shifted, V5.get]

/-- (1c) written out, condim = 4 (torsional friction μ₂). -/
theorem decode_pyramid_condim4 (njmax : Int) (p : Int → ℝ) (adr : Int) (mu : V5 ℝ)
    (hr : adr + 6 ≤ njmax) :
    _decode_pyramid njmax p adr mu 4 =
      ⟨p adr + p (adr + 1) + p (adr + 2) + p (adr + 3) + p (adr + 4) + p (adr + 5),
       (p adr - p (adr + 1)) * mu.c0, (p (adr + 2) - p (adr + 3)) * mu.c1,
       (p (adr + 4) - p (adr + 5)) * mu.c2, 0, 0⟩ := by
  rw [decode_pyramid_eq_spec _ _ _ _ _ (Or.inr (Or.inr (Or.inl rfl))) (Or.inr (by omega))]
  simp [decodePyramid, tangent, sumTo, shifted, V5.get]

/-- (1c) written out, condim = 6: normal = Σ of the 10 edge forces, five tangential/torsional/rolling
    components. -/
theorem decode_pyramid_condim6 (njmax : Int) (p : Int → ℝ) (adr : Int) (mu : V5 ℝ)
    (hr : adr + 10 ≤ njmax) :
    _decode_pyramid njmax p adr mu 6 =
      ⟨p adr + p (adr + 1) + p (adr + 2) + p (adr + 3) + p (adr + 4) + p (adr + 5) + p (adr + 6)
          + p (adr + 7) + p (adr + 8) + p (adr + 9),
       (p adr - p (adr + 1)) * mu.c0, (p (adr + 2) - p (adr + 3)) * mu.c1,
       (p (adr + 4) - p (adr + 5)) * mu.c2, (p (adr + 6) - p (adr + 7)) * mu.c3,
       (p (adr + 8) - p (adr + 9)) * mu.c4⟩ := by
  rw [decode_pyramid_eq_spec _ _ _ _ _ (Or.inr (Or.inr (Or.inr rfl))) (Or.inr (by omega))]
  simp [decodePyramid, tangent, sumTo, shifted, V5.get]

/-- (1d) condim = 1: the single row, no friction. -/
theorem decode_pyramid_condim1 (njmax : Int) (p : Int → ℝ) (adr : Int) (mu : V5 ℝ) :
    _decode_pyramid njmax p adr mu 1 = ⟨p adr, 0, 0, 0, 0, 0⟩ := by
  rw [decode1]; simp [decodePyramid, shifted]

/-! ## 2. round trip with `mju_encodePyramid` -/

/-- (2a) spec level: `mju_decodePyramid (mju_encodePyramid f) = f` for every force whose components beyond
    `dim` vanish and friction coefficients `μ_i ≠ 0` (`i < dim-1`). -/
theorem spec_decode_encode (f : V6 ℝ) (mu : V5 ℝ) (dim : Int) (hd : ValidDim dim)
    (hm : ∀ i, 0 ≤ i → i < dim - 1 → V5.get mu i ≠ 0)
    (hz : ∀ j, dim ≤ j → j ≤ 5 → V6.get f j = 0) :
    decodePyramid (encodePyramid f mu dim) mu dim = f := by
  rcases hd with rfl | rfl | rfl | rfl
  · exact decode_encode1 f mu ⟨by simpa [V6.get] using hz 1 (by norm_num) (by norm_num),
      by simpa [V6.get] using hz 2 (by norm_num) (by norm_num),
      by simpa [V6.get] using hz 3 (by norm_num) (by norm_num),
      by simpa [V6.get] using hz 4 (by norm_num) (by norm_num),
      by simpa [V6.get] using hz 5 (by norm_num) (by norm_num)⟩
  · exact decode_encode3 f mu ⟨by simpa [V6.get] using hz 3 (by norm_num) (by norm_num),
      by simpa [V6.get] using hz 4 (by norm_num) (by norm_num),
      by simpa [V6.get] using hz 5 (by norm_num) (by norm_num)⟩
      ⟨by simpa [V5.get] using hm 0 (by norm_num) (by norm_num),
       by simpa [V5.get] using hm 1 (by norm_num) (by norm_num)⟩
  · exact decode_encode4 f mu ⟨by simpa [V6.get] using hz 4 (by norm_num) (by norm_num),
      by simpa [V6.get] using hz 5 (by norm_num) (by norm_num)⟩
      ⟨by simpa [V5.get] using hm 0 (by norm_num) (by norm_num),
       by simpa [V5.get] using hm 1 (by norm_num) (by norm_num),
       by simpa [V5.get] using hm 2 (by norm_num) (by norm_num)⟩
  · exact decode_encode6 f mu
      ⟨by simpa [V5.get] using hm 0 (by norm_num) (by norm_num),
       by simpa [V5.get] using hm 1 (by norm_num) (by norm_num),
       by simpa [V5.get] using hm 2 (by norm_num) (by norm_num),
       by simpa [V5.get] using hm 3 (by norm_num) (by norm_num),
       by simpa [V5.get] using hm 4 (by norm_num) (by norm_num)⟩

/-- (2b) code level: `_decode_pyramid` applied to an efc_force array that holds
    `mju_encodePyramid f` at rows `adr, adr+1, …` returns `f`. -/
theorem decode_encode (njmax adr : Int) (f : V6 ℝ) (mu : V5 ℝ) (dim : Int) (hd : ValidDim dim)
    (hr : dim = 1 ∨ adr + 2 * (dim - 1) ≤ njmax)
    (hm : ∀ i, 0 ≤ i → i < dim - 1 → V5.get mu i ≠ 0)
    (hz : ∀ j, dim ≤ j → j ≤ 5 → V6.get f j = 0) :
    _decode_pyramid njmax (fun r => encodePyramid f mu dim (r - adr)) adr mu dim = f := by
  rw [decode_pyramid_eq_spec _ _ _ _ _ hd hr]
  have e : shifted (fun r => encodePyramid f mu dim (r - adr)) adr = encodePyramid f mu dim := by
    funext k; simp [shifted]
  rw [e]
  exact spec_decode_encode f mu dim hd hm hz

/-! ## 3. the decoded force lies in the friction pyramid -/

/-- (3a) all edge forces ≥ 0 (and μ ≥ 0) ⇒ normal force ≥ 0 and every tangential component is bounded by
    μᵢ · normal.  (Components beyond condim are 0, so their bound is `0 ≤ μᵢ·f₀`.) -/
theorem normal_force_nonneg (njmax : Int) (p : Int → ℝ) (adr : Int) (mu : V5 ℝ) (condim : Int)
    (hc : ValidDim condim) (hr : condim = 1 ∨ adr + 2 * (condim - 1) ≤ njmax)
    (hp : ∀ k, 0 ≤ k → (k < 1 ∨ k < 2 * (condim - 1)) → 0 ≤ p (adr + k))
    (hmu : 0 ≤ mu.c0 ∧ 0 ≤ mu.c1 ∧ 0 ≤ mu.c2 ∧ 0 ≤ mu.c3 ∧ 0 ≤ mu.c4) :
    let F := _decode_pyramid njmax p adr mu condim
    0 ≤ F.c0 ∧ |F.c1| ≤ mu.c0 * F.c0 ∧ |F.c2| ≤ mu.c1 * F.c0 ∧ |F.c3| ≤ mu.c2 * F.c0 ∧
      |F.c4| ≤ mu.c3 * F.c0 ∧ |F.c5| ≤ mu.c4 * F.c0 := by
  intro F
  obtain ⟨m0, m1, m2, m3, m4⟩ := hmu
  rcases hc with rfl | rfl | rfl | rfl
  · have hF : F = _ := decode_pyramid_condim1 njmax p adr mu
    have h0 := hp 0 (by norm_num) (by norm_num)
    simp only [add_zero] at h0
    rw [hF]
    dsimp only
    exact ⟨by linarith,
      by (rw [abs_zero]; apply mul_nonneg <;> linarith),
      by (rw [abs_zero]; apply mul_nonneg <;> linarith),
      by (rw [abs_zero]; apply mul_nonneg <;> linarith),
      by (rw [abs_zero]; apply mul_nonneg <;> linarith),
      by (rw [abs_zero]; apply mul_nonneg <;> linarith)⟩
  · have hF : F = _ := decode_pyramid_condim3 njmax p adr mu (by omega)
    have h0 := hp 0 (by norm_num) (by norm_num)
    have h1 := hp 1 (by norm_num) (by norm_num)
    have h2 := hp 2 (by norm_num) (by norm_num)
    have h3 := hp 3 (by norm_num) (by norm_num)
    simp only [add_zero] at h0
    rw [hF]
    dsimp only
    exact ⟨by linarith,
      by (apply abs_diff_mul_le <;> linarith),
      by (apply abs_diff_mul_le <;> linarith),
      by (rw [abs_zero]; apply mul_nonneg <;> linarith),
      by (rw [abs_zero]; apply mul_nonneg <;> linarith),
      by (rw [abs_zero]; apply mul_nonneg <;> linarith)⟩
  · have hF : F = _ := decode_pyramid_condim4 njmax p adr mu (by omega)
    have h0 := hp 0 (by norm_num) (by norm_num)
    have h1 := hp 1 (by norm_num) (by norm_num)
    have h2 := hp 2 (by norm_num) (by norm_num)
    have h3 := hp 3 (by norm_num) (by norm_num)
    have h4 := hp 4 (by norm_num) (by norm_num)
    have h5 := hp 5 (by norm_num) (by norm_num)
    simp only [add_zero] at h0
    rw [hF]
    dsimp only
    exact ⟨by linarith,
      by (apply abs_diff_mul_le <;> linarith),
      by (apply abs_diff_mul_le <;> linarith),
      by (apply abs_diff_mul_le <;> linarith),
      by (rw [abs_zero]; apply mul_nonneg <;> linarith),
      by (rw [abs_zero]; apply mul_nonneg <;> linarith)⟩
  · have hF : F = _ := decode_pyramid_condim6 njmax p adr mu (by omega)
    have h0 := hp 0 (by norm_num) (by norm_num)
    have h1 := hp 1 (by norm_num) (by norm_num)
    have h2 := hp 2 (by norm_num) (by norm_num)
    have h3 := hp 3 (by norm_num) (by norm_num)
    have h4 := hp 4 (by norm_num) (by norm_num)
    have h5 := hp 5 (by norm_num) (by norm_num)
    have h6 := hp 6 (by norm_num) (by norm_num)
    have h7 := hp 7 (by norm_num) (by norm_num)
    have h8 := hp 8 (by norm_num) (by norm_num)
    have h9 := hp 9 (by norm_num) (by norm_num)
    simp only [add_zero] at h0
    rw [hF]
    dsimp only
    exact ⟨by linarith,
      by (apply abs_diff_mul_le <;> linarith),
      by (apply abs_diff_mul_le <;> linarith),
      by (apply abs_diff_mul_le <;> linarith),
      by (apply abs_diff_mul_le <;> linarith),
      by (apply abs_diff_mul_le <;> linarith)⟩

/-- (3b) the sharp statement for condim = 3 (μ > 0): `|f₁|/μ₀ + |f₂|/μ₁ ≤ f₀`, i.e. the decoded force is in
    the (L1) friction pyramid itself, not merely in its bounding box. -/
theorem in_friction_pyramid3 (njmax : Int) (p : Int → ℝ) (adr : Int) (mu : V5 ℝ) (hr : adr + 4 ≤ njmax)
    (hp : ∀ k, 0 ≤ k → k < 4 → 0 ≤ p (adr + k)) (hmu : 0 < mu.c0 ∧ 0 < mu.c1) :
    let F := _decode_pyramid njmax p adr mu 3
    |F.c1| / mu.c0 + |F.c2| / mu.c1 ≤ F.c0 := by
  intro F
  have hF : F = _ := decode_pyramid_condim3 njmax p adr mu hr
  have h0 := hp 0 (by norm_num) (by norm_num)
  have h1 := hp 1 (by norm_num) (by norm_num)
  have h2 := hp 2 (by norm_num) (by norm_num)
  have h3 := hp 3 (by norm_num) (by norm_num)
  simp only [add_zero] at h0
  rw [hF]
  simp only [abs_diff_mul_div _ _ _ hmu.1, abs_diff_mul_div _ _ _ hmu.2]
  linarith [abs_sub_le_add _ _ h0 h1, abs_sub_le_add _ _ h2 h3]

/-- (3b) the same for condim = 6: `Σ_{i<5} |f_{i+1}|/μᵢ ≤ f₀`. -/
theorem in_friction_pyramid6 (njmax : Int) (p : Int → ℝ) (adr : Int) (mu : V5 ℝ) (hr : adr + 10 ≤ njmax)
    (hp : ∀ k, 0 ≤ k → k < 10 → 0 ≤ p (adr + k))
    (hmu : 0 < mu.c0 ∧ 0 < mu.c1 ∧ 0 < mu.c2 ∧ 0 < mu.c3 ∧ 0 < mu.c4) :
    let F := _decode_pyramid njmax p adr mu 6
    |F.c1| / mu.c0 + |F.c2| / mu.c1 + |F.c3| / mu.c2 + |F.c4| / mu.c3 + |F.c5| / mu.c4 ≤ F.c0 := by
  intro F
  have hF : F = _ := decode_pyramid_condim6 njmax p adr mu hr
  obtain ⟨m0, m1, m2, m3, m4⟩ := hmu
  have h0 := hp 0 (by norm_num) (by norm_num)
  have h1 := hp 1 (by norm_num) (by norm_num)
  have h2 := hp 2 (by norm_num) (by norm_num)
  have h3 := hp 3 (by norm_num) (by norm_num)
  have h4 := hp 4 (by norm_num) (by norm_num)
  have h5 := hp 5 (by norm_num) (by norm_num)
  have h6 := hp 6 (by norm_num) (by norm_num)
  have h7 := hp 7 (by norm_num) (by norm_num)
  have h8 := hp 8 (by norm_num) (by norm_num)
  have h9 := hp 9 (by norm_num) (by norm_num)
  simp only [add_zero] at h0
  rw [hF]
  simp only [abs_diff_mul_div _ _ _ m0, abs_diff_mul_div _ _ _ m1, abs_diff_mul_div _ _ _ m2,
    abs_diff_mul_div _ _ _ m3, abs_diff_mul_div _ _ _ m4]
  linarith [abs_sub_le_add _ _ h0 h1, abs_sub_le_add _ _ h2 h3, abs_sub_le_add _ _ h4 h5,
    abs_sub_le_add _ _ h6 h7, abs_sub_le_add _ _ h8 h9]

/-! ## 4–7. `contact_force_fn` -/

section fn
variable (cone : Int) (frame : Int → M33 ℝ) (fric : Int → V5 ℝ) (dim : Int → Int) (adr : Int → Int → Int)
  (adh : Int → ℝ) (efc : Int → Int → ℝ) (njmax : Int) (nacon : Int → Int) (w id : Int)

/-- (4a) **elliptic cone, contact frame**: for an accepted contact the result is the copy of the `condim` row
    forces `efc_force[worldid, efc_address[id, i]]`, where rows whose address is ≥ njmax are skipped
    (component stays 0), minus the adhesion on the normal component.  The row addresses are NOT required
    to be ≥ 0 for i ≥ 1 — the source does not test it (see C39Witness). -/
theorem elliptic_copy_masked (hcone : cone ≠ 0) (h0 : 0 ≤ id) (h1 : id ≤ nacon 0) (h2 : 0 ≤ adr id 0)
    (hd : ValidDim (dim id)) :
    contact_force_fn cone frame fric dim adr adh efc njmax nacon w id false =
      (let f := copyRows (ellMasked njmax (adr id) (efc w)) (dim id)
       { f with c0 := f.c0 - adh id }) := by
  rw [fn_local_active _ _ _ _ _ _ _ _ _ _ _ h0 h1 h2]
  simp only [hcone, if_false]
  rw [ellLoop_eq _ _ _ _ hd]

/-- (4b) **elliptic_copy**: all `condim` rows in range ⇒ component i of the result is
    `efc_force[worldid, efc_address[id, i]]` (i < condim), 0 beyond, normal component minus adhesion. -/
theorem elliptic_copy (hcone : cone ≠ 0) (h0 : 0 ≤ id) (h1 : id ≤ nacon 0) (h2 : 0 ≤ adr id 0)
    (hd : ValidDim (dim id)) (hr : ∀ i, 0 ≤ i → i < dim id → adr id i < njmax) :
    contact_force_fn cone frame fric dim adr adh efc njmax nacon w id false =
      (let f := copyRows (fun i => efc w (adr id i)) (dim id)
       { f with c0 := f.c0 - adh id }) := by
  rw [elliptic_copy_masked _ _ _ _ _ _ _ _ _ _ _ hcone h0 h1 h2 hd]
  have e : copyRows (ellMasked njmax (adr id) (efc w)) (dim id)
      = copyRows (fun i => efc w (adr id i)) (dim id) := by
    simp only [copyRows, ellMasked]
    rcases hd with h | h | h | h <;> rw [h] at hr ⊢ <;>
      simp [hr 0, hr 1, hr 2, hr 3, hr 4, hr 5]
  rw [e]

/-- (5a) **no rows**: `efc_address[id,0] < 0` (contact not in the constraint set / dropped by nefc
    overflow) ⇒ zero wrench, in either frame. -/
theorem guard_no_rows (tw : Bool) (h : adr id 0 < 0) :
    contact_force_fn cone frame fric dim adr adh efc njmax nacon w id tw = V6.zero := by
  have hz := fn_local_inactive cone frame fric dim adr adh efc njmax nacon w id
    (by intro ⟨_, _, h'⟩; omega)
  cases tw
  · exact hz
  · rw [fn_world, hz, toWorld_zero]

/-- (5b) **id out of range**: `id < 0` or `id > nacon` ⇒ zero wrench.  NOTE `id = nacon` is not covered:
    the source tests `contact_id <= nacon_in[0]`. -/
theorem guard_id_out_of_range (tw : Bool) (h : id < 0 ∨ nacon 0 < id) :
    contact_force_fn cone frame fric dim adr adh efc njmax nacon w id tw = V6.zero := by
  have hz := fn_local_inactive cone frame fric dim adr adh efc njmax nacon w id
    (by intro ⟨_, _, _⟩; omega)
  cases tw
  · exact hz
  · rw [fn_world, hz, toWorld_zero]

/-- (5c) exactly which ids `contact_force_fn` processes: `0 ≤ id ≤ nacon` (sic) with efc_address ≥ 0.
    For those the local-frame result is (decoded or copied force) − adhesion·e₀; for all others zero. -/
theorem fn_processed_iff :
    contact_force_fn cone frame fric dim adr adh efc njmax nacon w id false =
      (if 0 ≤ id ∧ id ≤ nacon 0 ∧ 0 ≤ adr id 0 then
        (let f := if cone = 0 then _decode_pyramid njmax (efc w) (adr id 0) (fric id) (dim id)
                  else ellLoop (adr id) (efc w) njmax (dim id)
         { f with c0 := f.c0 - adh id })
       else V6.zero) := by
  by_cases h : 0 ≤ id ∧ id ≤ nacon 0 ∧ 0 ≤ adr id 0
  · rw [if_pos h]; exact fn_local_active _ _ _ _ _ _ _ _ _ _ _ h.1 h.2.1 h.2.2
  · rw [if_neg h]; exact fn_local_inactive _ _ _ _ _ _ _ _ _ _ _ h

/-- (6a) **to_world_frame**: with the flag set the result is `(frameᵀ·force, frameᵀ·torque)` of the
    local-frame result (`v @ frame` in the source = `frameᵀ v` = mju_mulMatTVec3), frame = `contact.frame[id]`. -/
theorem to_world_frame :
    contact_force_fn cone frame fric dim adr adh efc njmax nacon w id true
      = toWorld (frame id) (contact_force_fn cone frame fric dim adr adh efc njmax nacon w id false) :=
  fn_world _ _ _ _ _ _ _ _ _ _ _

/-- (7) **adhesion**: for an accepted contact the code subtracts `contact.adhesion[id]` from the normal
    component and touches nothing else: result(adhesion) = result(adhesion := 0) − adhesion[id]·e₀. -/
theorem adhesion_shift (h0 : 0 ≤ id) (h1 : id ≤ nacon 0) (h2 : 0 ≤ adr id 0) :
    contact_force_fn cone frame fric dim adr adh efc njmax nacon w id false =
      (let g := contact_force_fn cone frame fric dim adr (fun _ => 0) efc njmax nacon w id false
       { g with c0 := g.c0 - adh id }) := by
  rw [fn_local_active _ _ _ _ _ _ _ _ _ _ _ h0 h1 h2, fn_local_active _ _ _ _ _ _ _ _ _ _ _ h0 h1 h2]
  simp

/-- (7') for contacts that are not accepted the adhesion is NOT subtracted (result stays zero). -/
theorem adhesion_not_applied_when_inactive (h : ¬ (0 ≤ id ∧ id ≤ nacon 0 ∧ 0 ≤ adr id 0)) :
    contact_force_fn cone frame fric dim adr adh efc njmax nacon w id false = V6.zero :=
  fn_local_inactive _ _ _ _ _ _ _ _ _ _ _ h

/-- the hypotheses under which the code is compared with mj_contactForce for an accepted contact:
    valid condim; all rows of the contact below njmax; (elliptic) the row addresses are the contiguous
    block `efc_address .. efc_address + condim - 1` as `_efc_contact_init` allocates them. -/
def RowsOK (cone : Int) (dim : Int → Int) (adr : Int → Int → Int) (njmax id : Int) : Prop :=
  ValidDim (dim id) ∧
  (cone = 0 → (dim id = 1 ∨ adr id 0 + 2 * (dim id - 1) ≤ njmax)) ∧
  (cone ≠ 0 → (adr id 0 + dim id ≤ njmax ∧ ∀ i, 0 ≤ i → i < dim id → adr id i = adr id 0 + i))

/-- **main theorem, function level**: for `id < nacon`, zero adhesion and in-range rows,
    `contact_force_fn` in the contact frame IS `mj_contactForce` — zero result unless
    `0 ≤ id` and `efc_address ≥ 0`; pyramidal → mju_decodePyramid; elliptic → copy of `condim` entries of
    efc_force starting at efc_address.  (For id < 0 or efc_address < 0 no hypothesis on rows is needed.) -/
theorem contact_force_fn_eq_mj_contactForce (hlt : id < nacon 0) (hadh : adh id = 0)
    (hrows : 0 ≤ id → 0 ≤ adr id 0 → RowsOK cone dim adr njmax id) :
    contact_force_fn cone frame fric dim adr adh efc njmax nacon w id false =
      contactForce (decide (cone = 0)) (nacon 0) id (adr id 0) (shifted (efc w) (adr id 0)) (fric id)
        (dim id) := by
  by_cases hact : 0 ≤ id ∧ 0 ≤ adr id 0
  · obtain ⟨h0, h2⟩ := hact
    obtain ⟨hd, hp, he⟩ := hrows h0 h2
    have hg : 0 ≤ id ∧ id < nacon 0 ∧ 0 ≤ adr id 0 := ⟨h0, hlt, h2⟩
    by_cases hcone : cone = 0
    · rw [fn_local_active _ _ _ _ _ _ _ _ _ _ _ h0 hlt.le h2]
      simp only [contactForce, hg, hcone, hadh, and_self, if_true, decide_true, sub_zero]
      rw [decode_pyramid_eq_spec _ _ _ _ _ hd (hp hcone)]
    · obtain ⟨hin, hcontig⟩ := he hcone
      rw [elliptic_copy _ _ _ _ _ _ _ _ _ _ _ hcone h0 hlt.le h2 hd
        (fun i hi0 hi => by rw [hcontig i hi0 hi]; omega)]
      simp only [contactForce, hg, hcone, hadh, and_self, if_true, decide_false, sub_zero]
      simp only [copyRows, shifted]
      rcases hd with h | h | h | h <;> rw [h] at hcontig ⊢ <;>
        simp [hcontig 1, hcontig 2, hcontig 3, hcontig 4, hcontig 5]
  · rw [fn_local_inactive _ _ _ _ _ _ _ _ _ _ _ (by tauto)]
    have : ¬ (0 ≤ id ∧ id < nacon 0 ∧ 0 ≤ adr id 0) := by tauto
    simp only [contactForce, this, if_false]

end fn

/-! ## 6b. orthonormal frames preserve the norms of force and torque -/

/-- (6b) for a frame with orthonormal rows (`F·Fᵀ = I`) the world-frame force and torque have the same
    squared length as the contact-frame ones. -/
theorem to_world_frame_lengthSq (F : M33 ℝ) (f : V6 ℝ)
    (h : M33.mul F (M33.transpose F) = M33.identity) :
    V3.lengthSq (V6.top (toWorld F f)) = V3.lengthSq (V6.top f) ∧
    V3.lengthSq (V6.bottom (toWorld F f)) = V3.lengthSq (V6.bottom f) := by
  have e1 : V6.top (toWorld F f) = M33.mulVec (M33.transpose F) (V6.top f) := rfl
  have e2 : V6.bottom (toWorld F f) = M33.mulVec (M33.transpose F) (V6.bottom f) := rfl
  rw [e1, e2]
  exact ⟨orth_norm F _ h, orth_norm F _ h⟩

/-- (6b) the same for the lengths (`wp.length`). -/
theorem to_world_frame_length (F : M33 ℝ) (f : V6 ℝ)
    (h : M33.mul F (M33.transpose F) = M33.identity) :
    V3.length (V6.top (toWorld F f)) = V3.length (V6.top f) ∧
    V3.length (V6.bottom (toWorld F f)) = V3.length (V6.bottom f) := by
  obtain ⟨a, b⟩ := to_world_frame_lengthSq F f h
  simp only [V3.lengthSq] at a b
  simp only [V3.length, a, b, and_self]

/-! ## 5d. `contact_force_kernel` -/

section kernel
variable (cone : Int) (frame : Int → M33 ℝ) (fric : Int → V5 ℝ) (dim : Int → Int) (adr : Int → Int → Int)
  (wid : Int → Int) (adh : Int → ℝ) (efc : Int → Int → ℝ) (njmax : Int) (nacon : Int → Int)
  (ids : Int → Int) (tw : Bool) (out : Int → V6 ℝ) (tid : Int)

/-- (5d) requested id ≥ nacon (this includes id = nacon, which `contact_force_fn` alone would accept): the
    thread returns without writing — `out[tid]` keeps its PRE-LAUNCH content (it is not zeroed, unlike
    mj_contactForce's `result`). -/
theorem kernel_skips_ge_nacon (h : nacon 0 ≤ ids tid) :
    contact_force_kernel cone frame fric dim adr wid adh efc njmax nacon ids tw out tid = [] := by
  simp [contact_force_kernel, h]

/-- (5d) requested id < nacon (negative ids included): exactly one plain write,
    `out[tid] := contact_force_fn(…, worldid = contact.worldid[id], id, to_world_frame)`. -/
theorem kernel_writes_lt_nacon (h : ids tid < nacon 0) :
    contact_force_kernel cone frame fric dim adr wid adh efc njmax nacon ids tw out tid =
      [⟨"out", [tid], WVal.v (V6.toList (contact_force_fn cone frame fric dim adr adh efc njmax nacon
          (wid (ids tid)) (ids tid) tw)), WKind.set⟩] := by
  have h' : ¬ nacon 0 ≤ ids tid := by omega
  simp [contact_force_kernel, h']

/-- (5d) a negative requested id is not rejected by the kernel: it writes the zero wrench. -/
theorem kernel_negative_id_writes_zero (h : ids tid < 0) (hn : 0 ≤ nacon 0) :
    contact_force_kernel cone frame fric dim adr wid adh efc njmax nacon ids tw out tid =
      [⟨"out", [tid], WVal.v (V6.toList (V6.zero : V6 ℝ)), WKind.set⟩] := by
  rw [kernel_writes_lt_nacon _ _ _ _ _ _ _ _ _ _ _ _ _ _ (by omega),
    guard_id_out_of_range _ _ _ _ _ _ _ _ _ _ _ _ (Or.inl h)]

/-- (5d) the off-by-one of `contact_force_fn`'s own test (`id <= nacon`) is MASKED in the kernel: whenever
    the kernel calls it, `id < nacon`, so `id ≤ nacon` adds nothing; the call's acceptance condition is
    `0 ≤ id < nacon ∧ efc_address ≥ 0`, mj_contactForce's. -/
theorem kernel_masks_off_by_one (h : ids tid < nacon 0) :
    (0 ≤ ids tid ∧ ids tid ≤ nacon 0 ∧ 0 ≤ adr (ids tid) 0) ↔
      (0 ≤ ids tid ∧ ids tid < nacon 0 ∧ 0 ≤ adr (ids tid) 0) := by
  constructor <;> rintro ⟨a, _, c⟩ <;> exact ⟨a, by omega, c⟩

/-- **main theorem, kernel level**: for every requested contact `id = contact_ids[tid] < nacon` with zero
    adhesion and in-range rows, the kernel writes to `out[tid]` exactly mj_contactForce's result
    (world `contact.worldid[id]`), rotated by `contact.frame[id]ᵀ` when `to_world_frame` is set. -/
theorem contact_force_kernel_eq_mj_contactForce (h : ids tid < nacon 0) (hadh : adh (ids tid) = 0)
    (hrows : 0 ≤ ids tid → 0 ≤ adr (ids tid) 0 → RowsOK cone dim adr njmax (ids tid)) :
    contact_force_kernel cone frame fric dim adr wid adh efc njmax nacon ids tw out tid =
      [⟨"out", [tid], WVal.v (V6.toList
        (let r := contactForce (decide (cone = 0)) (nacon 0) (ids tid) (adr (ids tid) 0)
                    (shifted (efc (wid (ids tid))) (adr (ids tid) 0)) (fric (ids tid)) (dim (ids tid))
         if tw then toWorld (frame (ids tid)) r else r)), WKind.set⟩] := by
  rw [kernel_writes_lt_nacon _ _ _ _ _ _ _ _ _ _ _ _ _ _ h]
  cases tw
  · rw [contact_force_fn_eq_mj_contactForce _ _ _ _ _ _ _ _ _ _ _ h hadh hrows]; rfl
  · rw [fn_world, contact_force_fn_eq_mj_contactForce _ _ _ _ _ _ _ _ _ _ _ h hadh hrows]; rfl

end kernel

/-! ## non-vacuity -/

/-- a concrete condim-3 pyramid (edge forces 3,1,2,2 at rows 5..8, μ = (1/2, 1/4)): normal 8,
    tangents (3−1)/2 = 1 and 0. -/
example :
    _decode_pyramid 9 (fun r => if r = 5 then 3 else if r = 6 then 1 else if r = 7 then 2 else
        if r = 8 then 2 else 0) 5 (⟨1/2, 1/4, 0, 0, 0⟩ : V5 ℝ) 3 = ⟨8, 1, 0, 0, 0, 0⟩ := by
  rw [decode_pyramid_condim3 _ _ _ _ (by norm_num)]
  norm_num

/-- the same pyramid truncated by njmax = 7 (rows 7, 8 do not exist): they read as 0. -/
example :
    _decode_pyramid 7 (fun r => if r = 5 then 3 else if r = 6 then 1 else if r = 7 then 2 else
        if r = 8 then 2 else 0) 5 (⟨1/2, 1/4, 0, 0, 0⟩ : V5 ℝ) 3 = ⟨4, 1, 0, 0, 0, 0⟩ := by
  rw [decode_pyramid_masked _ _ _ _ _ (Or.inl rfl)]
  simp [decodePyramid, tangent, sumTo, masked, V5.get]
  norm_num

/-- hypotheses of `decode_encode` are satisfiable: condim 4 force (10, 1, -2, 1/2), μ = (1, 1/2, 1/100). -/
example :
    _decode_pyramid 100 (fun r => encodePyramid (⟨10, 1, -2, 1/2, 0, 0⟩ : V6 ℝ) ⟨1, 1/2, 1/100, 0, 0⟩ 4 (r - 20))
      20 ⟨1, 1/2, 1/100, 0, 0⟩ 4 = ⟨10, 1, -2, 1/2, 0, 0⟩ := by
  apply decode_encode _ _ _ _ _ (Or.inr (Or.inr (Or.inl rfl))) (Or.inr (by norm_num))
  · intro i h0 h1
    have : i = 0 ∨ i = 1 ∨ i = 2 := by omega
    rcases this with rfl | rfl | rfl <;> norm_num [V5.get]
  · intro j h0 h1
    have : j = 4 ∨ j = 5 := by omega
    rcases this with rfl | rfl <;> norm_num [V6.get]

/-- `RowsOK` and the kernel theorem's hypotheses are satisfiable (elliptic, condim 3, rows 2,3,4 of 6). -/
example : RowsOK 1 (fun _ => 3) (fun _ i => 2 + i) 6 0 := by
  refine ⟨Or.inr (Or.inl rfl), by intro h; norm_num at h, fun _ => ⟨by norm_num, fun i _ _ => rfl⟩⟩

/-- an orthonormal frame that is not the identity meets (6b)'s hypothesis. -/
example : M33.mul (⟨0, 1, 0, -1, 0, 0, 0, 0, 1⟩ : M33 ℝ) (M33.transpose ⟨0, 1, 0, -1, 0, 0, 0, 0, 1⟩)
    = M33.identity := by
  simp [M33.mul, M33.transpose, M33.identity]

end Mjw.Props.C39
