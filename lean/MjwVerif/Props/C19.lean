/-
  C19  Contact pair filtering follows MuJoCo's rules.

  Objects
  -------
  * `Mjw.PairFilter.pairTable` (`Model/PairFilter.lean`): hand transcription of the host-side NumPy block of
    /repo/mujoco_warp/_src/io.py `put_model` that builds the contact column of `m.nxn_pairid`
    (cross-checked against the real `put_model` on random MJCF models through `PairFilter.proto`).
  * `Mjw.Gen.Math.upper_tri_index` (device index function, generated), `Mjw.Gen.Collision_driver._add_geom_pair`,
    `Mjw.Gen.Collision_core.write_contact / contact_margin_gap / contact_material_params` (generated consumers).

  Theorems (all for EVERY ngeom and all arrays)
  ---------------------------------------------
  1 `upper_tri_index_bijection`   the generated index function is a bijection from `{(i,j) | i<j<n}` onto
                                  `[0, n(n-1)/2)`, equal to the position in `np.triu_indices(n, k=1)` order
  1' `host_index_agrees`          io.py's local copy (floor division, with swap) agrees with it
  2a `accepted_has_no_self_pair`  (no hypothesis) if `put_model`'s explicit-pair loop completes, no explicit pair
                                  lists a geom twice
  2b `put_model_accepts_iff`      for pairs with geom ids in range: the loop completes iff there is no self pair,
                                  raises NotImplementedError iff there is one, and never raises IndexError
  2c `self_pair_has_no_slot`      the reason for the rejection: no table slot holds `(k,k)`; the index io.py
                                  computes for it is the slot of `(k-1, n-1)`, or `-1`
  2 `pair_table_eq_spec`          for EVERY accepted configuration (`pairTable c = .ok t`):
                                  table[idx(g1,g2)] = id of the LAST explicit pair listing {g1,g2} (either order),
                                  else -1 iff `codeRule` (the rule exactly as computed), else -2
  2' `explicitId_some_iff/none_iff`  what "last explicit pair" means
  3 `spec_matches_property`       for every accepted configuration, under the invariants of compiled models, the
                                  code's rule is the property's rule
  4 `filtered_pairs_never_emitted` (4 parts) + `add_geom_pair_allocates_one_slot` + `explicit_pair_uses_pair_params`
  5 `sign_bit_mask_passes`        the mask test is NON-ZERO on int32: an intersection with bit 31 set (negative) passes

  Assumed: `PairsInRange` (explicit pairs name geom ids in `[0, ngeom)`: an invariant of every `mjModel`; with ids out
  of range the NumPy write may wrap or raise IndexError) and, for 3, `Compiled`.  NOT assumed any more: that an
  explicit pair lists two DISTINCT geoms — that is now a consequence of acceptance (2a).

  Findings (witnesses in `Props/C19Witness.lean`)
  -----------------------------------------------
  F1 (REPAIRED in /repo, commit 6cb912c "fix: put_model wrote an explicit contact pair of a geom with itself into
     another pair's table slot"; found by this check) a DEGENERATE explicit pair `<pair geom1="g" geom2="g"/>`
     compiles in MuJoCo (which then collides g with itself).  `upper_tri_index(n, k, k) = idx(k-1, n-1)` for `k ≥ 1`
     and `= -1` for `k = 0`, which NumPy wraps to the LAST entry `(n-2, n-1)`: the pair id used to be written into
     the slot of an UNRELATED geom pair.  `put_model` now raises NotImplementedError for such a pair; the former
     hypothesis `p.1 ≠ p.2` of `pair_table_eq_spec` is derived from acceptance, the former witness W1 is deleted,
     its general form is kept as 2c.
  F2 (reachable, benign-ish) duplicated explicit pairs `(g1,g2)`,`(g2,g1)`: the LAST id wins and ONE contact is
     made; MuJoCo keeps both pairs and reports TWO contacts.
  F3 (not reachable from compiled models) the exclude test uses `(body(geom1) << 16) + body(geom2)` with
     `geom1 < geom2` in GEOM order; MuJoCo's signature is `(min body << 16) + max body`.  They agree because a
     compiled model stores geoms body by body (`geom_bodyid` is non-decreasing) — hypothesis `hmono` of
     `spec_matches_property`; witness `exclude_order_witness`.
  F4 the task statement "`_add_geom_pair` returns before the allocation when the entry is (-2, s<0)" is FALSE of
     the code: `_add_geom_pair` never looks at the entry (`add_geom_pair_does_not_filter_witness`).  Filtered pairs
     are kept out (i) by the host-side compression `nxn_geom_pair_filtered = nxn_geom_pair[nxn_include]` (NXN),
     (ii) by the in-kernel test `pairid[0] < -1 and pairid[1] < 0` of `_sap_broadphase` (closure kernel, not
     generated; modelled by `PairFilter.sapSkips`), and (iii) finally by `write_contact`, which is generated and
     performs no write at all for an entry (-2, -1).
-/
import MjwVerif.Lemmas.Real
import MjwVerif.Lemmas.C19
import MjwVerif.Gen.Collision_driver
import MjwVerif.Gen.Collision_core

set_option linter.unusedVariables false
set_option linter.unusedSimpArgs false

namespace Mjw.Props.C19
open Mjw Mjw.PairFilter Mjw.Lemmas.C19

/-! ## 1. The upper-triangular index -/

/-- (1) **upper_tri_index_bijection**.  For every `n` and every scalar type:
    (a) for `0 ≤ i < j < n` the generated `upper_tri_index n i j` lies in `[0, n(n-1)/2)` and is the position of
        `(i, j)` in `np.triu_indices(n, k=1)` order (`triu n`, row-major: `i` then `j`);
    (b) it is injective on such pairs;
    (c) inverse: the pair `(i, j)` stored at any position `k < n(n-1)/2` satisfies `i < j < n` and has index `k`;
    (d) the table has `n(n-1)/2` entries. -/
theorem upper_tri_index_bijection {K : Type} [Scalar K] (n : Nat) :
    (∀ i j : Nat, i < j → j < n →
        0 ≤ Gen.Math.upper_tri_index (K := K) n i j
        ∧ (Gen.Math.upper_tri_index (K := K) n i j).toNat < (triu n).length
        ∧ (triu n)[(Gen.Math.upper_tri_index (K := K) n i j).toNat]? = some (i, j))
    ∧ (∀ i j i' j' : Nat, i < j → j < n → i' < j' → j' < n →
        Gen.Math.upper_tri_index (K := K) n i j = Gen.Math.upper_tri_index (K := K) n i' j' → i = i' ∧ j = j')
    ∧ (∀ k (hk : k < (triu n).length),
        ((triu n)[k]).1 < ((triu n)[k]).2 ∧ ((triu n)[k]).2 < n
        ∧ Gen.Math.upper_tri_index (K := K) n ((triu n)[k]).1 ((triu n)[k]).2 = (k : Int))
    ∧ 2 * (triu n).length = n * (n - 1) := by
  refine ⟨?_, ?_, ?_, two_triu_length n⟩
  · intro i j hij hj
    rw [gen_upper_tri_index n i j hij hj]
    exact ⟨by omega, by simpa using natIdx_lt n i j hij hj, by simpa using triu_getElem n i j hij hj⟩
  · intro i j i' j' hij hj hij' hj' h
    rw [gen_upper_tri_index n i j hij hj, gen_upper_tri_index n i' j' hij' hj'] at h
    exact natIdx_inj n i j i' j' hij hj hij' hj' (by exact_mod_cast h)
  · intro k hk
    obtain ⟨i, j, hij, hj, hidx⟩ := natIdx_surj n k hk
    have h := triu_getElem n i j hij hj
    rw [hidx, List.getElem?_eq_getElem hk] at h
    have e : (triu n)[k] = (i, j) := Option.some.inj h
    rw [e]
    exact ⟨hij, hj, by rw [gen_upper_tri_index n i j hij hj, hidx]⟩

/-- (1') io.py's local `upper_tri_index` (Python floor division, swaps its arguments) agrees with the generated
    device function on every valid pair, in either argument order. -/
theorem host_index_agrees {K : Type} [Scalar K] (n i j : Nat) (hij : i < j) (hj : j < n) :
    upperTriIndex n i j = Gen.Math.upper_tri_index (K := K) n i j
      ∧ upperTriIndex n j i = Gen.Math.upper_tri_index (K := K) n i j := by
  rw [gen_upper_tri_index n i j hij hj]
  exact host_upper_tri_index n i j hij hj

/-! ## 2. The table -/

/-- the dynamic (geom-geom) rule EXACTLY as io.py computes it for the pair `(g1, g2)`, `g1 < g2` in geom order:
    bodies `b = geom_bodyid[g]`, weld bodies `w = body_weldid[b]`, parent test on
    `body_weldid[body_parentid[w]]` (parent of the WELD body, then its weld body), exclude signature
    `(b1 << 16) + b2` (int32) with `b1` the body of the geom with the SMALLER geom id. -/
def codeRule (c : Cfg) (g1 g2 : Int) : Prop :=
  (Mjw.iand (c.geom_contype g1) (c.geom_conaffinity g2) ≠ 0 ∨ Mjw.iand (c.geom_contype g2) (c.geom_conaffinity g1) ≠ 0)
  ∧ c.body_weldid (c.geom_bodyid g1) ≠ c.body_weldid (c.geom_bodyid g2)
  ∧ ¬ (c.filterparent = true
        ∧ c.body_weldid (c.geom_bodyid g1) ≠ 0 ∧ c.body_weldid (c.geom_bodyid g2) ≠ 0
        ∧ (c.body_weldid (c.geom_bodyid g1) = c.body_weldid (c.body_parentid (c.body_weldid (c.geom_bodyid g2)))
            ∨ c.body_weldid (c.geom_bodyid g2) = c.body_weldid (c.body_parentid (c.body_weldid (c.geom_bodyid g1)))))
  ∧ signature (c.geom_bodyid g1) (c.geom_bodyid g2) ∉ c.excludes

private theorem bool_key (m s p e : Bool) (M S P E : Prop) (hm : m = true ↔ M) (hs : s = true ↔ S)
    (hp : p = true ↔ P) (he : e = true ↔ E) : (m && !s && !p && !e) = true ↔ (M ∧ ¬ S ∧ ¬ P ∧ ¬ E) := by
  rw [← hm, ← hs, ← hp, ← he]
  cases m <;> cases s <;> cases p <;> cases e <;> simp

/-- the vectorised `-1 / -2` assignment, pair by pair -/
theorem dynEntry_spec (c : Cfg) (g1 g2 : Int) :
    (codeRule c g1 g2 → dynEntry c g1 g2 = -1) ∧ (¬ codeRule c g1 g2 → dynEntry c g1 g2 = -2) := by
  have hmask : (flags c g1 g2).mask = true ↔
      (Mjw.iand (c.geom_contype g1) (c.geom_conaffinity g2) ≠ 0 ∨ Mjw.iand (c.geom_contype g2) (c.geom_conaffinity g1) ≠ 0) :=
    maskBit_iff _ _ _ _
  have hself : (flags c g1 g2).self_collision = true ↔
      c.body_weldid (c.geom_bodyid g1) = c.body_weldid (c.geom_bodyid g2) := by simp [flags]
  have hpc : (flags c g1 g2).parent_child_collision = true ↔
      (c.filterparent = true
        ∧ c.body_weldid (c.geom_bodyid g1) ≠ 0 ∧ c.body_weldid (c.geom_bodyid g2) ≠ 0
        ∧ (c.body_weldid (c.geom_bodyid g1) = c.body_weldid (c.body_parentid (c.body_weldid (c.geom_bodyid g2)))
            ∨ c.body_weldid (c.geom_bodyid g2) = c.body_weldid (c.body_parentid (c.body_weldid (c.geom_bodyid g1))))) := by
    simp [flags, and_assoc]
  have hex : (flags c g1 g2).exclude = true ↔ signature (c.geom_bodyid g1) (c.geom_bodyid g2) ∈ c.excludes := by
    simp [flags]
  have key : ((flags c g1 g2).mask && !(flags c g1 g2).self_collision && !(flags c g1 g2).parent_child_collision
      && !(flags c g1 g2).exclude) = true ↔ codeRule c g1 g2 := by
    unfold codeRule
    exact bool_key _ _ _ _ _ _ _ _ hmask hself hpc hex
  unfold dynEntry
  dsimp only
  constructor
  · intro h; rw [if_pos (key.mpr h)]
  · intro h; rw [if_neg (fun hk => h (key.mp hk))]

/-- the explicit pairs name geoms: `pair_geom1[i]`, `pair_geom2[i]` are geom ids (an invariant of every `mjModel`).
    Nothing is assumed about `p.1 ≠ p.2`: MuJoCo compiles `<pair geom1="g" geom2="g"/>`; `put_model` rejects it. -/
def PairsInRange (c : Cfg) : Prop :=
  ∀ p ∈ c.pairs, 0 ≤ p.1 ∧ p.1 < c.ngeom ∧ 0 ≤ p.2 ∧ p.2 < c.ngeom

/-- (2a) **accepted_has_no_self_pair** (no hypothesis at all).  If the explicit-pair loop of `put_model` completes,
    no explicit pair lists a geom twice: the test `pair_geom1[i] == pair_geom2[i]` precedes every write. -/
theorem accepted_has_no_self_pair (c : Cfg) (t : List Int) (ht : pairTable c = .ok t) :
    ∀ p ∈ c.pairs, p.1 ≠ p.2 :=
  applyPairs_ok_no_self (Int.ofNat c.ngeom) c.pairs 0 (baseTable c) t ht

/-- the write index of a proper in-range pair is the triu position of the sorted pair -/
private theorem write_index (c : Cfg) (hr : PairsInRange c) :
    ∀ p ∈ c.pairs, p.1 ≠ p.2 →
      ∃ q : Nat, upperTriIndex (Int.ofNat c.ngeom) p.1 p.2 = (q : Int) ∧ q < (triu c.ngeom).length
        ∧ ∃ a b : Nat, a < b ∧ b < c.ngeom ∧ q = natIdx c.ngeom a b
            ∧ ((p.1 = a ∧ p.2 = b) ∨ (p.1 = b ∧ p.2 = a)) := by
  intro p hpm h5
  obtain ⟨h1, h2, h3, h4⟩ := hr p hpm
  obtain ⟨a, ha⟩ : ∃ a : Nat, p.1 = a := ⟨p.1.toNat, by omega⟩
  obtain ⟨b, hb⟩ : ∃ b : Nat, p.2 = b := ⟨p.2.toNat, by omega⟩
  rw [ha, hb]
  rcases Nat.lt_or_ge a b with hab | hab
  · exact ⟨natIdx c.ngeom a b, (host_upper_tri_index c.ngeom a b hab (by omega)).1,
      natIdx_lt c.ngeom a b hab (by omega), a, b, hab, by omega, rfl, Or.inl ⟨rfl, rfl⟩⟩
  · have hba : b < a := by omega
    exact ⟨natIdx c.ngeom b a, (host_upper_tri_index c.ngeom b a hba (by omega)).2,
      natIdx_lt c.ngeom b a hba (by omega), b, a, hba, by omega, rfl, Or.inr ⟨rfl, rfl⟩⟩

/-- (2b) **put_model_accepts_iff**.  For explicit pairs with geom ids in range the loop has exactly two outcomes:
    it completes iff NO explicit pair lists a geom twice, and raises NotImplementedError iff one does; IndexError
    is impossible. -/
theorem put_model_accepts_iff (c : Cfg) (hr : PairsInRange c) :
    ((∃ t, pairTable c = .ok t) ↔ ∀ p ∈ c.pairs, p.1 ≠ p.2)
    ∧ (pairTable c = .notImplemented ↔ ∃ p ∈ c.pairs, p.1 = p.2)
    ∧ pairTable c ≠ .indexError := by
  have hbase : (baseTable c).length = (triu c.ngeom).length := by simp [baseTable]
  have hok : (∀ p ∈ c.pairs, p.1 ≠ p.2) → ∃ t, pairTable c = .ok t := by
    intro hns
    obtain ⟨t, ht, -⟩ := applyPairs_spec (Int.ofNat c.ngeom) (triu c.ngeom).length c.pairs
      (fun p hpm => ⟨hns p hpm, by obtain ⟨q, h1, h2, -⟩ := write_index c hr p hpm (hns p hpm); exact ⟨q, h1, h2⟩⟩)
      0 (baseTable c) hbase
    exact ⟨t, ht⟩
  have hrej : (∃ p ∈ c.pairs, p.1 = p.2) → pairTable c = .notImplemented := fun hex =>
    applyPairs_self_rejected (Int.ofNat c.ngeom) (triu c.ngeom).length c.pairs
      (fun p hpm hne => by obtain ⟨q, h1, h2, -⟩ := write_index c hr p hpm hne; exact ⟨q, h1, h2⟩)
      hex 0 (baseTable c) hbase
  have hcases : (∀ p ∈ c.pairs, p.1 ≠ p.2) ∨ ∃ p ∈ c.pairs, p.1 = p.2 := by
    by_cases h : ∃ p ∈ c.pairs, p.1 = p.2
    · exact Or.inr h
    · exact Or.inl (fun p hpm he => h ⟨p, hpm, he⟩)
  refine ⟨⟨fun ⟨t, ht⟩ => accepted_has_no_self_pair c t ht, hok⟩, ⟨?_, hrej⟩, ?_⟩
  · intro hni
    rcases hcases with hns | hex
    · obtain ⟨t, ht⟩ := hok hns
      rw [hni] at ht; cases ht
    · exact hex
  · intro hie
    rcases hcases with hns | hex
    · obtain ⟨t, ht⟩ := hok hns
      rw [hie] at ht; cases ht
    · rw [hrej hex] at hie; cases hie

/-- (2c) **self_pair_has_no_slot**: the REASON for the rejection.  The table has one slot per unordered pair of
    DISTINCT geoms: no slot holds `(k, k)`; and the index io.py's `upper_tri_index` computes for `(k, k)`, `k < n`,
    is the slot of the unrelated pair `(k-1, n-1)` for `k ≥ 1`, and `-1` (NumPy: the LAST slot, that of
    `(n-2, n-1)`) for `k = 0` — a write there would replace the entry of two OTHER geoms (the defect repaired by
    /repo commit 6cb912c). -/
theorem self_pair_has_no_slot {K : Type} [Scalar K] (n k : Nat) (hk : k < n) :
    (∀ q (hq : q < (triu n).length), (triu n)[q] ≠ (k, k))
    ∧ (1 ≤ k → upperTriIndex n k k = Gen.Math.upper_tri_index (K := K) n ((k - 1 : Nat) : Int) ((n - 1 : Nat) : Int))
    ∧ (k = 0 → upperTriIndex n k k = -1) := by
  have h := self_pair_index n k hk
  refine ⟨?_, ?_, ?_⟩
  · intro q hq he
    have hm : (k, k) ∈ triu n := he ▸ List.getElem_mem hq
    have := (mem_triu n k k).mp hm
    omega
  · intro h1
    rw [gen_upper_tri_index n (k - 1) (n - 1) (by omega) (by omega), h, if_neg (by omega)]
  · intro h0
    rw [h, if_pos h0]

/-- (2) **pair_table_eq_spec**.  For EVERY configuration that `put_model` accepts (explicit pairs with geom ids in
    range) the table has `n(n-1)/2` entries and, for all geoms `g1 < g2 < ngeom`, the entry at the generated index is
      * the id of the LAST explicit pair that lists `{g1, g2}` in either order, if there is one
        (`explicitId`, characterised by `explicitId_some_iff`);
      * otherwise `-1` if `codeRule` holds and `-2` if it does not.
    (Which configurations are accepted: `put_model_accepts_iff`.) -/
theorem pair_table_eq_spec {K : Type} [Scalar K] (c : Cfg) (hr : PairsInRange c) (t : List Int)
    (hacc : pairTable c = .ok t) :
    2 * t.length = c.ngeom * (c.ngeom - 1) ∧
      ∀ g1 g2 : Nat, g1 < g2 → g2 < c.ngeom →
        ∃ e, t[(Gen.Math.upper_tri_index (K := K) c.ngeom g1 g2).toNat]? = some e ∧
          (∀ k, explicitId c.pairs g1 g2 = some k → e = k) ∧
          (explicitId c.pairs g1 g2 = none →
            (codeRule c g1 g2 → e = -1) ∧ (¬ codeRule c g1 g2 → e = -2)) := by
  -- acceptance excludes self pairs; hence every write index is in range
  have hns := accepted_has_no_self_pair c t hacc
  have hidx : ∀ p ∈ c.pairs, ∃ q : Nat, upperTriIndex (Int.ofNat c.ngeom) p.1 p.2 = (q : Int) ∧ q < (triu c.ngeom).length
      ∧ ∃ a b : Nat, a < b ∧ b < c.ngeom ∧ q = natIdx c.ngeom a b
          ∧ ((p.1 = a ∧ p.2 = b) ∨ (p.1 = b ∧ p.2 = a)) :=
    fun p hpm => write_index c hr p hpm (hns p hpm)
  have hbase : (baseTable c).length = (triu c.ngeom).length := by simp [baseTable]
  obtain ⟨t', ht1, ht2, ht3⟩ := applyPairs_spec (Int.ofNat c.ngeom) (triu c.ngeom).length c.pairs
    (fun p hpm => ⟨hns p hpm, by obtain ⟨q, h1, h2, -⟩ := hidx p hpm; exact ⟨q, h1, h2⟩⟩) 0 (baseTable c) hbase
  have htt : t' = t := by
    have : Outcome.ok t' = Outcome.ok t := by rw [← ht1]; exact hacc
    exact Outcome.ok.inj this
  subst htt
  refine ⟨by rw [ht2]; exact two_triu_length c.ngeom, ?_⟩
  intro g1 g2 h12 h2n
  rw [gen_upper_tri_index c.ngeom g1 g2 h12 h2n, Int.toNat_natCast]
  have hpos := natIdx_lt c.ngeom g1 g2 h12 h2n
  have hval := ht3 _ hpos
  -- the index test of the loop is the "lists {g1,g2}" test
  have hcongr : lastMatch (fun p => decide (upperTriIndex (Int.ofNat c.ngeom) p.1 p.2 = ((natIdx c.ngeom g1 g2 : Nat) : Int))) c.pairs 0
      = explicitId c.pairs g1 g2 := by
    unfold explicitId
    apply lastMatch_congr
    intro p hpm
    obtain ⟨q, hq, -, a, b, hab, hbn, hqe, hor⟩ := hidx p hpm
    rw [hq, hqe]
    by_cases hm : a = g1 ∧ b = g2
    · obtain ⟨rfl, rfl⟩ := hm
      rcases hor with ⟨e1, e2⟩ | ⟨e1, e2⟩ <;> simp [listsPair, e1, e2]
    · have hne : natIdx c.ngeom a b ≠ natIdx c.ngeom g1 g2 := fun h =>
        hm (natIdx_inj c.ngeom a b g1 g2 hab hbn h12 h2n h)
      have hne' : ¬ ((natIdx c.ngeom a b : Int) = (natIdx c.ngeom g1 g2 : Int)) := by exact_mod_cast hne
      rw [decide_eq_false hne', eq_comm, Bool.eq_false_iff]
      intro hl
      simp only [listsPair, Bool.or_eq_true, Bool.and_eq_true, beq_iff_eq] at hl
      rcases hor with ⟨e1, e2⟩ | ⟨e1, e2⟩ <;> rw [e1, e2] at hl <;> omega
  rw [hcongr] at hval
  cases hx : explicitId c.pairs g1 g2 with
  | some k =>
    rw [hx] at hval
    exact ⟨(k : Int), hval, fun k' hk' => (by cases hk'; rfl), fun h => (by cases h)⟩
  | none =>
    rw [hx] at hval
    have hb : (baseTable c)[natIdx c.ngeom g1 g2]? = some (dynEntry c g1 g2) := by
      simp only [baseTable, List.getElem?_map, triu_getElem c.ngeom g1 g2 h12 h2n, Option.map_some,
        Int.ofNat_eq_natCast]
    rw [hb] at hval
    exact ⟨dynEntry c g1 g2, hval, fun k h => (by cases h), fun _ => dynEntry_spec c g1 g2⟩

/-- (2') `explicitId pairs g1 g2 = some k` iff pair `k` lists `{g1, g2}` (either order) and no LATER pair does -/
theorem explicitId_some_iff (pairs : List (Int × Int)) (g1 g2 : Int) (k : Nat) :
    explicitId pairs g1 g2 = some k ↔
      ∃ h : k < pairs.length, listsPair g1 g2 pairs[k] = true
        ∧ ∀ k' (h' : k' < pairs.length), k < k' → listsPair g1 g2 pairs[k'] = false := by
  unfold explicitId
  rw [lastMatch_some]
  constructor
  · rintro ⟨i, hi, h⟩
    have : k = i := by omega
    subst this; exact h
  · intro h; exact ⟨k, by omega, h⟩

/-- (2'') `explicitId pairs g1 g2 = none` iff no explicit pair lists `{g1, g2}` -/
theorem explicitId_none_iff (pairs : List (Int × Int)) (g1 g2 : Int) :
    explicitId pairs g1 g2 = none ↔ ∀ p ∈ pairs, ¬ ((p.1 = g1 ∧ p.2 = g2) ∨ (p.1 = g2 ∧ p.2 = g1)) := by
  unfold explicitId
  rw [lastMatch_none]
  simp [listsPair]

/-! ## 3. The code's rule is the property's rule -/

/-- MuJoCo `filterBodyPair`, parent part: both weld bodies are not the world and one is the weld body of the
    parent of the other -/
def parentChild (c : Cfg) (w1 w2 : Int) : Prop :=
  w1 ≠ 0 ∧ w2 ≠ 0 ∧ (w1 = c.body_weldid (c.body_parentid w2) ∨ w2 = c.body_weldid (c.body_parentid w1))

/-- the body pair `{b1, b2}` is listed in an `<exclude>` (unordered) -/
def excluded (excl : List (Int × Int)) (b1 b2 : Int) : Prop := (b1, b2) ∈ excl ∨ (b2, b1) ∈ excl

/-- the property's wording, for two geoms: "the geoms pass the contype/conaffinity test, belong to different
    weld bodies, are not parent and child (unless parent filtering is disabled) and are not excluded" -/
def propertyRule (c : Cfg) (excl : List (Int × Int)) (g1 g2 : Int) : Prop :=
  (Mjw.iand (c.geom_contype g1) (c.geom_conaffinity g2) ≠ 0 ∨ Mjw.iand (c.geom_contype g2) (c.geom_conaffinity g1) ≠ 0)
  ∧ c.body_weldid (c.geom_bodyid g1) ≠ c.body_weldid (c.geom_bodyid g2)
  ∧ ¬ (c.filterparent = true ∧ parentChild c (c.body_weldid (c.geom_bodyid g1)) (c.body_weldid (c.geom_bodyid g2)))
  ∧ ¬ excluded excl (c.geom_bodyid g1) (c.geom_bodyid g2)

/-- invariants of a compiled MuJoCo model used to read the code's rule as the property's rule -/
structure Compiled (c : Cfg) (excl : List (Int × Int)) : Prop where
  /-- body ids are below 2^15 (so `(b1 << 16) + b2` does not wrap in int32) -/
  body_range : ∀ g : Nat, g < c.ngeom → 0 ≤ c.geom_bodyid g ∧ c.geom_bodyid g < 32768
  /-- geoms are stored body by body -/
  mono : ∀ g g' : Nat, g ≤ g' → g' < c.ngeom → c.geom_bodyid g ≤ c.geom_bodyid g'
  /-- the compiler stores each exclude as `(body1 << 16) + body2` with `body1 ≤ body2` -/
  excl_norm : ∀ e ∈ excl, 0 ≤ e.1 ∧ e.1 ≤ e.2 ∧ e.2 < 32768
  excl_sig : c.excludes = excl.map (fun e => e.1 * 65536 + e.2)

theorem codeRule_iff_propertyRule (c : Cfg) (excl : List (Int × Int)) (hc : Compiled c excl)
    (g1 g2 : Nat) (h12 : g1 < g2) (h2n : g2 < c.ngeom) :
    codeRule c g1 g2 ↔ propertyRule c excl g1 g2 := by
  obtain ⟨hb1a, hb1b⟩ := hc.body_range g1 (by omega)
  obtain ⟨hb2a, hb2b⟩ := hc.body_range g2 h2n
  have hm := hc.mono g1 g2 (by omega) h2n
  have hsig : signature (c.geom_bodyid g1) (c.geom_bodyid g2) ∈ c.excludes
      ↔ excluded excl (c.geom_bodyid g1) (c.geom_bodyid g2) := by
    rw [signature_eq _ _ hb1a hb1b hb2a (by omega), hc.excl_sig, List.mem_map]
    constructor
    · rintro ⟨e, he, heq⟩
      obtain ⟨h1, h2, h3⟩ := hc.excl_norm e he
      have : e = (c.geom_bodyid g1, c.geom_bodyid g2) := by
        apply Prod.ext <;> simp only <;> omega
      left; rw [← this]; exact he
    · rintro (h | h)
      · exact ⟨_, h, rfl⟩
      · obtain ⟨h1, h2, h3⟩ := hc.excl_norm _ h
        simp only at h1 h2 h3
        have : c.geom_bodyid g1 = c.geom_bodyid g2 := by omega
        exact ⟨_, h, by simp only; rw [this]⟩
  unfold codeRule propertyRule parentChild
  rw [hsig]

/-- (3) **spec_matches_property**.  For a compiled model (`Compiled`) that `put_model` accepts
    (`pairTable c = .ok t`; by `put_model_accepts_iff`: no explicit pair of a geom with itself), and all geoms
    `g1 < g2`, the table entry `e` at the generated index satisfies
      * `e ≠ -2` ("the pair may be reported") iff the pair is an explicit contact pair OR passes the property's
        dynamic rule;
      * `e ≥ 0` iff the pair is an explicit contact pair, and then `e` is a valid pair id that lists `{g1,g2}`
        (the consumers then use the PAIR's parameters: `explicit_pair_uses_pair_params`);
      * `e = -1` iff it is not explicit and passes the dynamic rule (geom parameters are mixed). -/
theorem spec_matches_property {K : Type} [Scalar K] (c : Cfg) (excl : List (Int × Int)) (hr : PairsInRange c)
    (hc : Compiled c excl) (t : List Int) (hacc : pairTable c = .ok t) :
      ∀ g1 g2 : Nat, g1 < g2 → g2 < c.ngeom →
        ∃ e, t[(Gen.Math.upper_tri_index (K := K) c.ngeom g1 g2).toNat]? = some e ∧
          let isExplicit := ∃ p ∈ c.pairs, (p.1 = g1 ∧ p.2 = g2) ∨ (p.1 = g2 ∧ p.2 = g1)
          (e ≠ -2 ↔ (isExplicit ∨ propertyRule c excl g1 g2))
          ∧ (0 ≤ e ↔ isExplicit)
          ∧ (0 ≤ e → ∃ h : e.toNat < c.pairs.length, e = e.toNat ∧ listsPair g1 g2 c.pairs[e.toNat] = true)
          ∧ (e = -1 ↔ (¬ isExplicit ∧ propertyRule c excl g1 g2)) := by
  obtain ⟨-, hspec⟩ := pair_table_eq_spec (K := K) c hr t hacc
  intro g1 g2 h12 h2n
  obtain ⟨e, he, hsome, hnone⟩ := hspec g1 g2 h12 h2n
  refine ⟨e, he, ?_⟩
  have hrule := codeRule_iff_propertyRule c excl hc g1 g2 h12 h2n
  cases hx : explicitId c.pairs g1 g2 with
  | some k =>
    have hek := hsome k hx
    obtain ⟨hk, hl, -⟩ := (explicitId_some_iff c.pairs g1 g2 k).mp hx
    have hex : ∃ p ∈ c.pairs, (p.1 = (g1 : Int) ∧ p.2 = (g2 : Int)) ∨ (p.1 = (g2 : Int) ∧ p.2 = (g1 : Int)) :=
      ⟨c.pairs[k], List.getElem_mem _, by simpa [listsPair] using hl⟩
    subst hek
    refine ⟨⟨fun _ => Or.inl hex, fun _ => by omega⟩, ⟨fun _ => hex, fun _ => by omega⟩, ?_, ?_⟩
    · intro _
      exact ⟨by simpa using hk, by simp, by simpa using hl⟩
    · constructor
      · intro h; omega
      · rintro ⟨h, -⟩; exact absurd hex h
  | none =>
    have hno := (explicitId_none_iff c.pairs g1 g2).mp hx
    have hnex : ¬ ∃ p ∈ c.pairs, (p.1 = (g1 : Int) ∧ p.2 = (g2 : Int)) ∨ (p.1 = (g2 : Int) ∧ p.2 = (g1 : Int)) := by
      rintro ⟨p, hpm, h⟩; exact hno p hpm h
    obtain ⟨hy, hn⟩ := hnone hx
    by_cases hr : codeRule c g1 g2
    · have := hy hr
      subst this
      refine ⟨⟨fun _ => Or.inr (hrule.mp hr), fun _ => by decide⟩, ⟨fun h => by omega, fun h => absurd h hnex⟩,
        fun h => by omega, ⟨fun _ => ⟨hnex, hrule.mp hr⟩, fun _ => rfl⟩⟩
    · have := hn hr
      subst this
      refine ⟨⟨fun h => absurd rfl h, ?_⟩, ⟨fun h => by omega, fun h => absurd h hnex⟩, fun h => by omega,
        ⟨fun h => by omega, fun h => absurd (hrule.mpr h.2) hr⟩⟩
      rintro (h | h)
      · exact absurd h hnex
      · exact absurd (hrule.mpr h) hr

/-! ## 4. Consumers of the table -/

/-- (4a) host side, NXN broadphase: the list `_nxn_broadphase` iterates over
    (`nxn_geom_pair_filtered`, `nxn_pairid_filtered`) contains NO entry `(c0, c1)` with `c0 ≤ -2` and `c1 < 0`,
    i.e. none that the SAP kernel's test `pairid[0] < -1 and pairid[1] < 0` would skip. -/
theorem filtered_pairs_never_emitted_nxn (n : Nat) (contact collision : List Int) :
    ∀ x ∈ filtered n contact collision, sapSkips x.2 = false := by
  unfold filtered includeMask
  generalize triu n = tr
  induction contact generalizing collision tr with
  | nil => intro x hx; simp [compress] at hx
  | cons a as ih =>
    rcases collision with _ | ⟨s, ss⟩
    · intro x hx; simp [compress] at hx
    · rcases tr with _ | ⟨p, ps⟩
      · intro x hx; simp [compress] at hx
      · intro x hx
        simp only [List.zipWith_cons_cons, List.zip_cons_cons, compress] at hx
        by_cases hinc : (decide (a > -2) || decide (s ≥ 0)) = true
        · rw [if_pos hinc] at hx
          rcases List.mem_cons.mp hx with rfl | hx'
          · simp only [sapSkips]
            simp only [Bool.or_eq_true, decide_eq_true_eq] at hinc
            simp only [Bool.and_eq_false_iff, decide_eq_false_iff_not]
            omega
          · exact ih ss ps x hx'
        · rw [if_neg hinc] at hx
          exact ih ss ps x hx

/-- (4b) the SAP gate and the host mask are exact complements -/
theorem sapSkips_iff_not_included (a s : Int) :
    sapSkips (a, s) = !(decide (a > -2) || decide (s ≥ 0)) := by
  simp only [sapSkips]
  by_cases h1 : a < -1 <;> by_cases h2 : s < 0 <;> simp [h1, h2] <;> omega

/-- (4c) **filtered_pairs_never_emitted** (generated narrowphase sink): `write_contact` called with a table entry
    `(-2, -1)` — a filtered pair without collision sensor — performs NO write (not even the `nacon` allocation)
    and returns 0, whatever the geometry. -/
theorem filtered_pairs_never_emitted {K : Type} [Scalar K] (naconmax_in : Int) (id_ : Int) (dist_in : K) (pos_in : V3 K) (frame_in : M33 K) (margin_in : K) (gap_in : K) (condim_in : Int) (friction_in : V5 K) (solref_in : V2 K) (solreffriction_in : V2 K) (solimp_in : V5 K) (adhesion_in : K) (geoms_in : I2) (worldid_in : Int) (contact_dist_out : (Int → K)) (contact_pos_out : (Int → V3 K)) (contact_frame_out : (Int → M33 K)) (contact_includemargin_out : (Int → K)) (contact_friction_out : (Int → V5 K)) (contact_solref_out : (Int → V2 K)) (contact_solreffriction_out : (Int → V2 K)) (contact_solimp_out : (Int → V5 K)) (contact_dim_out : (Int → Int)) (contact_geom_out : (Int → I2)) (contact_efc_address_out : (Int → Int → Int)) (contact_worldid_out : (Int → Int)) (contact_type_out : (Int → Int)) (contact_geomcollisionid_out : (Int → Int)) (contact_adhesion_out : (Int → K)) (nacon_out : (Int → Int)) (alloc0 : Int) (sh1 : Int) :
    Gen.Collision_core.write_contact naconmax_in id_ dist_in pos_in frame_in margin_in gap_in condim_in friction_in solref_in solreffriction_in solimp_in adhesion_in geoms_in (⟨-2, -1⟩ : I2) worldid_in contact_dist_out contact_pos_out contact_frame_out contact_includemargin_out contact_friction_out contact_solref_out contact_solreffriction_out contact_solimp_out contact_dim_out contact_geom_out contact_efc_address_out contact_worldid_out contact_type_out contact_geomcollisionid_out contact_adhesion_out nacon_out alloc0 sh1
      = ((0 : Int), []) := by
  unfold Gen.Collision_core.write_contact
  simp

/-- (4d) `_add_geom_pair` — for EVERY table entry, also `-2` — allocates exactly one slot
    (`atomic_add(ncollision_out, 0, 1)`), and, if the slot is below `naconmax`, stores the geom pair (ordered by
    geom type), the table entry `nxn_pairid[nxnid]` unchanged, and the world id; nothing else. -/
theorem add_geom_pair_allocates_one_slot {K : Type} [Scalar K] (geom_type : (Int → Int)) (nxn_pairid : (Int → I2)) (naconmax_in : Int) (geom1 : Int) (geom2 : Int) (worldid : Int) (nxnid : Int) (ncollision_out : (Int → Int)) (collision_pair_out : (Int → I2)) (collision_pairid_out : (Int → I2)) (collision_worldid_out : (Int → Int)) (alloc0 : Int) :
    Gen.Collision_driver._add_geom_pair (K := K) geom_type nxn_pairid naconmax_in geom1 geom2 worldid nxnid ncollision_out collision_pair_out collision_pairid_out collision_worldid_out alloc0
      = (Write.mk "ncollision_out" [(0 : Int)] (WVal.i (1 : Int)) WKind.alloc : Write K) ::
        (if alloc0 ≥ naconmax_in then []
         else [ (Write.mk "collision_pair_out" [alloc0]
                  (WVal.iv (if geom_type geom1 > geom_type geom2 then [geom2, geom1] else [geom1, geom2])) WKind.set : Write K),
                (Write.mk "collision_pairid_out" [alloc0] (WVal.iv [(nxn_pairid nxnid).c0, (nxn_pairid nxnid).c1]) WKind.set : Write K),
                (Write.mk "collision_worldid_out" [alloc0] (WVal.i worldid) WKind.set : Write K) ]) := by
  unfold Gen.Collision_driver._add_geom_pair
  by_cases h : alloc0 ≥ naconmax_in
  · simp [h]
  · by_cases ht : geom_type geom1 > geom_type geom2 <;> simp [h, ht, I2.toList]

/-- (4e) "explicit pairs use the pair's parameters instead of the geoms'": for a table entry `pairid ≥ 0` the
    generated parameter functions return exactly `pair_margin/gap/dim/solref/solreffriction/solimp/adhesion
    [pairid]` and `max(1e-5, pair_friction[pairid])`; no geom array is read. -/
theorem explicit_pair_uses_pair_params {K : Type} [Scalar K] (geom_condim : (Int → Int)) (geom_priority : (Int → Int)) (geom_solmix : (Int → Int → K)) (geom_solref : (Int → Int → V2 K)) (geom_solimp : (Int → Int → V5 K)) (geom_friction : (Int → Int → V3 K)) (geom_margin : (Int → Int → K)) (geom_gap : (Int → Int → K)) (geom_adhesion : (Int → Int → K)) (pair_dim : (Int → Int)) (pair_solref : (Int → Int → V2 K)) (pair_solreffriction : (Int → Int → V2 K)) (pair_solimp : (Int → Int → V5 K)) (pair_margin : (Int → Int → K)) (pair_gap : (Int → Int → K)) (pair_adhesion : (Int → Int → K)) (pair_friction : (Int → Int → V5 K)) (geoms : I2) (pairid : Int) (worldid : Int) (s0 s1 s2 s3 s4 s5 s6 s7 s8 s9 s10 s11 s12 s13 : Int) (hpair : 0 ≤ pairid) :
    Gen.Collision_core.contact_margin_gap (K := K) geom_margin geom_gap pair_margin pair_gap geoms pairid worldid s0 s1 s2 s3
      = (pair_margin (Int.tmod worldid s0) pairid, pair_gap (Int.tmod worldid s1) pairid)
    ∧ Gen.Collision_core.contact_material_params (K := K) geom_condim geom_priority geom_solmix geom_solref geom_solimp geom_friction geom_adhesion pair_dim pair_solref pair_solreffriction pair_solimp pair_adhesion pair_friction geoms pairid worldid s4 s5 s6 s7 s8 s9 s10 s11 s12 s13
      = (pair_dim pairid,
         (⟨Scalar.max (Scalar.lit 1 (-5) : K) (pair_friction (Int.tmod worldid s4) pairid).c0,
           Scalar.max (Scalar.lit 1 (-5) : K) (pair_friction (Int.tmod worldid s4) pairid).c1,
           Scalar.max (Scalar.lit 1 (-5) : K) (pair_friction (Int.tmod worldid s4) pairid).c2,
           Scalar.max (Scalar.lit 1 (-5) : K) (pair_friction (Int.tmod worldid s4) pairid).c3,
           Scalar.max (Scalar.lit 1 (-5) : K) (pair_friction (Int.tmod worldid s4) pairid).c4⟩ : V5 K),
         pair_solref (Int.tmod worldid s5) pairid, pair_solreffriction (Int.tmod worldid s6) pairid,
         pair_solimp (Int.tmod worldid s7) pairid, pair_adhesion (Int.tmod worldid s8) pairid) := by
  have h : pairid > -1 := by omega
  constructor
  · unfold Gen.Collision_core.contact_margin_gap
    simp only [h, decide_true, if_true]
  · unfold Gen.Collision_core.contact_material_params
    simp only [h, decide_true, if_true]

/-! ## Examples (hypotheses are satisfiable; concrete tables) -/

/-- world ← body1 ← body2 (chain), body3 child of world; one geom per body; all masks 1; exclude (body1, body3) -/
def exCfg (fp : Bool) (pairs : List (Int × Int)) : Cfg :=
  { ngeom := 4, geom_bodyid := asFun [0, 1, 2, 3], geom_contype := fun _ => 1, geom_conaffinity := fun _ => 1,
    body_weldid := asFun [0, 1, 2, 3], body_parentid := asFun [0, 0, 1, 0], filterparent := fp,
    pairs := pairs, excludes := [1 * 65536 + 3] }

example : pairTable (exCfg true []) = .ok [-1, -1, -1, -2, -2, -1] := by decide
example : pairTable (exCfg false []) = .ok [-1, -1, -1, -1, -2, -1] := by decide
-- hypotheses of `pair_table_eq_spec` / `spec_matches_property` are satisfiable with explicit pairs present
example : pairTable (exCfg true [(2, 1), (1, 2), (3, 0)]) = .ok [-1, -1, 2, 1, -2, -1] := by decide
example : PairsInRange (exCfg true [(2, 1), (1, 2), (3, 0)]) := by
  intro p hp
  simp only [exCfg, List.mem_cons, List.not_mem_nil, or_false] at hp
  rcases hp with rfl | rfl | rfl <;> decide
example : Compiled (exCfg true [(2, 1), (1, 2), (3, 0)]) [(1, 3)] where
  body_range := by
    intro g hg
    have : g = 0 ∨ g = 1 ∨ g = 2 ∨ g = 3 := by simp only [exCfg] at hg; omega
    rcases this with rfl | rfl | rfl | rfl <;> decide
  mono := by
    intro g g' h1 h2
    have hg' : g' = 0 ∨ g' = 1 ∨ g' = 2 ∨ g' = 3 := by simp only [exCfg] at h2; omega
    have hg : g = 0 ∨ g = 1 ∨ g = 2 ∨ g = 3 := by simp only [exCfg] at h2; omega
    rcases hg' with rfl | rfl | rfl | rfl <;> rcases hg with rfl | rfl | rfl | rfl <;> first | decide | omega
  excl_norm := by intro e he; simp only [List.mem_cons, List.not_mem_nil, or_false] at he; subst he; decide
  excl_sig := by decide
-- both sides of `put_model_accepts_iff`: a self pair (in range) is rejected, wherever it stands in the list
example : PairsInRange (exCfg true [(2, 1), (3, 3)]) := by
  intro p hp
  simp only [exCfg, List.mem_cons, List.not_mem_nil, or_false] at hp
  rcases hp with rfl | rfl <;> decide
example : pairTable (exCfg true [(2, 1), (3, 3)]) = .notImplemented := by decide
example : pairTable (exCfg true [(0, 0)]) = .notImplemented := by decide
-- ids out of range (excluded by `PairsInRange`): IndexError, or — NumPy wrap — a silent write to another slot
example : pairTable (exCfg true [(0, 7)]) = .indexError := by decide
example : pairTable (exCfg true [(-1, 2)]) = .ok [-1, -1, -1, -2, 0, -1] := by decide
-- `self_pair_has_no_slot` in numbers (n = 4): (3,3) → 5 = slot of (2,3); (0,0) → -1
example : upperTriIndex 4 3 3 = 5 ∧ (triu 4)[5]? = some (2, 3) ∧ upperTriIndex 4 0 0 = -1 := by decide
example : explicitId [(2, 1), (1, 2), (3, 0)] 1 2 = some 1 := by decide
example : (List.range 6).map (fun k => Gen.Math.upper_tri_index (K := Float) 4 ((triu 4)[k]!).1 ((triu 4)[k]!).2)
    = [0, 1, 2, 3, 4, 5] := by decide
example : filtered 3 [-2, -1, -2] [-1, -1, 0] = [((0, 2), (-1, -1)), ((1, 2), (-2, 0))] := by decide

/-! ## The mask test is a NON-ZERO test on int32 values: bit 31 (a negative AND) counts -/

/-- (5) a pair whose contype/conaffinity intersection is NEGATIVE as an int32 (bit 31 survives: `contype="-1"`, the
    "all groups" idiom, or a group on bit 31) passes the mask test exactly like a positive one; a `> 0` test in
    `put_model` would differ from this model (and from MuJoCo's `||`) on these, which the correspondence run exercises
    in rotation (`harness/props/_c19_crosscheck.py`, modes `bit31` / `mixed`). -/
theorem sign_bit_mask_passes (ct1 ca1 ct2 ca2 : Int) (h : Mjw.iand ct1 ca2 < 0 ∨ Mjw.iand ct2 ca1 < 0) :
    maskBit ct1 ca1 ct2 ca2 = true :=
  (maskBit_iff ct1 ca1 ct2 ca2).2 (h.imp (fun h => by omega) (fun h => by omega))

/-- two free bodies, one geom each, masks given per geom -/
def exMask (ct0 ca0 ct1 ca1 : Int) : Cfg :=
  { ngeom := 2, geom_bodyid := asFun [1, 2], geom_contype := asFun [ct0, ct1], geom_conaffinity := asFun [ca0, ca1],
    body_weldid := asFun [0, 1, 2], body_parentid := asFun [0, 0, 0], filterparent := true, pairs := [], excludes := [] }

-- the hypothesis of `sign_bit_mask_passes` is satisfiable, and the table keeps such pairs
example : Mjw.iand (-1) (-1) < 0 ∧ Mjw.iand (-2147483648) (-2147483647) < 0 := by decide
example : pairTable (exMask (-1) (-1) (-1) (-1)) = .ok [-1] := by decide
example : pairTable (exMask (-2147483648) 0 0 (-2147483647)) = .ok [-1] := by decide
example : pairTable (exMask (-2147483648) 0 0 2147483647) = .ok [-2] := by decide
example : pairTable (exMask (-1) 0 0 1) = .ok [-1] := by decide

end Mjw.Props.C19
