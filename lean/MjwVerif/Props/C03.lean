/-
  C03  Actuation agrees with MuJoCo C — activation part.

  Theorems about `Mjw.Gen.Support.next_act` (used by `_next_activation` in `_advance`/RK4 stages and, with
  `actearly`, by `_actuator_force`) and about the muscle helpers of `Mjw.Gen.Util_misc`, regenerated from
  /repo/mujoco_warp/_src/support.py, util_misc.py on every run, instantiated at K = ℝ.

  mjtDyn (MuJoCo 3.13): NONE 0, INTEGRATOR 1, FILTER 2, FILTEREXACT 3, MUSCLE 4, DCMOTOR 5, PID 6, USER 7.

  Transmission (`Mjw.Gen.Smooth._transmission`, smooth.py), SITE branch with a reference site: on the two-body topology of
  `Lemmas/C03Trn.lean` (one site in the world, the other on a body with one dof; all real data, world, actuator, batch sizes,
  row address, fuel arbitrary) the moment entry is the velocity of the actuated site's OWN point minus the velocity of the
  reference site's OWN point along the wrench `R_ref g` (`transmission_refsite_moment_at_refsite_point`,
  `transmission_site_moment_at_site_point`; the complete write lists are `Lemmas.C03Trn.transmission_ref_moves/_site_moves`).
  Missing: general topologies (loop invariants of the three `whileFuel` loops), rotational gear, the other transmission types
  — those are compared with MuJoCo per actuator row by the harness (transmission scenes of `harness/props/c03.py`).

  Recorded, not hidden:
  * USER (7): `next_act` returns `act_in` unchanged and UNCLAMPED (MuJoCo C integrates the callback's
    `act_dot` by Euler and clips); `next_act_in_range` therefore excludes USER
    (`C03Witness.next_act_user_not_clamped_witness`).
  * Warp `clamp(x, lo, hi) = min(max(lo, x), hi)`, C `mju_clip = max(lo, min(hi, x))`: equal iff `lo ≤ hi`
    (hypothesis of `next_act_eq_C`; an inverted range gives `hi` in Warp, `lo` in C).
  * DCMOTOR activations never go through `next_act` in `_next_activation` (own branch, see
    `C08.next_activation_dcmotor_ignores_scale`).
-/
import MjwVerif.Lemmas.Real
import MjwVerif.Spec.Integrate
import MjwVerif.Gen.Support
import MjwVerif.Gen.Util_misc
import MjwVerif.Gen.Forward
import MjwVerif.Lemmas.C03
import MjwVerif.Gen.Smooth
import MjwVerif.Lemmas.C03Trn

namespace Mjw.Props.C03
open Mjw Mjw.Gen.Support Mjw.Spec.Integrate

/-- Warp `wp.clamp` over ℝ -/
theorem clamp_real (x lo hi : ℝ) : Scalar.clamp x lo hi = min (max lo x) hi := rfl

theorem clamp_in_range (x lo hi : ℝ) (h : lo ≤ hi) : lo ≤ Scalar.clamp x lo hi ∧ Scalar.clamp x lo hi ≤ hi := by
  rw [clamp_real]
  exact ⟨le_min (le_max_left _ _) h, min_le_right _ _⟩

/-- Warp's clamp is C's `mju_clip` when the range is not inverted -/
theorem clamp_eq_clip (x lo hi : ℝ) (h : lo ≤ hi) : Scalar.clamp x lo hi = clip x lo hi := by
  rw [clamp_real]; simp only [clip, smin, smax]
  rw [max_min_distrib_left, max_eq_right h, min_comm]

/-- the time constant used by FILTEREXACT: `max(mjMINVAL, dynprm[0])` — always positive -/
noncomputable def tauOf (prm : V10 ℝ) : ℝ := max (1e-15) prm.c0

theorem tauOf_pos (prm : V10 ℝ) : 0 < tauOf prm := lt_of_lt_of_le (by norm_num) (le_max_left _ _)

/-- clamp-if -/
noncomputable def clampIf (c : Bool) (x lo hi : ℝ) : ℝ := if c then min (max lo x) hi else x

/-! ## `next_act` per dynamics type -/

/-- FILTEREXACT (3): `act + scale*act_dot*τ*(1 − exp(−dt/τ))`, `τ = max(mjMINVAL, dynprm[0])`, then
    clamped to `actrange` iff `clamp` -/
theorem next_act_filterexact (dt : ℝ) (prm : V10 ℝ) (rng : V2 ℝ) (act ad s : ℝ) (c : Bool) :
    next_act dt 3 prm rng act ad s c
      = clampIf c (act + s * ad * tauOf prm * (1 - Real.exp (-dt / tauOf prm))) rng.c0 rng.c1 := by
  unfold next_act clampIf tauOf
  simp only [decide_true, if_true, hadd, hmul, hsub, hdiv, hneg, sexp, smax, slit, clamp_real]
  norm_num

/-- USER (7): the activation is returned unchanged — and not clamped, whatever `clamp` is -/
theorem next_act_user (dt : ℝ) (prm : V10 ℝ) (rng : V2 ℝ) (act ad s : ℝ) (c : Bool) :
    next_act dt 7 prm rng act ad s c = act := by
  unfold next_act
  simp

/-- every other type — NONE (0), INTEGRATOR (1), FILTER (2), MUSCLE (4), PID (6), and DCMOTOR (5) when
    reached through `_actuator_force` — is the explicit Euler form `act + scale*act_dot*dt`, then clamped
    iff `clamp` -/
theorem next_act_euler (dt : ℝ) (dyn : Int) (prm : V10 ℝ) (rng : V2 ℝ) (act ad s : ℝ) (c : Bool)
    (h3 : dyn ≠ 3) (h7 : dyn ≠ 7) :
    next_act dt dyn prm rng act ad s c = clampIf c (act + s * ad * dt) rng.c0 rng.c1 := by
  unfold next_act clampIf
  simp only [h3, h7, decide_false, Bool.false_eq_true, if_false, hadd, hmul, clamp_real]

theorem next_act_none (dt : ℝ) (prm : V10 ℝ) (rng : V2 ℝ) (act ad s : ℝ) (c : Bool) :
    next_act dt 0 prm rng act ad s c = clampIf c (act + s * ad * dt) rng.c0 rng.c1 :=
  next_act_euler dt 0 prm rng act ad s c (by decide) (by decide)

theorem next_act_integrator (dt : ℝ) (prm : V10 ℝ) (rng : V2 ℝ) (act ad s : ℝ) (c : Bool) :
    next_act dt 1 prm rng act ad s c = clampIf c (act + s * ad * dt) rng.c0 rng.c1 :=
  next_act_euler dt 1 prm rng act ad s c (by decide) (by decide)

theorem next_act_filter (dt : ℝ) (prm : V10 ℝ) (rng : V2 ℝ) (act ad s : ℝ) (c : Bool) :
    next_act dt 2 prm rng act ad s c = clampIf c (act + s * ad * dt) rng.c0 rng.c1 :=
  next_act_euler dt 2 prm rng act ad s c (by decide) (by decide)

theorem next_act_muscle (dt : ℝ) (prm : V10 ℝ) (rng : V2 ℝ) (act ad s : ℝ) (c : Bool) :
    next_act dt 4 prm rng act ad s c = clampIf c (act + s * ad * dt) rng.c0 rng.c1 :=
  next_act_euler dt 4 prm rng act ad s c (by decide) (by decide)

/-- unclamped Euler stage form used by `C08.RkHyps.hact`: for every type except FILTEREXACT and USER,
    `next_act(…, scale = a, clamp = false) = act + dt*(a*act_dot)` -/
theorem next_act_unclamped_euler (dt : ℝ) (dyn : Int) (prm : V10 ℝ) (rng : V2 ℝ) (act ad a : ℝ)
    (h3 : dyn ≠ 3) (h7 : dyn ≠ 7) :
    next_act dt dyn prm rng act ad a false = act + dt * (a * ad) := by
  rw [next_act_euler dt dyn prm rng act ad a false h3 h7]
  simp only [clampIf, Bool.false_eq_true, if_false]; ring

/-- **next_act_eq_C**: with `act_dot_scale = 1` and a non-inverted range (or no clamping), `next_act` is
    MuJoCo C's `mj_nextActivation` for every dynamics type except USER -/
theorem next_act_eq_C (dt : ℝ) (dyn : Int) (prm : V10 ℝ) (rng : V2 ℝ) (act ad : ℝ) (c : Bool) (h7 : dyn ≠ 7)
    (hr : c = true → rng.c0 ≤ rng.c1) :
    next_act dt dyn prm rng act ad 1 c = nextActivation dyn prm.c0 c rng.c0 rng.c1 act ad dt := by
  have hcl : ∀ x : ℝ, clampIf c x rng.c0 rng.c1 = if c then clip x rng.c0 rng.c1 else x := by
    intro x; unfold clampIf
    cases c
    · simp
    · simp only [if_true]; rw [← clamp_real, clamp_eq_clip _ _ _ (hr rfl)]
  by_cases h3 : dyn = 3
  · subst h3
    rw [next_act_filterexact, hcl]
    simp only [nextActivation, DYN_FILTEREXACT, if_true, tauOf, minval, hadd, hmul, hsub, hdiv, hneg, sexp, smax, slit]
    norm_num
  · rw [next_act_euler dt dyn prm rng act ad 1 c h3 h7, hcl]
    simp only [nextActivation, DYN_FILTEREXACT, h3, if_false, hadd, hmul]
    norm_num

/-- **next_act_in_range**: with clamping requested (`actlimited`) and `lo ≤ hi`, the new activation lies
    in `[lo, hi]` — for every dynamics type except USER, every `act`, `act_dot`, scale and timestep -/
theorem next_act_in_range (dt : ℝ) (dyn : Int) (prm : V10 ℝ) (rng : V2 ℝ) (act ad s : ℝ) (h7 : dyn ≠ 7)
    (hr : rng.c0 ≤ rng.c1) :
    rng.c0 ≤ next_act dt dyn prm rng act ad s true ∧ next_act dt dyn prm rng act ad s true ≤ rng.c1 := by
  by_cases h3 : dyn = 3
  · subst h3
    rw [next_act_filterexact]; simp only [clampIf, if_true]
    exact ⟨le_min (le_max_left _ _) hr, min_le_right _ _⟩
  · rw [next_act_euler dt dyn prm rng act ad s true h3 h7]; simp only [clampIf, if_true]
    exact ⟨le_min (le_max_left _ _) hr, min_le_right _ _⟩

/-- without clamping a value already inside the range may leave it — clamping is what keeps it inside;
    conversely with `clamp = false` nothing is clipped -/
theorem next_act_no_clamp (dt : ℝ) (dyn : Int) (prm : V10 ℝ) (rng rng' : V2 ℝ) (act ad s : ℝ) :
    next_act dt dyn prm rng act ad s false = next_act dt dyn prm rng' act ad s false := by
  unfold next_act; simp

/-! ## FILTEREXACT: the exact step -/

/-- the effective step `τ(1 − exp(−dt/τ))` of the exact filter is between 0 and the Euler step `dt` -/
theorem filterexact_step_le_euler (tau dt : ℝ) (ht : 0 < tau) (hdt : 0 ≤ dt) :
    0 ≤ tau * (1 - Real.exp (-dt / tau)) ∧ tau * (1 - Real.exp (-dt / tau)) ≤ dt := by
  have hx : 0 ≤ dt / tau := div_nonneg hdt ht.le
  rw [neg_div]
  have h1 : Real.exp (-(dt / tau)) ≤ 1 := by
    rw [Real.exp_le_one_iff]; linarith
  have h2 : -(dt / tau) + 1 ≤ Real.exp (-(dt / tau)) := Real.add_one_le_exp _
  refine ⟨mul_nonneg ht.le (by linarith), ?_⟩
  have : tau * (1 - Real.exp (-(dt / tau))) ≤ tau * (dt / tau) := by
    apply mul_le_mul_of_nonneg_left _ ht.le
    linarith
  rwa [mul_div_cancel₀ _ ht.ne'] at this

/-- **filterexact_limit**: for a FILTEREXACT actuator, `_actuator_force` sets
    `act_dot = (ctrl − act)/τ` with the same `τ = max(dynprm[0], mjMINVAL)`; the unclamped exact update is then
    `ctrl + (act − ctrl)·exp(−dt/τ)`: the solution at time `dt` of `ȧ = (ctrl − a)/τ`, `a(0) = act`.
    Hence (dt ≥ 0) it lies between `act` and `ctrl` (no overshoot for ANY timestep, unlike FILTER's Euler
    step when dt > τ), it is `act` at `dt = 0`, and it tends to `ctrl` as `dt → ∞`. -/
theorem filterexact_limit (dt : ℝ) (prm : V10 ℝ) (rng : V2 ℝ) (act ctrl : ℝ) (hdt : 0 ≤ dt) :
    let r := next_act dt 3 prm rng act ((ctrl - act) / tauOf prm) 1 false
    r = ctrl + (act - ctrl) * Real.exp (-dt / tauOf prm)
    ∧ min act ctrl ≤ r ∧ r ≤ max act ctrl
    ∧ next_act 0 3 prm rng act ((ctrl - act) / tauOf prm) 1 false = act := by
  have ht := tauOf_pos prm
  have hform : ∀ t : ℝ, next_act t 3 prm rng act ((ctrl - act) / tauOf prm) 1 false
      = ctrl + (act - ctrl) * Real.exp (-t / tauOf prm) := by
    intro t
    rw [next_act_filterexact]; simp only [clampIf, Bool.false_eq_true, if_false]
    field_simp; ring
  intro r
  have hr : r = ctrl + (act - ctrl) * Real.exp (-dt / tauOf prm) := hform dt
  have he0 : 0 < Real.exp (-dt / tauOf prm) := Real.exp_pos _
  have he1 : Real.exp (-dt / tauOf prm) ≤ 1 := by
    rw [Real.exp_le_one_iff, neg_div]
    have := div_nonneg hdt ht.le; linarith
  refine ⟨hr, ?_, ?_, ?_⟩
  · rw [hr]
    rcases le_total act ctrl with h | h
    · rw [min_eq_left h]; nlinarith
    · rw [min_eq_right h]; nlinarith
  · rw [hr]
    rcases le_total act ctrl with h | h
    · rw [max_eq_right h]; nlinarith
    · rw [max_eq_left h]; nlinarith
  · rw [hform 0]; simp

/-- … and it converges to `ctrl` as the timestep grows -/
theorem filterexact_tendsto (prm : V10 ℝ) (rng : V2 ℝ) (act ctrl : ℝ) :
    Filter.Tendsto (fun dt : ℝ => next_act dt 3 prm rng act ((ctrl - act) / tauOf prm) 1 false)
      Filter.atTop (nhds ctrl) := by
  have ht := tauOf_pos prm
  have hform : (fun dt : ℝ => next_act dt 3 prm rng act ((ctrl - act) / tauOf prm) 1 false)
      = fun dt => ctrl + (act - ctrl) * Real.exp (-(dt / tauOf prm)) := by
    funext t
    rw [next_act_filterexact]; simp only [clampIf, Bool.false_eq_true, if_false]
    rw [neg_div]; field_simp; ring
  rw [hform]
  have h1 : Filter.Tendsto (fun dt : ℝ => dt / tauOf prm) Filter.atTop Filter.atTop :=
    Filter.Tendsto.atTop_div_const ht Filter.tendsto_id
  have h2 := Real.tendsto_exp_neg_atTop_nhds_zero.comp h1
  have h3 := (h2.const_mul (act - ctrl)).const_add ctrl
  simpa using h3

/-! ## muscle helpers (`util_misc.py`) -/

open Mjw.Gen.Util_misc

/-- the quintic smooth-step `_sigmoid(x) = x³(3x(2x − 5) + 10) = 6x⁵ − 15x⁴ + 10x³` on (0,1), 0 below, 1 above -/
theorem sigmoid_eq (x : ℝ) :
    _sigmoid x = if x ≤ 0 then 0 else if 1 ≤ x then 1 else x * x * x * (3 * x * (2 * x - 5) + 10) := by
  unfold _sigmoid
  simp only [sle, sge, slit, hmul, hadd, hsub]
  norm_num

/-- **sigmoid_range**: `_sigmoid x ∈ [0, 1]` for every x -/
theorem sigmoid_range (x : ℝ) : 0 ≤ _sigmoid x ∧ _sigmoid x ≤ 1 := by
  rw [sigmoid_eq]
  split_ifs with h0 h1
  · exact ⟨le_refl _, zero_le_one⟩
  · exact ⟨zero_le_one, le_refl _⟩
  · simp only [not_le] at h0 h1
    constructor
    · have : 0 < 3 * x * (2 * x - 5) + 10 := by nlinarith [sq_nonneg (4 * x - 5)]
      positivity
    · have e : 1 - x * x * x * (3 * x * (2 * x - 5) + 10) = (1 - x) ^ 3 * (6 * x ^ 2 + 3 * x + 1) := by ring
      have : 0 ≤ (1 - x) ^ 3 * (6 * x ^ 2 + 3 * x + 1) := by
        have : 0 ≤ 1 - x := by linarith
        positivity
      linarith

/-- fixed points of the smooth step -/
theorem sigmoid_values : _sigmoid (0:ℝ) = 0 ∧ _sigmoid (1:ℝ) = 1 ∧ _sigmoid (1/2 : ℝ) = 1/2 := by
  refine ⟨?_, ?_, ?_⟩ <;> rw [sigmoid_eq] <;> norm_num

/-- the quintic `6x⁵ − 15x⁴ + 10x³` is monotone on all of ℝ (its derivative is `30x²(1−x)²`; the identity below
    writes the difference as `(y−x)·30·∫₀¹ (t(1−t))² ds` with the integral expanded as a sum of squares) -/
theorem quintic_mono (x y : ℝ) (h : x ≤ y) :
    x * x * x * (3 * x * (2 * x - 5) + 10) ≤ y * y * y * (3 * y * (2 * y - 5) + 10) := by
  have key : y * y * y * (3 * y * (2 * y - 5) + 10) - x * x * x * (3 * x * (2 * x - 5) + 10)
      = (y - x) * (30 * ((x * (1 - x) + (y - x) * (1 - 2 * x) / 2 + (-(y - x) ^ 2) / 3) ^ 2
          + ((y - x) * (1 - 2 * x) + (-(y - x) ^ 2)) ^ 2 / 12 + (-(y - x) ^ 2) ^ 2 / 180)) := by ring
  have : 0 ≤ (y - x) * (30 * ((x * (1 - x) + (y - x) * (1 - 2 * x) / 2 + (-(y - x) ^ 2) / 3) ^ 2
          + ((y - x) * (1 - 2 * x) + (-(y - x) ^ 2)) ^ 2 / 12 + (-(y - x) ^ 2) ^ 2 / 180)) := by
    apply mul_nonneg (by linarith)
    positivity
  linarith

/-- **sigmoid_monotone**: `_sigmoid` is monotone on all of ℝ -/
theorem sigmoid_monotone (x y : ℝ) (h : x ≤ y) : _sigmoid x ≤ _sigmoid y := by
  by_cases hx : x ≤ 0
  · have : _sigmoid x = 0 := by rw [sigmoid_eq, if_pos hx]
    rw [this]; exact (sigmoid_range y).1
  · by_cases hy : 1 ≤ y
    · have : _sigmoid y = 1 := by
        rw [sigmoid_eq, if_neg (by linarith), if_pos hy]
      rw [this]; exact (sigmoid_range x).2
    · have hy0 : ¬ y ≤ 0 := by linarith
      have hx1 : ¬ 1 ≤ x := by linarith
      rw [sigmoid_eq, sigmoid_eq, if_neg hx, if_neg hx1, if_neg hy0, if_neg hy]
      exact quintic_mono x y h

/-- **muscle_gain_length_range**: the force–length curve `FL ∈ [0, 1]` for every length and every `lmin`, `lmax` -/
theorem muscle_gain_length_range (len lmin lmax : ℝ) :
    0 ≤ muscle_gain_length len lmin lmax ∧ muscle_gain_length len lmin lmax ≤ 1 := by
  unfold muscle_gain_length
  simp only [Bool.or_eq_true, sgt, sle, slit, hmul, hadd, hsub, hdiv, smax]
  norm_num
  -- x² ≤ 1 for each of the four normalised arguments
  have key : ∀ num den : ℝ, 0 ≤ num → num ≤ den →
      0 ≤ 1 / 2 * (num / max (1 / 1000000000000000) den) * (num / max (1 / 1000000000000000) den)
      ∧ 1 / 2 * (num / max (1 / 1000000000000000) den) * (num / max (1 / 1000000000000000) den) ≤ 1 / 2 := by
    intro num den h0 h1
    have hm : (0:ℝ) < max (1 / 1000000000000000) den := lt_of_lt_of_le (by norm_num) (le_max_left _ _)
    have hx0 : 0 ≤ num / max (1 / 1000000000000000) den := div_nonneg h0 hm.le
    have hx1 : num / max (1 / 1000000000000000) den ≤ 1 := by
      rw [div_le_one hm]; exact le_trans h1 (le_max_right _ _)
    constructor
    · positivity
    · nlinarith
  split_ifs with h1 h2 h3 h4
  · exact ⟨le_refl _, zero_le_one⟩
  · simp only [not_or, not_lt] at h1
    obtain ⟨k0, k1⟩ := key (len - lmin) (1 / 2 * (lmin + 1) - lmin) (by linarith [h1.1]) (by linarith)
    exact ⟨k0, by linarith⟩
  · simp only [not_le, not_or, not_lt] at h1 h2
    obtain ⟨k0, k1⟩ := key (1 - len) (1 - 1 / 2 * (lmin + 1)) (by linarith) (by linarith)
    exact ⟨by linarith, by linarith⟩
  · simp only [not_le, not_or, not_lt] at h1 h2 h3
    obtain ⟨k0, k1⟩ := key (len - 1) (1 / 2 * (1 + lmax) - 1) (by linarith) (by linarith)
    exact ⟨by linarith, by linarith⟩
  · simp only [not_le, not_or, not_lt] at h1 h2 h3 h4
    obtain ⟨k0, k1⟩ := key (lmax - len) (lmax - 1 / 2 * (1 + lmax)) (by linarith [h1.2]) (by linarith)
    exact ⟨k0, by linarith⟩


/-- peak force `F0` used by `muscle_gain`/`muscle_bias`: `prm[2]`, or `scale / max(mjMINVAL, acc0)` if `prm[2] < 0` -/
noncomputable def muscleF0 (acc0 : ℝ) (prm : V10 ℝ) : ℝ := if prm.c2 < 0 then prm.c3 / max (1e-15) acc0 else prm.c2

/-- **muscle_bias_nonpos**: the passive muscle force is never positive (it pulls), for every length, if the
    peak force `F0` and `fpmax = prm[7]` are non-negative -/
theorem muscle_bias_nonpos (len : ℝ) (lr : V2 ℝ) (acc0 : ℝ) (prm : V10 ℝ) (hF : 0 ≤ muscleF0 acc0 prm) (hp : 0 ≤ prm.c7) :
    muscle_bias len lr acc0 prm ≤ 0 := by
  have hm : ∀ d : ℝ, (0:ℝ) < max (1 / 1000000000000000) d := fun d => lt_of_lt_of_le (by norm_num) (le_max_left _ _)
  have leaf2 : ∀ F X : ℝ, 0 ≤ F → -(F * prm.c7 * (1 / 2) * X * X) ≤ 0 := by
    intro F X hF
    have := mul_nonneg (mul_nonneg hF hp) (mul_self_nonneg X)
    nlinarith
  have leaf3 : ∀ F X : ℝ, 0 ≤ F → 0 ≤ X → -(F * prm.c7 * (1 / 2 + X)) ≤ 0 := by
    intro F X hF hX
    have := mul_nonneg (mul_nonneg hF hp) (by linarith : (0:ℝ) ≤ 1 / 2 + X)
    linarith
  unfold muscle_bias
  unfold muscleF0 at hF
  by_cases hc : prm.c2 < 0 <;>
  · simp only [slt, sle, slit, hmul, hadd, hsub, hdiv, hneg, smax]
    norm_num [hc] at hF ⊢
    split_ifs with h1 h2
    · exact le_refl _
    · exact leaf2 _ _ hF
    · simp only [not_le] at h1 h2
      exact leaf3 _ _ hF (div_nonneg (by linarith) (hm _).le)

/-! ## `_actuator_force`: control clamping and force limits (kernel level) -/

open Mjw.Lemmas.C03 in
/-- **ctrl_clamp_in_range**: (a) an `_actuator_force` task `(w, u)` performs exactly the writes of the task
    of an unlimited actuator fed with the control `c* = usedCtrl(…)`, i.e. the kernel uses `ctrl[w,u]` only
    through `c*`;  (b) with `ctrllimited[u]`, the CLAMPCTRL disable flag clear and `lo ≤ hi`, `c*` lies in
    `ctrlrange = [lo, hi]`;  (c) if the actuator is not `ctrllimited`, or the CLAMPCTRL disable flag is set,
    `c*` is the raw control. -/
theorem ctrl_clamp_in_range (na : Int) (opt_timestep : Int → ℝ) (actuator_dyntype actuator_gaintype actuator_biastype actuator_actadr
    actuator_actnum : Int → Int) (actuator_dynprm actuator_gainprm actuator_biasprm : Int → Int → V10 ℝ)
    (actuator_actlimited : Int → Bool) (actuator_actrange : Int → Int → V2 ℝ) (actuator_actearly actuator_forcelimited
    : Int → Bool) (actuator_forcerange : Int → Int → V2 ℝ) (actuator_ctrllimited : Int → Bool) (actuator_ctrlrange :
    Int → Int → V2 ℝ) (actuator_acc0 : Int → Int → ℝ) (actuator_lengthrange : Int → Int → V2 ℝ) (act_in ctrl_in
    actuator_length_in actuator_velocity_in : Int → Int → ℝ) (dsbl_clampctrl : Int) (act_dot_out actuator_force_out :
    Int → Int → ℝ) (s0 s1 s2 s3 s4 s5 s6 s7 s8 : Int) (w u : Int) :
    let rng := actuator_ctrlrange (Int.tmod w s0) u
    let c := usedCtrl (actuator_ctrllimited u) dsbl_clampctrl (ctrl_in w u) rng
    Gen.Forward._actuator_force na opt_timestep actuator_dyntype actuator_gaintype actuator_biastype actuator_actadr
      actuator_actnum actuator_dynprm actuator_gainprm actuator_biasprm actuator_actlimited actuator_actrange
      actuator_actearly actuator_forcelimited actuator_forcerange actuator_ctrllimited actuator_ctrlrange
      actuator_acc0 actuator_lengthrange act_in ctrl_in actuator_length_in actuator_velocity_in dsbl_clampctrl
      act_dot_out actuator_force_out s0 s1 s2 s3 s4 s5 s6 s7 s8 w u
    = Gen.Forward._actuator_force na opt_timestep actuator_dyntype actuator_gaintype actuator_biastype actuator_actadr
      actuator_actnum actuator_dynprm actuator_gainprm actuator_biasprm actuator_actlimited actuator_actrange
      actuator_actearly actuator_forcelimited actuator_forcerange (fun _ => false) actuator_ctrlrange actuator_acc0
      actuator_lengthrange act_in (fun _ _ => c) actuator_length_in actuator_velocity_in dsbl_clampctrl act_dot_out
      actuator_force_out s0 s1 s2 s3 s4 s5 s6 s7 s8 w u
    ∧ (actuator_ctrllimited u = true → dsbl_clampctrl = 0 → rng.c0 ≤ rng.c1 → rng.c0 ≤ c ∧ c ≤ rng.c1)
    ∧ ((actuator_ctrllimited u = false ∨ dsbl_clampctrl ≠ 0) → c = ctrl_in w u) := by
  intro rng c
  refine ⟨actuator_force_ctrl_clamp .., ?_, ?_⟩
  · intro h1 h2 h3
    simp only [c, usedCtrl, h1, h2]
    exact clamp_in_range _ _ _ h3
  · intro h
    simp only [c, usedCtrl]
    rcases h with h | h
    · simp [h]
    · simp [h]

open Mjw.Lemmas.C03 in
/-- **force_in_range**: with `forcelimited[u]`, a bias type other than DCMOTOR (3) and `lo ≤ hi`, the value an
    `_actuator_force` task stores into `actuator_force[w, u]` (its last write) lies in `forcerange = [lo, hi]`.
    (For the DCMOTOR bias type the cogging torque and the LuGre friction are added AFTER the clamp — on
    purpose, "not subject to current limits" — and the stored force can leave the range:
    `C03Witness.force_dcmotor_not_in_range_witness`.) -/
theorem force_in_range (na : Int) (opt_timestep : Int → ℝ) (actuator_dyntype actuator_gaintype actuator_biastype actuator_actadr
    actuator_actnum : Int → Int) (actuator_dynprm actuator_gainprm actuator_biasprm : Int → Int → V10 ℝ)
    (actuator_actlimited : Int → Bool) (actuator_actrange : Int → Int → V2 ℝ) (actuator_actearly actuator_forcelimited
    : Int → Bool) (actuator_forcerange : Int → Int → V2 ℝ) (actuator_ctrllimited : Int → Bool) (actuator_ctrlrange :
    Int → Int → V2 ℝ) (actuator_acc0 : Int → Int → ℝ) (actuator_lengthrange : Int → Int → V2 ℝ) (act_in ctrl_in
    actuator_length_in actuator_velocity_in : Int → Int → ℝ) (dsbl_clampctrl : Int) (act_dot_out actuator_force_out :
    Int → Int → ℝ) (s0 s1 s2 s3 s4 s5 s6 s7 s8 : Int) (w u : Int)
    (hlim : actuator_forcelimited u = true) (hb : actuator_biastype u ≠ 3)
    (hr : (actuator_forcerange (Int.tmod w s8) u).c0 ≤ (actuator_forcerange (Int.tmod w s8) u).c1) :
    ∃ (ws0 : List (Write ℝ)) (F : ℝ),
    Gen.Forward._actuator_force na opt_timestep actuator_dyntype actuator_gaintype actuator_biastype actuator_actadr
      actuator_actnum actuator_dynprm actuator_gainprm actuator_biasprm actuator_actlimited actuator_actrange
      actuator_actearly actuator_forcelimited actuator_forcerange actuator_ctrllimited actuator_ctrlrange
      actuator_acc0 actuator_lengthrange act_in ctrl_in actuator_length_in actuator_velocity_in dsbl_clampctrl
      act_dot_out actuator_force_out s0 s1 s2 s3 s4 s5 s6 s7 s8 w u
      = ws0 ++ [Write.mk "actuator_force_out" [w, u] (WVal.f F) WKind.set]
    ∧ (actuator_forcerange (Int.tmod w s8) u).c0 ≤ F ∧ F ≤ (actuator_forcerange (Int.tmod w s8) u).c1 := by
  obtain ⟨ws0, gain, ctrl_act, bias, z, z_dot, dynprm, h⟩ := actuator_force_shape na opt_timestep actuator_dyntype
    actuator_gaintype actuator_biastype actuator_actadr actuator_actnum actuator_dynprm actuator_gainprm actuator_biasprm
    actuator_actlimited actuator_actrange actuator_actearly actuator_forcelimited actuator_forcerange actuator_ctrllimited
    actuator_ctrlrange actuator_acc0 actuator_lengthrange act_in ctrl_in actuator_length_in actuator_velocity_in
    dsbl_clampctrl act_dot_out actuator_force_out s0 s1 s2 s3 s4 s5 s6 s7 s8 w u
  refine ⟨ws0, _, h, ?_⟩
  simp only [forceTail, hlim, hb, if_true, if_false]
  exact clamp_in_range _ _ _ hr

open Mjw.Lemmas.C03 in
/-- without `forcelimited` (and a non-DCMOTOR bias) the stored force is exactly `gain*ctrl_act + bias` -/
theorem force_unlimited (na : Int) (opt_timestep : Int → ℝ) (actuator_dyntype actuator_gaintype actuator_biastype actuator_actadr
    actuator_actnum : Int → Int) (actuator_dynprm actuator_gainprm actuator_biasprm : Int → Int → V10 ℝ)
    (actuator_actlimited : Int → Bool) (actuator_actrange : Int → Int → V2 ℝ) (actuator_actearly actuator_forcelimited
    : Int → Bool) (actuator_forcerange : Int → Int → V2 ℝ) (actuator_ctrllimited : Int → Bool) (actuator_ctrlrange :
    Int → Int → V2 ℝ) (actuator_acc0 : Int → Int → ℝ) (actuator_lengthrange : Int → Int → V2 ℝ) (act_in ctrl_in
    actuator_length_in actuator_velocity_in : Int → Int → ℝ) (dsbl_clampctrl : Int) (act_dot_out actuator_force_out :
    Int → Int → ℝ) (s0 s1 s2 s3 s4 s5 s6 s7 s8 : Int) (w u : Int)
    (hlim : actuator_forcelimited u = false) (hb : actuator_biastype u ≠ 3) :
    ∃ (ws0 : List (Write ℝ)) (gain ctrl_act bias : ℝ),
    Gen.Forward._actuator_force na opt_timestep actuator_dyntype actuator_gaintype actuator_biastype actuator_actadr
      actuator_actnum actuator_dynprm actuator_gainprm actuator_biasprm actuator_actlimited actuator_actrange
      actuator_actearly actuator_forcelimited actuator_forcerange actuator_ctrllimited actuator_ctrlrange
      actuator_acc0 actuator_lengthrange act_in ctrl_in actuator_length_in actuator_velocity_in dsbl_clampctrl
      act_dot_out actuator_force_out s0 s1 s2 s3 s4 s5 s6 s7 s8 w u
      = ws0 ++ [Write.mk "actuator_force_out" [w, u] (WVal.f (gain * ctrl_act + bias)) WKind.set] := by
  obtain ⟨ws0, gain, ctrl_act, bias, z, z_dot, dynprm, h⟩ := actuator_force_shape na opt_timestep actuator_dyntype
    actuator_gaintype actuator_biastype actuator_actadr actuator_actnum actuator_dynprm actuator_gainprm actuator_biasprm
    actuator_actlimited actuator_actrange actuator_actearly actuator_forcelimited actuator_forcerange actuator_ctrllimited
    actuator_ctrlrange actuator_acc0 actuator_lengthrange act_in ctrl_in actuator_length_in actuator_velocity_in
    dsbl_clampctrl act_dot_out actuator_force_out s0 s1 s2 s3 s4 s5 s6 s7 s8 w u
  refine ⟨ws0, gain, ctrl_act, bias, ?_⟩
  rw [h]
  simp [forceTail, hlim, hb]

/-! ## Non-vacuity -/

/-- a limited filter-exact actuator: τ = 0.1, dt = 0.01, range [0, 1] -/
example : (0:ℝ) ≤ 1 ∧ (3:Int) ≠ 7 := by constructor <;> norm_num

/-- `next_act_in_range` instantiated: an integrator pushed far above its range lands on `hi` -/
example : next_act (1:ℝ) 1 (V10.zero) ⟨0, 1⟩ (1/2) 100 1 true = 1 := by
  rw [next_act_integrator]; norm_num [clampIf]

/-- … and unclamped it leaves the range -/
example : next_act (1:ℝ) 1 (V10.zero) ⟨0, 1⟩ (1/2) 100 1 false = 100.5 := by
  rw [next_act_integrator]; norm_num [clampIf]

/-- `ctrl_clamp_in_range` / `force_in_range` on a concrete task: no activation state, FIXED gain 2, no bias,
    ctrl = 10 with `ctrlrange = [-1, 1]`, `forcerange = [-1.5, 1.5]`: control used 1, force 2·1 clamped to 1.5 -/
example :
    Gen.Forward._actuator_force (K := ℝ) 0 (fun _ => 1) (fun _ => 0) (fun _ => 0) (fun _ => 0) (fun _ => -1) (fun _ => 0)
      (fun _ _ => V10.zero) (fun _ _ => ⟨2, 0, 0, 0, 0, 0, 0, 0, 0, 0⟩) (fun _ _ => V10.zero)
      (fun _ => false) (fun _ _ => ⟨0, 0⟩) (fun _ => false) (fun _ => true) (fun _ _ => ⟨-1.5, 1.5⟩) (fun _ => true)
      (fun _ _ => ⟨-1, 1⟩) (fun _ _ => 0) (fun _ _ => ⟨0, 0⟩) (fun _ _ => 0) (fun _ _ => 10) (fun _ _ => 0) (fun _ _ => 0) 0
      (fun _ _ => 0) (fun _ _ => 0) 1 1 1 1 1 1 1 1 1 0 0
    = [Write.mk "actuator_force_out" [0, 0] (WVal.f 1.5) WKind.set] := by
  unfold Gen.Forward._actuator_force
  simp [V10.zero, V10.fill, Scalar.clamp]
  norm_num

/-- the same task with the CLAMPCTRL disable flag set (256) and no force limit: the raw control is used, force 20 -/
example :
    Gen.Forward._actuator_force (K := ℝ) 0 (fun _ => 1) (fun _ => 0) (fun _ => 0) (fun _ => 0) (fun _ => -1) (fun _ => 0)
      (fun _ _ => V10.zero) (fun _ _ => ⟨2, 0, 0, 0, 0, 0, 0, 0, 0, 0⟩) (fun _ _ => V10.zero)
      (fun _ => false) (fun _ _ => ⟨0, 0⟩) (fun _ => false) (fun _ => false) (fun _ _ => ⟨-1.5, 1.5⟩) (fun _ => true)
      (fun _ _ => ⟨-1, 1⟩) (fun _ _ => 0) (fun _ _ => ⟨0, 0⟩) (fun _ _ => 0) (fun _ _ => 10) (fun _ _ => 0) (fun _ _ => 0) 256
      (fun _ _ => 0) (fun _ _ => 0) 1 1 1 1 1 1 1 1 1 0 0
    = [Write.mk "actuator_force_out" [0, 0] (WVal.f 20) WKind.set] := by
  unfold Gen.Forward._actuator_force
  simp [V10.zero, V10.fill]
  norm_num

/-! ## Site transmission with a reference site: which point each Jacobian column is taken at -/

open Mjw.Lemmas.C03Trn in
/-- `_transmission`, SITE branch with a reference site, translational gear, on the two-body topology of
    `Lemmas/C03Trn.lean` (actuated site 0 in the world, REFERENCE site 1 on body 1 which owns dof 0), all real data,
    world, actuator, batch sizes, row address and fuel ≥ 2 arbitrary: the single moment entry is
    `−(v + ω × (p_ref − c)) · (R_ref g)` with `(ω, v) = cdof[0]`, `c = subtree_com[root of body 1]`, `p_ref`, `R_ref` the
    frame of the REFERENCE site — minus the velocity of the reference site's own point along the wrench.
    (Evaluating the column at the actuated site's position instead changes the value whenever `ω × (p_site − p_ref)`
    has a component along the wrench; see the example below.) -/
theorem transmission_refsite_moment_at_refsite_point
    (nv : Int) (bp br dofbody : Int → Int) (anc : Int → Int → Int) (jt jq jd : Int → Int)
    (squat : Int → Int → Q ℝ) (tn ta tc : Int → Int) (crank : Int → Int → ℝ) (gear : Int → Int → V6 ℝ)
    (qpos : Int → Int → ℝ) (xquat : Int → Int → Q ℝ) (sxpos : Int → Int → V3 ℝ) (sxmat : Int → Int → M33 ℝ)
    (com : Int → Int → V3 ℝ) (cdof : Int → Int → V6 ℝ) (tJ tL : Int → Int → ℝ) (mnnz : Int → Int)
    (lo : Int → Int → ℝ) (rn ra rc : Int → Int → Int) (mo : Int → Int → ℝ)
    (gs a0 a1 a2 cs a3 a4 a5 qs a6 a7 : Int) (fuel : Nat) (w a : Int)
    (hg0 : (gear (Int.tmod w gs) a).c0 ≠ 0)
    (hg3 : (gear (Int.tmod w gs) a).c3 = 0) (hg4 : (gear (Int.tmod w gs) a).c4 = 0) (hg5 : (gear (Int.tmod w gs) a).c5 = 0)
    (hworld : anc 0 0 = 0) (hbody : anc 1 0 ≠ 0) :
    Write.mk "actuator_moment_out" [w, a7]
        (WVal.f (-(((cdof w 0).bottom.add ((cdof w 0).top.cross ((sxpos w 1).sub (com w (br 1))))).dot
                    ((sxmat w 1).mulVec (gear (w.tmod gs) a).top)))) WKind.set
      ∈ Gen.Smooth._transmission (K := ℝ) nv bp br (fun b => b) dofnum dofadr jt jq jd dofbody (fun _ => -1) (fun s => s) squat tn ta tc
          (fun _ => 4) (fun _ => ⟨0, 1⟩) crank gear anc qpos xquat sxpos sxmat com cdof tJ tL mnnz lo rn ra rc mo
          gs a0 a1 a2 cs a3 a4 a5 qs a6 a7 (fuel + 2) w a := by
  rw [transmission_ref_moves nv bp br dofbody anc jt jq jd squat tn ta tc crank gear qpos xquat sxpos sxmat com cdof tJ tL mnnz
        lo rn ra rc mo gs a0 a1 a2 cs a3 a4 a5 qs a6 a7 fuel w a hg0 hg3 hg4 hg5]
  simp only [List.mem_cons, List.mem_nil_iff, or_false]
  right; right; right; right; right
  simp only [jac_dof, hworld, hbody, decide_true, decide_false, if_true, if_false, Bool.false_eq_true]
  congr 2
  simp only [V3.dot, V3.sub, V3.fill, V3.add, slit, hadd, hsub, hmul]
  ring

open Mjw.Lemmas.C03Trn in
/-- the mirrored topology (ACTUATED site 1 on the moving body, reference site 0 in the world): the moment entry is
    `+(v + ω × (p_site − c)) · (R_ref g)`, the velocity of the actuated site's own point along the wrench, the wrench being
    the gear expressed in the (here fixed) reference frame -/
theorem transmission_site_moment_at_site_point
    (nv : Int) (bp br dofbody : Int → Int) (anc : Int → Int → Int) (jt jq jd : Int → Int)
    (squat : Int → Int → Q ℝ) (tn ta tc : Int → Int) (crank : Int → Int → ℝ) (gear : Int → Int → V6 ℝ)
    (qpos : Int → Int → ℝ) (xquat : Int → Int → Q ℝ) (sxpos : Int → Int → V3 ℝ) (sxmat : Int → Int → M33 ℝ)
    (com : Int → Int → V3 ℝ) (cdof : Int → Int → V6 ℝ) (tJ tL : Int → Int → ℝ) (mnnz : Int → Int)
    (lo : Int → Int → ℝ) (rn ra rc : Int → Int → Int) (mo : Int → Int → ℝ)
    (gs a0 a1 a2 cs a3 a4 a5 qs a6 a7 : Int) (fuel : Nat) (w a : Int)
    (hg0 : (gear (Int.tmod w gs) a).c0 ≠ 0)
    (hg3 : (gear (Int.tmod w gs) a).c3 = 0) (hg4 : (gear (Int.tmod w gs) a).c4 = 0) (hg5 : (gear (Int.tmod w gs) a).c5 = 0)
    (hworld : anc 0 0 = 0) (hbody : anc 1 0 ≠ 0) :
    Write.mk "actuator_moment_out" [w, a7]
        (WVal.f (((cdof w 0).bottom.add ((cdof w 0).top.cross ((sxpos w 1).sub (com w (br 1))))).dot
                  ((sxmat w 0).mulVec (gear (w.tmod gs) a).top))) WKind.set
      ∈ Gen.Smooth._transmission (K := ℝ) nv bp br (fun b => b) dofnum dofadr jt jq jd dofbody (fun _ => -1) (fun s => s) squat tn ta tc
          (fun _ => 4) (fun _ => ⟨1, 0⟩) crank gear anc qpos xquat sxpos sxmat com cdof tJ tL mnnz lo rn ra rc mo
          gs a0 a1 a2 cs a3 a4 a5 qs a6 a7 (fuel + 2) w a := by
  rw [transmission_site_moves nv bp br dofbody anc jt jq jd squat tn ta tc crank gear qpos xquat sxpos sxmat com cdof tJ tL mnnz
        lo rn ra rc mo gs a0 a1 a2 cs a3 a4 a5 qs a6 a7 fuel w a hg0 hg3 hg4 hg5]
  simp only [List.mem_cons, List.mem_nil_iff, or_false]
  right; right; right; right; right
  simp only [jac_dof, hworld, hbody, decide_true, decide_false, if_true, if_false, Bool.false_eq_true]
  congr 2
  simp only [V3.dot, V3.sub, V3.fill, V3.add, slit, hadd, hsub, hmul]
  ring

open Mjw.Lemmas.C03Trn in
/-- non-vacuity and sensitivity: body 1 turns about the world z axis through the origin (`cdof = (0,0,1; 0,0,0)`,
    `subtree_com = 0`), reference site at `(1,0,0)` with identity frame, actuated site at the origin, gear `(1,1,0; 0,0,0)`:
    the moment is `−((0,0,1) × (1,0,0)) · (1,1,0) = −1`.  Taken at the actuated site's position it would be `0`. -/
example :
    Write.mk "actuator_moment_out" [0, 7] (WVal.f (-1 : ℝ)) WKind.set
      ∈ Gen.Smooth._transmission (K := ℝ) 1 (fun _ => 0) (fun b => b) (fun b => b) dofnum dofadr (fun _ => 3) (fun _ => 0) (fun _ => 0)
          (fun _ => 1) (fun _ => -1) (fun s => s) (fun _ _ => ⟨1, 0, 0, 0⟩) (fun _ => 0) (fun _ => 0) (fun _ => 0)
          (fun _ => 4) (fun _ => ⟨0, 1⟩) (fun _ _ => 0) (fun _ _ => ⟨1, 1, 0, 0, 0, 0⟩) (fun b _ => if b = 1 then 1 else 0)
          (fun _ _ => 0) (fun _ _ => ⟨1, 0, 0, 0⟩) (fun _ s => if s = 1 then ⟨1, 0, 0⟩ else ⟨0, 0, 0⟩) (fun _ _ => ⟨1, 0, 0, 0, 1, 0, 0, 0, 1⟩)
          (fun _ _ => ⟨0, 0, 0⟩) (fun _ _ => ⟨0, 0, 1, 0, 0, 0⟩) (fun _ _ => 0) (fun _ _ => 0) (fun _ => 0)
          (fun _ _ => 0) (fun _ _ => 0) (fun _ _ => 0) (fun _ _ => 0) (fun _ _ => 0)
          1 0 0 0 1 0 0 0 1 0 7 (0 + 2) 0 0 := by
  have h := transmission_refsite_moment_at_refsite_point 1 (fun _ => 0) (fun b => b) (fun _ => 1) (fun b _ => if b = 1 then 1 else 0)
    (fun _ => 3) (fun _ => 0) (fun _ => 0) (fun _ _ => ⟨1, 0, 0, 0⟩) (fun _ => 0) (fun _ => 0) (fun _ => 0) (fun _ _ => 0)
    (fun _ _ => ⟨1, 1, 0, 0, 0, 0⟩) (fun _ _ => 0) (fun _ _ => ⟨1, 0, 0, 0⟩) (fun _ s => if s = 1 then ⟨1, 0, 0⟩ else ⟨0, 0, 0⟩)
    (fun _ _ => ⟨1, 0, 0, 0, 1, 0, 0, 0, 1⟩) (fun _ _ => ⟨0, 0, 0⟩) (fun _ _ => ⟨0, 0, 1, 0, 0, 0⟩) (fun _ _ => 0) (fun _ _ => 0) (fun _ => 0)
    (fun _ _ => 0) (fun _ _ => 0) (fun _ _ => 0) (fun _ _ => 0) (fun _ _ => 0) 1 0 0 0 1 0 0 0 1 0 7 0 0 0
    (by norm_num) rfl rfl rfl (by simp) (by simp)
  simpa [V3.dot, V3.sub, V3.add, V3.cross, V6.top, V6.bottom, M33.mulVec] using h

end Mjw.Props.C03
