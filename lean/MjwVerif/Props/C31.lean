/-
  C31  Host/device conversion is faithful.                                                    (C31_partial)

  `put_data` / `get_data_into` are host NumPy code; the kernel translator does not translate it, so there is no
  `Mjw.Gen.*` definition to state theorems about.  The theorems below are about the hand-written executable model
  `Mjw.IoOrder` (Model/IoOrder.lean, core-only) of exactly the index computations of io.py (contact replication,
  `contact.efc_address` table, `worldid` selection, `efc_idx`, `contact_efc_address_ordered`, NumPy negative-index wrap and
  `dst[:] = v` shape rule).  The model is tied to the source on every run by `harness/props/c31.py`: the integer inputs of
  real `put_data` / `get_data_into` calls (random scenes, both cones, several worlds, after `mj_forward` and after
  `mjw.step`) are sent to `Mjw.IoOrder.proto` (Driver/ProtoIo.lean) and every answer is compared with the real arrays.
  Payloads (`α`: all other contact columns, `β`: all efc columns incl. the J row) are abstract: the theorems hold for
  every payload type, i.e. the conversion moves whole rows and never mixes columns.

  Proved (for ALL lists / sizes / world counts / capacities):
  1 `roundtrip`                 ANY MjData obeying MuJoCo's layout invariant `Host.WF` (an excluded contact has efc_address -1
                                and no rows; the included contacts' blocks are contiguous from ne+nf+nl in contact order;
                                nefc = ne+nf+nl+Σ ndim of the included; nefc ≤ njmax): `get (put h) w = h` for EVERY world
                                `w < nworld`, any naconmax/njmax, nmaxpyramid ≥ 1, both cones — contacts (all columns, MuJoCo's
                                order, efc_address incl. the -1 of excluded contacts), efc rows, J rows, ne/nf/nl.
                                (Before repo commit e4120b4 "fix: get_data_into used the -1 efc_address of a contact without
                                constraint rows as a row index" this was FALSE for MjData with an excluded contact; the defect
                                was found by this property's check, the former witnesses are deleted.)
    `roundtrip_any_padding`     also for columns stored with njmax_pad entries (efc.D, efc.state).
  2 `put_selects_world`         after `put`, world `w`'s selection is exactly the host contacts, in host order.
  3 `sel_sublist`, `mem_sel`    for ANY device state: the exported contacts are a sublist (slot order kept) of the
                                device contacts, and are exactly the live slots (`< nacon`) whose `worldid` is `w`;
                                `exported_contacts_verbatim`: dims and payloads are copied, only efc_address is re-derived.
  4 `efc_reorder_perm`          for ANY device state in which the ACTIVE selected contacts' address blocks tile
                                `[ne+nf+nl, nefc)`: `efc_idx` is a permutation of `arange nefc`, and the exported rows are a
                                permutation of the device's first nefc rows (`efc_rows_perm`).
  5 `efl_prefix_identity`       the first ne+nf+nl indices are the identity: `get_data_into` passes the device order of
                                equality/friction/limit rows through unchanged (it does NOT sort them).
  6 `address_remap_consistent`  (grouping + stability + remap) the k-th row of the i-th exported contact, if it is active, is at
                                exported position `efc_address_ordered[i] + k` and is the device row `contact.efc_address[slot_i, k]`:
                                contact blocks appear in contact order, rows inside a block keep their order (pyramid
                                edges / elliptic dims), and the exported `contact.efc_address` points at the block's first row.
    `inactive_contact_exported_minus_one`  a selected contact without rows (`efc_address[slot,0] < 0`) is exported with
                                efc_address -1 and contributes no index.
  Hypotheses are satisfiable: `example`s after each theorem.

  Still FALSE of the code (Props/C31Witness.lean, reproduced on the real code):
  * `efc_id` of contact rows is copied verbatim (index into the device's flat contact array), so for a world whose contacts
    do not start at slot 0 it does not index the exported contact list;
  * sensor-only contact slots (geom-distance sensor pairs) are exported as contacts.

  Missing (not carried by a theorem):
  * `put_model`: rejection of unsupported features and equality of the MuJoCo-named Model fields — oracle on the real code
    only (harness: enum tables extracted from put_model's source by AST scan each run; every unsupported enum value
    must raise; supported random models field-by-field; feature sweep vs mj_forward — it found that opt.disableactuator was
    silently ignored, repaired in 7358257 "fix: put_model silently ignored opt.disableactuator (actuatorgroupdisable)").
  * the plain per-world copies (`qpos`, `xpos`, …: `result.x[:] = d.x.numpy()[world_id]`) — oracle only.
  * sortedness of the exported rows by MuJoCo's key (equality < friction < limit < contact, then id): NOT enforced by
    `get_data_into` for the e/f/l rows (thm 5) — it holds after `put` (thm 1) and otherwise only if the device order
    already is MuJoCo's.
  Trusted: Lean kernel; the correspondence run for model ↔ io.py.
-/
import MjwVerif.Lemmas.C31

set_option linter.unusedVariables false

namespace Mjw.Props.C31
open Mjw.IoOrder

/-- (1) **roundtrip**: `get_data_into(put_data(mjd, nworld), world w)` reproduces the MjData for every world. -/
theorem roundtrip {α β : Type} (pyr : Bool) (nmaxpyr nworld naconmax njmax : Nat) (zp : α) (zr : β) (h : Host α β) (w : Nat)
    (hw : w < nworld) (hp : 0 < nmaxpyr) (wf : h.WF pyr njmax) :
    get pyr njmax (put pyr nmaxpyr nworld naconmax njmax zp zr h) w = some h.got :=
  get_put pyr nmaxpyr nworld naconmax njmax zp zr h w hw hp wf

/-- (1') the same for a column the device stores with a different padding (`efc.D`, `efc.state`: njmax_pad entries):
    any column `col` of nefc entries followed by any padding comes back as `col`. -/
theorem roundtrip_any_padding {α β γ : Type} (pyr : Bool) (nmaxpyr nworld naconmax njmax : Nat) (zp : α) (zr : β) (h : Host α β) (w : Nat)
    (hw : w < nworld) (hp : 0 < nmaxpyr) (wf : h.WF pyr njmax) (col pad : List γ) (hcol : col.length = h.rows.length) :
    getRowsOf pyr njmax (put pyr nmaxpyr nworld naconmax njmax zp zr h) w (col ++ pad) = some col :=
  getRowsOf_put pyr nmaxpyr nworld naconmax njmax zp zr h w hw hp wf col pad hcol

/-- non-vacuity: limit row + a condim-3 and a condim-1 contact, pyramidal, 3 worlds, tight capacities -/
example : (⟨[⟨3, 1, "a"⟩, ⟨1, 5, "b"⟩], [10, 11, 12, 13, 14, 15], 0, 0, 1⟩ : Host String Nat).WF true 6 :=
  ⟨.inr ⟨rfl, by decide, .inr ⟨rfl, by decide, trivial⟩⟩, rfl, by decide⟩
/-- non-vacuity with an EXCLUDED contact (the scene of the former defect: limit row, sphere in the gap zone, resting sphere) -/
example : (⟨[⟨3, -1, "A"⟩, ⟨3, 1, "B"⟩], [100, 101, 102, 103, 104], 0, 0, 1⟩ : Host String Nat).WF true 8 :=
  ⟨.inl ⟨rfl, .inr ⟨rfl, by decide, trivial⟩⟩, rfl, by decide⟩
example : get true 8 (put true 4 2 6 8 "" 0 (⟨[⟨3, -1, "A"⟩, ⟨3, 1, "B"⟩], [100, 101, 102, 103, 104], 0, 0, 1⟩ : Host String Nat)) 1
    = some ⟨[⟨3, -1, "A"⟩, ⟨3, 1, "B"⟩], [100, 101, 102, 103, 104], [100, 101, 102, 103, 104], 0, 0, 1⟩ := by decide
example : get true 6 (put true 4 3 6 6 "" 0 (⟨[⟨3, 1, "a"⟩, ⟨1, 5, "b"⟩], [10, 11, 12, 13, 14, 15], 0, 0, 1⟩ : Host String Nat)) 2
    = some ⟨[⟨3, 1, "a"⟩, ⟨1, 5, "b"⟩], [10, 11, 12, 13, 14, 15], [10, 11, 12, 13, 14, 15], 0, 0, 1⟩ := by decide
/-- elliptic -/
example : (⟨[⟨3, 0, ()⟩, ⟨4, 3, ()⟩], [1, 2, 3, 4, 5, 6, 7], 0, 0, 0⟩ : Host Unit Nat).WF false 9 :=
  ⟨.inr ⟨rfl, by decide, .inr ⟨rfl, by decide, trivial⟩⟩, rfl, by decide⟩

/-- (2) **put_selects_world**: world `w`'s slots after `put` are the host contacts in host order. -/
theorem put_selects_world {α β : Type} (pyr : Bool) (nmaxpyr nworld naconmax njmax : Nat) (zp : α) (zr : β) (h : Host α β) (w : Nat)
    (hw : w < nworld) :
    sel (put pyr nmaxpyr nworld naconmax njmax zp zr h) w = h.cons.map (putSlot pyr nmaxpyr w) :=
  sel_put pyr nmaxpyr nworld naconmax njmax zp zr h w hw

/-- (3a) exported contacts keep the device slot order -/
theorem sel_sublist {α β : Type} (d : Dev α β) (w : Nat) : (sel d w).Sublist d.cons := Mjw.IoOrder.sel_sublist d w

/-- (3b) exported contacts are exactly the live slots of world `w` -/
theorem mem_sel {α β : Type} (d : Dev α β) (w : Nat) (c : DCon α) :
    c ∈ sel d w ↔ c ∈ d.cons.take (min d.nacon d.cons.length) ∧ c.worldid = w := Mjw.IoOrder.mem_sel d w c

/-- (3c) dims and payloads are copied verbatim; the addresses are `contact_efc_address_ordered` -/
theorem exported_contacts_verbatim {α β : Type} (pyr : Bool) (d : Dev α β) (w : Nat) :
    (getCons pyr d w).map (fun c => (c.dim, c.pay)) = (sel d w).map (fun c => (c.dim, c.pay)) ∧
    (getCons pyr d w).map (·.adr) = adrOrdered pyr (neflOf d w) (sel d w) :=
  ⟨getCons_pay pyr d w, getCons_adr pyr d w⟩

/-- (4) **efc_reorder_perm**: if the selected contacts' address blocks tile `[nefl, nefc)`, `efc_idx` is a permutation
    of `arange nefc`. -/
theorem efc_reorder_perm {α β : Type} (pyr : Bool) (njmax : Nat) (d : Dev α β) (w : Nat) (hne : 0 < (sel d w).length)
    (hle : neflOf d w ≤ nefcOf d njmax w)
    (hpart : ((sel d w).flatMap (blk pyr)).Perm
      ((arange (nefcOf d njmax w - neflOf d w)).map (fun k => Int.ofNat (neflOf d w) + k))) :
    (efcIdx pyr njmax d w).Perm (arange (nefcOf d njmax w)) :=
  efcIdx_perm_aux pyr njmax d w hne hle hpart

/-- (4') the exported efc rows are a permutation of the device's first nefc rows (no row lost, none duplicated) -/
theorem efc_rows_perm {α β : Type} (pyr : Bool) (njmax : Nat) (d : Dev α β) (w : Nat) (hne : 0 < (sel d w).length)
    (hle : neflOf d w ≤ nefcOf d njmax w) (hfit : nefcOf d njmax w ≤ (d.rows w).length)
    (hpart : ((sel d w).flatMap (blk pyr)).Perm
      ((arange (nefcOf d njmax w - neflOf d w)).map (fun k => Int.ofNat (neflOf d w) + k))) :
    ∃ r, getRows pyr njmax d w = some r ∧ r.Perm ((d.rows w).take (nefcOf d njmax w)) :=
  getRows_perm_aux pyr njmax d w hfit (efcIdx_perm_aux pyr njmax d w hne hle hpart)

/-- a device state as `make_constraint` leaves it when contact slot 1 got its rows before slot 0 (arrival order):
    world 0, one limit row, slot 0 → rows 3,4 (condim 1 would be 1 row; here elliptic condim 2 is not MuJoCo, so use
    pyramidal condim 3 = 4 rows and condim 1 = 1 row): slot 0 → rows 2..5, slot 1 → row 1 -/
def exDev : Dev Unit Nat :=
  ⟨[⟨0, 3, [2, 3, 4, 5], ()⟩, ⟨0, 1, [1, -1, -1, -1], ()⟩], 2, fun _ => [100, 101, 102, 103, 104, 105, 0, 0], fun _ => 6,
   fun _ => 0, fun _ => 0, fun _ => 1⟩
example : 0 < (sel exDev 0).length ∧ neflOf exDev 0 ≤ nefcOf exDev 8 0 ∧ nefcOf exDev 8 0 ≤ (exDev.rows 0).length ∧
    ((sel exDev 0).flatMap (blk true)).Perm ((arange (nefcOf exDev 8 0 - neflOf exDev 0)).map (fun k => Int.ofNat (neflOf exDev 0) + k)) :=
  ⟨by decide, by decide, by decide, by decide⟩
example : get true 8 exDev 0 = some ⟨[⟨3, 1, ()⟩, ⟨1, 5, ()⟩], [100, 102, 103, 104, 105, 101], [100, 102, 103, 104, 105, 101], 0, 0, 1⟩ := by
  decide

/-- (5) **efl_prefix_identity**: the e/f/l rows are exported in device order. -/
theorem efl_prefix_identity {α β : Type} (pyr : Bool) (njmax : Nat) (d : Dev α β) (w : Nat) (hne : 0 < (sel d w).length)
    (hle : neflOf d w ≤ nefcOf d njmax w) :
    (efcIdx pyr njmax d w).take (neflOf d w) = arange (neflOf d w) :=
  efl_prefix_aux pyr njmax d w hne hle

/-- (6) **address_remap_consistent**: exported row `efc_address_ordered[i] + k` is device row `efc_address[slot_i, k]`. -/
theorem address_remap_consistent {α β : Type} (pyr : Bool) (njmax : Nat) (d : Dev α β) (w i k a : Nat) (c : DCon α)
    (hne : 0 < (sel d w).length)
    (hfull : ∀ c ∈ sel d w, inactive c = false → ndim pyr c.dim ≤ c.adr.length)
    (hi : (sel d w)[i]? = some c) (ha : (adrOrdered pyr (neflOf d w) (sel d w))[i]? = some (Int.ofNat a))
    (hk : k < ndim pyr c.dim) (hlt : a + k < nefcOf d njmax w) :
    (efcIdx pyr njmax d w)[a + k]? = c.adr[k]? :=
  adr_remap_aux pyr njmax d w i k a c hne hfull hi ha hk hlt

example : (sel exDev 0)[1]? = some ⟨0, 1, [1, -1, -1, -1], ()⟩ ∧ (adrOrdered true (neflOf exDev 0) (sel exDev 0))[1]? = some 5 ∧
    (∀ c ∈ sel exDev 0, inactive c = false → ndim true c.dim ≤ c.adr.length) ∧ (efcIdx true 8 exDev 0)[5 + 0]? = some 1 := by decide

/-- (6') **inactive_contact_exported_minus_one**: a selected contact without constraint rows is exported with
    efc_address -1 (and `blk` = [] : it contributes no row index). -/
theorem inactive_contact_exported_minus_one {α β : Type} (pyr : Bool) (d : Dev α β) (w i : Nat) (c : DCon α)
    (hi : (sel d w)[i]? = some c) (hc : inactive c = true) :
    ((getCons pyr d w).map (·.adr))[i]? = some (-1) ∧ blk pyr c = [] := by
  refine ⟨?_, by simp [blk, hc]⟩
  rw [getCons_adr]
  exact adrOrdered_inactive pyr (sel d w) (neflOf d w) i c hi hc

/-- the device state `mjw.forward` leaves for the gap scene: slot 0 inactive (all -1), slot 1 active: the export is MuJoCo's -/
example : get true 8 (⟨[⟨0, 3, [-1, -1, -1, -1], "A"⟩, ⟨0, 3, [1, 2, 3, 4], "B"⟩], 2, fun _ => [100, 101, 102, 103, 104, 0, 0, 0],
                 fun _ => 5, fun _ => 0, fun _ => 0, fun _ => 1⟩ : Dev String Nat) 0
      = some ⟨[⟨3, -1, "A"⟩, ⟨3, 1, "B"⟩], [100, 101, 102, 103, 104], [100, 101, 102, 103, 104], 0, 0, 1⟩ := by decide

end Mjw.Props.C31
