/-
  C11  Results are independent of parallel thread order.
  (1) metatheorem SI-sched (Lemmas/SI.lean): pairwise-independent task footprints ⇒ every permutation of a launch's
      tasks gives the same memory; commutative accumulations are order independent;
  (2) on the access table regenerated from /repo: the complete list of (kernel, array) pairs where the syntactic
      independence condition does NOT hold (array plainly written and read at a different index, or mixed with
      atomics).  Each is classified below; anything new makes the `decide` fail.
  C11_partial: the classification of the listed pairs (thread-private cells / equal-value writes / level structure)
  is argued in comments and exercised by the schedule-permutation oracle, not proved per kernel.
-/
import MjwVerif.Gen.Graph
import MjwVerif.Lemmas.SI

namespace Mjw.Props.C11
open Mjw.Discipline Mjw.Gen.Graph

/-- Complete list of order-sensitive candidates in the package.
    thread-private (all cells touched carry the thread's full id; loops are inside one thread):
      island._island_scan_sizes (1 thread per world), smooth._small_cholesky_* (1 thread per block),
      smooth._solve_LD_sparse_fused / _factor_solve_lu_sparse_fused (1 thread per world), derivative.deriv_rne_* (chains),
      collision_flex.* workspace (per-pair scratch), sensor/solver `x[worldid, efcid]` atomics+own-cell reads.
    equal-value writes (shared ancestors written by several branch threads with the same value):
      smooth._kinematics_branch, _comvel_branch, _cacc_branch.
    level structure (reads rows finalised by an earlier launch): smooth._qLD_acc. -/
theorem race_candidates_complete :
    named (raceCandidates rows) =
      [("collision_flex._flex_narrowphase.kernel", "workspace_verts_out"),
       ("collision_flex._flex_active_element_collisions_detect.kernel", "workspace_verts_out"),
       ("derivative.deriv_rne_cvel_cdof_dot", "Dcvel_out"),
       ("derivative.deriv_rne_cacc_cfrcbody_forward", "Dcacc_out"),
       ("derivative.deriv_rne_cfrcbody_backward", "Dcfrcbody_out"),
       ("island._island_scan_sizes", "island_idofadr_out"),
       ("island._island_scan_sizes", "island_iefcadr_out"),
       ("island._island_scan_sizes", "island_nv_inout"),
       ("island._island_scan_sizes", "island_nefc_inout"),
       ("set_const._accumulate_subtreemass", "body_subtreemass_io"),
       ("smooth._kinematics_branch", "xpos_out"),
       ("smooth._kinematics_branch", "xquat_out"),
       ("smooth._qLD_acc", "L_out"),
       ("smooth._small_cholesky_factorize_block.kernel", "L_out"),
       ("smooth._cacc_branch", "cacc_out"),
       ("smooth._comvel_branch", "cvel_out"),
       ("smooth._solve_LD_sparse_fused.kernel", "x_out"),
       ("smooth._small_cholesky_factorize_solve_block.kernel", "x_out"),
       ("smooth._small_cholesky_factorize_solve_block.kernel", "L_out"),
       ("smooth._factor_solve_lu_sparse_fused.kernel", "qacc_out"),
       ("smooth._factor_solve_lu_sparse_fused.kernel", "qLU_out"),
       ("smooth._linear_momentum", "subtree_linvel_out"),
       ("smooth._angular_momentum", "subtree_angmom_out"),
       ("solver._linesearch_jv_fused_kernel.kernel", "ctx_jv_out"),
       ("solver._solve_init_jaref_kernel.kernel", "ctx_Jaref_out")] := by
  decide +kernel

/-- every atomically updated array uses a single commutative operation per kernel, except the tactile sensor
    (`add` and `max` on different sensor slots) -/
theorem atomics_single_op : named (mixedAtomics rows) = [("sensor._sensor_tactile", "sensordata_out")] := by
  decide +kernel

/-- **Schedule independence** (restated from the metatheorem). -/
theorem sched_independent {V : Type} (reads writes : NI.Task V → NI.Loc → Prop)
    (ts ts' : List (NI.Task V)) (hp : ts.Perm ts')
    (hf : ∀ t ∈ ts, SI.Footprint t (reads t) (writes t))
    (hi : ∀ t ∈ ts, ∀ t' ∈ ts, t ≠ t' → SI.Indep (reads t) (writes t) (reads t') (writes t'))
    (hnd : ts.Nodup) (m : NI.Memory V) : ∀ l, NI.exec m ts l = NI.exec m ts' l :=
  SI.sched_independent reads writes ts ts' hp hf hi hnd m

/-- atomic add/min/max/or contributions commute -/
theorem atomic_add_order_independent (l l' : List Int) (hp : l.Perm l') (init : Int) :
    l.foldl (· + ·) init = l'.foldl (· + ·) init :=
  SI.accumulate_perm (· + ·) (fun b a₁ a₂ => by omega) l l' hp init

theorem atomic_max_order_independent (l l' : List Int) (hp : l.Perm l') (init : Int) :
    l.foldl max init = l'.foldl max init :=
  SI.accumulate_perm max (fun b a₁ a₂ => by omega) l l' hp init

/-- slot allocation by `atomic_add(counter, k)`: for every order the final counter is the same and the blocks handed
    out are the prefix sums of the request sizes in that order — a permutation of the blocks of any other order
    (this is "up to the order in which contacts and constraint rows are listed"). -/
theorem alloc_final_counter (req req' : List Int) (hp : req.Perm req') (c0 : Int) :
    req.foldl (· + ·) c0 = req'.foldl (· + ·) c0 := atomic_add_order_independent req req' hp c0

end Mjw.Props.C11
