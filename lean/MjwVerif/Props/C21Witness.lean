/-
  C21 witnesses: the inertia-assembly kernels leave the CSR row of MuJoCo's "simple" dofs.

  MuJoCo's reduced inertia layout gives a "simple" dof (free body without children, aligned slides, …) a row of ONE
  entry (`M_rownnz = 1`: the diagonal) although `dof_parentid` still chains the dofs of the joint/body.
  smooth.py `_M` and `_tendon_armature` walk `dof_parentid` and decrement the address `madr_ij` once per ancestor,
  assuming that row `i` stores all ancestors of `i`.  For a simple dof the walk leaves the row and lands on the
  diagonal cells of the preceding dofs:

  * `M_task_leaves_its_row_witness`: the `_M` task of dof 1 performs a plain (non-atomic) read-modify-write store on
    cell 0 — the cell that holds `M[0,0]` and that the task of dof 0 initialises with a plain store in the same launch:
    a write-write race between two tasks of one launch (the added value is `cdof₀ · (crb · cdof₁)`, mathematically 0
    for a simple body, so sequential execution hides it).
  * `tendon_armature_hits_foreign_diagonal_witness`: for a fixed tendon with armature 2 and coefficients (1, 3) over the
    two aligned slides of a simple body the `_tendon_armature` task of the second dof adds the OFF-diagonal term
    `armature · J₀ · J₁ = 6` to cell 0 = `M[0,0]`.  On the real code: d.M = [12.19, 22.19], MuJoCo C: [6.19, 22.19]
    (mass 4.19).
-/
import MjwVerif.Lemmas.Real
import MjwVerif.Gen.Smooth

set_option linter.unusedVariables false

namespace Mjw.Props.C21Witness
open Mjw Mjw.Gen.Smooth

/-- two simple dofs (rows `[0]` and `[1]`, `M_rownnz = 1`), dof 1's parent is dof 0 -/
def parent2 : Int → Int := fun i => if i = 1 then 0 else -1

/-- the `_M` task of dof 1 stores into cell 0 (row 0's diagonal), and so does the task of dof 0 -/
theorem M_task_leaves_its_row_witness {K : Type} [Scalar K] (armature : Int → Int → K) (cdof : Int → Int → V6 K)
    (crb : Int → Int → V10 K) (M_out : Int → Int → K) :
    (∃ x ∈ _M (fun _ => 1) parent2 armature (fun _ => 1) (fun i => i) cdof crb M_out 1 3 0 1,
        x.arr = "M_out" ∧ x.idx = [0, 0] ∧ x.kind = WKind.set)
    ∧ (∃ x ∈ _M (fun _ => 1) parent2 armature (fun _ => 1) (fun i => i) cdof crb M_out 1 3 0 0,
        x.arr = "M_out" ∧ x.idx = [0, 0] ∧ x.kind = WKind.set) := by
  constructor <;> simp [_M, whileFuel, parent2]

/-- the `_tendon_armature` task of the second dof of a 2-slide simple body: the coupling term lands on `M[0,0]` -/
theorem tendon_armature_hits_foreign_diagonal_witness :
    _tendon_armature (K := ℝ) parent2 (fun _ => 2) (fun _ => 0) (fun i => i) (fun _ _ => 2) (fun _ => 1) (fun i => i)
        (fun _ a => if a = 0 then 1 else 3) (fun _ _ => 0) 1 3 0 0 1
      = [Write.mk "M_out" [0, 1] (WVal.f 18) WKind.aadd, Write.mk "M_out" [0, 0] (WVal.f 6) WKind.aadd] := by
  simp [_tendon_armature, whileFuel, parent2]
  norm_num

end Mjw.Props.C21Witness
