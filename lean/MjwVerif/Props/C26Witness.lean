/-
  C26 witness: the INVDISCRETE part of "forward and inverse dynamics are consistent" FAILS for the Euler
  integrator when the DAMPER disable-flag is set but EULERDAMP is not, and some dof has damping ≠ 0.

  Host code (not translated, transcribed by hand below; the kernel it launches IS the generated one):
    forward.euler        : integrates damping implicitly  iff  not (disableflags & (EULERDAMP | DAMPER))
                           otherwise advances with d.qacc unchanged  (a_d = a_c)
    inverse.discrete_acc : returns qacc unchanged          iff  disableflags & EULERDAMP
                           otherwise  qfrc = M·qacc;  `_qfrc_eulerdamp` adds h·B·qacc;  qacc = M⁻¹ qfrc
  With DAMPER disabled and EULERDAMP enabled the step uses a_d = a_c, but `discrete_acc` still maps
  a_d ↦ M⁻¹(M + h·B) a_d ≠ a_d.

  Reproduced on the real code (probe, CPU): hinge with damping 5, qvel 2, ctrl 1, h = 0.01,
  <flag damper="disable" invdiscrete="enable"/>: step's (qvel' − qvel)/h = 38.358 = forward qacc, yet
  qfrc_inverse = 2.9179 while applied + actuator = 1  (2.9179 = 1 + h·5·38.358).  MuJoCo C 3.13 returns
  the same 2.9179, i.e. mujoco_warp is faithful to upstream here; with no flag, or with
  eulerdamp="disable", qfrc_inverse = 1.0000.
-/
import MjwVerif.Props.C26

namespace Mjw.Props.C26
open Mjw Mjw.Gen.Inverse Mjw.Gen.Util_misc

/-- scalar (nv = 1) transcription of `forward.euler`'s choice of the acceleration it advances with -/
noncomputable def eulerStepAcc (eulerdampDisabled damperDisabled : Bool) (M h B ac : ℝ) : ℝ :=
  if !(eulerdampDisabled || damperDisabled) then (M + h * B)⁻¹ * (M * ac) else ac

/-- scalar transcription of `inverse.discrete_acc` (Euler); the damping term is the cell the generated
    kernel `_qfrc_eulerdamp` stores on top of `qfrc = M·qacc` -/
noncomputable def discreteAccEuler (eulerdampDisabled : Bool) (M h damping v ad : ℝ) : ℝ :=
  if eulerdampDisabled then ad
  else M⁻¹ * Write.lookupF
    (_qfrc_eulerdamp (fun _ => h) (fun _ _ => damping) (fun _ _ => ⟨0, 0⟩) (fun _ _ => v) (fun _ _ => ad)
      (fun _ _ => M * ad) 1 1 1 0 0) "qfrc_out" [0, 0] (M * ad)

/-- DAMPER disabled, EULERDAMP enabled, M = 1, h = 1, damping = 1: the step advances with a_c = 1 itself,
    `discrete_acc` turns that into 2. -/
theorem discrete_guard_mismatch_model :
    discreteAccEuler false 1 1 1 0 (eulerStepAcc false true 1 1 1 1) = 2 ∧
    discreteAccEuler false 1 1 1 0 (eulerStepAcc false true 1 1 1 1) ≠ 1 := by
  have h : discreteAccEuler false 1 1 1 0 (eulerStepAcc false true 1 1 1 1) = 2 := by
    simp only [discreteAccEuler, eulerStepAcc, qfrc_eulerdamp_value]
    simp [_poly_force_deriv]
    norm_num
  exact ⟨h, by rw [h]; norm_num⟩

/-- with both flags clear (default) the same transcription round-trips, as `discrete_roundtrip_euler` says -/
theorem discrete_guard_default_ok :
    discreteAccEuler false 1 1 1 0 (eulerStepAcc false false 1 1 1 1) = 1 := by
  simp only [discreteAccEuler, eulerStepAcc, qfrc_eulerdamp_value]
  simp [_poly_force_deriv]
  norm_num

/-- the sleep mask: for a dof of a sleeping tree `_qfrc_smooth` stores 0 whatever the forces are, so
    `Ma − qfrc_smooth − qfrc_constraint` is not `qfrc_inverse − (applied + actuator)` there
    (bias 3, everything else 0, Ma 0: inverse gives 3, external forces 0, gradient from the masked smooth 0). -/
theorem sleeping_dof_not_consistent :
    let smoothMasked : ℝ := Write.lookupF
      (Mjw.Gen.Forward._qfrc_smooth__kernel (fun _ => 0) (fun _ => 0) (fun _ _ => (0:ℝ)) (fun _ _ => 0)
        (fun _ _ => 3) (fun _ _ => 0) (fun _ _ => 0) (fun _ _ => 0) true 0 0) "qfrc_smooth_out" [0, 0] 0
    invVal (fun _ _ => 3) (fun _ _ => 0) (fun _ _ => 0) (fun _ _ => 0) (fun _ _ => 0) 0 0 - (0 + 0 + 0)
      ≠ (0:ℝ) - smoothMasked - 0 := by
  intro smoothMasked
  have hs : smoothMasked = 0 := by
    simp only [smoothMasked]
    rw [qfrc_smooth_writes_asleep _ _ _ _ _ _ _ _ _ _ (by norm_num) rfl]
    simp [Write.lookupF]
  rw [hs, invVal_eq]
  norm_num

end Mjw.Props.C26
