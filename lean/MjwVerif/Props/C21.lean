/-
  C21  Inertia factorization solves the inertia system.        (C21_partial — see MISSING)

  Source: /repo/mujoco_warp/_src/smooth.py (`_qLD_acc`, `_qLDiag_div`, `_factor_i_sparse`, `_solve_LD_sparse_fused`,
  `_small_cholesky_*`, `_tile_cholesky_*`, `factor_m`, `solve_m`, `factor_solve_i`, `factor_solve_lu`, `_M`),
  support.py (`mul_m_kernel._mul_m`), io.py (`m_block_layout`, `qLD_updates`).

  PROVED
  1. generated kernels (regenerated from the source on every run):
     * `qLD_acc_writes`      exact write list of a `_qLD_acc` task (every scalar type): the atomic subtractions of
                             `L[k-row, j] · tmp` into row `i`, then the store `L[k,i] := tmp`, `tmp = L[k,i] / L[k,k]`;
                             the task reads pre-launch contents only (CSR rows `i` and `k` disjoint);
     * `qLD_acc_matrix_view` the same in matrix terms: it is exactly the elementary update of `LDL.factorLevel`;
     * `qLDiag_div_writes`   `D[i] := 1 / L[diag i]`;
     * `mul_m_writes`        `res[w, i] := Σ_{k ∈ [rowadr i, rowadr (i+1))} M[w, madr k] · vec[w, col k]` (ℝ);
     * `M_writes_in_row`, `tendon_armature_writes_in_row`   every cell an `_M` / `_tendon_armature` task writes lies in the
                             CSR row `[M_rowadr i, M_rowadr i + M_rownnz i)` of its own dof (all models, all fuel, every K);
     * `small_cholesky_solve_2_partial`, `small_cholesky_solve_3_partial`   the generated scalar Cholesky back-substitution
                             `_small_cholesky_solve` solves `(Uᵀ U) x = y` for block sizes 2 and 3 (general size: MISSING).
  2. the level-parallel model `Model/LDL.lean` of `_factor_i_sparse` + `_solve_LD_sparse_fused`, over ℝ, for EVERY
     number of dofs, EVERY forest (given by `depth` and the proper-ancestor relation `anc`), every level count:
     * `sparse_factor_correct`   symmetric `M` with the forest's sparsity pattern and non-vanishing pivots:
                                 `factorAll` yields `L` (unit lower, forest-sparse) and `D` with `M = Lᵀ D L` on every entry;
     * `sparse_solve_correct`    for any `ℓ` that is strictly triangular w.r.t. `depth` and `dinv·D = 1`:
                                 `solve` returns `x` with `(Lᵀ D L) x = y`;
     * `sparse_factor_solve_correct`  the composition: `M · solve(factor M, y) = y`;
     * `ltdl_positive_definite`  `D > 0` ⇒ `xᵀ (Lᵀ D L) x > 0` for every `x ≠ 0`; `ltdl_symmetric`.
  ASSUMED (hypotheses of the theorems): pivots `≠ 0` (the code's "assumed spd"); `Forest` (a proper ancestor has
     strictly smaller depth; transitivity), `Chain` (ancestors of a dof are totally ordered), `depth < nl`.
  MISSING
     * the fused solve kernel `_solve_LD_sparse_fused.kernel`, the scalar Cholesky kernels
       `_small_cholesky_factorize_block.kernel`, `_small_cholesky_solve_block.kernel`,
       `_small_cholesky_factorize_solve_block.kernel` and the LU kernel `_factor_solve_lu_sparse_fused.kernel` are nested
       closures that are NOT in `Gen` (not in translate/targets.py); the tile kernels use Warp tile primitives.  So the
       solve model is tied to the code only by the harness (replay of the same elementary updates against the real
       `solve_m`), and the dense (scalar / tile Cholesky) and LU paths are covered by the harness oracle only.
     * launch-level composition (a launch = the net effect of its tasks) is argued in `Model/LDL.lean`, not derived from
       a launch semantics; that the pivots of an SPD matrix are positive; that the CRB matrix `_M` assembles is SPD
       (physics); float32 round-off (the harness measures backward errors).
  HISTORY: this check found that `_M` and `_tendon_armature` walked `dof_parentid` past the start of the CSR row of
     MuJoCo's "simple" dofs (`M_rownnz = 1` although `dof_parentid ≥ 0`; tendon armature landed on another dof's diagonal).
     Repaired in /repo commit "fix: _M and _tendon_armature walked past the row of a simple dof …"; the former witnesses are
     replaced by `M_writes_in_row`, `tendon_armature_writes_in_row` (all inputs) and the two `*_repaired` scenarios.
-/
import MjwVerif.Lemmas.C21Factor
import MjwVerif.Lemmas.C21Kernels
import MjwVerif.Lemmas.C21Rows

set_option linter.unusedVariables false

namespace Mjw.Props.C21
open Mjw Mjw.LDL Mjw.Lemmas.C21 Mjw.Gen.Smooth Mjw.Gen.Support

/-! ## 1. generated kernels -/

section kernels
variable {K : Type} [Scalar K]

/-- **exact write list of one `_qLD_acc` task** `(i, k, Madr_ki) = qLD_updates_[nodeid]`, any scalar type.
    Hypothesis: the cells of row `k` that are read lie outside the cells of row `i` that are written (true of any CSR
    layout with `i ≠ k`). -/
theorem qLD_acc_writes (M_rownnz M_rowadr : Int → Int) (upd : Int → I3) (L_in L_out : Int → Int → K) (w node : Int)
    (hdisj : ∀ j j' : Int, 0 ≤ j → j < M_rownnz (upd node).c0 → 0 ≤ j' → j' < M_rownnz (upd node).c0 →
      M_rowadr (upd node).c1 + j ≠ M_rowadr (upd node).c0 + j') :
    _qLD_acc M_rownnz M_rowadr upd L_in L_out w node
      = rangeL 0 (M_rownnz (upd node).c0) (fun j =>
          (Write.mk "L_out" [w, M_rowadr (upd node).c0 + j]
            (WVal.f (L_in w (M_rowadr (upd node).c1 + j)
              * (L_out w (upd node).c2 / L_out w (M_rowadr (upd node).c1 + M_rownnz (upd node).c1 - 1))))
            WKind.asub : Write K))
        ++ [(Write.mk "L_out" [w, (upd node).c2]
             (WVal.f (L_out w (upd node).c2 / L_out w (M_rowadr (upd node).c1 + M_rownnz (upd node).c1 - 1))) WKind.set : Write K)] := by
  rw [qLD_acc_unfold, forRange_rw_disjoint "L_out" WKind.asub w (M_rowadr (upd node).c0) (M_rowadr (upd node).c1) 0
    (M_rownnz (upd node).c0) (fun j => L_in w (M_rowadr (upd node).c1 + j))
    (fun (_ : Int) (v : K) => v * (L_out w (upd node).c2 / L_out w (M_rowadr (upd node).c1 + M_rownnz (upd node).c1 - 1))) hdisj]

/-- the same in matrix terms.  Let `adr r c` be the CSR address of entry `(r, c)` and `col j` the column of the `j`-th
    entry of row `i` (which is also the column of the `j`-th entry of row `k`, `i` being an ancestor of `k`), and
    `A r c = L[w, adr r c]` (launched with `L_in = L_out`).  Then the task subtracts `A k c · (A k i / A k k)` from
    `A i c` for every column `c` of row `i` and stores `A k i / A k k` into `A k i`: the elementary update that
    `LDL.factorLevel` sums over all `k` below `i`. -/
theorem qLD_acc_matrix_view (M_rownnz M_rowadr : Int → Int) (upd : Int → I3) (L : Int → Int → K) (w node : Int)
    (adr : Int → Int → Int) (col : Int → Int)
    (hi : ∀ j : Int, 0 ≤ j → j < M_rownnz (upd node).c0 → M_rowadr (upd node).c0 + j = adr (upd node).c0 (col j))
    (hk : ∀ j : Int, 0 ≤ j → j < M_rownnz (upd node).c0 → M_rowadr (upd node).c1 + j = adr (upd node).c1 (col j))
    (hki : (upd node).c2 = adr (upd node).c1 (upd node).c0)
    (hkk : M_rowadr (upd node).c1 + M_rownnz (upd node).c1 - 1 = adr (upd node).c1 (upd node).c1)
    (hdisj : ∀ j j' : Int, 0 ≤ j → j < M_rownnz (upd node).c0 → 0 ≤ j' → j' < M_rownnz (upd node).c0 →
      M_rowadr (upd node).c1 + j ≠ M_rowadr (upd node).c0 + j') :
    _qLD_acc M_rownnz M_rowadr upd L L w node
      = rangeL 0 (M_rownnz (upd node).c0) (fun j =>
          (Write.mk "L_out" [w, adr (upd node).c0 (col j)]
            (WVal.f (L w (adr (upd node).c1 (col j))
              * (L w (adr (upd node).c1 (upd node).c0) / L w (adr (upd node).c1 (upd node).c1))))
            WKind.asub : Write K))
        ++ [(Write.mk "L_out" [w, adr (upd node).c1 (upd node).c0]
             (WVal.f (L w (adr (upd node).c1 (upd node).c0) / L w (adr (upd node).c1 (upd node).c1))) WKind.set : Write K)] := by
  rw [qLD_acc_writes _ _ _ _ _ _ _ hdisj, hkk, hki]
  congr 1
  unfold rangeL
  apply List.map_congr_left
  intro m hm
  rw [List.mem_range] at hm
  have h0 : (0 : Int) ≤ 0 + Int.ofNat m := by simp only [Int.ofNat_eq_natCast]; omega
  have h1 : 0 + Int.ofNat m < M_rownnz (upd node).c0 := by simp only [Int.ofNat_eq_natCast]; omega
  beta_reduce
  rw [hi _ h0 h1, hk _ h0 h1]

/-- `_qLDiag_div`: `D[w, i] := 1 / L[w, diag i]` -/
theorem qLDiag_div_writes (M_rownnz M_rowadr : Int → Int) (L_in D_out : Int → Int → K) (w i : Int) :
    _qLDiag_div M_rownnz M_rowadr L_in D_out w i
      = [(Write.mk "D_out" [w, i] (WVal.f ((Scalar.lit 1 0 : K) / L_in w (M_rowadr i + M_rownnz i - 1))) WKind.set : Write K)] :=
  rfl

/-- `mul_m` gather kernel over ℝ: the row sum over the index lists `M_mulm_*` built by io.py
    (`skip` only with `check_skip`). -/
theorem mul_m_writes (rowadr col madr : Int → Int) (M_in vec : Int → Int → ℝ) (skip : Int → Bool)
    (res : Int → Int → ℝ) (chk : Bool) (w i : Int) :
    mul_m_kernel___mul_m rowadr col madr M_in vec skip res chk w i
      = if chk = true ∧ skip w = true then []
        else [(Write.mk "res" [w, i]
          (WVal.f (∑ k ∈ Finset.range (rowadr (i + 1) - rowadr i).toNat,
            M_in w (madr (rowadr i + (k : Int))) * vec w (col (rowadr i + (k : Int))))) WKind.set : Write ℝ)] := by
  have hs : forRange (rowadr i) (rowadr (i + 1)) (0 : ℝ) (fun k acc => acc + M_in w (madr k) * vec w (col k))
      = ∑ k ∈ Finset.range (rowadr (i + 1) - rowadr i).toNat,
          M_in w (madr (rowadr i + (k : Int))) * vec w (col (rowadr i + (k : Int))) :=
    forRange_acc_sum (fun k => M_in w (madr k) * vec w (col k)) _ _
  unfold mul_m_kernel___mul_m
  simp only [hadd, hmul, lit0, List.nil_append, hs]
  cases chk <;> cases skip w <;> simp

end kernels

/-! ## 1b. dense path: the generated scalar Cholesky back-substitution (fixed block sizes) -/

section dense

/-- `_small_cholesky_solve` with `block_size = 2` (`U` = packed upper factor, `U i j` at `factor_adr + i·size + j`):
    the values it leaves in `x_out` solve `(Uᵀ U) x = y`.  (`small_cholesky_solve_partial`: proved for sizes 2 and 3
    by evaluating the generated loops; the general block size (≤ 6 in the code) is NOT proved.) -/
theorem small_cholesky_solve_2_partial (u00 u01 u11 y0 y1 : ℝ) (x_out : Int → Int → ℝ) (h0 : u00 ≠ 0) (h1 : u11 ≠ 0) :
    let L : Int → Int → ℝ := fun _ a => if a = 0 then u00 else if a = 1 then u01 else if a = 3 then u11 else 0
    let y : Int → Int → ℝ := fun _ a => if a = 0 then y0 else y1
    let ws := _small_cholesky_solve 2 0 0 0 L y x_out
    let x0 := Write.lookupF ws "x_out" [0, 0] (x_out 0 0)
    let x1 := Write.lookupF ws "x_out" [0, 1] (x_out 0 1)
    (u00 * u00) * x0 + (u00 * u01) * x1 = y0 ∧ (u00 * u01) * x0 + (u01 * u01 + u11 * u11) * x1 = y1 := by
  intro L y ws x0 x1
  simp only [x0, x1, ws, _small_cholesky_solve, forRange, L, y]
  simp [Write.lookupF, List.range_succ]
  constructor <;> field_simp <;> ring

/-- the same for `block_size = 3` (inner loops with more than one iteration) -/
theorem small_cholesky_solve_3_partial (u00 u01 u02 u11 u12 u22 y0 y1 y2 : ℝ) (x_out : Int → Int → ℝ)
    (h0 : u00 ≠ 0) (h1 : u11 ≠ 0) (h2 : u22 ≠ 0) :
    let L : Int → Int → ℝ := fun _ a => if a = 0 then u00 else if a = 1 then u01 else if a = 2 then u02
      else if a = 4 then u11 else if a = 5 then u12 else if a = 8 then u22 else 0
    let y : Int → Int → ℝ := fun _ a => if a = 0 then y0 else if a = 1 then y1 else y2
    let ws := _small_cholesky_solve 3 0 0 0 L y x_out
    let x0 := Write.lookupF ws "x_out" [0, 0] (x_out 0 0)
    let x1 := Write.lookupF ws "x_out" [0, 1] (x_out 0 1)
    let x2 := Write.lookupF ws "x_out" [0, 2] (x_out 0 2)
    (u00 * u00) * x0 + (u00 * u01) * x1 + (u00 * u02) * x2 = y0
    ∧ (u00 * u01) * x0 + (u01 * u01 + u11 * u11) * x1 + (u01 * u02 + u11 * u12) * x2 = y1
    ∧ (u00 * u02) * x0 + (u01 * u02 + u11 * u12) * x1 + (u02 * u02 + u12 * u12 + u22 * u22) * x2 = y2 := by
  intro L y ws x0 x1 x2
  simp only [x0, x1, x2, ws, _small_cholesky_solve, forRange, L, y]
  simp [Write.lookupF, List.range_succ]
  refine ⟨?_, ?_, ?_⟩ <;> field_simp <;> ring

/-- hypotheses satisfiable: `U = [[2, 1], [0, 3]]` -/
example : (2 : ℝ) ≠ 0 ∧ (3 : ℝ) ≠ 0 := by norm_num

end dense

/-! ## 1c. inertia assembly stays inside the CSR row of its dof -/

section rows
variable {K : Type} [Scalar K]

/-- **every cell an `_M` task writes lies in the CSR row of its own dof**, `[M_rowadr i, M_rowadr i + M_rownnz i)` —
    all models, all fuel, every scalar type; only `1 ≤ M_rownnz i` (the row holds at least the diagonal).
    In particular for MuJoCo's "simple" dofs (`M_rownnz = 1` although `dof_parentid ≥ 0`) the task writes its diagonal only,
    and since the rows of distinct dofs are disjoint no two tasks of the launch touch the same cell.
    (False before /repo commit "fix: _M and _tendon_armature walked past the row of a simple dof …"; found by this check.) -/
theorem M_writes_in_row (dof_bodyid dof_parentid : Int → Int) (arm : Int → Int → K) (M_rownnz M_rowadr : Int → Int)
    (cdof : Int → Int → V6 K) (crb : Int → Int → V10 K) (M_out : Int → Int → K) (s0 : Int) (fuel : Nat) (w i : Int)
    (h1 : 1 ≤ M_rownnz i) :
    ∀ x ∈ _M dof_bodyid dof_parentid arm M_rownnz M_rowadr cdof crb M_out s0 fuel w i,
      InRow (M_rowadr i) (M_rownnz i) w x := by
  unfold _M
  have key := whileFuel_inv' (σ := List (Write K) × Int × Int)
    (fun st => (∀ x ∈ st.1, InRow (M_rowadr i) (M_rownnz i) w x) ∧ st.2.1 ≤ M_rowadr i + M_rownnz i - 1)
  refine (key _ _ ?_ fuel _ ?_).1
  · rintro ⟨ws, madr, dofid⟩ ⟨hws, hm⟩ hc
    simp only [Bool.and_eq_true, decide_eq_true_eq] at hc
    have hm' : madr ≤ M_rowadr i + M_rownnz i - 1 := hm
    refine ⟨all_append_one _ _ hws (inRow_mk _ _ _ _ _ _ hc.2 (by omega)), ?_⟩
    show madr - 1 ≤ _
    omega
  · refine ⟨?_, Int.le_refl _⟩
    simp only [List.nil_append]
    intro x hx
    rw [List.mem_singleton] at hx
    rw [hx]
    exact inRow_mk _ _ _ _ _ _ (by omega) (by omega)

/-- **every cell a `_tendon_armature` task writes lies in the CSR row of the dof it handles**
    (`d = ten_J_colind[ten_J_rowadr[t] + j]`), no hypotheses. -/
theorem tendon_armature_writes_in_row (dof_parentid jnnz jadr jcol : Int → Int) (tarm : Int → Int → K)
    (M_rownnz M_rowadr : Int → Int) (J M_out : Int → Int → K) (s0 : Int) (fuel : Nat) (w t j : Int) :
    ∀ x ∈ _tendon_armature dof_parentid jnnz jadr jcol tarm M_rownnz M_rowadr J M_out s0 fuel w t j,
      InRow (M_rowadr (jcol (jadr t + j))) (M_rownnz (jcol (jadr t + j))) w x := by
  unfold _tendon_armature
  dsimp only
  split_ifs
  · intro x hx; cases hx
  · intro x hx; cases hx
  · intro x hx; cases hx
  · have key := whileFuel_inv' (σ := Int × Int × List (Write K) × Int × Int)
      (fun st => (∀ x ∈ st.2.2.1, InRow (M_rowadr (jcol (jadr t + j))) (M_rownnz (jcol (jadr t + j))) w x)
        ∧ st.2.2.2.1 ≤ M_rowadr (jcol (jadr t + j)) + M_rownnz (jcol (jadr t + j)) - 1)
    refine (key _ _ ?_ fuel _ ?_).1
    · rintro ⟨sparseid, ptr, ws, madr, dofid⟩ ⟨hws, hm⟩ hc
      simp only [Bool.and_eq_true, decide_eq_true_eq] at hc
      have hm' : madr ≤ M_rowadr (jcol (jadr t + j)) + M_rownnz (jcol (jadr t + j)) - 1 := hm
      dsimp only
      refine ⟨all_append_one _ _ hws (inRow_mk _ _ _ _ _ _ hc.2 (by omega)), ?_⟩
      show madr - 1 ≤ _
      omega
    · exact ⟨fun x hx => (by cases hx), Int.le_refl _⟩

/-- two simple dofs (rows `[0]` and `[1]`, `M_rownnz = 1`), dof 1's parent is dof 0 -/
def parent2 : Int → Int := fun i => if i = 1 then 0 else -1

/-- the scenario of the former defect witness, now positive: the `_M` task of the second simple dof writes its own
    diagonal cell 1 only (it used to store into cell 0 = `M[0,0]` as well). -/
theorem M_simple_dof_repaired (armature : Int → Int → K) (cdof : Int → Int → V6 K) (crb : Int → Int → V10 K)
    (M_out : Int → Int → K) :
    ∀ x ∈ _M (fun _ => 1) parent2 armature (fun _ => 1) (fun i => i) cdof crb M_out 1 3 0 1, x.idx = [0, 1] := by
  intro x hx
  obtain ⟨_, a, ha, h0, h1⟩ := M_writes_in_row (fun _ => 1) parent2 armature (fun _ => 1) (fun i => i) cdof crb M_out 1 3 0 1
    (by decide) x hx
  rw [ha]
  have : a = 1 := by omega
  rw [this]

/-- the tendon scenario of the former witness (armature 2, coefficients (1, 3) over two aligned slides): the task of the
    second dof now adds `2·3·3 = 18` to its own diagonal only; the coupling term `6` no longer lands on `M[0,0]`
    (MuJoCo's reduced layout has no cell for it). -/
theorem tendon_armature_simple_repaired :
    _tendon_armature (K := ℝ) parent2 (fun _ => 2) (fun _ => 0) (fun i => i) (fun _ _ => 2) (fun _ => 1) (fun i => i)
        (fun _ a => if a = 0 then 1 else 3) (fun _ _ => 0) 1 3 0 0 1
      = [Write.mk "M_out" [0, 1] (WVal.f 18) WKind.aadd] := by
  simp [_tendon_armature, whileFuel, parent2]
  norm_num

end rows

/-! ## 2. the level-parallel sparse LᵀDL model (`Model/LDL.lean`), all sizes and all forests -/

/-- **factorisation**: `M = Lᵀ D L` entry-wise, `L = I + lowerOf anc (factorAll … M)`, `D = diag (factorAll … M)`. -/
theorem sparse_factor_correct (n : ℕ) (depth : ℕ → ℕ) (anc : ℕ → ℕ → Bool) (F : Forest n depth anc) (hch : Chain n anc)
    (M : ℕ → ℕ → ℝ) (hM : TreeSym n anc M) (nl : ℕ) (hnl : ∀ i, i < n → depth i < nl)
    (hp : ∀ k, k < n → factorAll n depth anc nl M k k ≠ 0) (r c : ℕ) (hr : r < n) (hc : c < n) :
    M r c = ltdl n (lowerOf anc (factorAll n depth anc nl M)) (fun k => factorAll n depth anc nl M k k) r c :=
  factor_correct_full F hch M hM nl hnl hp r c hr hc

/-- **back-substitution**: up-sweep, diagonal, down-sweep solve `Lᵀ D L x = y`. -/
theorem sparse_solve_correct (n : ℕ) (depth : ℕ → ℕ) (ℓ : ℕ → ℕ → ℝ) (h : DepthTri n depth ℓ) (nl : ℕ)
    (hnl : ∀ i, i < n → depth i < nl) (D dinv : ℕ → ℝ) (hD : ∀ k, k < n → dinv k * D k = 1) (y : ℕ → ℝ) (i : ℕ) (hi : i < n) :
    mulVec n (ltdl n ℓ D) (solve n depth nl ℓ dinv y) i = y i :=
  solve_correct h nl hnl D dinv hD y i hi

/-- **factor, then solve** (`factor_m`/`solve_m`, `factor_solve_i` on the sparse layout): `M x = y`. -/
theorem sparse_factor_solve_correct (n : ℕ) (depth : ℕ → ℕ) (anc : ℕ → ℕ → Bool) (F : Forest n depth anc) (hch : Chain n anc)
    (M : ℕ → ℕ → ℝ) (hM : TreeSym n anc M) (nl : ℕ) (hnl : ∀ i, i < n → depth i < nl)
    (hp : ∀ k, k < n → factorAll n depth anc nl M k k ≠ 0) (y : ℕ → ℝ) (i : ℕ) (hi : i < n) :
    mulVec n M (solve n depth nl (lowerOf anc (factorAll n depth anc nl M)) (diagInv (factorAll n depth anc nl M)) y) i = y i :=
  factor_solve_correct F hch M hM nl hnl hp y i hi

/-- **positive definiteness** of `Lᵀ D L` with positive pivots, `L = I + ℓ` unit triangular w.r.t. `depth`. -/
theorem ltdl_positive_definite (n : ℕ) (depth : ℕ → ℕ) (ℓ : ℕ → ℕ → ℝ) (h : DepthTri n depth ℓ) (D : ℕ → ℝ)
    (hD : ∀ k, k < n → 0 < D k) (x : ℕ → ℝ) (hx : ∃ i, i < n ∧ x i ≠ 0) :
    0 < ∑ i ∈ Finset.range n, x i * mulVec n (ltdl n ℓ D) x i :=
  ltdl_posdef h D hD x hx

theorem ltdl_symmetric (n : ℕ) (ℓ : ℕ → ℕ → ℝ) (D : ℕ → ℝ) (i j : ℕ) : ltdl n ℓ D i j = ltdl n ℓ D j i :=
  ltdl_symm D i j

/-! ## 3. non-vacuity -/

section examples

/-- two-dof chain 0 → 1 -/
def depth2 : ℕ → ℕ := fun i => i
def anc2 : ℕ → ℕ → Bool := fun i k => decide (i = 0 ∧ k = 1)
noncomputable def M2 : ℕ → ℕ → ℝ := fun r c => if r = c then (if r = 0 then 2 else 3) else 1

theorem forest2 : Forest 2 depth2 anc2 := by
  constructor
  · intro i k hi hk h; simp only [anc2, decide_eq_true_eq] at h; simp only [depth2]; omega
  · intro i j k hi hj hk h1 h2; simp only [anc2, decide_eq_true_eq] at h1 h2 ⊢; omega

theorem chain2 : Chain 2 anc2 := by
  intro i j k hi hj hk h1 h2; simp only [anc2, decide_eq_true_eq] at h1 h2 ⊢; omega

theorem treeSym2 : TreeSym 2 anc2 M2 := by
  constructor
  · intro r c hr hc; simp only [M2]; by_cases h : r = c
    · subst h; rfl
    · rw [if_neg h, if_neg (fun h' => h h'.symm)]
  · intro r c hr hc hne h1 h2
    exfalso
    simp only [anc2, decide_eq_false_iff_not] at h1 h2
    omega

/-- the factor of `[[2,1],[1,3]]`: pivots `5/3` and `3`, `ℓ 1 0 = 1/3` -/
theorem factor2 : factorAll 2 depth2 anc2 2 M2 0 0 = 5 / 3 ∧ factorAll 2 depth2 anc2 2 M2 1 1 = 3
    ∧ factorAll 2 depth2 anc2 2 M2 1 0 = 1 / 3 := by
  simp only [factorAll, factorLevel_eq, Finset.sum_range_succ, Finset.sum_range_zero]
  norm_num [anc2, depth2, M2]

/-- all hypotheses of `sparse_factor_correct` / `sparse_factor_solve_correct` hold simultaneously -/
example : Forest 2 depth2 anc2 ∧ Chain 2 anc2 ∧ TreeSym 2 anc2 M2 ∧ (∀ i, i < 2 → depth2 i < 2)
    ∧ (∀ k, k < 2 → factorAll 2 depth2 anc2 2 M2 k k ≠ 0) := by
  refine ⟨forest2, chain2, treeSym2, fun i hi => hi, ?_⟩
  intro k hk
  obtain ⟨h0, h1, _⟩ := factor2
  rcases (by omega : k = 0 ∨ k = 1) with rfl | rfl
  · rw [h0]; norm_num
  · rw [h1]; norm_num

/-- hypotheses of `sparse_solve_correct` / `ltdl_positive_definite`: `ℓ 1 0 = 1/3`, `D = (5/3, 3)` -/
example : DepthTri 2 depth2 (fun k i => if k = 1 ∧ i = 0 then (1 / 3 : ℝ) else 0)
    ∧ (∀ k, k < 2 → (fun k => if k = 0 then (3 / 5 : ℝ) else 1 / 3) k * (fun k => if k = 0 then (5 / 3 : ℝ) else 3) k = 1)
    ∧ (∀ k, k < 2 → (0 : ℝ) < (fun k => if k = 0 then (5 / 3 : ℝ) else 3) k) := by
  refine ⟨?_, ?_, ?_⟩
  · intro k i hk hi h
    by_cases hc : k = 1 ∧ i = 0
    · simp only [depth2]; omega
    · simp only [if_neg hc, ne_eq, not_true_eq_false] at h
  · intro k hk; rcases (by omega : k = 0 ∨ k = 1) with rfl | rfl <;> norm_num
  · intro k hk; rcases (by omega : k = 0 ∨ k = 1) with rfl | rfl <;> norm_num

/-- a `_qLD_acc` task on the CSR layout of the two-dof chain (row 0 = [0], row 1 = [1, 2]; update (i,k,Madr_ki) = (0,1,1)),
    `L = [2, 1, 3]`: subtracts `1 · (1/3)` from cell 0 and stores `1/3` into cell 1 -/
example : _qLD_acc (K := ℝ) (fun i => if i = 0 then 1 else 2) (fun i => if i = 0 then 0 else 1) (fun _ => ⟨0, 1, 1⟩)
      (fun _ a => if a = 0 then 2 else if a = 1 then 1 else 3) (fun _ a => if a = 0 then 2 else if a = 1 then 1 else 3) 0 0
    = [Write.mk "L_out" [0, 0] (WVal.f (1 * (1 / 3))) WKind.asub, Write.mk "L_out" [0, 1] (WVal.f (1 / 3)) WKind.set] := by
  rw [qLD_acc_writes]
  · simp [rangeL]
  · intro j j' h0 h1 h2 h3
    simp only [if_true] at h1 h3
    simp
    omega

end examples

end Mjw.Props.C21
