/-
  C04  Collision detection agrees with MuJoCo C.        (C04_partial)

  Theorems are about `Mjw.Gen.Collision_core.{contact_material_params, contact_margin_gap, contact_params,
  write_contact}` and `Mjw.Gen.Collision_primitive_core.{sphere_sphere, plane_sphere}` (regenerated from
  /repo/mujoco_warp/_src/{collision_core,collision_primitive_core}.py on every run).  MuJoCo C is represented by
  the hand transcription `Spec/ContactParams.lean` (mj_contactParam, mj_setContact, mjraw_SphereSphere,
  mjc_PlaneSphere; MuJoCo >= 3.4 semantics: geom margins/gaps ADD, includemargin = margin, a contact is kept
  iff dist < margin + gap).

  PROVED (K = ℝ unless stated; all arrays / indices / sizes arbitrary):
   §1 contact_material_params
      `material_params_pair` (generic K)   explicit pair  → the pair_* values, friction clamped at mjMINMU;
      `material_params_equal_priority`     equal priority → condim = max, friction = elementwise max in the
                                            (f0,f0,f1,f2,f2) layout, solref = mixSolref (weighted mean / min for
                                            direct form), solimp = weighted mean, weight = Spec.mixWeight
                                            (all four solmix cases), solreffriction = 0, adhesion = a1 + a2;
      `material_params_priority_first/second` different priorities → condim, friction, solref, solimp, adhesion are
                                            the higher-priority geom's, solref also in direct form;
      `material_params_agree_mujoco`        = Spec.mjContactParam for EVERY input (condim, friction, solref, solimp);
      `mix_weight_convex`                   0 ≤ mix ≤ 1 for every solmix pair;
      `material_params_symm`                swapping the two geoms does not change the result;
      `friction_layout`                     c0 = c1, c3 = c4 and every entry ≥ 1e-5 (no explicit pair).
   §2 contact_margin_gap / contact_params   `margin_gap_eq`, `margin_gap_symm`, `contact_params_eq_spec`:
      margin = m1 + m2, gap = g1 + g2 or the pair's values; contact_params returns the pair of
      `collision_pair_in[cid]` with exactly Spec.geomParams / Spec.pairParams.
   §3 write_contact (generic K)             `write_contact_not_detected`, `write_contact_written`,
      `write_contact_overflow`: nothing is written unless dist < margin + gap; otherwise one slot is allocated
      and, iff it is below naconmax, exactly the given values are stored (includemargin = margin, dim = condim,
      or 1 for an adhesive contact in the gap band), efc_address = -1; the return value is the `active` flag.
   §4 sphere_sphere / plane_sphere          equal to MuJoCo's formulas (p1 ≠ p2 for sphere-sphere).

  HISTORY: `material_params_agree_mujoco` used to be false for solref (different priorities + direct-form solref gave
  the elementwise min; found by this property's witness and oracle, repaired by /repo 99794be "fix: contact solref
  ignored geom priority when a solref is in direct (negative) form"); it is now proved at full strength and the
  witness file is gone.  Still-present deviations concern functions that are not translated (capsule_capsule's
  float32 parallel test, plane_convex's margin / vertex threshold): oracle findings only, see harness/props/c04.py.

  ASSUMED: the hand transcription of MuJoCo C (cross-checked numerically by harness/props/c04.py); real
  arithmetic (float round-off is covered by the sampled comparison only).
  MISSING (sampled comparison with mujoco.mj_collision only): capsule-capsule, plane-capsule/box/cylinder/mesh,
  capsule-box, box-box, every GJK/EPA pair, heightfields; the broadphase → narrowphase plumbing
  (`_primitive_narrowphase`, `ccd_kernel` are not translated).  The geometric meaning of the translated
  primitives is C20's.
-/
import MjwVerif.Lemmas.C04

set_option linter.unusedVariables false
set_option linter.unusedSimpArgs false
set_option linter.unusedTactic false

namespace Mjw.Props.C04
open Mjw Mjw.Gen.Collision_core Mjw.Spec.ContactParams Mjw.Lemmas.C04

/-! ## §1 contact_material_params -/

section material_generic
variable {K : Type} [Scalar K]
variable (geom_condim geom_priority : Int → Int) (geom_solmix : Int → Int → K) (geom_solref : Int → Int → V2 K)
  (geom_solimp : Int → Int → V5 K) (geom_friction : Int → Int → V3 K) (geom_adhesion : Int → Int → K)
  (pair_dim : Int → Int) (pair_solref pair_solreffriction : Int → Int → V2 K) (pair_solimp : Int → Int → V5 K)
  (pair_adhesion : Int → Int → K) (pair_friction : Int → Int → V5 K) (geoms : I2) (pairid worldid : Int)
  (n0 n1 n2 n3 n4 n5 n6 n7 n8 n9 : Int)

/-- (1a) explicit pair: every parameter is the pair's (world-indexed with the batched-field idiom), friction
    clamped at mjMINMU.  Holds for every scalar type. -/
theorem material_params_pair (hp : pairid > -1) :
    contact_material_params geom_condim geom_priority geom_solmix geom_solref geom_solimp geom_friction geom_adhesion
        pair_dim pair_solref pair_solreffriction pair_solimp pair_adhesion pair_friction geoms pairid worldid
        n0 n1 n2 n3 n4 n5 n6 n7 n8 n9
      = (pair_dim pairid, clampFriction (pair_friction (Int.tmod worldid n0) pairid),
         pair_solref (Int.tmod worldid n1) pairid, pair_solreffriction (Int.tmod worldid n2) pairid,
         pair_solimp (Int.tmod worldid n3) pairid, pair_adhesion (Int.tmod worldid n4) pairid) := by
  unfold contact_material_params
  simp only [hp, decide_true, if_true, clampFriction, minmu]
end material_generic

section material_real
variable (geom_condim geom_priority : Int → Int) (geom_solmix : Int → Int → ℝ) (geom_solref : Int → Int → V2 ℝ)
  (geom_solimp : Int → Int → V5 ℝ) (geom_friction : Int → Int → V3 ℝ) (geom_adhesion : Int → Int → ℝ)
  (pair_dim : Int → Int) (pair_solref pair_solreffriction : Int → Int → V2 ℝ) (pair_solimp : Int → Int → V5 ℝ)
  (pair_adhesion : Int → Int → ℝ) (pair_friction : Int → Int → V5 ℝ) (geoms : I2) (pairid worldid : Int)
  (n0 n1 n2 n3 n4 n5 n6 n7 n8 n9 : Int)

local notation "CMP" gs => contact_material_params geom_condim geom_priority geom_solmix geom_solref geom_solimp geom_friction geom_adhesion pair_dim pair_solref pair_solreffriction pair_solimp pair_adhesion pair_friction gs pairid worldid n0 n1 n2 n3 n4 n5 n6 n7 n8 n9

/-- the material of geom `g` as the code reads it in world `worldid` (margin/gap are not read here) -/
def matOf (g : Int) : GeomMat ℝ :=
  { condim := geom_condim g, priority := geom_priority g, solmix := geom_solmix (Int.tmod worldid n5) g,
    solref := geom_solref (Int.tmod worldid n7) g, solimp := geom_solimp (Int.tmod worldid n8) g,
    friction := geom_friction (Int.tmod worldid n6) g, margin := 0, gap := 0 }

local notation "MAT" g => matOf geom_condim geom_priority geom_solmix geom_solref geom_solimp geom_friction worldid n5 n6 n7 n8 g

/-- (1b) equal priorities: MuJoCo's mixing rule, all four solmix cases, standard and direct solref. -/
theorem material_params_equal_priority (hp : ¬ pairid > -1) (he : geom_priority geoms.c0 = geom_priority geoms.c1) :
    (CMP geoms) =
      (max (geom_condim geoms.c0) (geom_condim geoms.c1),
       clampFriction (unpackFriction (V3.vmax (geom_friction (Int.tmod worldid n6) geoms.c0) (geom_friction (Int.tmod worldid n6) geoms.c1))),
       mixSolref (mixWeight (geom_solmix (Int.tmod worldid n5) geoms.c0) (geom_solmix (Int.tmod worldid n5) geoms.c1))
         (geom_solref (Int.tmod worldid n7) geoms.c0) (geom_solref (Int.tmod worldid n7) geoms.c1),
       ⟨0, 0⟩,
       mixSolimp (mixWeight (geom_solmix (Int.tmod worldid n5) geoms.c0) (geom_solmix (Int.tmod worldid n5) geoms.c1))
         (geom_solimp (Int.tmod worldid n8) geoms.c0) (geom_solimp (Int.tmod worldid n8) geoms.c1),
       geom_adhesion (Int.tmod worldid n9) geoms.c0 + geom_adhesion (Int.tmod worldid n9) geoms.c1) := by
  have h1 : ¬ (geom_priority geoms.c0 > geom_priority geoms.c1) := by omega
  have h2 : ¬ (geom_priority geoms.c1 > geom_priority geoms.c0) := by omega
  unfold contact_material_params
  have h3 : ¬ (geom_priority geoms.c0 ≠ geom_priority geoms.c1) := by omega
  simp only [hp, h1, h2, h3, decide_false, Bool.false_eq_true, Bool.false_or, if_false]
  simp only [mix_eq]
  simp only [clampFriction, unpackFriction, mixSolref, mixSolimp, minmu, V2.add, V2.smul, V2.vmin, V5.add, V5.smul, hadd, hmul, hsub]
  simp only [slit]
  norm_num

/-- (1c) first geom has the higher priority: condim, friction, solref, solimp, adhesion are all geom 1's — solref
    also when it is in direct (negative) form (repaired by /repo 99794be; before, the elementwise min was returned). -/
theorem material_params_priority_first (hp : ¬ pairid > -1) (hgt : geom_priority geoms.c0 > geom_priority geoms.c1) :
    (CMP geoms) =
      (geom_condim geoms.c0,
       clampFriction (unpackFriction (geom_friction (Int.tmod worldid n6) geoms.c0)),
       geom_solref (Int.tmod worldid n7) geoms.c0,
       ⟨0, 0⟩, geom_solimp (Int.tmod worldid n8) geoms.c0, geom_adhesion (Int.tmod worldid n9) geoms.c0) := by
  have hne : geom_priority geoms.c0 ≠ geom_priority geoms.c1 := by omega
  unfold contact_material_params
  simp only [hp, hgt, hne, ne_eq, not_false_eq_true, decide_false, decide_true, Bool.true_or, Bool.false_eq_true, if_false, if_true]
  simp only [clampFriction, unpackFriction, minmu, V2.add, V2.smul, V5.add, V5.smul, hadd, hmul, hsub, slit]
  norm_num

/-- (1d) second geom has the higher priority (mirror image of 1c). -/
theorem material_params_priority_second (hp : ¬ pairid > -1) (hlt : geom_priority geoms.c1 > geom_priority geoms.c0) :
    (CMP geoms) =
      (geom_condim geoms.c1,
       clampFriction (unpackFriction (geom_friction (Int.tmod worldid n6) geoms.c1)),
       geom_solref (Int.tmod worldid n7) geoms.c1,
       ⟨0, 0⟩, geom_solimp (Int.tmod worldid n8) geoms.c1, geom_adhesion (Int.tmod worldid n9) geoms.c1) := by
  have h1 : ¬ (geom_priority geoms.c0 > geom_priority geoms.c1) := by omega
  have hne : geom_priority geoms.c0 ≠ geom_priority geoms.c1 := by omega
  unfold contact_material_params
  simp only [hp, h1, hlt, hne, ne_eq, not_false_eq_true, decide_false, decide_true, Bool.true_or, Bool.false_eq_true, if_false, if_true]
  simp only [clampFriction, unpackFriction, minmu, V2.add, V2.smul, V5.add, V5.smul, hadd, hmul, hsub, slit]
  norm_num

/-- (1e) **agreement with mj_contactParam**, unconditionally: condim, friction (unpacked and clamped), solref, solimp
    are MuJoCo's for every pair of geoms without explicit pair — all priorities, all solmix cases, standard and direct
    solref.  (The solref part was FALSE for different priorities with a direct-form solref until /repo 99794be.) -/
theorem material_params_agree_mujoco (hp : ¬ pairid > -1) :
    let R := (CMP geoms)
    let S := mjContactParam (MAT geoms.c0) (MAT geoms.c1)
    R.1 = S.1 ∧ R.2.1 = clampFriction (unpackFriction S.2.2.2) ∧ R.2.2.1 = S.2.1 ∧ R.2.2.2.1 = ⟨0, 0⟩ ∧ R.2.2.2.2.1 = S.2.2.1 := by
  intro R S
  rcases lt_trichotomy (geom_priority geoms.c0) (geom_priority geoms.c1) with hlt | he | hgt
  · have hR : R = _ := material_params_priority_second geom_condim geom_priority geom_solmix geom_solref geom_solimp geom_friction geom_adhesion pair_dim pair_solref pair_solreffriction pair_solimp pair_adhesion pair_friction geoms pairid worldid n0 n1 n2 n3 n4 n5 n6 n7 n8 n9 hp hlt
    have h1 : ¬ (geom_priority geoms.c0 > geom_priority geoms.c1) := by omega
    have hS : S = (geom_condim geoms.c1, geom_solref (Int.tmod worldid n7) geoms.c1, geom_solimp (Int.tmod worldid n8) geoms.c1, geom_friction (Int.tmod worldid n6) geoms.c1) := by
      simp only [S, mjContactParam, matOf, h1, hlt, if_false, if_true]
    rw [hR, hS]
    exact ⟨rfl, rfl, rfl, rfl, rfl⟩
  · have hR : R = _ := material_params_equal_priority geom_condim geom_priority geom_solmix geom_solref geom_solimp geom_friction geom_adhesion pair_dim pair_solref pair_solreffriction pair_solimp pair_adhesion pair_friction geoms pairid worldid n0 n1 n2 n3 n4 n5 n6 n7 n8 n9 hp he
    have h1 : ¬ (geom_priority geoms.c0 > geom_priority geoms.c1) := by omega
    have h2 : ¬ (geom_priority geoms.c0 < geom_priority geoms.c1) := by omega
    have hS : S = (max (geom_condim geoms.c0) (geom_condim geoms.c1),
        mixSolref (mixWeight (geom_solmix (Int.tmod worldid n5) geoms.c0) (geom_solmix (Int.tmod worldid n5) geoms.c1)) (geom_solref (Int.tmod worldid n7) geoms.c0) (geom_solref (Int.tmod worldid n7) geoms.c1),
        mixSolimp (mixWeight (geom_solmix (Int.tmod worldid n5) geoms.c0) (geom_solmix (Int.tmod worldid n5) geoms.c1)) (geom_solimp (Int.tmod worldid n8) geoms.c0) (geom_solimp (Int.tmod worldid n8) geoms.c1),
        V3.vmax (geom_friction (Int.tmod worldid n6) geoms.c0) (geom_friction (Int.tmod worldid n6) geoms.c1)) := by
      simp only [S, mjContactParam, matOf, h1, h2, if_false, V3.vmax]
    rw [hR, hS]
    exact ⟨rfl, rfl, rfl, rfl, rfl⟩
  · have hR : R = _ := material_params_priority_first geom_condim geom_priority geom_solmix geom_solref geom_solimp geom_friction geom_adhesion pair_dim pair_solref pair_solreffriction pair_solimp pair_adhesion pair_friction geoms pairid worldid n0 n1 n2 n3 n4 n5 n6 n7 n8 n9 hp hgt
    have hS : S = (geom_condim geoms.c0, geom_solref (Int.tmod worldid n7) geoms.c0, geom_solimp (Int.tmod worldid n8) geoms.c0, geom_friction (Int.tmod worldid n6) geoms.c0) := by
      simp only [S, mjContactParam, matOf, hgt, if_true]
    rw [hR, hS]
    exact ⟨rfl, rfl, rfl, rfl, rfl⟩

/-- (1f) the solver mix weight is a convex coefficient, for every pair of solmix values. -/
theorem mix_weight_convex (s1 s2 : ℝ) : 0 ≤ mixWeight s1 s2 ∧ mixWeight s1 s2 ≤ 1 := mixWeight_mem s1 s2

/-- (1g) **symmetry**: the parameters do not depend on the order of the two geoms. -/
theorem material_params_symm (hp : ¬ pairid > -1) (g1 g2 : Int) :
    (CMP (⟨g2, g1⟩ : I2)) = (CMP (⟨g1, g2⟩ : I2)) := by
  rcases lt_trichotomy (geom_priority g1) (geom_priority g2) with hlt | he | hgt
  · rw [material_params_priority_first (geoms := ⟨g2, g1⟩) (hp := hp) (hgt := hlt),
        material_params_priority_second (geoms := ⟨g1, g2⟩) (hp := hp) (hlt := hlt)]
  · rw [material_params_equal_priority (geoms := ⟨g2, g1⟩) (hp := hp) (he := he.symm),
        material_params_equal_priority (geoms := ⟨g1, g2⟩) (hp := hp) (he := he)]
    simp only
    rw [mixWeight_swap, mixSolref_swap, mixSolimp_swap, max_comm, add_comm]
    simp only [V3.vmax, smax, max_comm]
  · rw [material_params_priority_second (geoms := ⟨g2, g1⟩) (hp := hp) (hlt := hgt),
        material_params_priority_first (geoms := ⟨g1, g2⟩) (hp := hp) (hgt := hgt)]

/-- (1h) friction layout without explicit pair: (tangential, tangential, torsional, rolling, rolling), each ≥ mjMINMU. -/
theorem friction_layout (hp : ¬ pairid > -1) :
    let f := (CMP geoms).2.1
    f.c0 = f.c1 ∧ f.c3 = f.c4 ∧ (1e-5 : ℝ) ≤ f.c0 ∧ (1e-5 : ℝ) ≤ f.c2 ∧ (1e-5 : ℝ) ≤ f.c3 := by
  intro f
  have key : ∃ v : V3 ℝ, f = clampFriction (unpackFriction v) := by
    rcases lt_trichotomy (geom_priority geoms.c0) (geom_priority geoms.c1) with hlt | he | hgt
    · exact ⟨_, by simp only [f]; rw [material_params_priority_second (hp := hp) (hlt := hlt)]⟩
    · exact ⟨_, by simp only [f]; rw [material_params_equal_priority (hp := hp) (he := he)]⟩
    · exact ⟨_, by simp only [f]; rw [material_params_priority_first (hp := hp) (hgt := hgt)]⟩
  obtain ⟨v, hv⟩ := key
  rw [hv]
  simp only [clampFriction, unpackFriction, minmu, smax, slit]
  norm_num

end material_real

/-! ## §2 contact_margin_gap and contact_params -/

section margin_gap
variable {K : Type} [Scalar K]
variable (geom_margin geom_gap pair_margin pair_gap : Int → Int → K) (geoms : I2) (pairid worldid : Int) (m0 m1 m2 m3 : Int)

/-- (2a) margin and gap: the explicit pair's, else the SUM of the two geoms' (MuJoCo ≥ 3.4).  Every scalar type. -/
theorem margin_gap_eq :
    contact_margin_gap geom_margin geom_gap pair_margin pair_gap geoms pairid worldid m0 m1 m2 m3 =
      if pairid > -1 then (pair_margin (Int.tmod worldid m0) pairid, pair_gap (Int.tmod worldid m1) pairid)
      else (geom_margin (Int.tmod worldid m2) geoms.c0 + geom_margin (Int.tmod worldid m2) geoms.c1,
            geom_gap (Int.tmod worldid m3) geoms.c0 + geom_gap (Int.tmod worldid m3) geoms.c1) := by
  unfold contact_margin_gap
  by_cases hp : pairid > -1 <;> simp only [hp, decide_true, decide_false, Bool.false_eq_true, if_true, if_false]
end margin_gap

/-- (2b) margin and gap do not depend on the order of the geoms (ℝ). -/
theorem margin_gap_symm (geom_margin geom_gap pair_margin pair_gap : Int → Int → ℝ) (g1 g2 pairid worldid m0 m1 m2 m3 : Int) :
    contact_margin_gap geom_margin geom_gap pair_margin pair_gap ⟨g2, g1⟩ pairid worldid m0 m1 m2 m3 =
    contact_margin_gap geom_margin geom_gap pair_margin pair_gap ⟨g1, g2⟩ pairid worldid m0 m1 m2 m3 := by
  rw [margin_gap_eq, margin_gap_eq]
  split_ifs
  · rfl
  · simp only [hadd, add_comm]

section contact_params
variable (geom_condim geom_priority : Int → Int) (geom_solmix : Int → Int → ℝ) (geom_solref : Int → Int → V2 ℝ)
  (geom_solimp : Int → Int → V5 ℝ) (geom_friction : Int → Int → V3 ℝ) (geom_margin geom_gap geom_adhesion : Int → Int → ℝ)
  (pair_dim : Int → Int) (pair_solref pair_solreffriction : Int → Int → V2 ℝ) (pair_solimp : Int → Int → V5 ℝ)
  (pair_margin pair_gap pair_adhesion : Int → Int → ℝ) (pair_friction : Int → Int → V5 ℝ)
  (collision_pair_in collision_pairid_in : Int → I2) (cid worldid : Int)
  (m0 m1 m2 m3 n0 n1 n2 n3 n4 n5 n6 n7 n8 n9 : Int)

/-- geom `g` as MuJoCo sees it in world `worldid` -/
def geomOf (g : Int) : GeomMat ℝ :=
  { condim := geom_condim g, priority := geom_priority g, solmix := geom_solmix (Int.tmod worldid n5) g,
    solref := geom_solref (Int.tmod worldid n7) g, solimp := geom_solimp (Int.tmod worldid n8) g,
    friction := geom_friction (Int.tmod worldid n6) g,
    margin := geom_margin (Int.tmod worldid m2) g, gap := geom_gap (Int.tmod worldid m3) g }

/-- explicit pair `p` as MuJoCo sees it in world `worldid` -/
def pairOf (p : Int) : PairMat ℝ :=
  { dim := pair_dim p, solref := pair_solref (Int.tmod worldid n1) p, solreffriction := pair_solreffriction (Int.tmod worldid n2) p,
    solimp := pair_solimp (Int.tmod worldid n3) p, friction := pair_friction (Int.tmod worldid n0) p,
    margin := pair_margin (Int.tmod worldid m0) p, gap := pair_gap (Int.tmod worldid m1) p }

/-- (2c) **contact_params = MuJoCo's rule**, for every input: the geoms are those of the broadphase pair `cid`; for an
    explicit pair every parameter is `Spec.pairParams`; otherwise every parameter is `Spec.geomParams` of the two geoms. -/
theorem contact_params_eq_spec :
    let R := contact_params geom_condim geom_priority geom_solmix geom_solref geom_solimp geom_friction geom_margin geom_gap geom_adhesion
              pair_dim pair_solref pair_solreffriction pair_solimp pair_margin pair_gap pair_adhesion pair_friction
              collision_pair_in collision_pairid_in cid worldid m0 m1 m2 m3 n0 n1 n2 n3 n4 n5 n6 n7 n8 n9
    let gs := collision_pair_in cid
    let pid := (collision_pairid_in cid).c0
    R.1 = gs ∧
    (pid > -1 →
      let P := pairParams (pairOf pair_dim pair_solref pair_solreffriction pair_solimp pair_margin pair_gap pair_friction worldid m0 m1 n0 n1 n2 n3 pid)
      R.2.1 = P.margin ∧ R.2.2.1 = P.gap ∧ R.2.2.2.1 = P.dim ∧ R.2.2.2.2.1 = P.friction ∧ R.2.2.2.2.2.1 = P.solref ∧
      R.2.2.2.2.2.2.1 = P.solreffriction ∧ R.2.2.2.2.2.2.2.1 = P.solimp) ∧
    (¬ pid > -1 →
      let P := geomParams
        (geomOf geom_condim geom_priority geom_solmix geom_solref geom_solimp geom_friction geom_margin geom_gap worldid m2 m3 n5 n6 n7 n8 gs.c0)
        (geomOf geom_condim geom_priority geom_solmix geom_solref geom_solimp geom_friction geom_margin geom_gap worldid m2 m3 n5 n6 n7 n8 gs.c1)
      R.2.1 = P.margin ∧ R.2.2.1 = P.gap ∧ R.2.2.2.1 = P.dim ∧ R.2.2.2.2.1 = P.friction ∧ R.2.2.2.2.2.1 = P.solref ∧
      R.2.2.2.2.2.2.1 = P.solreffriction ∧ R.2.2.2.2.2.2.2.1 = P.solimp) := by
  intro R gs pid
  have hR : R = (gs,
      (contact_margin_gap geom_margin geom_gap pair_margin pair_gap gs pid worldid m0 m1 m2 m3).1,
      (contact_margin_gap geom_margin geom_gap pair_margin pair_gap gs pid worldid m0 m1 m2 m3).2,
      (contact_material_params geom_condim geom_priority geom_solmix geom_solref geom_solimp geom_friction geom_adhesion pair_dim pair_solref pair_solreffriction pair_solimp pair_adhesion pair_friction gs pid worldid n0 n1 n2 n3 n4 n5 n6 n7 n8 n9)) := by
    simp only [R, contact_params]
    rfl
  refine ⟨by rw [hR], ?_, ?_⟩
  · intro hp P
    rw [hR, margin_gap_eq, material_params_pair (hp := hp)]
    simp only [hp, if_true]
    exact ⟨rfl, rfl, rfl, rfl, rfl, rfl, rfl⟩
  · intro hp P
    have hm := material_params_agree_mujoco geom_condim geom_priority geom_solmix geom_solref geom_solimp geom_friction geom_adhesion pair_dim pair_solref pair_solreffriction pair_solimp pair_adhesion pair_friction gs pid worldid n0 n1 n2 n3 n4 n5 n6 n7 n8 n9 hp
    obtain ⟨h1, h2, h5', h4, h3⟩ := hm
    rw [hR, margin_gap_eq]
    simp only [hp, if_false]
    refine ⟨rfl, rfl, ?_, ?_, ?_, ?_, ?_⟩
    · exact h1
    · exact h2
    · exact h5'
    · rw [h4]; simp only [P, geomParams, slit]; norm_num
    · exact h3

end contact_params

/-! ## §3 write_contact: what is stored, where, and when (generic scalar type) -/

section write_contact
variable {K : Type} [Scalar K] (naconmax_in : Int) (id_ : Int) (dist_in : K) (pos_in : V3 K) (frame_in : M33 K) (margin_in : K) (gap_in : K) (condim_in : Int) (friction_in : V5 K) (solref_in : V2 K) (solreffriction_in : V2 K) (solimp_in : V5 K) (adhesion_in : K) (geoms_in : I2) (pairid_in : I2) (worldid_in : Int) (contact_dist_out : (Int → K)) (contact_pos_out : (Int → V3 K)) (contact_frame_out : (Int → M33 K)) (contact_includemargin_out : (Int → K)) (contact_friction_out : (Int → V5 K)) (contact_solref_out : (Int → V2 K)) (contact_solreffriction_out : (Int → V2 K)) (contact_solimp_out : (Int → V5 K)) (contact_dim_out : (Int → Int)) (contact_geom_out : (Int → I2)) (contact_efc_address_out : (Int → Int → Int)) (contact_worldid_out : (Int → Int)) (contact_type_out : (Int → Int)) (contact_geomcollisionid_out : (Int → Int)) (contact_adhesion_out : (Int → K)) (nacon_out : (Int → Int)) (alloc0 : Int) (sh1 : Int)

local notation "WC" => write_contact naconmax_in id_ dist_in pos_in frame_in margin_in gap_in condim_in friction_in solref_in solreffriction_in solimp_in adhesion_in geoms_in pairid_in worldid_in contact_dist_out contact_pos_out contact_frame_out contact_includemargin_out contact_friction_out contact_solref_out contact_solreffriction_out contact_solimp_out contact_dim_out contact_geom_out contact_efc_address_out contact_worldid_out contact_type_out contact_geomcollisionid_out contact_adhesion_out nacon_out alloc0 sh1

/-- (3a) a candidate with `dist ≥ margin + gap` (no collision sensor on the pair) writes NOTHING and is inactive —
    MuJoCo's detection threshold (`Spec.detected`). -/
theorem write_contact_not_detected (hd : detected dist_in margin_in gap_in = false) (hs : pairid_in.c1 = -1) :
    WC = ((0 : Int), []) := by
  unfold write_contact
  simp only [detected] at hd
  simp only [hd, hs, Bool.not_false, Bool.or_true, Bool.and_self, decide_true, if_true]

/-- the fifteen stores of one contact into slot `cid` -/
def stores (cid : Int) (dim typ : Int) : List (Write K) :=
  [ (Write.mk "contact_dist_out" [cid] (WVal.f dist_in) WKind.set : Write K),
    Write.mk "contact_pos_out" [cid] (WVal.v (V3.toList pos_in)) WKind.set,
    Write.mk "contact_frame_out" [cid] (WVal.v (M33.toList frame_in)) WKind.set,
    Write.mk "contact_geom_out" [cid] (WVal.iv (I2.toList geoms_in)) WKind.set,
    Write.mk "contact_worldid_out" [cid] (WVal.i worldid_in) WKind.set,
    Write.mk "contact_includemargin_out" [cid] (WVal.f margin_in) WKind.set,
    Write.mk "contact_dim_out" [cid] (WVal.i dim) WKind.set,
    Write.mk "contact_friction_out" [cid] (WVal.v (V5.toList friction_in)) WKind.set,
    Write.mk "contact_solref_out" [cid] (WVal.v (V2.toList solref_in)) WKind.set,
    Write.mk "contact_solreffriction_out" [cid] (WVal.v (V2.toList solreffriction_in)) WKind.set,
    Write.mk "contact_solimp_out" [cid] (WVal.v (V5.toList solimp_in)) WKind.set,
    Write.mk "contact_adhesion_out" [cid] (WVal.f adhesion_in) WKind.set,
    Write.mk "contact_type_out" [cid] (WVal.i typ) WKind.set,
    Write.mk "contact_geomcollisionid_out" [cid] (WVal.i id_) WKind.set ]

local notation "STORES" => stores id_ dist_in pos_in frame_in margin_in friction_in solref_in solreffriction_in solimp_in adhesion_in geoms_in worldid_in

/-- (3b) a detected candidate of an ordinary pair (table entry ≥ -1, no sensor) with a free slot: ONE allocation on
    `nacon`, then exactly the given values at slot `alloc0` — includemargin = margin; dim = condim, or 1 for an
    adhesive contact in the gap band; type = CONSTRAINT — then `efc_address[alloc0, :] = -1`.  Returns `active`
    = dist < margin ∨ (adhesion ≠ 0 ∧ dist < margin + gap). -/
theorem write_contact_written (hd : detected dist_in margin_in gap_in = true) (hp : pairid_in.c0 ≥ -1) (hs : pairid_in.c1 = -1)
    (hslot : alloc0 < naconmax_in) :
    WC = ((if (Scalar.lt dist_in margin_in || (Scalar.bne adhesion_in (Scalar.lit 0 0 : K) && Scalar.lt dist_in (margin_in + gap_in))) then 1 else 0),
          Mjw.forRange (0 : Int) sh1
            ((Write.mk "nacon_out" [(0 : Int)] (WVal.i (1 : Int)) WKind.alloc : Write K) ::
              STORES alloc0 (if (Scalar.bne adhesion_in (Scalar.lit 0 0 : K) && Scalar.ge dist_in margin_in) then 1 else condim_in) 1)
            (fun (i : Int) (st : List (Write K)) => st ++ [(Write.mk "contact_efc_address_out" [alloc0, i] (WVal.i (-1 : Int)) WKind.set : Write K)])) := by
  have h2 : ¬ (pairid_in.c0 = -2) := by omega
  have h0 : ¬ (pairid_in.c1 ≥ 0) := by omega
  unfold write_contact
  simp only [detected] at hd
  simp only [hd, hs, hp, h2, h0, hslot, Bool.not_true, Bool.or_false, Bool.false_and, Bool.and_true, decide_true, decide_false, Bool.false_eq_true, if_true, if_false,
    List.nil_append, List.cons_append, List.append_assoc, stores]
  rfl

/-- (3c) the same candidate when the contact buffer is full: only the counter is bumped (the overflow is visible in
    `nacon > naconmax`), nothing is stored, the contact is inactive. -/
theorem write_contact_overflow (hd : detected dist_in margin_in gap_in = true) (hp : pairid_in.c0 ≥ -1) (hs : pairid_in.c1 = -1)
    (hslot : ¬ alloc0 < naconmax_in) :
    WC = ((0 : Int), [(Write.mk "nacon_out" [(0 : Int)] (WVal.i (1 : Int)) WKind.alloc : Write K)]) := by
  have h2 : ¬ (pairid_in.c0 = -2) := by omega
  have h0 : ¬ (pairid_in.c1 ≥ 0) := by omega
  unfold write_contact
  simp only [detected] at hd
  simp only [hd, hs, hp, h2, h0, hslot, Bool.not_true, Bool.or_false, Bool.false_and, Bool.and_true, decide_true, decide_false, Bool.false_eq_true, if_true, if_false,
    List.nil_append]

end write_contact

/-! ## §4 closed-form sphere routines equal MuJoCo's -/

open Mjw.Gen.Collision_primitive_core in
/-- (4a) sphere–sphere, distinct centres: distance, position and normal are `mjraw_SphereSphere`'s. -/
theorem sphere_sphere_eq_mujoco (p1 p2 : V3 ℝ) (r1 r2 : ℝ) (h : V3.length (V3.sub p2 p1) ≠ 0) :
    sphere_sphere p1 r1 p2 r2 = sphereSphere p1 r1 p2 r2 := by
  have hc : ¬ (V3.length (V3.sub p2 p1) = ((0:ℤ):ℝ) * 10 ^ (0:ℤ)) := by simpa using h
  unfold sphere_sphere sphereSphere
  simp only [sbeq, slit, hadd, hsub, hmul, hc, if_false]
  refine Prod.ext ?_ (Prod.ext ?_ rfl)
  · show _ - (r1 + r2) = _ - r1 - r2
    ring
  · show V3.add p1 (V3.muls _ _) = V3.add p1 (V3.muls _ _)
    congr 2; ring

open Mjw.Gen.Collision_primitive_core in
/-- (4a') coincident centres: the code returns the fixed normal (1,0,0) (MuJoCo: the cross product of the geoms'
    z axes, (1,0,0) only if that vanishes) — the distance -(r1+r2) is the same. -/
theorem sphere_sphere_coincident_dist (p : V3 ℝ) (r1 r2 : ℝ) :
    (sphere_sphere p r1 p r2).1 = -(r1 + r2) ∧ (sphere_sphere p r1 p r2).2.2 = ⟨1, 0, 0⟩ := by
  have hl : V3.length (V3.sub p p) = 0 := by
    simp [V3.length, V3.sub, V3.dot]
  unfold sphere_sphere
  simp only [hl, sbeq, slit, hadd, hsub, hmul]
  norm_num

open Mjw.Gen.Collision_primitive_core in
/-- (4b) plane–sphere: distance and position are `mjc_PlaneSphere`'s, for every input. -/
theorem plane_sphere_eq_mujoco (n p c : V3 ℝ) (r : ℝ) : plane_sphere n p c r = planeSphere n p c r := by
  unfold plane_sphere planeSphere
  rfl

/-! ## non-vacuity of the hypotheses -/

example : ¬ ((-1 : Int) > -1) := by decide
example : ((0 : Int) > -1) := by decide
example : (detected (0 : ℝ) (1 : ℝ) (0 : ℝ) = true) := by simp [detected]
example : (detected (2 : ℝ) (1 : ℝ) (0 : ℝ) = false) := by
  rw [detected, Bool.eq_false_iff, Ne, slt]; norm_num
example : V3.length (V3.sub (⟨1, 2, 2⟩ : V3 ℝ) ⟨0, 0, 0⟩) ≠ 0 := by
  have : V3.length (V3.sub (⟨1, 2, 2⟩ : V3 ℝ) ⟨0, 0, 0⟩) = 3 := by
    simp only [V3.length, V3.sub, V3.dot, ssqrt, hadd, hsub, hmul]
    rw [show ((1:ℝ) - 0) * (1 - 0) + (2 - 0) * (2 - 0) + (2 - 0) * (2 - 0) = 3 ^ 2 by norm_num]
    exact Real.sqrt_sq (by norm_num)
  rw [this]; norm_num

end Mjw.Props.C04
