/-
  C38  Compacted active-DOF solve is equivalent: the compaction maps between awake dofs and `[0, ncdof)`
  are mutually inverse and order preserving; exceeding the DOF capacity `nvmax` sets the overflow bit
  (`OverflowType.NVMAX = 128`); gather ∘ scatter is the identity on active dofs and frozen dofs get zero.

  Theorems are about the definitions regenerated on every run from /repo/mujoco_warp/_src/island.py
  (`Mjw.Gen.Island._reset_compact_maps`, `_compact_dofs`, `_gather_dof_arrays`, `_scatter_dof_arrays`) and
  /repo/mujoco_warp/_src/solver.py (`Mjw.Gen.Solver._gather_rhs_compact`, `_scatter_solution`,
  `_gather_dof_vecs_compact`, `_scatter_dof_vecs`), at EVERY scalar type `K`.

  Semantics used (`Model/Compact.lean`): integer / scalar array memories `IMem`, `FMem K`; a launch applies
  every thread's write list (computed from the PRE-launch memory) one thread after the other in ANY task
  order `o` (`IsGrid1 o n` / `IsGrid2 o n0 n1` : `o` lists every thread of the grid exactly once).
  `updateActiveDofs` below is the host function `update_active_dofs` in that semantics.

  Facts about the code that are recorded here rather than hidden:
  * `_compact_dofs` is ONE THREAD PER WORLD with a serial double loop; no atomics.  The compact order is the
    visiting order `(tree index, j)` lexicographic (`awakeDofs`), it does not depend on any thread order
    (`update_order_independent`); it is the increasing-dof order iff the trees' dof ranges are laid out
    increasingly (`TreesSorted`, true of MuJoCo models; `compact_order_preserving`).
  * `ncdof = min(count, nvmax)`; the exact fit `count = nvmax` does NOT set the bit and grants every dof.
  * On overflow the dofs beyond the first `nvmax` (in visiting order) get nothing: `dof_cdof` stays `-1`.
    A tree can be split in the middle (`compact_position_general`, example at the end).
  * `overflow` is sticky (only OR-ed): "bit set ⇔ overflow" needs the bit to be clear on entry.
  * The compact gather/scatter kernels live in solver.py.  The island versions in island.py behave
    differently for dofs outside the compacted set: `_scatter_dof_arrays` gives non-island dofs
    `qacc = qacc_smooth` (NOT 0), `qfrc_constraint = 0`, `Ma = qfrc_smooth` (`island_gather_scatter`).
  Modelling assumptions (not theorems): `count` does not wrap (Int, not int32); memory is unbounded (the
  in-bounds-ness of all writes is `compact_writes_in_bounds`); the kernels between gather and scatter
  (the solve) are not modelled: (6) says what gather followed directly by scatter does.
-/
import MjwVerif.Lemmas.Real
import MjwVerif.Lemmas.C38
import MjwVerif.Gen.Island
import MjwVerif.Gen.Solver
import MjwVerif.Gen.Host

namespace Mjw.Props.C38
open Mjw Mjw.Compact Mjw.Lemmas.C38

/-! ## 1. The generated kernels perform exactly the model's writes -/

/-- (1a) **compact_refines_model**: for all inputs and every thread (world) id, the write list of the
    generated `_compact_dofs` is: for the k-th awake dof `d_k` in visiting order (`awakeDofs`), if
    `k < nvmax` the two writes `dof_cdof[w, d_k] = k`, `cdof_dof[w, k] = d_k`; followed by
    `overflow[w] |= 128; ncdof[w] = nvmax` if `count > nvmax`, else `ncdof[w] = count`. -/
theorem compact_refines_model {K : Type} [Scalar K] (ntree : Int) (tree_dofadr tree_dofnum : Int → Int)
    (tree_awake_in : Int → Int → Int) (nvmax_in : Int) (warn_overflow : Bool) (ncdof_out : Int → Int)
    (dof_cdof_out cdof_dof_out : Int → Int → Int) (overflow_out : Int → Int) (tid0 : Int) :
    Gen.Island._compact_dofs (K := K) ntree tree_dofadr tree_dofnum tree_awake_in nvmax_in warn_overflow
        ncdof_out dof_cdof_out cdof_dof_out overflow_out tid0
      = compactWrites tid0 nvmax_in (overflow_out tid0)
          (awakeDofs ntree tree_dofadr tree_dofnum (tree_awake_in tid0)) := by
  unfold Gen.Island._compact_dofs
  dsimp only
  rw [outer_loop tid0 nvmax_in ntree tree_dofadr tree_dofnum (tree_awake_in tid0)]
  · dsimp only
    rw [List.nil_append, Int.zero_add,
      lookupI_not_touches _ _ _ _ (touches_grantWrites_other _ _ _ _ _ _ (by decide) (by decide))]
    unfold compactWrites tailWrites
    by_cases h : ((awakeDofs ntree tree_dofadr tree_dofnum (tree_awake_in tid0)).length : Int) > nvmax_in
    · simp only [h, decide_true, if_true, List.append_assoc, List.cons_append, List.nil_append]
    · simp only [h, decide_false, if_false, Bool.false_eq_true]
  · intro t c ws
    dsimp only
    by_cases ha : tree_awake_in tid0 t = 1
    · simp only [ha, decide_true, if_true]
      rw [inner_loop tid0 nvmax_in (tree_dofadr t)]
      intro j ws c
      unfold grant
      by_cases hc : c < nvmax_in
      · simp only [hc, decide_true, if_true, List.append_assoc, List.cons_append, List.nil_append]
      · simp only [hc, decide_false, if_false, Bool.false_eq_true, List.append_nil]
    · simp only [ha, decide_false, if_false, Bool.false_eq_true]

/-- (1b) the generated `_reset_compact_maps`: thread `(w, idx)` writes `dof_cdof[w, idx] = -1` if
    `idx < nv` and `cdof_dof[w, idx] = -1` if `idx < nvmax_pad`, nothing else. -/
theorem reset_refines_model {K : Type} [Scalar K] (nv nvmax_pad_in : Int) (dof_cdof_out cdof_dof_out : Int → Int → Int)
    (tid0 tid1 : Int) :
    Gen.Island._reset_compact_maps (K := K) nv nvmax_pad_in dof_cdof_out cdof_dof_out tid0 tid1
      = resetWrites nv nvmax_pad_in tid0 tid1 :=
  reset_refines nv nvmax_pad_in dof_cdof_out cdof_dof_out tid0 tid1

/-- (1c) the number of awake dofs (length of the visiting order) is the kernel's final `count`:
    Σ over awake trees of `max(tree_dofnum t, 0)`. -/
theorem count_eq_sum (ntree : Int) (adr num awake : Int → Int) :
    (awakeDofs ntree adr num awake).length = awakeCount ntree num awake :=
  awakeDofs_length ntree adr num awake

/-- (1d) membership in the visiting order = "dof of an awake tree" -/
theorem mem_awakeDofs_iff (ntree : Int) (adr num awake : Int → Int) (d : Int) :
    d ∈ awakeDofs ntree adr num awake ↔ IsAwakeDof ntree adr num awake d :=
  mem_awakeDofs ntree adr num awake d

/-! ## 2. The host function `update_active_dofs` -/

/-- `update_active_dofs`: launch `_reset_compact_maps` with `dim = (nworld, max(nv, nvmax_pad))` in task
    order `o1`, then `_compact_dofs` with `dim = (nworld,)` in task order `o2`.  Each launch's write
    lists are computed from the memory before that launch.  (The grids are fixed by `IsGrid2 o1 …`,
    `IsGrid1 o2 …` hypotheses of the theorems.) -/
def updateActiveDofs (K : Type) [Scalar K] (nv nvmax_pad ntree : Int) (tree_dofadr tree_dofnum : Int → Int)
    (tree_awake : Int → Int → Int) (nvmax : Int) (warn_overflow : Bool)
    (o1 : List (Int × Int)) (o2 : List Int) (m0 : IMem) : IMem :=
  let m1 := launchI (K := K) (fun t => Gen.Island._reset_compact_maps nv nvmax_pad
    (rd2 m0 "dof_cdof_out") (rd2 m0 "cdof_dof_out") t.1 t.2) o1 m0
  launchI (K := K) (fun w => Gen.Island._compact_dofs ntree tree_dofadr tree_dofnum tree_awake nvmax warn_overflow
    (rd1 m1 "ncdof_out") (rd2 m1 "dof_cdof_out") (rd2 m1 "cdof_dof_out") (rd1 m1 "overflow_out") w) o2 m1

/-- (2a) the host function on the generated kernels is the model `updateModel` with the visiting orders
    `awakeDofs` -/
theorem update_refines_model (K : Type) [Scalar K] (nv nvmax_pad ntree : Int) (adr num : Int → Int)
    (awake : Int → Int → Int) (nvmax : Int) (warn : Bool) (o1 : List (Int × Int)) (o2 : List Int) (m0 : IMem) :
    updateActiveDofs K nv nvmax_pad ntree adr num awake nvmax warn o1 o2 m0
      = updateModel K nv nvmax_pad nvmax (fun w => awakeDofs ntree adr num (awake w)) o1 o2 m0 := by
  unfold updateActiveDofs updateModel
  simp only [reset_refines_model, compact_refines_model, rd1]

/-- (2b) **update_order_independent**: the memory after `update_active_dofs` does not depend on the task
    orders of the two launches (threads own disjoint cells; inside `_compact_dofs` the loop is serial). -/
theorem update_order_independent (K : Type) [Scalar K] (nworld nv nvmax_pad ntree : Int) (adr num : Int → Int)
    (awake : Int → Int → Int) (nvmax : Int) (warn : Bool) (o1 o1' : List (Int × Int)) (o2 o2' : List Int) (m0 : IMem)
    (h1 : IsGrid2 o1 nworld (max nv nvmax_pad)) (h1' : IsGrid2 o1' nworld (max nv nvmax_pad))
    (h2 : IsGrid1 o2 nworld) (h2' : IsGrid1 o2' nworld) :
    updateActiveDofs K nv nvmax_pad ntree adr num awake nvmax warn o1 o2 m0
      = updateActiveDofs K nv nvmax_pad ntree adr num awake nvmax warn o1' o2' m0 := by
  rw [update_refines_model, update_refines_model]
  exact updateModel_order_independent K nv nvmax_pad nvmax nworld _ o1 o1' o2 o2' m0 h1 h1' h2 h2'

section final
variable (K : Type) [Scalar K] (nworld nv nvmax_pad ntree : Int) (adr num : Int → Int)
  (awake : Int → Int → Int) (nvmax : Int) (warn : Bool) (o1 : List (Int × Int)) (o2 : List Int) (m0 : IMem)

/-- (2c) **compact_final_maps**: closed form of the four arrays of world `w` after `update_active_dofs`,
    any task orders; `ds` = visiting order of the world's awake dofs.  Only hypothesis on the model: the
    trees' dof ranges are pairwise disjoint. -/
theorem compact_final_maps (h1 : IsGrid2 o1 nworld (max nv nvmax_pad)) (h2 : IsGrid1 o2 nworld)
    (hdisj : TreesDisjoint ntree adr num) (w : Int) (hw : 0 ≤ w ∧ w < nworld) :
    let ds := awakeDofs ntree adr num (awake w)
    let m2 := updateActiveDofs K nv nvmax_pad ntree adr num awake nvmax warn o1 o2 m0
    (∀ d, 0 ≤ d → d < nv → m2 "dof_cdof_out" [w, d] = dofCdof ds nvmax d)
    ∧ (∀ d, d ∈ ds → (ds.idxOf d : Int) < nvmax → m2 "dof_cdof_out" [w, d] = (ds.idxOf d : Int))
    ∧ (∀ c, 0 ≤ c → c < nvmax_pad → m2 "cdof_dof_out" [w, c] = cdofDof ds nvmax c)
    ∧ (∀ c, 0 ≤ c → c < (ds.length : Int) → c < nvmax → m2 "cdof_dof_out" [w, c] = cdofDof ds nvmax c)
    ∧ m2 "ncdof_out" [w] = ncdof ds nvmax
    ∧ m2 "overflow_out" [w]
        = if (ds.length : Int) > nvmax then Mjw.ior (m0 "overflow_out" [w]) 128 else m0 "overflow_out" [w] := by
  intro ds m2
  have hnd : ds.Nodup := awakeDofs_nodup hdisj (awake w)
  have hm2 : m2 = updateModel K nv nvmax_pad nvmax (fun w => awakeDofs ntree adr num (awake w)) o1 o2 m0 :=
    update_refines_model K nv nvmax_pad ntree adr num awake nvmax warn o1 o2 m0
  have hdof := updateModel_dof K nv nvmax_pad nvmax nworld (fun w => awakeDofs ntree adr num (awake w))
    o1 o2 m0 h1 h2 w hw hnd
  have hcdof := updateModel_cdof K nv nvmax_pad nvmax nworld (fun w => awakeDofs ntree adr num (awake w))
    o1 o2 m0 h1 h2 w hw
  refine ⟨?_, ?_, ?_, ?_, ?_, ?_⟩
  · intro d hd0 hd1
    rw [hm2, hdof d]
    unfold dofCdof
    by_cases hg : d ∈ ds ∧ (ds.idxOf d : Int) < nvmax
    · rw [if_pos hg, if_pos hg]
    · rw [if_neg hg, if_neg hg, if_pos ⟨hd0, hd1⟩]
  · intro d hd hlt
    rw [hm2, hdof d, if_pos ⟨hd, hlt⟩]
  · intro c hc0 hc1
    rw [hm2, hcdof c]
    unfold cdofDof
    by_cases hg : 0 ≤ c ∧ c < (ds.length : Int) ∧ c < nvmax
    · rw [if_pos hg, if_pos hg]
    · rw [if_neg hg, if_neg hg, if_pos ⟨hc0, hc1⟩]
  · intro c hc0 hc1 hc2
    rw [hm2, hcdof c]
    unfold cdofDof
    rw [if_pos ⟨hc0, hc1, hc2⟩, if_pos ⟨hc0, hc1, hc2⟩]
  · rw [hm2]
    exact updateModel_ncdof K nv nvmax_pad nvmax nworld _ o1 o2 m0 h2 w hw
  · rw [hm2]
    exact updateModel_overflow K nv nvmax_pad nvmax nworld _ o1 o2 m0 h2 w hw

/-! ## 3. Theorem 4: the maps are mutually inverse and order preserving -/

/-- (3a) **compact_position_general** (no assumption on `count`): the `j`-th dof of awake tree `t` is
    visited at position `offset(t) + j`, `offset(t) = awakeCount t` = number of awake dofs in the trees
    before `t`; it gets that compact index if the position is `< nvmax`, and otherwise keeps the `-1` of
    the reset.  In particular a tree with `offset(t) < nvmax < offset(t) + num t` is split. -/
theorem compact_position_general (h1 : IsGrid2 o1 nworld (max nv nvmax_pad)) (h2 : IsGrid1 o2 nworld)
    (hdisj : TreesDisjoint ntree adr num) (w : Int) (hw : 0 ≤ w ∧ w < nworld)
    (t j : Int) (ht0 : 0 ≤ t) (ht1 : t < ntree) (ha : awake w t = 1) (hj0 : 0 ≤ j) (hj1 : j < num t) :
    let m2 := updateActiveDofs K nv nvmax_pad ntree adr num awake nvmax warn o1 o2 m0
    let pos : Int := (awakeCount t num (awake w) : Int) + j
    (pos < nvmax → m2 "dof_cdof_out" [w, adr t + j] = pos ∧ m2 "cdof_dof_out" [w, pos] = adr t + j)
    ∧ (nvmax ≤ pos → 0 ≤ adr t + j → adr t + j < nv → m2 "dof_cdof_out" [w, adr t + j] = -1) := by
  dsimp only
  obtain ⟨F1, F2, -, F4, -, -⟩ := compact_final_maps K nworld nv nvmax_pad ntree adr num awake nvmax warn
    o1 o2 m0 h1 h2 hdisj w hw
  have hnd := awakeDofs_nodup hdisj (awake w)
  obtain ⟨hm, hi⟩ := awakeDofs_position (awake w) hnd t j ht0 ht1 ha hj0 hj1
  constructor
  · intro hp
    have hlt : ((awakeDofs ntree adr num (awake w)).idxOf (adr t + j) : Int) < nvmax := by rw [hi]; exact hp
    refine ⟨by rw [← hi]; exact F2 _ hm hlt, ?_⟩
    rw [← hi, F4 _ (by omega) (idxOf_lt_length_int hm) hlt, cdofDof_idxOf hm hlt]
  · intro hp hd0 hd1
    rw [F1 _ hd0 hd1]
    unfold dofCdof
    rw [if_neg (fun hh => by have := hh.2; rw [hi] at this; omega)]

/-- (3b) **compact_maps_inverse** (Theorem 4).  After `update_active_dofs` (ANY task orders), for a world
    `w` whose awake dofs fit (`count ≤ nvmax`), with pairwise disjoint tree dof ranges:
    `ncdof = count`; `dof_cdof` maps awake dofs into `[0, ncdof)` and `cdof_dof` maps `[0, ncdof)` to awake
    dofs, and the two are mutually inverse; `dof_cdof = -1` on the non-awake dofs of `[0, nv)`;
    `cdof_dof = -1` on the padded tail `[ncdof, nvmax_pad)`; inside a tree the order is preserved
    (`dof_cdof[adr+j] = dof_cdof[adr] + j`).
    Hypotheses actually needed: the two grids, `TreesDisjoint`, `count ≤ nvmax`.  NOT needed (in the
    unbounded-memory semantics): `TreesInRange`, `nvmax ≤ nvmax_pad`, `0 ≤ nvmax` (the latter follows from
    `count ≤ nvmax`); the first two are what makes the writes in-bounds (`compact_writes_in_bounds`). -/
theorem compact_maps_inverse (h1 : IsGrid2 o1 nworld (max nv nvmax_pad)) (h2 : IsGrid1 o2 nworld)
    (hdisj : TreesDisjoint ntree adr num) (w : Int) (hw : 0 ≤ w ∧ w < nworld)
    (hfit : (awakeCount ntree num (awake w) : Int) ≤ nvmax) :
    let m2 := updateActiveDofs K nv nvmax_pad ntree adr num awake nvmax warn o1 o2 m0
    let dof_cdof : Int → Int := fun d => m2 "dof_cdof_out" [w, d]
    let cdof_dof : Int → Int := fun c => m2 "cdof_dof_out" [w, c]
    let n : Int := m2 "ncdof_out" [w]
    let Awake : Int → Prop := IsAwakeDof ntree adr num (awake w)
    n = (awakeCount ntree num (awake w) : Int)
    ∧ (∀ d, Awake d → 0 ≤ dof_cdof d ∧ dof_cdof d < n ∧ cdof_dof (dof_cdof d) = d)
    ∧ (∀ c, 0 ≤ c → c < n → Awake (cdof_dof c) ∧ dof_cdof (cdof_dof c) = c)
    ∧ (∀ d, 0 ≤ d → d < nv → ¬ Awake d → dof_cdof d = -1)
    ∧ (∀ c, n ≤ c → c < nvmax_pad → cdof_dof c = -1)
    ∧ (∀ t j, 0 ≤ t → t < ntree → awake w t = 1 → 0 ≤ j → j < num t →
        dof_cdof (adr t + j) = dof_cdof (adr t) + j) := by
  dsimp only
  obtain ⟨F1, F2, F3, F4, F5, -⟩ := compact_final_maps K nworld nv nvmax_pad ntree adr num awake nvmax warn
    o1 o2 m0 h1 h2 hdisj w hw
  have hnd := awakeDofs_nodup hdisj (awake w)
  have hlen := awakeDofs_length ntree adr num (awake w)
  have hn : updateActiveDofs K nv nvmax_pad ntree adr num awake nvmax warn o1 o2 m0 "ncdof_out" [w] = (awakeCount ntree num (awake w) : Int) := by
    rw [F5]; unfold ncdof; rw [hlen]; omega
  refine ⟨hn, ?_, ?_, ?_, ?_, ?_⟩
  · intro d hd
    have hm : d ∈ awakeDofs ntree adr num (awake w) := (mem_awakeDofs _ _ _ _ _).mpr hd
    have hl := idxOf_lt_length_int hm
    have hlt : ((awakeDofs ntree adr num (awake w)).idxOf d : Int) < nvmax := by omega
    have e1 := F2 d hm hlt
    refine ⟨by omega, by omega, ?_⟩
    rw [e1]
    rw [F4 _ (by omega) hl hlt, cdofDof_idxOf hm hlt]
  · intro c hc0 hc1
    have hcl : c < ((awakeDofs ntree adr num (awake w)).length : Int) := by omega
    have hcn : c < nvmax := by omega
    have e1 := F4 c hc0 hcl hcn
    obtain ⟨hm, hi⟩ := idxOf_of_getElem? hnd (cdofDof_of_lt hc0 hcl hcn)
    rw [e1]
    refine ⟨(mem_awakeDofs _ _ _ _ _).mp hm, ?_⟩
    rw [F2 _ hm (by rw [hi]; omega), hi]
    omega
  · intro d hd0 hd1 hna
    rw [F1 d hd0 hd1]
    exact dofCdof_not_mem nvmax (fun hm => hna ((mem_awakeDofs _ _ _ _ _).mp hm))
  · intro c hc0 hc1
    rw [F3 c (by omega) hc1]
    exact cdofDof_tail (fun hh => by omega)
  · intro t j ht0 ht1 ha hj0 hj1
    have hpos := fun j hj0 hj1 => awakeDofs_position (awake w) hnd t j ht0 ht1 ha hj0 hj1
    obtain ⟨hm, hi⟩ := hpos j hj0 hj1
    obtain ⟨hm0, hi0⟩ := hpos 0 (le_refl _) (by omega)
    have hl := idxOf_lt_length_int hm
    have hl0 := idxOf_lt_length_int hm0
    have e0 : adr t + 0 = adr t := by omega
    rw [e0] at hm0 hi0
    rw [F2 _ hm (by omega), F2 _ hm0 (by omega), hi, hi0]
    omega

/-- (3c) **compact_order_lex**: (fit case) the compact order is the visiting order `(tree, j)`
    lexicographic: `dof_cdof[adr t + j] = offset(t) + j`, hence `(t, j) <_lex (t', j')` implies
    `dof_cdof[adr t + j] < dof_cdof[adr t' + j']`.  The loop that fixes this order is serial inside the one
    thread of the world, so no thread order can change it. -/
theorem compact_order_lex (h1 : IsGrid2 o1 nworld (max nv nvmax_pad)) (h2 : IsGrid1 o2 nworld)
    (hdisj : TreesDisjoint ntree adr num) (w : Int) (hw : 0 ≤ w ∧ w < nworld)
    (hfit : (awakeCount ntree num (awake w) : Int) ≤ nvmax) :
    let m2 := updateActiveDofs K nv nvmax_pad ntree adr num awake nvmax warn o1 o2 m0
    let dof_cdof : Int → Int := fun d => m2 "dof_cdof_out" [w, d]
    (∀ t j, 0 ≤ t → t < ntree → awake w t = 1 → 0 ≤ j → j < num t →
        dof_cdof (adr t + j) = (awakeCount t num (awake w) : Int) + j)
    ∧ (∀ t j t' j', 0 ≤ t → t' < ntree → awake w t = 1 → awake w t' = 1 →
        0 ≤ j → j < num t → 0 ≤ j' → j' < num t' → (t < t' ∨ (t = t' ∧ j < j')) →
        dof_cdof (adr t + j) < dof_cdof (adr t' + j')) := by
  dsimp only
  have hnd := awakeDofs_nodup hdisj (awake w)
  have hlen := awakeDofs_length ntree adr num (awake w)
  have hpos : ∀ t j, 0 ≤ t → t < ntree → awake w t = 1 → 0 ≤ j → j < num t →
      updateActiveDofs K nv nvmax_pad ntree adr num awake nvmax warn o1 o2 m0 "dof_cdof_out" [w, adr t + j] = (awakeCount t num (awake w) : Int) + j := by
    intro t j ht0 ht1 ha hj0 hj1
    obtain ⟨hm, hi⟩ := awakeDofs_position (awake w) hnd t j ht0 ht1 ha hj0 hj1
    have hl := idxOf_lt_length_int hm
    exact ((compact_position_general K nworld nv nvmax_pad ntree adr num awake nvmax warn o1 o2 m0 h1 h2 hdisj
      w hw t j ht0 ht1 ha hj0 hj1).1 (by omega)).1
  refine ⟨hpos, ?_⟩
  intro t j t' j' ht0 ht1' ha ha' hj0 hj1 hj0' hj1' hlex
  rcases hlex with hlt | ⟨rfl, hjj⟩
  · rw [hpos t j ht0 (by omega) ha hj0 hj1, hpos t' j' (by omega) ht1' ha' hj0' hj1']
    have := awakeCount_mono adr num (awake w) t t' ht0 hlt ha
    omega
  · rw [hpos t j ht0 ht1' ha hj0 hj1, hpos t j' ht0 ht1' ha hj0' hj1']
    omega

/-- (3d) **compact_order_preserving** (global): if the trees' dof ranges are laid out increasingly
    (`TreesSorted`: `t < t'` ⇒ `adr t + num t ≤ adr t'`, as in MuJoCo models), the compaction is strictly
    increasing on awake dofs: `d < d'` ⇒ `dof_cdof d < dof_cdof d'` (fit case).  Without `TreesSorted`
    the compact order is still the visiting order (3c), which then differs from the dof order (example
    at the end of the file). -/
theorem compact_order_preserving (h1 : IsGrid2 o1 nworld (max nv nvmax_pad)) (h2 : IsGrid1 o2 nworld)
    (hsorted : TreesSorted ntree adr num) (w : Int) (hw : 0 ≤ w ∧ w < nworld)
    (hfit : (awakeCount ntree num (awake w) : Int) ≤ nvmax) (d d' : Int)
    (hd : IsAwakeDof ntree adr num (awake w) d) (hd' : IsAwakeDof ntree adr num (awake w) d') (hlt : d < d') :
    let m2 := updateActiveDofs K nv nvmax_pad ntree adr num awake nvmax warn o1 o2 m0
    m2 "dof_cdof_out" [w, d] < m2 "dof_cdof_out" [w, d'] := by
  dsimp only
  obtain ⟨-, F2, -, -, -, -⟩ := compact_final_maps K nworld nv nvmax_pad ntree adr num awake nvmax warn
    o1 o2 m0 h1 h2 (treesDisjoint_of_sorted hsorted) w hw
  have hlen := awakeDofs_length ntree adr num (awake w)
  have hm := (mem_awakeDofs _ _ _ _ _).mpr hd
  have hm' := (mem_awakeDofs _ _ _ _ _).mpr hd'
  have hl := idxOf_lt_length_int hm
  have hl' := idxOf_lt_length_int hm'
  rw [F2 d hm (by omega), F2 d' hm' (by omega)]
  have := idxOf_lt_of_sorted (awakeDofs_sorted hsorted (awake w)) hm hm' hlt
  omega

/-- (3e) **compact_maps_overflow**: when `count > nvmax` (and `0 ≤ nvmax`), `ncdof = nvmax`; the first
    `nvmax` awake dofs in visiting order (`ds[k]`, `k < nvmax`) are mapped bijectively onto `[0, nvmax)`;
    every other awake dof (`ds[k]`, `k ≥ nvmax`; it lies in `[0, nv)` by `TreesInRange`) has
    `dof_cdof = -1`, i.e. is silently frozen — the cut is at position `nvmax` of the visiting order,
    wherever that falls, also in the middle of a tree; at least one awake dof is cut (`ds[nvmax]`). -/
theorem compact_maps_overflow (h1 : IsGrid2 o1 nworld (max nv nvmax_pad)) (h2 : IsGrid1 o2 nworld)
    (hdisj : TreesDisjoint ntree adr num) (hrange : TreesInRange ntree adr num nv) (hnv : 0 ≤ nvmax)
    (w : Int) (hw : 0 ≤ w ∧ w < nworld)
    (hover : (awakeCount ntree num (awake w) : Int) > nvmax) :
    let ds := awakeDofs ntree adr num (awake w)
    let m2 := updateActiveDofs K nv nvmax_pad ntree adr num awake nvmax warn o1 o2 m0
    let dof_cdof : Int → Int := fun d => m2 "dof_cdof_out" [w, d]
    let cdof_dof : Int → Int := fun c => m2 "cdof_dof_out" [w, c]
    m2 "ncdof_out" [w] = nvmax
    ∧ (∀ (k : Nat) (hk : k < ds.length), (k : Int) < nvmax → dof_cdof ds[k] = k ∧ cdof_dof k = ds[k])
    ∧ (∀ (k : Nat) (hk : k < ds.length), nvmax ≤ (k : Int) → dof_cdof ds[k] = -1)
    ∧ (∀ c, nvmax ≤ c → c < nvmax_pad → cdof_dof c = -1)
    ∧ (∃ d, IsAwakeDof ntree adr num (awake w) d ∧ dof_cdof d = -1) := by
  dsimp only
  obtain ⟨F1, F2, F3, F4, F5, -⟩ := compact_final_maps K nworld nv nvmax_pad ntree adr num awake nvmax warn
    o1 o2 m0 h1 h2 hdisj w hw
  generalize hds : awakeDofs ntree adr num (awake w) = ds at F1 F2 F3 F4 F5
  have hnd : ds.Nodup := by rw [← hds]; exact awakeDofs_nodup hdisj (awake w)
  have hlen : ds.length = awakeCount ntree num (awake w) := by rw [← hds]; exact awakeDofs_length ntree adr num (awake w)
  have hmemr : ∀ d, d ∈ ds → 0 ≤ d ∧ d < nv := fun d hd => awakeDofs_inRange hrange (awake w) d (by rw [hds]; exact hd)
  have hcut : ∀ (k : Nat) (hk : k < ds.length), nvmax ≤ (k : Int) →
      updateActiveDofs K nv nvmax_pad ntree adr num awake nvmax warn o1 o2 m0 "dof_cdof_out" [w, ds[k]] = -1 := by
    intro k hk hge
    have hmem : ds[k] ∈ ds := List.getElem_mem hk
    obtain ⟨hr0, hr1⟩ := hmemr _ hmem
    rw [F1 _ hr0 hr1, dofCdof_of_getElem? hnd nvmax (List.getElem?_eq_getElem hk), if_neg (by omega)]
  refine ⟨?_, ?_, hcut, ?_, ?_⟩
  · rw [F5]; unfold ncdof; omega
  · intro k hk hlt
    have hmem : ds[k] ∈ ds := List.getElem_mem hk
    have hi : ds.idxOf ds[k] = k := hnd.idxOf_getElem k hk
    constructor
    · rw [F2 _ hmem (by rw [hi]; exact hlt), hi]
    · rw [F4 _ (by omega) (by omega) hlt]
      have := cdofDof_idxOf hmem (nvmax := nvmax) (by rw [hi]; exact hlt)
      rw [hi] at this
      exact this
  · intro c hc0 hc1
    rw [F3 c (by omega) hc1]
    exact cdofDof_tail (fun hh => by omega)
  · have hk : nvmax.toNat < ds.length := by omega
    exact ⟨ds[nvmax.toNat], (mem_awakeDofs _ _ _ _ _).mp (by rw [hds]; exact List.getElem_mem hk), hcut _ hk (by omega)⟩

/-! ## 4. Theorem 5: the overflow bit and `ncdof` -/

/-- (4a) `ncdof[w] = min(count, nvmax)` (no hypothesis on the model at all besides the grids) -/
theorem compact_ncdof_eq_min (h2 : IsGrid1 o2 nworld) (w : Int) (hw : 0 ≤ w ∧ w < nworld) :
    updateActiveDofs K nv nvmax_pad ntree adr num awake nvmax warn o1 o2 m0 "ncdof_out" [w]
      = min (awakeCount ntree num (awake w) : Int) nvmax := by
  rw [update_refines_model, updateModel_ncdof K nv nvmax_pad nvmax nworld _ o1 o2 m0 h2 w hw, awakeDofs_length]

/-- (4b) unconditional value form: the final overflow word is the entry word, OR-ed with `NVMAX = 128`
    exactly when the number of awake dofs exceeds `nvmax` (the word is sticky: never cleared here). -/
theorem compact_overflow_value (h2 : IsGrid1 o2 nworld) (w : Int) (hw : 0 ≤ w ∧ w < nworld) :
    updateActiveDofs K nv nvmax_pad ntree adr num awake nvmax warn o1 o2 m0 "overflow_out" [w]
      = if (awakeCount ntree num (awake w) : Int) > nvmax then Mjw.ior (m0 "overflow_out" [w]) 128
        else m0 "overflow_out" [w] := by
  rw [update_refines_model, updateModel_overflow K nv nvmax_pad nvmax nworld _ o1 o2 m0 h2 w hw, awakeDofs_length]

/-- (4c) **compact_overflow_iff** (Theorem 5): if the NVMAX bit of `overflow[w]` was clear on entry, then
    after `update_active_dofs` it is set iff the number of awake dofs exceeds `nvmax`. -/
theorem compact_overflow_iff (h2 : IsGrid1 o2 nworld) (w : Int) (hw : 0 ≤ w ∧ w < nworld)
    (hclear : hasNvmaxBit (m0 "overflow_out" [w]) = false) :
    hasNvmaxBit (updateActiveDofs K nv nvmax_pad ntree adr num awake nvmax warn o1 o2 m0 "overflow_out" [w]) = true
      ↔ (awakeCount ntree num (awake w) : Int) > nvmax := by
  rw [compact_overflow_value K nworld nv nvmax_pad ntree adr num awake nvmax warn o1 o2 m0 h2 w hw]
  by_cases h : (awakeCount ntree num (awake w) : Int) > nvmax
  · rw [if_pos h]; simp [hasNvmaxBit_ior, h]
  · rw [if_neg h, hclear]; simp [h]

/-- (4c') sticky: a bit that was set on entry stays set, whatever the count -/
theorem compact_overflow_sticky (h2 : IsGrid1 o2 nworld) (w : Int) (hw : 0 ≤ w ∧ w < nworld)
    (hset : hasNvmaxBit (m0 "overflow_out" [w]) = true) :
    hasNvmaxBit (updateActiveDofs K nv nvmax_pad ntree adr num awake nvmax warn o1 o2 m0 "overflow_out" [w]) = true := by
  rw [compact_overflow_value K nworld nv nvmax_pad ntree adr num awake nvmax warn o1 o2 m0 h2 w hw]
  by_cases h : (awakeCount ntree num (awake w) : Int) > nvmax
  · rw [if_pos h]; exact hasNvmaxBit_ior _
  · rw [if_neg h]; exact hset

/-- (4d) **compact_exact_fit**: `count = nvmax` ⇒ the overflow word is unchanged (bit not set if it was
    clear), `ncdof = nvmax = count`, and every awake dof is granted an index in `[0, nvmax)`. -/
theorem compact_exact_fit (h1 : IsGrid2 o1 nworld (max nv nvmax_pad)) (h2 : IsGrid1 o2 nworld)
    (hdisj : TreesDisjoint ntree adr num) (w : Int) (hw : 0 ≤ w ∧ w < nworld)
    (hexact : (awakeCount ntree num (awake w) : Int) = nvmax) :
    let m2 := updateActiveDofs K nv nvmax_pad ntree adr num awake nvmax warn o1 o2 m0
    m2 "overflow_out" [w] = m0 "overflow_out" [w]
    ∧ (hasNvmaxBit (m0 "overflow_out" [w]) = false → hasNvmaxBit (m2 "overflow_out" [w]) = false)
    ∧ m2 "ncdof_out" [w] = nvmax
    ∧ (∀ d, IsAwakeDof ntree adr num (awake w) d →
        0 ≤ m2 "dof_cdof_out" [w, d] ∧ m2 "dof_cdof_out" [w, d] < nvmax
          ∧ m2 "cdof_dof_out" [w, m2 "dof_cdof_out" [w, d]] = d) := by
  dsimp only
  have hov : updateActiveDofs K nv nvmax_pad ntree adr num awake nvmax warn o1 o2 m0 "overflow_out" [w] = m0 "overflow_out" [w] := by
    rw [compact_overflow_value K nworld nv nvmax_pad ntree adr num awake nvmax warn o1 o2 m0 h2 w hw,
      if_neg (by omega)]
  obtain ⟨hn, hfw, -⟩ := compact_maps_inverse K nworld nv nvmax_pad ntree adr num awake nvmax warn o1 o2 m0
    h1 h2 hdisj w hw (by omega)
  have hn' : updateActiveDofs K nv nvmax_pad ntree adr num awake nvmax warn o1 o2 m0 "ncdof_out" [w] = nvmax := hn.trans hexact
  refine ⟨hov, fun h => by rw [hov]; exact h, hn', ?_⟩
  intro d hd
  obtain ⟨a, b, c⟩ := hfw d hd
  rw [hn'] at b
  exact ⟨a, b, c⟩

/-! ## 5. In-bounds-ness of the writes (where `TreesInRange` and `nvmax ≤ nvmax_pad` are needed) -/

/-- (5) every write of a `_compact_dofs` thread is inside its array: `dof_cdof` is `nworld × nv`,
    `cdof_dof` is `nworld × nvmax_pad`, `overflow`/`ncdof` are `nworld`-long. -/
theorem compact_writes_in_bounds {K : Type} [Scalar K] (ntree nv nvmax nvmax_pad : Int) (adr num : Int → Int)
    (awake : Int → Int → Int) (warn : Bool) (nc : Int → Int) (dc cd : Int → Int → Int) (ov : Int → Int) (w : Int)
    (hrange : TreesInRange ntree adr num nv) (hpad : nvmax ≤ nvmax_pad) :
    ∀ wr ∈ Gen.Island._compact_dofs (K := K) ntree adr num awake nvmax warn nc dc cd ov w,
      (wr.arr = "dof_cdof_out" ∧ ∃ d, wr.idx = [w, d] ∧ 0 ≤ d ∧ d < nv)
      ∨ (wr.arr = "cdof_dof_out" ∧ ∃ c, wr.idx = [w, c] ∧ 0 ≤ c ∧ c < nvmax_pad)
      ∨ ((wr.arr = "overflow_out" ∨ wr.arr = "ncdof_out") ∧ wr.idx = [w]) := by
  rw [compact_refines_model]
  intro wr hwr
  unfold compactWrites at hwr
  rcases List.mem_append.mp hwr with h | h
  · have key : ∀ (ds : List Int) (c : Int), 0 ≤ c → (∀ d ∈ ds, 0 ≤ d ∧ d < nv) →
        ∀ wr ∈ grantWrites (K := K) w nvmax c ds,
          (wr.arr = "dof_cdof_out" ∧ ∃ d, wr.idx = [w, d] ∧ 0 ≤ d ∧ d < nv)
          ∨ (wr.arr = "cdof_dof_out" ∧ ∃ c, wr.idx = [w, c] ∧ 0 ≤ c ∧ c < nvmax_pad) := by
      intro ds
      induction ds with
      | nil => intro c _ _ wr hwr; cases hwr
      | cons d ds ih =>
        intro c hc hds wr hwr
        rcases List.mem_append.mp hwr with hg | hg
        · unfold grant at hg
          by_cases hcn : c < nvmax
          · rw [if_pos hcn] at hg
            simp only [List.mem_cons, List.mem_nil_iff, or_false] at hg
            rcases hg with rfl | rfl
            · exact Or.inl ⟨rfl, d, rfl, hds d List.mem_cons_self⟩
            · exact Or.inr ⟨rfl, c, rfl, hc, by omega⟩
          · rw [if_neg hcn] at hg; cases hg
        · exact ih (c + 1) (by omega) (fun d' hd' => hds d' (List.mem_cons_of_mem _ hd')) wr hg
    rcases key _ 0 (le_refl _) (fun d hd => awakeDofs_inRange hrange (awake w) d hd) wr h with hh | hh
    · exact Or.inl hh
    · exact Or.inr (Or.inl hh)
  · unfold tailWrites at h
    split at h
    · simp only [List.mem_cons, List.mem_nil_iff, or_false] at h
      rcases h with rfl | rfl
      · exact Or.inr (Or.inr ⟨Or.inl rfl, rfl⟩)
      · exact Or.inr (Or.inr ⟨Or.inr rfl, rfl⟩)
    · simp only [List.mem_cons, List.mem_nil_iff, or_false] at h
      subst h
      exact Or.inr (Or.inr ⟨Or.inr rfl, rfl⟩)

end final

/-! ## 6. Theorem 6: gather followed by scatter -/

section gather_scatter
variable {K : Type} [Scalar K]

/-- (6a) what the `_gather_dof_vecs_compact` launch (`dim = (nworld, nvmax_pad)`, any task order) leaves
    in the compacted arrays: cell `[w, c]` is written by thread `(w, c)` only and holds the source value
    at dof `cdof_dof[w, c]`, or exactly `0` for a padded entry (`cdof_dof[w, c] < 0`). -/
theorem gather_compact_cells (nworld nvmax_pad : Int) (cdof_dof : Int → Int → Int)
    (qacc_warmstart qfrc_smooth qacc_smooth : Int → Int → K) (oG : List (Int × Int)) (m0 : FMem K)
    (hG : IsGrid2 oG nworld nvmax_pad) (w c : Int) (hw : 0 ≤ w ∧ w < nworld) (hc : 0 ≤ c ∧ c < nvmax_pad) :
    let m1 := launchF (fun t => Gen.Solver._gather_dof_vecs_compact qacc_warmstart qfrc_smooth qacc_smooth cdof_dof
      (rd2 m0 "qfrc_smooth_c_out") (rd2 m0 "qacc_smooth_c_out") (rd2 m0 "qacc_warmstart_c_out") t.1 t.2) oG m0
    m1 "qacc_warmstart_c_out" [w, c]
        = (if 0 ≤ cdof_dof w c then qacc_warmstart w (cdof_dof w c) else Scalar.lit 0 0)
    ∧ m1 "qfrc_smooth_c_out" [w, c]
        = (if 0 ≤ cdof_dof w c then qfrc_smooth w (cdof_dof w c) else Scalar.lit 0 0)
    ∧ m1 "qacc_smooth_c_out" [w, c]
        = (if 0 ≤ cdof_dof w c then qacc_smooth w (cdof_dof w c) else Scalar.lit 0 0) := by
  dsimp only
  have hg : 0 ≤ w ∧ w < nworld ∧ 0 ≤ c ∧ c < nvmax_pad := ⟨hw.1, hw.2, hc.1, hc.2⟩
  refine ⟨?_, ?_, ?_⟩ <;>
  · rw [launchF_grid2_cell _ oG nworld nvmax_pad hG (fun t => prefix2_gather_dof_vecs _ _ _ _ _ _ _ t), if_pos hg]
    unfold Gen.Solver._gather_dof_vecs_compact
    by_cases h : 0 ≤ cdof_dof w c <;> simp [Write.lookupF, h]

/-- (6b) **gather_scatter_id** (Theorem 6): feed the `qacc_warmstart_c` written by the
    `_gather_dof_vecs_compact` launch (`dim = (nworld, nvmax_pad)`) as `qacc_c_in` of the
    `_scatter_dof_vecs` launch (`dim = (nworld, nv)`), any task orders.  Cell `qacc[w, i]` is written by
    scatter thread `(w, i)` only; it reads the cell `[w, dof_cdof[w,i]]` written by gather thread
    `(w, dof_cdof[w,i])`.  Result: `qacc[w,i] = qacc_warmstart[w,i]` on active dofs (`dof_cdof ≥ 0`, using
    `cdof_dof[dof_cdof i] = i`) and EXACTLY `Scalar.lit 0 0` on frozen dofs (`dof_cdof < 0`);
    `qfrc_constraint[w,i]` is the compacted value on active dofs and exactly 0 on frozen dofs. -/
theorem gather_scatter_id (nworld nv nvmax_pad : Int) (dof_cdof cdof_dof : Int → Int → Int)
    (qacc_warmstart qfrc_smooth qacc_smooth qfrc_constraint_c : Int → Int → K)
    (oG oS : List (Int × Int)) (m0 : FMem K)
    (hG : IsGrid2 oG nworld nvmax_pad) (hS : IsGrid2 oS nworld nv)
    (w i : Int) (hw : 0 ≤ w ∧ w < nworld) (hi : 0 ≤ i ∧ i < nv)
    (hinv : 0 ≤ dof_cdof w i → dof_cdof w i < nvmax_pad ∧ cdof_dof w (dof_cdof w i) = i) :
    let m1 := launchF (fun t => Gen.Solver._gather_dof_vecs_compact qacc_warmstart qfrc_smooth qacc_smooth cdof_dof
      (rd2 m0 "qfrc_smooth_c_out") (rd2 m0 "qacc_smooth_c_out") (rd2 m0 "qacc_warmstart_c_out") t.1 t.2) oG m0
    let m2 := launchF (fun t => Gen.Solver._scatter_dof_vecs dof_cdof (rd2 m1 "qacc_warmstart_c_out")
      qfrc_constraint_c (rd2 m1 "qacc_out") (rd2 m1 "qfrc_constraint_out") t.1 t.2) oS m1
    m2 "qacc_out" [w, i] = (if 0 ≤ dof_cdof w i then qacc_warmstart w i else Scalar.lit 0 0)
    ∧ m2 "qfrc_constraint_out" [w, i]
        = (if 0 ≤ dof_cdof w i then qfrc_constraint_c w (dof_cdof w i) else Scalar.lit 0 0) := by
  dsimp only
  have hg : 0 ≤ w ∧ w < nworld ∧ 0 ≤ i ∧ i < nv := ⟨hw.1, hw.2, hi.1, hi.2⟩
  constructor
  · rw [launchF_grid2_cell _ oS nworld nv hS (fun t => prefix2_scatter_dof_vecs _ _ _ _ _ t), if_pos hg]
    by_cases h : 0 ≤ dof_cdof w i
    · obtain ⟨hlt, hback⟩ := hinv h
      have hcell := (gather_compact_cells nworld nvmax_pad cdof_dof qacc_warmstart qfrc_smooth qacc_smooth oG m0 hG
        w (dof_cdof w i) hw ⟨h, hlt⟩).1
      unfold Gen.Solver._scatter_dof_vecs
      simp only [Write.lookupF, h, decide_true, if_true, rd2, hcell, hback]
      simp [hi.1]
    · unfold Gen.Solver._scatter_dof_vecs
      simp [Write.lookupF, h]
  · rw [launchF_grid2_cell _ oS nworld nv hS (fun t => prefix2_scatter_dof_vecs _ _ _ _ _ t), if_pos hg]
    unfold Gen.Solver._scatter_dof_vecs
    by_cases h : 0 ≤ dof_cdof w i <;> simp [Write.lookupF, h]

/-- (6c) the same for `_gather_rhs_compact` (`dim = (nworld, nvmax_pad)`) followed by `_scatter_solution`
    (`dim = (nworld, nv)`) with the gathered right-hand side fed back as `x_in` (i.e. the solve in between
    replaced by the identity): the vector is restored on active dofs, frozen dofs get exactly 0, and the
    padded entries of the gathered vector (`cdof_dof < 0`) are exactly 0. -/
theorem gather_scatter_rhs (nworld nv nvmax_pad : Int) (dof_cdof cdof_dof : Int → Int → Int)
    (vec : Int → Int → K) (oG oS : List (Int × Int)) (m0 : FMem K)
    (hG : IsGrid2 oG nworld nvmax_pad) (hS : IsGrid2 oS nworld nv) (w : Int) (hw : 0 ≤ w ∧ w < nworld) :
    let m1 := launchF (fun t => Gen.Solver._gather_rhs_compact cdof_dof vec (rd3 m0 "rhs_out") t.1 t.2) oG m0
    let m2 := launchF (fun t => Gen.Solver._scatter_solution dof_cdof (rd3 m1 "rhs_out") (rd2 m1 "vec_out") t.1 t.2) oS m1
    (∀ c, 0 ≤ c → c < nvmax_pad →
      m1 "rhs_out" [w, c, 0] = (if 0 ≤ cdof_dof w c then vec w (cdof_dof w c) else Scalar.lit 0 0))
    ∧ (∀ i, 0 ≤ i → i < nv →
      (0 ≤ dof_cdof w i → dof_cdof w i < nvmax_pad ∧ cdof_dof w (dof_cdof w i) = i) →
      m2 "vec_out" [w, i] = (if 0 ≤ dof_cdof w i then vec w i else Scalar.lit 0 0)) := by
  dsimp only
  have hgather : ∀ c, 0 ≤ c → c < nvmax_pad →
      launchF (fun t => Gen.Solver._gather_rhs_compact cdof_dof vec (rd3 m0 "rhs_out") t.1 t.2) oG m0
        "rhs_out" [w, c, 0] = (if 0 ≤ cdof_dof w c then vec w (cdof_dof w c) else Scalar.lit 0 0) := by
    intro c hc0 hc1
    rw [launchF_grid2_cell _ oG nworld nvmax_pad hG (fun t => prefix2_gather_rhs _ _ _ t),
      if_pos ⟨hw.1, hw.2, hc0, hc1⟩]
    unfold Gen.Solver._gather_rhs_compact
    by_cases h : 0 ≤ cdof_dof w c <;> simp [Write.lookupF, h]
  refine ⟨hgather, ?_⟩
  intro i hi0 hi1 hinv
  rw [launchF_grid2_cell _ oS nworld nv hS (fun t => prefix2_scatter_solution _ _ _ t),
    if_pos ⟨hw.1, hw.2, hi0, hi1⟩]
  by_cases h : 0 ≤ dof_cdof w i
  · obtain ⟨hlt, hback⟩ := hinv h
    have hcell := hgather (dof_cdof w i) h hlt
    unfold Gen.Solver._scatter_solution
    simp only [Write.lookupF, h, decide_true, if_true, rd3, hcell, hback]
    simp [hi0]
  · unfold Gen.Solver._scatter_solution
    simp [Write.lookupF, h]

/-- (6d) **island_gather_scatter**: the ISLAND versions in island.py, `_gather_dof_arrays`
    (`dim = (nworld, ng)`, threads `idof ≥ nidof[w]` write nothing) followed by `_scatter_dof_arrays`
    (`dim = (nworld, nv)`) with the gathered `iacc` fed back.  Island dofs (`dof_island ≥ 0`, with
    `idof = map_dof2idof[w,i]` in `[0, nidof[w])` and `map_idof2dof[w, idof] = i`) get `qacc` back and
    `qfrc_constraint = ifrc_constraint[idof]`.  NON-island dofs do NOT get 0: they get
    `qacc = qacc_smooth`, `qfrc_constraint = 0` exactly, and (if `scatter_Ma`) `Ma = qfrc_smooth`. -/
theorem island_gather_scatter (nworld nv ng : Int) (dof_island map_dof2idof map_idof2dof : Int → Int → Int)
    (nidof : Int → Int) (qacc qacc_smooth qfrc_smooth ifrc_constraint iMa : Int → Int → K) (scatter_Ma : Bool)
    (oG oS : List (Int × Int)) (m0 : FMem K)
    (hG : IsGrid2 oG nworld ng) (hS : IsGrid2 oS nworld nv)
    (w i : Int) (hw : 0 ≤ w ∧ w < nworld) (hi : 0 ≤ i ∧ i < nv) :
    let m1 := launchF (fun t => Gen.Island._gather_dof_arrays qacc qacc_smooth qfrc_smooth nidof map_idof2dof
      (rd2 m0 "iacc_out") (rd2 m0 "iacc_smooth_out") (rd2 m0 "ifrc_smooth_out") t.1 t.2) oG m0
    let m2 := launchF (fun t => Gen.Island._scatter_dof_arrays qacc_smooth qfrc_smooth dof_island
      (rd2 m1 "iacc_out") ifrc_constraint iMa map_dof2idof scatter_Ma
      (rd2 m1 "qacc_out") (rd2 m1 "qfrc_constraint_out") (rd2 m1 "Ma_out") t.1 t.2) oS m1
    (0 ≤ dof_island w i →
      (0 ≤ map_dof2idof w i ∧ map_dof2idof w i < nidof w ∧ map_dof2idof w i < ng
        ∧ map_idof2dof w (map_dof2idof w i) = i) →
      m2 "qacc_out" [w, i] = qacc w i
      ∧ m2 "qfrc_constraint_out" [w, i] = ifrc_constraint w (map_dof2idof w i)
      ∧ (scatter_Ma = true → m2 "Ma_out" [w, i] = iMa w (map_dof2idof w i)))
    ∧ (dof_island w i < 0 →
      m2 "qacc_out" [w, i] = qacc_smooth w i
      ∧ m2 "qfrc_constraint_out" [w, i] = Scalar.lit 0 0
      ∧ (scatter_Ma = true → m2 "Ma_out" [w, i] = qfrc_smooth w i)) := by
  dsimp only
  have hg : 0 ≤ w ∧ w < nworld ∧ 0 ≤ i ∧ i < nv := ⟨hw.1, hw.2, hi.1, hi.2⟩
  constructor
  · intro hisl ⟨hd0, hd1, hd2, hback⟩
    have hnot : ¬ dof_island w i < 0 := by omega
    have hcell : launchF (fun t => Gen.Island._gather_dof_arrays qacc qacc_smooth qfrc_smooth nidof map_idof2dof
        (rd2 m0 "iacc_out") (rd2 m0 "iacc_smooth_out") (rd2 m0 "ifrc_smooth_out") t.1 t.2) oG m0
        "iacc_out" [w, map_dof2idof w i] = qacc w i := by
      rw [launchF_grid2_cell _ oG nworld ng hG (fun t => prefix2_gather_dof_arrays _ _ _ _ _ _ _ _ t),
        if_pos ⟨hw.1, hw.2, hd0, hd2⟩]
      unfold Gen.Island._gather_dof_arrays
      have : ¬ (map_dof2idof w i ≥ nidof w) := by omega
      simp [Write.lookupF, this, hback]
    refine ⟨?_, ?_, ?_⟩
    · rw [launchF_grid2_cell _ oS nworld nv hS (fun t => prefix2_scatter_dof_arrays _ _ _ _ _ _ _ _ _ _ _ t),
        if_pos hg]
      unfold Gen.Island._scatter_dof_arrays
      cases scatter_Ma <;> simp [Write.lookupF, hnot, rd2, hcell]
    · rw [launchF_grid2_cell _ oS nworld nv hS (fun t => prefix2_scatter_dof_arrays _ _ _ _ _ _ _ _ _ _ _ t),
        if_pos hg]
      unfold Gen.Island._scatter_dof_arrays
      cases scatter_Ma <;> simp [Write.lookupF, hnot]
    · intro hs
      subst hs
      rw [launchF_grid2_cell _ oS nworld nv hS (fun t => prefix2_scatter_dof_arrays _ _ _ _ _ _ _ _ _ _ _ t),
        if_pos hg]
      unfold Gen.Island._scatter_dof_arrays
      simp [Write.lookupF, hnot]
  · intro hisl
    refine ⟨?_, ?_, ?_⟩
    · rw [launchF_grid2_cell _ oS nworld nv hS (fun t => prefix2_scatter_dof_arrays _ _ _ _ _ _ _ _ _ _ _ t),
        if_pos hg]
      unfold Gen.Island._scatter_dof_arrays
      cases scatter_Ma <;> simp [Write.lookupF, hisl]
    · rw [launchF_grid2_cell _ oS nworld nv hS (fun t => prefix2_scatter_dof_arrays _ _ _ _ _ _ _ _ _ _ _ t),
        if_pos hg]
      unfold Gen.Island._scatter_dof_arrays
      cases scatter_Ma <;> simp [Write.lookupF, hisl]
    · intro hs
      subst hs
      rw [launchF_grid2_cell _ oS nworld nv hS (fun t => prefix2_scatter_dof_arrays _ _ _ _ _ _ _ _ _ _ _ t),
        if_pos hg]
      unfold Gen.Island._scatter_dof_arrays
      simp [Write.lookupF, hisl]

/-- (6e) **compact_gather_scatter**: Theorems 4 and 6 put together.  Build the maps with
    `update_active_dofs` (fit case, disjoint trees, `nvmax ≤ nvmax_pad`), then gather with `cdof_dof` and
    scatter with `dof_cdof` (all four launches in ANY task orders): every awake dof of `[0, nv)` gets its
    `qacc_warmstart` back, every non-awake dof gets exactly `0`. -/
theorem compact_gather_scatter (nworld nv nvmax_pad ntree : Int) (adr num : Int → Int)
    (awake : Int → Int → Int) (nvmax : Int) (warn : Bool) (o1 : List (Int × Int)) (o2 : List Int) (mI : IMem)
    (h1 : IsGrid2 o1 nworld (max nv nvmax_pad)) (h2 : IsGrid1 o2 nworld)
    (hdisj : TreesDisjoint ntree adr num) (hpad : nvmax ≤ nvmax_pad) (w : Int) (hw : 0 ≤ w ∧ w < nworld)
    (hfit : (awakeCount ntree num (awake w) : Int) ≤ nvmax)
    (qacc_warmstart qfrc_smooth qacc_smooth qfrc_constraint_c : Int → Int → K)
    (oG oS : List (Int × Int)) (m0 : FMem K)
    (hG : IsGrid2 oG nworld nvmax_pad) (hS : IsGrid2 oS nworld nv) (i : Int) (hi : 0 ≤ i ∧ i < nv) :
    let mI2 := updateActiveDofs K nv nvmax_pad ntree adr num awake nvmax warn o1 o2 mI
    let m1 := launchF (fun t => Gen.Solver._gather_dof_vecs_compact qacc_warmstart qfrc_smooth qacc_smooth
      (rd2 mI2 "cdof_dof_out")
      (rd2 m0 "qfrc_smooth_c_out") (rd2 m0 "qacc_smooth_c_out") (rd2 m0 "qacc_warmstart_c_out") t.1 t.2) oG m0
    let m2 := launchF (fun t => Gen.Solver._scatter_dof_vecs (rd2 mI2 "dof_cdof_out")
      (rd2 m1 "qacc_warmstart_c_out") qfrc_constraint_c (rd2 m1 "qacc_out") (rd2 m1 "qfrc_constraint_out")
      t.1 t.2) oS m1
    (IsAwakeDof ntree adr num (awake w) i → m2 "qacc_out" [w, i] = qacc_warmstart w i)
    ∧ (¬ IsAwakeDof ntree adr num (awake w) i → m2 "qacc_out" [w, i] = Scalar.lit 0 0) := by
  dsimp only
  obtain ⟨hn, hfw, -, hna, -, -⟩ := compact_maps_inverse K nworld nv nvmax_pad ntree adr num awake nvmax warn
    o1 o2 mI h1 h2 hdisj w hw hfit
  have key := (gather_scatter_id nworld nv nvmax_pad
    (rd2 (updateActiveDofs K nv nvmax_pad ntree adr num awake nvmax warn o1 o2 mI) "dof_cdof_out")
    (rd2 (updateActiveDofs K nv nvmax_pad ntree adr num awake nvmax warn o1 o2 mI) "cdof_dof_out")
    qacc_warmstart qfrc_smooth qacc_smooth qfrc_constraint_c oG oS m0 hG hS w i hw hi (by
      intro h0
      simp only [rd2] at h0 ⊢
      by_cases haw : IsAwakeDof ntree adr num (awake w) i
      · obtain ⟨a, b, c⟩ := hfw i haw
        beta_reduce at a b c
        exact ⟨by omega, c⟩
      · have := hna i hi.1 hi.2 haw
        beta_reduce at this
        omega)).1
  constructor
  · intro haw
    rw [key, if_pos (by simp only [rd2]; exact (hfw i haw).1)]
  · intro haw
    have := hna i hi.1 hi.2 haw
    beta_reduce at this
    rw [key, if_neg (by simp only [rd2]; rw [this]; decide)]

end gather_scatter

/-! ## 7. Examples -/

/-! ### non-vacuity of the hypotheses -/

/-- canonical and reversed task orders are grids -/
example (n : Int) : IsGrid1 (grid1 n) n := isGrid1_grid1 n
example (n : Int) : IsGrid1 (grid1 n).reverse n := isGrid1_reverse (isGrid1_grid1 n)
example (n0 n1 : Int) : IsGrid2 (grid2 n0 n1) n0 n1 := isGrid2_grid2 n0 n1
example (n0 n1 : Int) : IsGrid2 (grid2 n0 n1).reverse n0 n1 := isGrid2_reverse (isGrid2_grid2 n0 n1)

/-- the 3-tree layout `adr = [0,2,5]`, `num = [2,3,1]` is sorted, hence disjoint, and inside `[0, 6)` -/
theorem treesSorted_3 : TreesSorted 3 adr3 num3 := by
  intro t t' h0 h1 h2 _ _
  have ht : t = 0 ∨ t = 1 := by omega
  have ht' : t' = 1 ∨ t' = 2 := by omega
  rcases ht with rfl | rfl <;> rcases ht' with rfl | rfl <;> first | omega | decide
example : TreesDisjoint 3 adr3 num3 := treesDisjoint_of_sorted treesSorted_3
theorem treesInRange_3 : TreesInRange 3 adr3 num3 6 := by
  intro t h0 h1 _
  have ht : t = 0 ∨ t = 1 ∨ t = 2 := by omega
  rcases ht with rfl | rfl | rfl <;> decide
/-- fit / exact fit / overflow hypotheses are met by `nvmax = 4 / 3 / 2` (count = 3), bit clear on entry -/
example : (awakeCount 3 num3 awake3 : Int) ≤ 4 ∧ (awakeCount 3 num3 awake3 : Int) = 3
    ∧ (awakeCount 3 num3 awake3 : Int) > 2 := by decide
example : hasNvmaxBit 0 = false ∧ hasNvmaxBit 16 = false ∧ hasNvmaxBit 144 = true := by decide
/-- the unsorted layout `adrU, numU` (tree 0 = dofs {3,4}, tree 1 = dofs {0,1,2}) is disjoint, not sorted -/
theorem treesDisjoint_U : TreesDisjoint 2 adrU numU := by
  intro t t' h0 h1 h2
  have ht : t = 0 := by omega
  have ht' : t' = 1 := by omega
  subst ht ht'
  decide
example : ¬ TreesSorted 2 adrU numU := fun h => absurd (h 0 1 (by decide) (by decide) (by decide) (by decide) (by decide)) (by decide)

/-- all hypotheses of `compact_maps_inverse` / `compact_overflow_iff` met at once (world 0 of the
    2-world instance below, `nvmax = 4`): the theorem applies and yields `ncdof = count = 3` -/
example : updateActiveDofs Float 6 4 3 adr3 num3 (fun w => if w = 0 then awake3 else awake3') 4 false
      (grid2 2 (max 6 4)).reverse (grid1 2) (fun _ _ => 0) "ncdof_out" [0]
    = (awakeCount 3 num3 awake3 : Int) :=
  (compact_maps_inverse Float 2 6 4 3 adr3 num3 (fun w => if w = 0 then awake3 else awake3') 4 false
    (grid2 2 (max 6 4)).reverse (grid1 2) (fun _ _ => 0) (isGrid2_reverse (isGrid2_grid2 2 (max 6 4)))
    (isGrid1_grid1 2) (treesDisjoint_of_sorted treesSorted_3) 0 ⟨by decide, by decide⟩ (by decide)).1

/-! ### the model: 3 trees, dofs {0,1}, {2,3,4}, {5}; trees 0 and 2 awake -/

example : awakeDofs 3 adr3 num3 awake3 = [0, 1, 5] := by decide
example : awakeCount 3 num3 awake3 = 3 := by decide
example : (List.range 6).map (fun (d : Nat) => dofCdof [0, 1, 5] 4 d) = [0, 1, -1, -1, -1, 2] := by decide
example : (List.range 4).map (fun (c : Nat) => cdofDof [0, 1, 5] 4 c) = [0, 1, 5, -1] := by decide
/-- overflow, `nvmax = 2`: dof 5 is cut -/
example : (List.range 6).map (fun (d : Nat) => dofCdof [0, 1, 5] 2 d) = [0, 1, -1, -1, -1, -1] := by decide

/-! ### the generated `_compact_dofs` evaluated directly (K = Float only types the write list) -/

/-- `nvmax = 4`: fits -/
example : ivals (Gen.Island._compact_dofs (K := Float) 3 adr3 num3 (fun _ => awake3) 4 false
      (fun _ => 0) (fun _ _ => 0) (fun _ _ => 0) (fun _ => 0) 0)
    = [("dof_cdof_out", [0, 0], 0), ("cdof_dof_out", [0, 0], 0), ("dof_cdof_out", [0, 1], 1),
       ("cdof_dof_out", [0, 1], 1), ("dof_cdof_out", [0, 5], 2), ("cdof_dof_out", [0, 2], 5),
       ("ncdof_out", [0], 3)] := by decide
/-- `nvmax = 3`: exact fit — no overflow write, `ncdof = 3`, all three dofs granted -/
example : ivals (Gen.Island._compact_dofs (K := Float) 3 adr3 num3 (fun _ => awake3) 3 false
      (fun _ => 0) (fun _ _ => 0) (fun _ _ => 0) (fun _ => 0) 0)
    = [("dof_cdof_out", [0, 0], 0), ("cdof_dof_out", [0, 0], 0), ("dof_cdof_out", [0, 1], 1),
       ("cdof_dof_out", [0, 1], 1), ("dof_cdof_out", [0, 5], 2), ("cdof_dof_out", [0, 2], 5),
       ("ncdof_out", [0], 3)] := by decide
/-- `nvmax = 2`: overflow — dof 5 gets nothing, `overflow |= 128` (entry word 16 kept), `ncdof = 2` -/
example : ivals (Gen.Island._compact_dofs (K := Float) 3 adr3 num3 (fun _ => awake3) 2 false
      (fun _ => 0) (fun _ _ => 0) (fun _ _ => 0) (fun _ => 16) 0)
    = [("dof_cdof_out", [0, 0], 0), ("cdof_dof_out", [0, 0], 0), ("dof_cdof_out", [0, 1], 1),
       ("cdof_dof_out", [0, 1], 1), ("overflow_out", [0], 144), ("ncdof_out", [0], 2)] := by decide
/-- the same through the refinement theorem -/
example : Gen.Island._compact_dofs (K := Float) 3 adr3 num3 (fun _ => awake3) 2 false
      (fun _ => 0) (fun _ _ => 0) (fun _ _ => 0) (fun _ => 16) 0
    = compactWrites 0 2 16 [0, 1, 5] := by
  rw [compact_refines_model]; rfl

/-! ### the whole `update_active_dofs` on the generated kernels: 2 worlds, `nv = 6`, `nvmax_pad = 4`,
    garbage (7) in all arrays on entry, overflow word 0; world 0 has trees 0,2 awake, world 1 trees 0,1 -/

def awake2w : Int → Int → Int := fun w => if w = 0 then awake3 else awake3'
def mem7 : IMem := fun a _ => if a = "overflow_out" then 0 else 7

/-- `nvmax = 4`, canonical task orders: world 0 fits (count 3); world 1 overflows (count 5):
    tree 1 = dofs {2,3,4} is SPLIT — dofs 2,3 granted, dof 4 cut -/
example : snapshot (updateActiveDofs Float 6 4 3 adr3 num3 awake2w 4 false (grid2 2 6) (grid1 2) mem7) 0 6 4
    = ([0, 1, -1, -1, -1, 2], [0, 1, 5, -1], 3, 0) := by decide
example : snapshot (updateActiveDofs Float 6 4 3 adr3 num3 awake2w 4 false (grid2 2 6) (grid1 2) mem7) 1 6 4
    = ([0, 1, 2, 3, -1, -1], [0, 1, 2, 3], 4, 128) := by decide
/-- reversed task orders in both launches: same result -/
example : snapshot (updateActiveDofs Float 6 4 3 adr3 num3 awake2w 4 false (grid2 2 6).reverse (grid1 2).reverse mem7) 1 6 4
    = ([0, 1, 2, 3, -1, -1], [0, 1, 2, 3], 4, 128) := by decide
/-- `nvmax = 3`: world 0 is an exact fit (bit stays clear, `ncdof = 3`); world 1: tree 1 split after dof 2 -/
example : snapshot (updateActiveDofs Float 6 4 3 adr3 num3 awake2w 3 false (grid2 2 6) (grid1 2) mem7) 0 6 4
    = ([0, 1, -1, -1, -1, 2], [0, 1, 5, -1], 3, 0) := by decide
example : snapshot (updateActiveDofs Float 6 4 3 adr3 num3 awake2w 3 false (grid2 2 6) (grid1 2) mem7) 1 6 4
    = ([0, 1, 2, -1, -1, -1], [0, 1, 2, -1], 3, 128) := by decide
/-- `nvmax = 2`: world 0 overflows too, dof 5 cut -/
example : snapshot (updateActiveDofs Float 6 4 3 adr3 num3 awake2w 2 false (grid2 2 6) (grid1 2) mem7) 0 6 4
    = ([0, 1, -1, -1, -1, -1], [0, 1, -1, -1], 2, 128) := by decide

/-- unsorted (but disjoint) layout, both trees awake, fits: the compact order is the VISITING order
    (dofs 3,4 first, then 0,1,2), not the dof order: `dof_cdof[0] = 2 > dof_cdof[3] = 0` -/
example : snapshot (updateActiveDofs Float 5 8 2 adrU numU (fun _ _ => 1) 8 false (grid2 1 8) (grid1 1) mem7) 0 5 8
    = ([2, 3, 4, 0, 1], [3, 4, 0, 1, 2, -1, -1, -1], 5, 0) := by decide

/-! ## Launch grids of the compaction kernels (host level, regenerated `Gen/Host.lean`) -/
section hostdims
open Mjw.HostGraph Mjw.Gen.Host

/-- the distinct launch-dimension expressions (source text) of the launches of kernel `k` in `step()` -/
def launchDims (k : String) : List String :=
  match nameId k with
  | kid => (((forward_step.zip forward_step_dims).filter
              (fun p => p.1.kind == EvKind.launch && p.1.subject == kid)).map (fun p => name p.2)).eraseDups

/-- **reset_compact_maps_grid**: every launch of `_reset_compact_maps` in `step()` runs over the grid
    `(d.nworld, max(m.nv, d.nvmax_pad))` — the grid assumed by `IsGrid2 o1 nworld (max nv nvmax_pad)` in the theorems
    above: ALL `nv` entries of `dof_cdof` (not only the first `nvmax_pad`) are reset before `_compact_dofs` runs, so a
    tree that fell asleep cannot keep the slots it had while awake.  Shrinking the grid (seeded change C38b:
    `dim=(d.nworld, d.nvmax_pad)`) changes the regenerated side table `forward_step_dims` and breaks this proof. -/
theorem reset_compact_maps_grid :
    launchDims "island._reset_compact_maps" = ["dim:(d.nworld, max(m.nv, d.nvmax_pad))"] := by
  decide +kernel

end hostdims

end Mjw.Props.C38
