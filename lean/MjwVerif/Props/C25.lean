/-
  C25  Solver termination is correctly reported and transparent.

  * Part 1 (`kernel_*`) is about `Mjw.Gen.Solver._solve_done__kernel`, regenerated from
    /repo/mujoco_warp/_src/solver.py on every run, at EVERY scalar type `K` (the tolerance test is an
    opaque Boolean `kernelConv`): the kernel's write list is exactly the write list of the hand-written
    protocol model `Mjw.Term.worldStep` (`Model/Term.lean`).
  * Part 1b (`cg_*`) is the same for the CG kernel `Mjw.Gen.Solver._solve_cg_finalize__kernel` (write list =
    `ctx.beta` write ++ the model's write list).  In both parts the tolerance test (`kernelConv`, `cgKernelConv`)
    pins WHICH entries of the batched Model fields a world reads: `opt_tolerance[w % opt_tolerance.shape[0]]` and
    `stat_meaninertia[w % stat_meaninertia.shape[0]]` — each wrapped with its own length — so a lookup with
    another field's length breaks `kernel_refines_model` / `cg_kernel_refines_model`;
    `cg_termination_own_world` / `newton_termination_own_world`: Models that agree on world `w`'s own entries
    (batched vs. unbatched) produce identical termination writes for `w`.
  * Parts 2-5 are about the protocol model: per-world `(niter, done, overflow)`, global `nsolving`, one
    launch = one task per world in ANY order (`orders j` = task order of launch `j`, any permutation of
    `0..nworld-1`), host loops `runFixed` (`for _ in range(opt.iterations)`) and `runWhile`
    (`wp.capture_while(nsolving, …)`), arbitrary tolerance oracle `conv w k`.

  Modelling assumptions (not theorems): (a) `ctx_done_in` and `ctx_done_out` are the same array `ctx.done`
  (they are in the launch in `_solver_iteration`); (b) the k-th tolerance test of a world depends only on
  that world's own first k iterations (oracle `conv w k`), i.e. the other solver kernels skip done worlds
  and do not couple worlds; (c) `solver_niter` does not wrap (Int, not int32).

  Findings recorded here rather than hidden:
  * `overflow` is a sticky word: the solver only ever ORs into it (it is cleared by `reset_data` only).
    Hence "bit set ⇔ stopped without meeting the tolerance" holds relative to a clear bit on entry
    (`overflow_iff` has that hypothesis; `overflow_value` is the unconditional form; the sticky case is
    the witness in `Props/C25Witness.lean`).
  * `iterations ≤ 0`: `niter + 1 = iterations` can never hold, so only convergence stops a world.  The
    for-loop does nothing (`iterations_zero_for`).  The while loop need not terminate
    (`iterations_zero_while_may_not_terminate`).  The host takes the while branch iff
    `opt.iterations != 0 and opt.graph_conditional`, so `iterations = 0` is safe but a NEGATIVE
    `opt.iterations` with `graph_conditional` reaches the non-terminating case.
-/
import MjwVerif.Lemmas.Real
import MjwVerif.Lemmas.C25
import MjwVerif.Gen.Solver

namespace Mjw.Props.C25
open Mjw Mjw.Term Mjw.Lemmas.C25

/-! ## 1. The generated kernel performs exactly the model's per-world transition -/

/-- the kernel's tolerance test `done = improvement < tol or gradient < tol or model_improvement < tol`,
    built from the generated `_rescale`; treated as an opaque Boolean everywhere below -/
def kernelConv {K : Type} [Scalar K] (nv : Int) (opt_tolerance stat_meaninertia ctx_grad_dot_in
    ctx_newton_decrement_in ctx_improvement_in : Int → K) (opt_tolerance_shape0 stat_meaninertia_shape0 : Int)
    (worldid : Int) : Bool :=
  let tolerance : K := opt_tolerance (Int.tmod worldid opt_tolerance_shape0)
  let meaninertia : K := stat_meaninertia (Int.tmod worldid stat_meaninertia_shape0)
  (Scalar.lt (Gen.Solver._rescale nv meaninertia (ctx_improvement_in worldid)) tolerance)
    || (Scalar.lt (Gen.Solver._rescale nv meaninertia (Scalar.sqrt (ctx_grad_dot_in worldid))) tolerance)
    || (Scalar.lt (Gen.Solver._rescale nv meaninertia ((Scalar.lit 5 (-1) : K) * ctx_newton_decrement_in worldid)) tolerance)

/-- (1) **kernel_refines_model**: for every input and every thread id, the write list of the generated
    `_solve_done` kernel equals the write list of the model transition `worldStep` applied to the
    world's pre-launch state `(solver_niter[w], ctx.done[w], overflow[w])`. -/
theorem kernel_refines_model {K : Type} [Scalar K] (nv : Int) (opt_tolerance : Int → K) (opt_iterations : Int)
    (stat_meaninertia ctx_grad_dot_in ctx_newton_decrement_in ctx_improvement_in : Int → K)
    (ctx_done_in : Int → Bool) (solver_niter_out overflow_out nsolving_out : Int → Int)
    (ctx_done_out : Int → Bool) (opt_tolerance_shape0 stat_meaninertia_shape0 : Int) (warn : Bool) (tid0 : Int) :
    Gen.Solver._solve_done__kernel (K := K) nv opt_tolerance opt_iterations stat_meaninertia ctx_grad_dot_in
        ctx_newton_decrement_in ctx_improvement_in ctx_done_in solver_niter_out overflow_out nsolving_out
        ctx_done_out opt_tolerance_shape0 stat_meaninertia_shape0 warn tid0
      = taskWrites tid0
          (worldStep opt_iterations
            (kernelConv nv opt_tolerance stat_meaninertia ctx_grad_dot_in ctx_newton_decrement_in
              ctx_improvement_in opt_tolerance_shape0 stat_meaninertia_shape0 tid0)
            ⟨solver_niter_out tid0, ctx_done_in tid0, overflow_out tid0⟩) := by
  unfold Gen.Solver._solve_done__kernel kernelConv
  dsimp only
  generalize hc : ((Scalar.lt (Gen.Solver._rescale nv (stat_meaninertia (Int.tmod tid0 stat_meaninertia_shape0))
      (ctx_improvement_in tid0)) (opt_tolerance (Int.tmod tid0 opt_tolerance_shape0)))
    || (Scalar.lt (Gen.Solver._rescale nv (stat_meaninertia (Int.tmod tid0 stat_meaninertia_shape0))
      (Scalar.sqrt (ctx_grad_dot_in tid0))) (opt_tolerance (Int.tmod tid0 opt_tolerance_shape0)))
    || (Scalar.lt (Gen.Solver._rescale nv (stat_meaninertia (Int.tmod tid0 stat_meaninertia_shape0))
      ((Scalar.lit 5 (-1) : K) * ctx_newton_decrement_in tid0)) (opt_tolerance (Int.tmod tid0 opt_tolerance_shape0)))) = c
  cases hd : ctx_done_in tid0
  · cases c
    · by_cases hl : solver_niter_out tid0 + 1 = opt_iterations
      · simp [worldStep, taskWrites, Write.lookupI, hl, ITERATIONS]
      · simp [worldStep, taskWrites, Write.lookupI, hl]
    · simp [worldStep, taskWrites, Write.lookupI]
  · simp [worldStep, taskWrites]

/-- (1') the same, written out without the model: the four cases of a `_solve_done` task. -/
theorem kernel_writes_explicit {K : Type} [Scalar K] (nv : Int) (opt_tolerance : Int → K) (opt_iterations : Int)
    (stat_meaninertia ctx_grad_dot_in ctx_newton_decrement_in ctx_improvement_in : Int → K)
    (ctx_done_in : Int → Bool) (solver_niter_out overflow_out nsolving_out : Int → Int)
    (ctx_done_out : Int → Bool) (sh0 sh1 : Int) (warn : Bool) (w : Int) :
    let conv := kernelConv nv opt_tolerance stat_meaninertia ctx_grad_dot_in ctx_newton_decrement_in
      ctx_improvement_in sh0 sh1 w
    let n := solver_niter_out w + 1
    let setNiter : Write K := Write.mk "solver_niter_out" [w] (WVal.i n) WKind.set
    let setOverflow : Write K := Write.mk "overflow_out" [w] (WVal.i (Mjw.ior (overflow_out w) 512)) WKind.set
    let setDone : Write K := Write.mk "ctx_done_out" [w] (WVal.b true) WKind.set
    let decNsolving : Write K := Write.mk "nsolving_out" [0] (WVal.i (-1)) WKind.aadd
    Gen.Solver._solve_done__kernel (K := K) nv opt_tolerance opt_iterations stat_meaninertia ctx_grad_dot_in
        ctx_newton_decrement_in ctx_improvement_in ctx_done_in solver_niter_out overflow_out nsolving_out
        ctx_done_out sh0 sh1 warn w
      = if ctx_done_in w = true then []
        else if conv = true then [setNiter, setDone, decNsolving]
        else if n = opt_iterations then [setNiter, setOverflow, setDone, decNsolving]
        else [setNiter] := by
  intro conv n setNiter setOverflow setDone decNsolving
  rw [kernel_refines_model]
  change taskWrites w (worldStep opt_iterations conv _) = _
  cases hd : ctx_done_in w
  · cases hc : conv
    · by_cases hl : solver_niter_out w + 1 = opt_iterations
      · simp [worldStep, taskWrites, hl, ITERATIONS, setNiter, setOverflow, setDone, decNsolving, n]
      · simp [worldStep, taskWrites, hl, setNiter, n]
    · simp [worldStep, taskWrites, setNiter, setDone, decNsolving, n]
  · simp [worldStep, taskWrites]

/-- (1'') a task of a world that is already done performs no write at all (kernel level part of
    "continuing to iterate after a world has converged does not change that world's result"). -/
theorem kernel_done_no_writes {K : Type} [Scalar K] (nv : Int) (opt_tolerance : Int → K) (opt_iterations : Int)
    (stat_meaninertia ctx_grad_dot_in ctx_newton_decrement_in ctx_improvement_in : Int → K)
    (ctx_done_in : Int → Bool) (solver_niter_out overflow_out nsolving_out : Int → Int)
    (ctx_done_out : Int → Bool) (sh0 sh1 : Int) (warn : Bool) (w : Int) (h : ctx_done_in w = true) :
    Gen.Solver._solve_done__kernel (K := K) nv opt_tolerance opt_iterations stat_meaninertia ctx_grad_dot_in
        ctx_newton_decrement_in ctx_improvement_in ctx_done_in solver_niter_out overflow_out nsolving_out
        ctx_done_out sh0 sh1 warn w = [] := by
  rw [kernel_refines_model]; simp [worldStep, taskWrites, h]

/-- the refinement also holds at `K = ℝ`, where the tolerance test reads
    `imp/(mi·nv) < tol ∨ √gd/(mi·nv) < tol ∨ 0.5·nd/(mi·nv) < tol` -/
theorem kernelConv_real (nv : Int) (tol mi gd nd imp : Int → ℝ) (sh0 sh1 w : Int) :
    kernelConv nv tol mi gd nd imp sh0 sh1 w = true ↔
      (imp w / (mi (Int.tmod w sh1) * nv) < tol (Int.tmod w sh0)
        ∨ Real.sqrt (gd w) / (mi (Int.tmod w sh1) * nv) < tol (Int.tmod w sh0)
        ∨ (5 * 10 ^ (-1 : ℤ)) * nd w / (mi (Int.tmod w sh1) * nv) < tol (Int.tmod w sh0)) := by
  simp [kernelConv, Gen.Solver._rescale, or_assoc]

/-! ## 1b. The CG termination kernel `_solve_cg_finalize` performs the same per-world transition -/

/-- the CG kernel's tolerance test `done = improvement < tol or gradient < tol`.  The world's OWN entries are
    pinned here: `tolerance = opt_tolerance[worldid % opt_tolerance.shape[0]]`,
    `meaninertia = stat_meaninertia[worldid % stat_meaninertia.shape[0]]` (each batched field is wrapped
    with ITS OWN length). -/
def cgKernelConv {K : Type} [Scalar K] (nv : Int) (opt_tolerance stat_meaninertia ctx_improvement_in
    ctx_grad_dot_in : Int → K) (opt_tolerance_shape0 stat_meaninertia_shape0 : Int) (worldid : Int) : Bool :=
  let tolerance : K := opt_tolerance (Int.tmod worldid opt_tolerance_shape0)
  let meaninertia : K := stat_meaninertia (Int.tmod worldid stat_meaninertia_shape0)
  (Scalar.lt (Gen.Solver._rescale nv meaninertia (ctx_improvement_in worldid)) tolerance)
    || (Scalar.lt (Gen.Solver._rescale nv meaninertia (Scalar.sqrt (ctx_grad_dot_in worldid))) tolerance)

/-- the Polak-Ribiere factor the kernel stores first for a running world -/
def cgBetaWrite {K : Type} [Scalar K] (ctx_beta_num_in ctx_beta_den_in : Int → K) (worldid : Int) : Write K :=
  Write.mk "ctx_beta_out" [worldid] (WVal.f (Scalar.max (Scalar.lit 0 0 : K)
    ((ctx_beta_num_in worldid) / (Scalar.max (Scalar.lit 1 (-15) : K) (ctx_beta_den_in worldid))))) WKind.set

/-- (1b) **cg_kernel_refines_model**: for every input and every thread id, the write list of the generated
    `_solve_cg_finalize` kernel is the `ctx.beta` write (running worlds only) followed by the write list of
    the model transition `worldStep` under the world's own tolerance test `cgKernelConv`. -/
theorem cg_kernel_refines_model {K : Type} [Scalar K] (nv : Int) (opt_tolerance : Int → K) (opt_iterations : Int)
    (stat_meaninertia ctx_beta_num_in ctx_beta_den_in ctx_improvement_in : Int → K)
    (ctx_done_in : Int → Bool) (ctx_grad_dot_in : Int → K) (solver_niter_out overflow_out : Int → Int)
    (ctx_beta_out : Int → K) (nsolving_out : Int → Int)
    (ctx_done_out : Int → Bool) (opt_tolerance_shape0 stat_meaninertia_shape0 : Int) (warn : Bool) (tid0 : Int) :
    Gen.Solver._solve_cg_finalize__kernel (K := K) nv opt_tolerance opt_iterations stat_meaninertia ctx_beta_num_in
        ctx_beta_den_in ctx_improvement_in ctx_done_in ctx_grad_dot_in solver_niter_out overflow_out ctx_beta_out
        nsolving_out ctx_done_out opt_tolerance_shape0 stat_meaninertia_shape0 warn tid0
      = (if ctx_done_in tid0 = true then [] else [cgBetaWrite ctx_beta_num_in ctx_beta_den_in tid0])
        ++ taskWrites tid0
          (worldStep opt_iterations
            (cgKernelConv nv opt_tolerance stat_meaninertia ctx_improvement_in ctx_grad_dot_in
              opt_tolerance_shape0 stat_meaninertia_shape0 tid0)
            ⟨solver_niter_out tid0, ctx_done_in tid0, overflow_out tid0⟩) := by
  unfold Gen.Solver._solve_cg_finalize__kernel cgKernelConv cgBetaWrite
  dsimp only
  generalize hc : ((Scalar.lt (Gen.Solver._rescale nv (stat_meaninertia (Int.tmod tid0 stat_meaninertia_shape0))
      (ctx_improvement_in tid0)) (opt_tolerance (Int.tmod tid0 opt_tolerance_shape0)))
    || (Scalar.lt (Gen.Solver._rescale nv (stat_meaninertia (Int.tmod tid0 stat_meaninertia_shape0))
      (Scalar.sqrt (ctx_grad_dot_in tid0))) (opt_tolerance (Int.tmod tid0 opt_tolerance_shape0)))) = c
  cases hd : ctx_done_in tid0
  · cases c
    · by_cases hl : solver_niter_out tid0 + 1 = opt_iterations
      · simp [worldStep, taskWrites, Write.lookupI, hl, ITERATIONS]
      · simp [worldStep, taskWrites, Write.lookupI, hl]
    · simp [worldStep, taskWrites, Write.lookupI]
  · simp [worldStep, taskWrites]

/-- (1b') **cg_termination_own_world**: the writes of a `_solve_cg_finalize` task to `solver_niter`, `overflow`,
    `ctx.done`, `nsolving` depend on the batched fields only through the world's own entries
    `opt_tolerance[w % shape]`, `stat_meaninertia[w % shape]`: two Models that agree there (e.g. the batched
    Model and the unbatched Model holding world `w`'s values) give the same write list. -/
theorem cg_termination_own_world {K : Type} [Scalar K] (nv : Int) (tolA tolB : Int → K) (opt_iterations : Int)
    (miA miB ctx_beta_num_in ctx_beta_den_in ctx_improvement_in : Int → K)
    (ctx_done_in : Int → Bool) (ctx_grad_dot_in : Int → K) (solver_niter_out overflow_out : Int → Int)
    (ctx_beta_out : Int → K) (nsolving_out : Int → Int) (ctx_done_out : Int → Bool)
    (shTolA shMiA shTolB shMiB : Int) (warn : Bool) (w : Int)
    (htol : tolA (Int.tmod w shTolA) = tolB (Int.tmod w shTolB))
    (hmi : miA (Int.tmod w shMiA) = miB (Int.tmod w shMiB)) :
    Gen.Solver._solve_cg_finalize__kernel (K := K) nv tolA opt_iterations miA ctx_beta_num_in
        ctx_beta_den_in ctx_improvement_in ctx_done_in ctx_grad_dot_in solver_niter_out overflow_out ctx_beta_out
        nsolving_out ctx_done_out shTolA shMiA warn w
      = Gen.Solver._solve_cg_finalize__kernel (K := K) nv tolB opt_iterations miB ctx_beta_num_in
        ctx_beta_den_in ctx_improvement_in ctx_done_in ctx_grad_dot_in solver_niter_out overflow_out ctx_beta_out
        nsolving_out ctx_done_out shTolB shMiB warn w := by
  rw [cg_kernel_refines_model, cg_kernel_refines_model]
  simp only [cgKernelConv, htol, hmi]

/-- the same for the Newton kernel `_solve_done` -/
theorem newton_termination_own_world {K : Type} [Scalar K] (nv : Int) (tolA tolB : Int → K) (opt_iterations : Int)
    (miA miB ctx_grad_dot_in ctx_newton_decrement_in ctx_improvement_in : Int → K)
    (ctx_done_in : Int → Bool) (solver_niter_out overflow_out nsolving_out : Int → Int)
    (ctx_done_out : Int → Bool) (shTolA shMiA shTolB shMiB : Int) (warn : Bool) (w : Int)
    (htol : tolA (Int.tmod w shTolA) = tolB (Int.tmod w shTolB))
    (hmi : miA (Int.tmod w shMiA) = miB (Int.tmod w shMiB)) :
    Gen.Solver._solve_done__kernel (K := K) nv tolA opt_iterations miA ctx_grad_dot_in
        ctx_newton_decrement_in ctx_improvement_in ctx_done_in solver_niter_out overflow_out nsolving_out
        ctx_done_out shTolA shMiA warn w
      = Gen.Solver._solve_done__kernel (K := K) nv tolB opt_iterations miB ctx_grad_dot_in
        ctx_newton_decrement_in ctx_improvement_in ctx_done_in solver_niter_out overflow_out nsolving_out
        ctx_done_out shTolB shMiB warn w := by
  rw [kernel_refines_model, kernel_refines_model]
  simp only [kernelConv, htol, hmi]

/-- non-vacuity of the hypotheses: a batched tolerance of length 3 and the unbatched Model of world 2's value
    (lengths 3 vs 1, meaninertia (1,) in both) agree at world 2; they do NOT agree if world 2 is wrapped with the
    neighbouring field's length 1 (it would read world 0's tolerance). -/
example : (fun i : Int => if i = 2 then (7 : Int) else 1) (Int.tmod 2 3) = (fun _ : Int => (7 : Int)) (Int.tmod 2 1) := by decide
example : (fun i : Int => if i = 2 then (7 : Int) else 1) (Int.tmod 2 1) ≠ (fun _ : Int => (7 : Int)) (Int.tmod 2 1) := by decide

/-- at `K = ℝ` the CG test reads `imp/(mi·nv) < tol ∨ √gd/(mi·nv) < tol` with the world's own entries -/
theorem cgKernelConv_real (nv : Int) (tol mi imp gd : Int → ℝ) (sh0 sh1 w : Int) :
    cgKernelConv nv tol mi imp gd sh0 sh1 w = true ↔
      (imp w / (mi (Int.tmod w sh1) * nv) < tol (Int.tmod w sh0)
        ∨ Real.sqrt (gd w) / (mi (Int.tmod w sh1) * nv) < tol (Int.tmod w sh0)) := by
  simp [cgKernelConv, Gen.Solver._rescale]

/-! ## 2. Invariants of the protocol model and equivalence of the two host loops -/

section model
variable (nworld : Nat) (it : Int) (conv : Oracle) (ov0 : WorldId → Int)

/-- (2a) **niter_le_iterations**: after ANY number `k` of launches (any task orders),
    `0 ≤ niter w ≤ iterations`, `niter w ≤ k`, and a world that is still running has done exactly `k`
    iterations, fewer than the limit. -/
theorem niter_le_iterations (hit : 1 ≤ it) (orders : Nat → List WorldId)
    (hp : ∀ j, (orders j).Perm (List.range nworld)) (k : Nat) (w : WorldId) (hw : w < nworld) :
    let s := (launches it conv orders k (init nworld ov0)).ws w
    0 ≤ s.niter ∧ s.niter ≤ it ∧ s.niter ≤ k ∧ (s.done = false → s.niter = k ∧ s.niter < it) := by
  have h := (inv_launches (conv := conv) (ov0 := ov0) hit hp k).world w hw
  refine ⟨h.nonneg, h.le_it, h.le_k, fun hd => ?_⟩
  obtain ⟨h1, h2, -, -⟩ := h.running hd
  exact ⟨h1, by omega⟩

/-- (2a') the same bound at the end of the for-loop and at the end (or at fuel exhaustion) of the while loop -/
theorem niter_le_iterations_runs (hit : 1 ≤ it) (orders : Nat → List WorldId)
    (hp : ∀ j, (orders j).Perm (List.range nworld)) (fuel : Nat) (w : WorldId) (hw : w < nworld) :
    (0 ≤ ((runFixed it conv orders (init nworld ov0)).ws w).niter
      ∧ ((runFixed it conv orders (init nworld ov0)).ws w).niter ≤ it)
    ∧ (0 ≤ ((runWhile fuel it conv orders (init nworld ov0)).ws w).niter
      ∧ ((runWhile fuel it conv orders (init nworld ov0)).ws w).niter ≤ it) := by
  constructor
  · have := niter_le_iterations nworld it conv ov0 hit orders hp it.toNat w hw
    exact ⟨this.1, this.2.1⟩
  · obtain ⟨-, hr, -, -⟩ := runWhile_spec (it := it) (conv := conv) fuel orders (init nworld ov0)
    rw [hr]
    have := niter_le_iterations nworld it conv ov0 hit orders hp
      (runWhileCount fuel it conv orders (init nworld ov0)) w hw
    exact ⟨this.1, this.2.1⟩

/-- (2b) **nsolving_counts_undone**: after any number of launches the shared counter equals the number
    of worlds that are not done (so `nsolving = 0 ⇔ all worlds done`). -/
theorem nsolving_counts_undone (hit : 1 ≤ it) (orders : Nat → List WorldId)
    (hp : ∀ j, (orders j).Perm (List.range nworld)) (k : Nat) :
    (launches it conv orders k (init nworld ov0)).nsolving
      = undone nworld (launches it conv orders k (init nworld ov0)) :=
  (inv_launches (conv := conv) (ov0 := ov0) hit hp k).counter

/-- (2b') one launch preserves `nsolving = #undone` from ANY state and for ANY `iterations` (also ≤ 0) -/
theorem nsolving_counts_undone_step (order : List WorldId) (hp : order.Perm (List.range nworld)) (g : GState)
    (h : g.nsolving = undone nworld g) :
    (iterStep it conv order g).nsolving = undone nworld (iterStep it conv order g) :=
  launch_nsolving_inv hp g h

/-- (2c) after `iterations` launches every world is done and the counter is 0 -/
theorem all_done_after_iterations (hit : 1 ≤ it) (orders : Nat → List WorldId)
    (hp : ∀ j, (orders j).Perm (List.range nworld)) :
    (∀ w, w < nworld → ((runFixed it conv orders (init nworld ov0)).ws w).done = true)
      ∧ (runFixed it conv orders (init nworld ov0)).nsolving = 0 := by
  have hinv := inv_launches (conv := conv) (ov0 := ov0) hit hp it.toNat
  have hd := inv_all_done hinv (by omega)
  exact ⟨hd, (inv_nsolving_zero_iff hinv).mpr hd⟩

/-- (2d) **fixed_eq_while**: the `for` loop (task orders `o₁`) and the `while nsolving ≠ 0` loop (task
    orders `o₂`, fuel ≥ iterations) end in the same state — all worlds' `(niter, done, overflow)` and
    the counter; the while loop has terminated (`nsolving = 0`) after at most `iterations` launches. -/
theorem fixed_eq_while (hit : 1 ≤ it) (o₁ o₂ : Nat → List WorldId)
    (hp₁ : ∀ j, (o₁ j).Perm (List.range nworld)) (hp₂ : ∀ j, (o₂ j).Perm (List.range nworld))
    (fuel : Nat) (hfuel : it.toNat ≤ fuel) :
    runWhile fuel it conv o₂ (init nworld ov0) = runFixed it conv o₁ (init nworld ov0)
      ∧ (runWhile fuel it conv o₂ (init nworld ov0)).nsolving = 0
      ∧ runWhileCount fuel it conv o₂ (init nworld ov0) ≤ it.toNat := by
  obtain ⟨-, hr, hne, hz⟩ := runWhile_spec (it := it) (conv := conv) fuel o₂ (init nworld ov0)
  generalize runWhileCount fuel it conv o₂ (init nworld ov0) = j at hr hne hz
  have hN := inv_launches (conv := conv) (ov0 := ov0) hit hp₂ it.toNat
  have hNz : (launches it conv o₂ it.toNat (init nworld ov0)).nsolving = 0 :=
    (inv_nsolving_zero_iff hN).mpr (inv_all_done hN (by omega))
  have hjN : j ≤ it.toNat := by
    apply Nat.le_of_not_lt
    intro hlt
    exact hne _ hlt hNz
  have hjz : (launches it conv o₂ j (init nworld ov0)).nsolving = 0 := by
    by_cases hjf : j < fuel
    · exact hz hjf
    · have : j = it.toNat := by omega
      rw [this]; exact hNz
  have hjdone := (inv_nsolving_zero_iff (inv_launches (conv := conv) (ov0 := ov0) hit hp₂ j)).mp hjz
  have hstable := launches_stable (it := it) (conv := conv) hp₂ (init nworld ov0) j (it.toNat - j) hjdone
  have hsum : j + (it.toNat - j) = it.toNat := by omega
  rw [hsum] at hstable
  refine ⟨?_, by rw [hr]; exact hjz, hjN⟩
  rw [hr, ← hstable]
  unfold runFixed
  exact launches_congr (fun i => (hp₂ i).trans (hp₁ i).symm) _ _

/-! ## 3. The overflow bit -/

/-- (3a) the iteration at which a world stopped is the FIRST `k ≥ 1` with `conv w k ∨ k = iterations` -/
theorem stop_iter_is_first (hit : 1 ≤ it) (orders : Nat → List WorldId)
    (hp : ∀ j, (orders j).Perm (List.range nworld)) (w : WorldId) (hw : w < nworld) :
    let s := (runFixed it conv orders (init nworld ov0)).ws w
    s.done = true ∧ 1 ≤ s.niter ∧ s.niter ≤ it ∧ (conv w s.niter = true ∨ s.niter = it)
      ∧ ∀ j : Int, 1 ≤ j → j < s.niter → conv w j = false := by
  have hinv := inv_launches (conv := conv) (ov0 := ov0) hit hp it.toNat
  have hd := inv_all_done hinv (by omega) w hw
  have h := hinv.world w hw
  obtain ⟨h1, h2, h3, -⟩ := h.stoppedAt hd
  exact ⟨hd, h1, h.le_it, h2, h3⟩

/-- (3b) unconditional form: the final overflow word is the entry word, OR-ed with ITERATIONS exactly
    when the world stopped at `niter = iterations` with a failing tolerance test. -/
theorem overflow_value (hit : 1 ≤ it) (orders : Nat → List WorldId)
    (hp : ∀ j, (orders j).Perm (List.range nworld)) (w : WorldId) (hw : w < nworld) :
    let s := (runFixed it conv orders (init nworld ov0)).ws w
    s.overflow = if (s.niter = it ∧ conv w it = false) then Mjw.ior (ov0 w) ITERATIONS else ov0 w := by
  have hinv := inv_launches (conv := conv) (ov0 := ov0) hit hp it.toNat
  have hd := inv_all_done hinv (by omega) w hw
  obtain ⟨-, -, -, h4⟩ := (hinv.world w hw).stoppedAt hd
  intro s
  have hs : s = (launches it conv orders it.toNat (init nworld ov0)).ws w := rfl
  rw [← hs] at h4
  rw [h4]
  by_cases hn : s.niter = it
  · simp [hn]
  · simp [hn]

/-- (3c) "stopped at the limit with a failing test" is the same as "never met the tolerance test in any
    of its `iterations` iterations" -/
theorem hit_limit_iff_never_converged (hit : 1 ≤ it) (orders : Nat → List WorldId)
    (hp : ∀ j, (orders j).Perm (List.range nworld)) (w : WorldId) (hw : w < nworld) :
    let s := (runFixed it conv orders (init nworld ov0)).ws w
    (s.niter = it ∧ conv w it = false) ↔ ∀ j : Int, 1 ≤ j → j ≤ it → conv w j = false := by
  obtain ⟨-, h1, h2, h3, h4⟩ := stop_iter_is_first nworld it conv ov0 hit orders hp w hw
  intro s
  constructor
  · rintro ⟨hn, hc⟩ j hj1 hj2
    by_cases hj : j = it
    · rw [hj]; exact hc
    · exact h4 j hj1 (by change j < s.niter; omega)
  · intro hall
    rcases h3 with h3 | h3
    · have := hall _ h1 h2
      change conv w s.niter = true at h3
      rw [h3] at this; cases this
    · exact ⟨h3, hall it hit (by omega)⟩

/-- (3d) **overflow_iff**: if the ITERATIONS bit was clear on entry, then at the end it is set iff the
    world stopped at `niter = iterations` with `conv w iterations = false`, i.e. iff it never met the
    tolerance test. -/
theorem overflow_iff (hit : 1 ≤ it) (orders : Nat → List WorldId)
    (hp : ∀ j, (orders j).Perm (List.range nworld)) (w : WorldId) (hw : w < nworld)
    (hclear : hasIterBit (ov0 w) = false) :
    let s := (runFixed it conv orders (init nworld ov0)).ws w
    (hasIterBit s.overflow = true ↔ (s.niter = it ∧ conv w it = false))
      ∧ (hasIterBit s.overflow = true ↔ ∀ j : Int, 1 ≤ j → j ≤ it → conv w j = false) := by
  have hv := overflow_value nworld it conv ov0 hit orders hp w hw
  have hn := hit_limit_iff_never_converged nworld it conv ov0 hit orders hp w hw
  intro s
  have h1 : hasIterBit s.overflow = true ↔ (s.niter = it ∧ conv w it = false) := by
    change s.overflow = _ at hv
    rw [hv]
    by_cases hc : s.niter = it ∧ conv w it = false
    · rw [if_pos hc]; simp [hasIterBit_ior, hc]
    · rw [if_neg hc, hclear]; simp [hc]
  exact ⟨h1, h1.trans hn⟩

/-- (3d') the same for the while loop (it ends in the same state) -/
theorem overflow_iff_while (hit : 1 ≤ it) (orders : Nat → List WorldId)
    (hp : ∀ j, (orders j).Perm (List.range nworld)) (fuel : Nat) (hfuel : it.toNat ≤ fuel)
    (w : WorldId) (hw : w < nworld) (hclear : hasIterBit (ov0 w) = false) :
    let s := (runWhile fuel it conv orders (init nworld ov0)).ws w
    hasIterBit s.overflow = true ↔ ∀ j : Int, 1 ≤ j → j ≤ it → conv w j = false := by
  rw [(fixed_eq_while nworld it conv ov0 hit orders orders hp hp fuel hfuel).1]
  exact (overflow_iff nworld it conv ov0 hit orders hp w hw hclear).2

/-! ### `iterations ≤ 0`  (analysis — not hidden) -/

/-- (3e) **iterations_zero_for**: with `iterations = 0` (indeed any `iterations ≤ 0`) the for-loop
    launches nothing: `niter = 0`, overflow untouched, and `done` stays FALSE, `nsolving` stays `nworld`. -/
theorem iterations_zero_for (hit : it ≤ 0) (orders : Nat → List WorldId) :
    runFixed it conv orders (init nworld ov0) = init nworld ov0 := by
  unfold runFixed
  rw [Int.toNat_of_nonpos hit]
  rfl

/-- (3f) for `iterations ≤ 0` the limit test `niter + 1 = iterations` never fires on a state with
    `niter ≥ 0`: a task stops its world only if the tolerance test succeeds, and never sets the bit. -/
theorem nonpos_iterations_only_conv_stops (hit : it ≤ 0) (c : Bool) (s : WState) (hn : 0 ≤ s.niter) :
    ((worldStep it c s).stopped = true → c = true) ∧ (worldStep it c s).hitLimit = false := by
  have hne : ¬ s.niter + 1 = it := by omega
  unfold worldStep
  cases s.done <;> cases c <;> simp [hne]

/-- (3g) **iterations_zero_while_may_not_terminate**: for `iterations ≤ 0`, at least one world, and the
    oracle "never converges", the while loop never exits: for EVERY fuel the counter is still `nworld ≠ 0`,
    no world is done and `niter = fuel` — so `niter` exceeds `iterations` without bound and no overflow
    bit is ever reported.  (The host takes the while branch iff `iterations != 0 and graph_conditional`:
    the case `iterations = 0` is guarded, a negative `iterations` is not.) -/
theorem iterations_zero_while_may_not_terminate (hit : it ≤ 0) (hn : 1 ≤ nworld) (orders : Nat → List WorldId)
    (hp : ∀ j, (orders j).Perm (List.range nworld)) (fuel : Nat) :
    let g := runWhile fuel it (fun _ _ => false) orders (init nworld ov0)
    g.nsolving = nworld ∧ g.nsolving ≠ 0 ∧
      ∀ w, w < nworld → g.ws w = ⟨fuel, false, ov0 w⟩ := by
  -- state after k launches
  have key : ∀ k : Nat,
      (launches it (fun _ _ => false) orders k (init nworld ov0)).nsolving = nworld ∧
      ∀ w, w < nworld → (launches it (fun _ _ => false) orders k (init nworld ov0)).ws w = ⟨k, false, ov0 w⟩ := by
    intro k
    induction k with
    | zero => exact ⟨rfl, fun w _ => rfl⟩
    | succ k ih =>
      have hws : ∀ w, w < nworld →
          (launches it (fun _ _ => false) orders (k + 1) (init nworld ov0)).ws w = ⟨(k + 1 : Nat), false, ov0 w⟩ := by
        intro w hw
        simp only [launches]
        rw [launch_ws (hp k), if_pos hw, ih.2 w hw]
        have hne : ¬ (k : Int) + 1 = it := by omega
        simp [wstep, worldStep, hne]
      refine ⟨?_, hws⟩
      have hc := nsolving_counts_undone_step nworld it (fun _ _ => false) (orders k) (hp k)
        (launches it (fun _ _ => false) orders k (init nworld ov0))
        (by rw [ih.1, undone_eq_n (fun w hw => by rw [ih.2 w hw])])
      simp only [launches]
      rw [hc]
      have := undone_eq_n (n := nworld)
        (g := launches it (fun _ _ => false) orders (k + 1) (init nworld ov0)) (fun w hw => by rw [hws w hw])
      simp only [launches] at this
      rw [this]
  obtain ⟨hj, hr, -, hz⟩ := runWhile_spec (it := it) (conv := fun _ _ => false) fuel orders (init nworld ov0)
  have hjf : runWhileCount fuel it (fun _ _ => false) orders (init nworld ov0) = fuel := by
    apply Nat.le_antisymm hj
    apply Nat.le_of_not_lt
    intro hlt
    have := hz hlt
    rw [(key _).1] at this
    omega
  intro g
  change runWhile fuel it (fun _ _ => false) orders (init nworld ov0) = _ at hr
  rw [hjf] at hr
  refine ⟨by rw [show g = _ from hr]; exact (key fuel).1, ?_, ?_⟩
  · rw [show g = _ from hr, (key fuel).1]; omega
  · intro w hw; rw [show g = _ from hr]; exact (key fuel).2 w hw

/-! ## 4. Done worlds are frozen -/

/-- (4) **done_is_frozen**: once `done w` holds, any number of further launches — with ANY task lists
    (not even required to be permutations), any oracle, any `iterations` — leave
    `(niter w, done w, overflow w)` unchanged. -/
theorem done_is_frozen (orders : Nat → List WorldId) (g : GState) (w : WorldId)
    (h : (g.ws w).done = true) (k : Nat) :
    (launches it conv orders k g).ws w = g.ws w :=
  launches_frozen orders k g w h

/-- (4') if all worlds are done, further launches change nothing at all (the counter stays 0 too) -/
theorem all_done_is_fixpoint (order : List WorldId) (g : GState) (h : ∀ w ∈ order, (g.ws w).done = true) :
    iterStep it conv order g = g :=
  iterStep_all_done order g h

/-! ## 5. Order independence -/

/-- (5) **order_independent**: one launch gives the same global state for every permutation of the task
    order (tasks touch disjoint per-world state and a commutative counter).  Holds from any state, for
    any `iterations`, any oracle, and even for task lists with repetitions. -/
theorem order_independent (l₁ l₂ : List WorldId) (p : l₁.Perm l₂) (g : GState) :
    iterStep it conv l₁ g = iterStep it conv l₂ g :=
  iterStep_perm p g

/-- (5') hence whole runs do not depend on the per-launch orders -/
theorem runFixed_order_independent (o₁ o₂ : Nat → List WorldId) (hp : ∀ j, (o₁ j).Perm (o₂ j)) (g : GState) :
    runFixed it conv o₁ g = runFixed it conv o₂ g :=
  launches_congr hp _ g

/-- (5'') closed form of a launch with a permutation of `0..nworld-1` -/
theorem launch_closed_form (order : List WorldId) (hp : order.Perm (List.range nworld)) (g : GState) (w : WorldId) :
    (iterStep it conv order g).ws w = if w < nworld then wstep it (conv w) (g.ws w) else g.ws w :=
  launch_ws hp g w

end model

/-! ## Examples: 3 worlds, limit 5; world 0 converges at iteration 2, world 1 at 4, world 2 never -/

example : snapshot 3 (runFixed 5 conv3 (canonical 3) (init 3 (fun _ => 0)))
    = ([(2, true, 0), (4, true, 0), (5, true, 512)], 0) := by decide

example : snapshot 3 (runWhile 100 5 conv3 (reversed 3) (init 3 (fun _ => 0)))
    = ([(2, true, 0), (4, true, 0), (5, true, 512)], 0) := by decide

example : runWhileCount 100 5 conv3 (rotating 3) (init 3 (fun _ => 0)) = 5 := by decide

/-- with limit 3, world 1 also hits the limit; with a pre-set unrelated bit (CCD = 16) it is kept -/
example : snapshot 3 (runFixed 3 conv3 (reversed 3) (init 3 (fun _ => 16)))
    = ([(2, true, 16), (3, true, 528), (3, true, 528)], 0) := by decide

/-- after launch 2 (of 5): world 0 done, two worlds still solving -/
example : snapshot 3 (launches 5 conv3 (canonical 3) 2 (init 3 (fun _ => 0)))
    = ([(2, true, 0), (2, false, 0), (2, false, 0)], 2) := by decide

/-- non-vacuity of the hypotheses: the orders used above are permutations, `1 ≤ 5`, the bit of 0 is clear -/
example : ∀ j, (canonical 3 j).Perm (List.range 3) := fun _ => List.Perm.refl _
example : ∀ j, (reversed 3 j).Perm (List.range 3) := fun _ => List.reverse_perm _
example : hasIterBit 0 = false := by decide
example : hasIterBit 16 = false ∧ hasIterBit 528 = true := by decide

/-- iterations = 0, while loop, never-converging oracle, fuel 7: still 2 worlds solving, niter = 7 > 0 -/
example : snapshot 2 (runWhile 7 0 (fun _ _ => false) (canonical 2) (init 2 (fun _ => 0)))
    = ([(7, false, 0), (7, false, 0)], 2) := by decide

end Mjw.Props.C25
