/-
  C13  "reset_data restores a fresh Data"  —  what the kernels of `reset_data` actually do.

  All theorems are about the GENERATED kernels `Mjw.Gen.Io.reset_data__reset_{M,nworld,mocap,contact,sleep}`
  (regenerated from /repo/mujoco_warp/_src/io.py on every run), at EVERY scalar type `K`, for ALL sizes,
  ALL array contents, ALL reset masks `reset_in` and both values of the closure constant
  `st_reset_is_not_None` (`st = false`: `reset=None`, every world is reset).

  Vocabulary (Lemmas/C13.lean):
  * `final ws a ix`  = value and kind of the LAST write of the task's write list `ws` to cell `a[ix]`;
                       `none` ⇔ no write of `ws` targets the cell (`final_eq_none_iff`).
  * `toArr a ws`     = the sub-list of the writes of `ws` that go to array `a`.
  * `tabL n g`       = `g 0 ++ g 1 ++ … ++ g (n-1)`  (a `for i in range(n)` loop; `[]` for `n ≤ 0`).
  * `nworldWrites`, `contactWrites`, `mocapWrites`, `sleepWrites` = explicit, readable write lists.
  "selected world" = `st = false ∨ reset_in w = true`.

  RESULT.  C13 as stated is FALSE of the code.  What holds, and what does not:
  * (1) `reset_unselected_untouched`     every per-world kernel does nothing for an unselected world; a contact
        slot whose world tag is ≥ 0 and unselected is not touched.  TRUE.
        (Slots with a NEGATIVE world tag are cleared whatever the mask says: `reset_contact_negative_tag_cleared`.)
  * (2) `reset_nworld_writes`            exact cells and values written for a selected world.  TRUE.
        `act_reset_all`: `act[w, i]` and `act_dot[w, i]` are zeroed for ALL `0 ≤ i < na` (own loop over
        `range(na)`).  [Earlier revisions of the source zeroed only `i < min nu na`; repaired in /repo commit
        "fix: reset_data left activations act[nu:na] untouched"; this file broke on the regenerated kernel
        and was updated.]
  * (3) `history_not_reset`              no reset kernel writes any array outside an explicit list of names; the
        list contains no history array.  So delay/history buffers are NOT restored
        (witness `history_not_restored_witness`).
  * (4) `nacon_reset`, `reset_contact_exact`   `nacon[0] := 0` is written iff the task is world 0 and world 0 is
        selected; a cleared contact slot gets `worldid := 0`.  Consequences (witnesses w1/w2 in
        Props/C13Witness.lean): a mask that selects only world 0 drops the contacts of all other worlds; a mask
        that does not select world 0 keeps `nacon` and re-tags the cleared slots as (empty) contacts of world 0.
        So "unselected worlds' contacts untouched" FAILS for partial masks.
  * (5) `reset_partial`                  the positive part that does hold.

  Not covered (stated, not hidden): the kernel `reset_xfrc_applied` is not translated (by reading: it writes
  `xfrc_applied_out[w, b][e] = 0` under the same mask test, nothing else); `sleep.update_sleep` (called by the
  host code when sleeping is enabled) and `make_data` are host-side Python.  "Fresh value" below is what
  `make_data` puts into the array (read from the source): qpos = qpos0, mocap = body_pos/quat of the mocap
  body, eq_active = eq_active0, everything else 0.  Theorems are per task (thread); the two launch-level
  consequences of (4) are the witnesses.
-/
import MjwVerif.Lemmas.Real
import MjwVerif.Lemmas.C13
import MjwVerif.Gen.Io

namespace Mjw.Props.C13
open Mjw Mjw.Lemmas.C13

/-! ## 1. Unselected worlds are untouched -/

/-- (1) **reset_unselected_untouched**: with a mask in use (`st_reset_is_not_None = true`) and
    `reset_in w = false`, every task of world `w` of the four per-world kernels performs NO write
    (for all sizes, inputs and second thread indices). -/
theorem reset_unselected_untouched {K : Type} [Scalar K] (reset_in : Int → Bool) (w : Int)
    (hun : reset_in w = false) :
    (∀ (M_out : Int → Int → K) (e : Int), Gen.Io.reset_data__reset_M reset_in M_out true w e = [])
    ∧ (∀ (nq nv nu na nbody ntree neq nuserdata nsensordata : Int) (qpos0 : Int → Int → K)
        (eq_active0 : Int → Bool) (nworld_in : Int)
        (solver_niter_out ne_out nf_out nl_out nefc_out ntree_awake_out nbody_awake_out nv_awake_out : Int → Int)
        (time_out : Int → K) (energy_out : Int → V2 K)
        (qpos_out qvel_out act_out qacc_warmstart_out ctrl_out qfrc_applied_out : Int → Int → K)
        (eq_active_out : Int → Int → Bool) (qacc_out act_dot_out userdata_out sensordata_out : Int → Int → K)
        (nacon_out overflow_out : Int → Int) (qpos0_shape0 : Int),
        Gen.Io.reset_data__reset_nworld nq nv nu na nbody ntree neq nuserdata nsensordata qpos0 eq_active0
          nworld_in reset_in solver_niter_out ne_out nf_out nl_out nefc_out ntree_awake_out nbody_awake_out
          nv_awake_out time_out energy_out qpos_out qvel_out act_out qacc_warmstart_out ctrl_out
          qfrc_applied_out eq_active_out qacc_out act_dot_out userdata_out sensordata_out nacon_out
          overflow_out true qpos0_shape0 w = [])
    ∧ (∀ (body_mocapid : Int → Int) (body_pos : Int → Int → V3 K) (body_quat : Int → Int → Q K)
        (mocap_pos_out : Int → Int → V3 K) (mocap_quat_out : Int → Int → Q K) (sh_pos sh_quat b : Int),
        Gen.Io.reset_data__reset_mocap body_mocapid body_pos body_quat reset_in mocap_pos_out mocap_quat_out
          true sh_pos sh_quat w b = [])
    ∧ (∀ (nv nbody ntree : Int) (body_mocapid body_treeid : Int → Int) (mj_minawake : Int)
        (tree_asleep_out tree_awake_out body_awake_out body_awake_ind_out dof_awake_ind_out : Int → Int → Int)
        (e : Int),
        Gen.Io.reset_data__reset_sleep (K := K) nv nbody ntree body_mocapid body_treeid mj_minawake reset_in
          tree_asleep_out tree_awake_out body_awake_out body_awake_ind_out dof_awake_ind_out true w e = []) := by
  refine ⟨?_, ?_, ?_, ?_⟩
  · intros; rw [reset_M_eq]; simp [hun]
  · intros; rw [reset_nworld_eq]; simp [hun]
  · intros; rw [reset_mocap_eq]; simp [hun]
  · intros; rw [reset_sleep_eq]; simp [hun]

section contact
variable {K : Type} [Scalar K] (nacon_in : Int → Int) (reset_in : Int → Bool) (nefcaddress : Int)
  (contact_dist_out : Int → K) (contact_pos_out : Int → V3 K) (contact_frame_out : Int → M33 K)
  (contact_includemargin_out : Int → K) (contact_friction_out : Int → V5 K)
  (contact_solref_out contact_solreffriction_out : Int → V2 K) (contact_solimp_out : Int → V5 K)
  (contact_dim_out : Int → Int) (contact_geom_out contact_flex_out contact_elem_out contact_vert_out : Int → I2)
  (contact_efc_address_out : Int → Int → Int)
  (contact_worldid_out contact_type_out contact_geomcollisionid_out : Int → Int) (contact_adhesion_out : Int → K)
  (st : Bool) (sh_flex sh_elem sh_vert c : Int)

/-- the `reset_contact` task of contact slot `c` (thread id = slot; its world is `contact_worldid_out c`) -/
local notation "RC" =>
  Gen.Io.reset_data__reset_contact nacon_in reset_in nefcaddress contact_dist_out contact_pos_out
    contact_frame_out contact_includemargin_out contact_friction_out contact_solref_out
    contact_solreffriction_out contact_solimp_out contact_dim_out contact_geom_out contact_flex_out
    contact_elem_out contact_vert_out contact_efc_address_out contact_worldid_out contact_type_out
    contact_geomcollisionid_out contact_adhesion_out st sh_flex sh_elem sh_vert c

/-- (1c/4b) **reset_contact_exact**: the exact write list of a `reset_contact` task.  Slot `c` is cleared
    (write list `contactWrites`: dist, pos, frame, includemargin, friction, solref, solreffriction, solimp
    := 0; dim := 0; geom := (0,0); flex/elem/vert := (0,0) if allocated; efc_address[c, 0..nefcaddress) := -1;
    **worldid := 0**; type, geomcollisionid := 0; adhesion := 0) iff it is active (`c < nacon[0]`) and NOT
    (mask in use ∧ world tag ≥ 0 ∧ that world unselected); otherwise nothing is written. -/
theorem reset_contact_exact :
    RC = if c ≥ nacon_in 0 then []
         else if st = true ∧ 0 ≤ contact_worldid_out c ∧ reset_in (contact_worldid_out c) = false then []
         else contactWrites nefcaddress sh_flex sh_elem sh_vert c :=
  reset_contact_eq ..

/-- (1c) **reset_unselected_untouched** for `reset_contact`: a slot whose world tag is a valid (≥ 0) world
    that is not selected is not written at all; neither is any inactive slot. -/
theorem reset_contact_unselected_untouched
    (h : c ≥ nacon_in 0 ∨ (st = true ∧ 0 ≤ contact_worldid_out c ∧ reset_in (contact_worldid_out c) = false)) :
    RC = [] := by
  rw [reset_contact_eq]
  rcases h with h | h
  · rw [if_pos h]
  · rw [if_pos h]; split <;> rfl

/-- (1c') what the code actually does besides: an active slot with a NEGATIVE world tag is cleared (and
    re-tagged world 0) whatever the mask says — the mask is only consulted under `worldid >= 0`. -/
theorem reset_contact_negative_tag_cleared (hact : c < nacon_in 0) (hneg : contact_worldid_out c < 0) :
    RC = contactWrites nefcaddress sh_flex sh_elem sh_vert c := by
  rw [reset_contact_eq, if_neg (by omega), if_neg (by omega)]

/-- (4b) a cleared slot: the only write to `contact_worldid_out` is `contact_worldid_out[c] := 0` (the slot
    is re-tagged as belonging to world 0), `contact_dim_out[c] := 0`, `contact_geom_out[c] := (0,0)`,
    `contact_efc_address_out[c, i] := -1`; and no kernel task ever writes the counter `nacon`. -/
theorem reset_contact_cleared_slot (hact : c < nacon_in 0)
    (hsel : st = false ∨ contact_worldid_out c < 0 ∨ reset_in (contact_worldid_out c) = true) :
    toArr "contact_worldid_out" RC = [wset "contact_worldid_out" [c] (WVal.i 0)]
    ∧ final RC "contact_worldid_out" [c] = some (WVal.i 0, WKind.set)
    ∧ final RC "contact_dim_out" [c] = some (WVal.i 0, WKind.set)
    ∧ final RC "contact_geom_out" [c] = some (WVal.iv [0, 0], WKind.set)
    ∧ (∀ i, final RC "contact_efc_address_out" [c, i]
          = if 0 ≤ i ∧ i < nefcaddress then some (WVal.i (-1), WKind.set) else none)
    ∧ toArr "nacon_out" RC = [] := by
  have hc : ¬ (st = true ∧ 0 ≤ contact_worldid_out c ∧ reset_in (contact_worldid_out c) = false) := by
    rintro ⟨h1, h2, h3⟩
    rcases hsel with h | h | h
    · rw [h1] at h; cases h
    · omega
    · rw [h3] at h; cases h
  rw [reset_contact_eq, if_neg (by omega), if_neg hc]
  unfold contactWrites
  refine ⟨?_, ?_, ?_, ?_, ?_, ?_⟩
  · toArr_simp
  · final_simp
  · final_simp
  · final_simp
  · intro i; final_simp
  · toArr_simp

end contact

/-! ## 2. `reset_nworld`: exact writes for a selected world -/

section nworld
variable {K : Type} [Scalar K] (nq nv nu na nbody ntree neq nuserdata nsensordata : Int) (qpos0 : Int → Int → K)
  (eq_active0 : Int → Bool) (nworld_in : Int) (reset_in : Int → Bool)
  (solver_niter_out ne_out nf_out nl_out nefc_out ntree_awake_out nbody_awake_out nv_awake_out : Int → Int)
  (time_out : Int → K) (energy_out : Int → V2 K)
  (qpos_out qvel_out act_out qacc_warmstart_out ctrl_out qfrc_applied_out : Int → Int → K)
  (eq_active_out : Int → Int → Bool) (qacc_out act_dot_out userdata_out sensordata_out : Int → Int → K)
  (nacon_out overflow_out : Int → Int) (st : Bool) (qpos0_shape0 w : Int)

/-- the `reset_nworld` task of world `w` -/
local notation "NW" =>
  Gen.Io.reset_data__reset_nworld nq nv nu na nbody ntree neq nuserdata nsensordata qpos0 eq_active0 nworld_in
    reset_in solver_niter_out ne_out nf_out nl_out nefc_out ntree_awake_out nbody_awake_out nv_awake_out
    time_out energy_out qpos_out qvel_out act_out qacc_warmstart_out ctrl_out qfrc_applied_out eq_active_out
    qacc_out act_dot_out userdata_out sensordata_out nacon_out overflow_out st qpos0_shape0 w

/-- the exact write list (program order) of a `reset_nworld` task -/
theorem reset_nworld_exact :
    NW = if st = true ∧ reset_in w = false then []
         else nworldWrites nq nv nu na nbody ntree neq nuserdata nsensordata qpos0 eq_active0 qpos0_shape0 w :=
  reset_nworld_eq ..

/-- (2) **reset_nworld_writes**: for a selected world `w`, for each array and each index the final write
    of the task.  Per-world scalars: solver_niter, ne, nf, nl, nefc, overflow := 0; time := 0;
    energy := (0,0); ntree_awake := ntree; nbody_awake := nbody; nv_awake := nv.
    Rows: `qpos[w,i] := qpos0[w % qpos0.shape[0], i]` for `0 ≤ i < nq`;
    `qvel, qacc_warmstart, qfrc_applied, qacc [w,i] := 0` exactly for `0 ≤ i < nq ∧ i < nv` (the loop runs over
    `range(nq)` with `if i < nv`); `ctrl[w,i] := 0` for `0 ≤ i < nu`; **`act, act_dot [w,i] := 0` exactly for
    `0 ≤ i < na`** (own loop over `range(na)`); `eq_active[w,i] := eq_active0[i]`
    for `i < neq`; `sensordata`, `userdata` := 0.  `else none` = the cell is NOT written. -/
theorem reset_nworld_writes (hsel : st = false ∨ reset_in w = true) :
    (final NW "solver_niter_out" [w] = some (WVal.i 0, WKind.set)
      ∧ final NW "ne_out" [w] = some (WVal.i 0, WKind.set)
      ∧ final NW "nf_out" [w] = some (WVal.i 0, WKind.set)
      ∧ final NW "nl_out" [w] = some (WVal.i 0, WKind.set)
      ∧ final NW "nefc_out" [w] = some (WVal.i 0, WKind.set)
      ∧ final NW "overflow_out" [w] = some (WVal.i 0, WKind.set)
      ∧ final NW "time_out" [w] = some (WVal.f (Scalar.lit 0 0 : K), WKind.set)
      ∧ final NW "energy_out" [w] = some (WVal.v [(Scalar.lit 0 0 : K), (Scalar.lit 0 0 : K)], WKind.set)
      ∧ final NW "ntree_awake_out" [w] = some (WVal.i ntree, WKind.set)
      ∧ final NW "nbody_awake_out" [w] = some (WVal.i nbody, WKind.set)
      ∧ final NW "nv_awake_out" [w] = some (WVal.i nv, WKind.set))
    ∧ (∀ i, final NW "qpos_out" [w, i]
        = if 0 ≤ i ∧ i < nq then some (WVal.f (qpos0 (Int.tmod w qpos0_shape0) i), WKind.set) else none)
    ∧ (∀ i, final NW "qvel_out" [w, i] = if 0 ≤ i ∧ i < nq ∧ i < nv then some (fz, WKind.set) else none)
    ∧ (∀ i, final NW "qacc_warmstart_out" [w, i]
        = if 0 ≤ i ∧ i < nq ∧ i < nv then some (fz, WKind.set) else none)
    ∧ (∀ i, final NW "qfrc_applied_out" [w, i]
        = if 0 ≤ i ∧ i < nq ∧ i < nv then some (fz, WKind.set) else none)
    ∧ (∀ i, final NW "qacc_out" [w, i] = if 0 ≤ i ∧ i < nq ∧ i < nv then some (fz, WKind.set) else none)
    ∧ (∀ i, final NW "ctrl_out" [w, i] = if 0 ≤ i ∧ i < nu then some (fz, WKind.set) else none)
    ∧ (∀ i, final NW "act_out" [w, i] = if 0 ≤ i ∧ i < na then some (fz, WKind.set) else none)
    ∧ (∀ i, final NW "act_dot_out" [w, i] = if 0 ≤ i ∧ i < na then some (fz, WKind.set) else none)
    ∧ (∀ i, final NW "eq_active_out" [w, i]
        = if 0 ≤ i ∧ i < neq then some (WVal.b (eq_active0 i), WKind.set) else none)
    ∧ (∀ i, final NW "sensordata_out" [w, i] = if 0 ≤ i ∧ i < nsensordata then some (fz, WKind.set) else none)
    ∧ (∀ i, final NW "userdata_out" [w, i] = if 0 ≤ i ∧ i < nuserdata then some (fz, WKind.set) else none) := by
  rw [reset_nworld_eq, if_neg (sel_not reset_in st w hsel)]
  unfold nworldWrites
  refine ⟨⟨?_, ?_, ?_, ?_, ?_, ?_, ?_, ?_, ?_, ?_, ?_⟩, ?_, ?_, ?_, ?_, ?_, ?_, ?_, ?_, ?_, ?_, ?_⟩
  · final_simp
  · final_simp
  · final_simp
  · final_simp
  · final_simp
  · final_simp
  · final_simp
  · final_simp
  · final_simp
  · final_simp
  · final_simp
  · intro i; final_simp
  · intro i; final_simp; exact ite_nest3 ..
  · intro i; final_simp; exact ite_nest3 ..
  · intro i; final_simp; exact ite_nest3 ..
  · intro i; final_simp; exact ite_nest3 ..
  · intro i; final_simp
  · intro i; final_simp
  · intro i; final_simp
  · intro i; final_simp
  · intro i; final_simp
  · intro i; final_simp

/-- (2') all writes of the task to `act_out`, as a list: one `act[w,i] := 0` per `i ∈ range(na)` -/
theorem act_writes_exact (hsel : st = false ∨ reset_in w = true) :
    toArr "act_out" NW = tabL na (fun i => [wset "act_out" [w, i] fz]) := by
  rw [reset_nworld_eq, if_neg (sel_not reset_in st w hsel)]
  unfold nworldWrites
  toArr_simp

/-- (2'') **act_reset_all**: for a selected world EVERY activation cell `0 ≤ i < na` gets `set 0` as its final
    write (also `nu ≤ i < na`: models whose actuators carry several activation slots), and likewise
    `act_dot`; cells outside `[0, na)` are not written. -/
theorem act_reset_all (hsel : st = false ∨ reset_in w = true) (i : Int) :
    (0 ≤ i → i < na → final NW "act_out" [w, i] = some (fz, WKind.set)
        ∧ final NW "act_dot_out" [w, i] = some (fz, WKind.set))
    ∧ (¬ (0 ≤ i ∧ i < na) → final NW "act_out" [w, i] = none ∧ final NW "act_dot_out" [w, i] = none) := by
  have h := reset_nworld_writes nq nv nu na nbody ntree neq nuserdata nsensordata qpos0 eq_active0 nworld_in
    reset_in solver_niter_out ne_out nf_out nl_out nefc_out ntree_awake_out nbody_awake_out nv_awake_out
    time_out energy_out qpos_out qvel_out act_out qacc_warmstart_out ctrl_out qfrc_applied_out eq_active_out
    qacc_out act_dot_out userdata_out sensordata_out nacon_out overflow_out st qpos0_shape0 w hsel
  have ha := h.2.2.2.2.2.2.2.1 i
  have hd := h.2.2.2.2.2.2.2.2.1 i
  constructor
  · intro h0 h1
    rw [ha, hd, if_pos ⟨h0, h1⟩]; exact ⟨rfl, rfl⟩
  · intro hn
    rw [ha, hd, if_neg hn]; exact ⟨rfl, rfl⟩

/-! ## 4. The global contact counter -/

/-- (4a) **nacon_reset**: the writes of a `reset_nworld` task to the counter array `nacon_out` are: exactly
    one write `nacon_out[0] := 0` if the task is world 0 AND world 0 is selected; none otherwise.  Hence
    (one task per world) a reset zeroes the global contact count iff world 0 is selected. -/
theorem nacon_reset :
    toArr "nacon_out" NW
      = if (st = false ∨ reset_in w = true) ∧ w = 0 then [wset "nacon_out" [0] (WVal.i 0)] else [] := by
  rw [reset_nworld_eq]
  by_cases hsel : st = false ∨ reset_in w = true
  · rw [if_neg (sel_not reset_in st w hsel)]
    unfold nworldWrites
    by_cases hw : w = 0 <;> toArr_simp <;> simp_all
  · have : st = true ∧ reset_in w = false := by
      cases st <;> cases h : reset_in w <;> simp_all
    rw [if_pos this]; simp [hsel]

/-- (4a') the same as a statement about the cell: last write to `nacon_out[0]` -/
theorem nacon_reset_cell :
    final NW "nacon_out" [0]
      = if (st = false ∨ reset_in w = true) ∧ w = 0 then some (WVal.i 0, WKind.set) else none := by
  rw [reset_nworld_eq]
  by_cases hsel : st = false ∨ reset_in w = true
  · rw [if_neg (sel_not reset_in st w hsel)]
    unfold nworldWrites
    by_cases hw : w = 0 <;> final_simp <;> simp_all
  · have : st = true ∧ reset_in w = false := by
      cases st <;> cases h : reset_in w <;> simp_all
    rw [if_pos this]; simp [hsel]

end nworld

/-! ## 3. No history array is written -/

/-- every array name any translated kernel of `reset_data` can write to -/
def resetArrays : List String :=
  ["M_out",
   "solver_niter_out", "nacon_out", "ne_out", "nf_out", "nl_out", "nefc_out", "time_out", "energy_out",
   "ntree_awake_out", "nbody_awake_out", "nv_awake_out", "qpos_out", "qvel_out", "qacc_warmstart_out",
   "qfrc_applied_out", "qacc_out", "ctrl_out", "act_out", "act_dot_out", "eq_active_out", "sensordata_out",
   "userdata_out", "overflow_out",
   "mocap_pos_out", "mocap_quat_out",
   "contact_dist_out", "contact_pos_out", "contact_frame_out", "contact_includemargin_out",
   "contact_friction_out", "contact_solref_out", "contact_solreffriction_out", "contact_solimp_out",
   "contact_dim_out", "contact_geom_out", "contact_flex_out", "contact_elem_out", "contact_vert_out",
   "contact_efc_address_out", "contact_worldid_out", "contact_type_out", "contact_geomcollisionid_out",
   "contact_adhesion_out",
   "tree_asleep_out", "tree_awake_out", "body_awake_out", "body_awake_ind_out", "dof_awake_ind_out"]

/-- the list contains no history array (`Data.history` would appear as `history_out`) -/
theorem history_not_in_resetArrays : "history_out" ∉ resetArrays ∧ "history" ∉ resetArrays := by
  constructor <;> decide

/-- (3) **history_not_reset**: for ALL inputs, masks and thread ids, every write of every translated kernel
    of `reset_data` goes to an array named in `resetArrays` — which has no history entry.  (None of the
    kernels even has a history parameter.)  Together with `history_not_in_resetArrays`: `reset_data` never
    writes `Data.history`, so sensor/actuator delay buffers keep their pre-reset contents
    (`C13Witness.history_not_restored_witness`). -/
theorem history_not_reset {K : Type} [Scalar K] :
    (∀ (reset_in : Int → Bool) (M_out : Int → Int → K) (st : Bool) (w e : Int),
      arrsIn resetArrays (Gen.Io.reset_data__reset_M reset_in M_out st w e))
    ∧ (∀ (nq nv nu na nbody ntree neq nuserdata nsensordata : Int) (qpos0 : Int → Int → K)
        (eq_active0 : Int → Bool) (nworld_in : Int) (reset_in : Int → Bool)
        (solver_niter_out ne_out nf_out nl_out nefc_out ntree_awake_out nbody_awake_out nv_awake_out : Int → Int)
        (time_out : Int → K) (energy_out : Int → V2 K)
        (qpos_out qvel_out act_out qacc_warmstart_out ctrl_out qfrc_applied_out : Int → Int → K)
        (eq_active_out : Int → Int → Bool) (qacc_out act_dot_out userdata_out sensordata_out : Int → Int → K)
        (nacon_out overflow_out : Int → Int) (st : Bool) (qpos0_shape0 w : Int),
        arrsIn resetArrays (Gen.Io.reset_data__reset_nworld nq nv nu na nbody ntree neq nuserdata nsensordata
          qpos0 eq_active0 nworld_in reset_in solver_niter_out ne_out nf_out nl_out nefc_out ntree_awake_out
          nbody_awake_out nv_awake_out time_out energy_out qpos_out qvel_out act_out qacc_warmstart_out ctrl_out
          qfrc_applied_out eq_active_out qacc_out act_dot_out userdata_out sensordata_out nacon_out
          overflow_out st qpos0_shape0 w))
    ∧ (∀ (body_mocapid : Int → Int) (body_pos : Int → Int → V3 K) (body_quat : Int → Int → Q K)
        (reset_in : Int → Bool) (mocap_pos_out : Int → Int → V3 K) (mocap_quat_out : Int → Int → Q K) (st : Bool)
        (sh_pos sh_quat w b : Int),
        arrsIn resetArrays (Gen.Io.reset_data__reset_mocap body_mocapid body_pos body_quat reset_in
          mocap_pos_out mocap_quat_out st sh_pos sh_quat w b))
    ∧ (∀ (nacon_in : Int → Int) (reset_in : Int → Bool) (nefcaddress : Int)
        (contact_dist_out : Int → K) (contact_pos_out : Int → V3 K) (contact_frame_out : Int → M33 K)
        (contact_includemargin_out : Int → K) (contact_friction_out : Int → V5 K)
        (contact_solref_out contact_solreffriction_out : Int → V2 K) (contact_solimp_out : Int → V5 K)
        (contact_dim_out : Int → Int)
        (contact_geom_out contact_flex_out contact_elem_out contact_vert_out : Int → I2)
        (contact_efc_address_out : Int → Int → Int)
        (contact_worldid_out contact_type_out contact_geomcollisionid_out : Int → Int)
        (contact_adhesion_out : Int → K) (st : Bool) (sh_flex sh_elem sh_vert c : Int),
        arrsIn resetArrays (Gen.Io.reset_data__reset_contact nacon_in reset_in nefcaddress contact_dist_out
          contact_pos_out contact_frame_out contact_includemargin_out contact_friction_out contact_solref_out
          contact_solreffriction_out contact_solimp_out contact_dim_out contact_geom_out contact_flex_out
          contact_elem_out contact_vert_out contact_efc_address_out contact_worldid_out contact_type_out
          contact_geomcollisionid_out contact_adhesion_out st sh_flex sh_elem sh_vert c))
    ∧ (∀ (nv nbody ntree : Int) (body_mocapid body_treeid : Int → Int) (mj_minawake : Int)
        (reset_in : Int → Bool)
        (tree_asleep_out tree_awake_out body_awake_out body_awake_ind_out dof_awake_ind_out : Int → Int → Int)
        (st : Bool) (w e : Int),
        arrsIn resetArrays (Gen.Io.reset_data__reset_sleep (K := K) nv nbody ntree body_mocapid body_treeid
          mj_minawake reset_in tree_asleep_out tree_awake_out body_awake_out body_awake_ind_out
          dof_awake_ind_out st w e)) := by
  refine ⟨?_, ?_, ?_, ?_, ?_⟩
  · intros; rw [reset_M_eq]
    apply arrsIn_ite _ (arrsIn_nil _)
    exact arrsIn_cons (by simp [resetArrays]) (arrsIn_nil _)
  · intros; rw [reset_nworld_eq]
    apply arrsIn_ite _ (arrsIn_nil _)
    unfold nworldWrites
    repeat' first
      | apply arrsIn_append
      | apply arrsIn_ite
      | apply arrsIn_tabL; intro i; simp only [qposBody, actBody, cellBody]
      | apply arrsIn_cons (by simp [resetArrays])
      | exact arrsIn_nil _
  · intros; rw [reset_mocap_eq]
    apply arrsIn_ite _ (arrsIn_nil _)
    unfold mocapWrites
    repeat' first
      | apply arrsIn_ite
      | apply arrsIn_cons (by simp [resetArrays])
      | exact arrsIn_nil _
  · intros; rw [reset_contact_eq]
    apply arrsIn_ite _ (arrsIn_nil _)
    apply arrsIn_ite _ (arrsIn_nil _)
    unfold contactWrites
    repeat' first
      | apply arrsIn_append
      | apply arrsIn_ite
      | apply arrsIn_tabL; intro i; simp only [cellBody]
      | apply arrsIn_cons (by simp [resetArrays])
      | exact arrsIn_nil _
  · intros; rw [reset_sleep_eq]
    apply arrsIn_ite _ (arrsIn_nil _)
    unfold sleepWrites
    repeat' first
      | apply arrsIn_append
      | apply arrsIn_ite
      | apply arrsIn_cons (by simp [resetArrays])
      | exact arrsIn_nil _

/-! ## 5. The positive part -/

/-- (5) **reset_partial**: what DOES hold of C13 at kernel level, for every model size with `nv ≤ nq`
    (true of every MuJoCo model), every mask and every world `w`:
    * `w` selected ⇒ the per-world integration-state arrays get their fresh values on their whole range:
      time := 0, qpos[0..nq) := qpos0 row, qvel[0..nv) := 0, qacc_warmstart[0..nv) := 0, ctrl[0..nu) := 0,
      qfrc_applied[0..nv) := 0, eq_active[0..neq) := eq_active0, userdata[0..nuserdata) := 0,
      mocap_pos/quat[mocapid b] := body_pos/quat row of every mocap body `b`,
      act[0..na) := 0 (all activations) — but NOT history (xfrc_applied: untranslated kernel);
    * `w` unselected (mask in use) ⇒ the `reset_nworld`, `reset_mocap`, `reset_M`, `reset_sleep` tasks of `w`
      write nothing.
    FULL C13 ("identical to a fresh Data", "unselected worlds' contacts untouched") is false: see the header. -/
theorem reset_partial {K : Type} [Scalar K]
    (nq nv nu na nbody ntree neq nuserdata nsensordata : Int) (qpos0 : Int → Int → K)
    (eq_active0 : Int → Bool) (nworld_in : Int) (reset_in : Int → Bool)
    (solver_niter_out ne_out nf_out nl_out nefc_out ntree_awake_out nbody_awake_out nv_awake_out : Int → Int)
    (time_out : Int → K) (energy_out : Int → V2 K)
    (qpos_out qvel_out act_out qacc_warmstart_out ctrl_out qfrc_applied_out : Int → Int → K)
    (eq_active_out : Int → Int → Bool) (qacc_out act_dot_out userdata_out sensordata_out : Int → Int → K)
    (nacon_out overflow_out : Int → Int) (st : Bool) (qpos0_shape0 w : Int)
    (body_mocapid : Int → Int) (body_pos : Int → Int → V3 K) (body_quat : Int → Int → Q K)
    (mocap_pos_out : Int → Int → V3 K) (mocap_quat_out : Int → Int → Q K) (sh_pos sh_quat : Int)
    (hnv : nv ≤ nq) :
    let NW := Gen.Io.reset_data__reset_nworld nq nv nu na nbody ntree neq nuserdata nsensordata qpos0 eq_active0
      nworld_in reset_in solver_niter_out ne_out nf_out nl_out nefc_out ntree_awake_out nbody_awake_out
      nv_awake_out time_out energy_out qpos_out qvel_out act_out qacc_warmstart_out ctrl_out qfrc_applied_out
      eq_active_out qacc_out act_dot_out userdata_out sensordata_out nacon_out overflow_out st qpos0_shape0 w
    let RM := fun b => Gen.Io.reset_data__reset_mocap body_mocapid body_pos body_quat reset_in mocap_pos_out
      mocap_quat_out st sh_pos sh_quat w b
    ((st = false ∨ reset_in w = true) →
        final NW "time_out" [w] = some (fz, WKind.set)
        ∧ (∀ i, 0 ≤ i → i < nq →
            final NW "qpos_out" [w, i] = some (WVal.f (qpos0 (Int.tmod w qpos0_shape0) i), WKind.set))
        ∧ (∀ i, 0 ≤ i → i < nv → final NW "qvel_out" [w, i] = some (fz, WKind.set))
        ∧ (∀ i, 0 ≤ i → i < nv → final NW "qacc_warmstart_out" [w, i] = some (fz, WKind.set))
        ∧ (∀ i, 0 ≤ i → i < nv → final NW "qfrc_applied_out" [w, i] = some (fz, WKind.set))
        ∧ (∀ i, 0 ≤ i → i < nu → final NW "ctrl_out" [w, i] = some (fz, WKind.set))
        ∧ (∀ i, 0 ≤ i → i < na → final NW "act_out" [w, i] = some (fz, WKind.set))
        ∧ (∀ i, 0 ≤ i → i < neq → final NW "eq_active_out" [w, i] = some (WVal.b (eq_active0 i), WKind.set))
        ∧ (∀ i, 0 ≤ i → i < nuserdata → final NW "userdata_out" [w, i] = some (fz, WKind.set))
        ∧ (∀ b, 0 ≤ body_mocapid b →
            final (RM b) "mocap_pos_out" [w, body_mocapid b]
              = some (WVal.v (V3.toList (body_pos (Int.tmod w sh_pos) b)), WKind.set)
            ∧ final (RM b) "mocap_quat_out" [w, body_mocapid b]
              = some (WVal.v (Q.toList (body_quat (Int.tmod w sh_quat) b)), WKind.set)))
    ∧ ((st = true ∧ reset_in w = false) → NW = [] ∧ ∀ b, RM b = []) := by
  intro NW RM
  constructor
  · intro hsel
    obtain ⟨⟨-, -, -, -, -, -, ht, -⟩, hqpos, hqvel, hwarm, hqfrc, -, hctrl, hact, -, heq, -, huser⟩ :=
      reset_nworld_writes nq nv nu na nbody ntree neq nuserdata nsensordata qpos0 eq_active0 nworld_in
        reset_in solver_niter_out ne_out nf_out nl_out nefc_out ntree_awake_out nbody_awake_out nv_awake_out
        time_out energy_out qpos_out qvel_out act_out qacc_warmstart_out ctrl_out qfrc_applied_out eq_active_out
        qacc_out act_dot_out userdata_out sensordata_out nacon_out overflow_out st qpos0_shape0 w hsel
    refine ⟨ht, ?_, ?_, ?_, ?_, ?_, ?_, ?_, ?_, ?_⟩
    · intro i h0 h1; rw [show final NW _ _ = _ from hqpos i, if_pos ⟨h0, h1⟩]
    · intro i h0 h1; rw [show final NW _ _ = _ from hqvel i, if_pos ⟨h0, by omega, h1⟩]
    · intro i h0 h1; rw [show final NW _ _ = _ from hwarm i, if_pos ⟨h0, by omega, h1⟩]
    · intro i h0 h1; rw [show final NW _ _ = _ from hqfrc i, if_pos ⟨h0, by omega, h1⟩]
    · intro i h0 h1; rw [show final NW _ _ = _ from hctrl i, if_pos ⟨h0, h1⟩]
    · intro i h0 h1; rw [show final NW _ _ = _ from hact i, if_pos ⟨h0, h1⟩]
    · intro i h0 h1; rw [show final NW _ _ = _ from heq i, if_pos ⟨h0, h1⟩]
    · intro i h0 h1; rw [show final NW _ _ = _ from huser i, if_pos ⟨h0, h1⟩]
    · intro b hb
      have hn : ¬ (st = true ∧ reset_in w = false) := by
        rintro ⟨h1, h2⟩
        rcases hsel with h | h
        · rw [h1] at h; cases h
        · rw [h2] at h; cases h
      simp only [RM]
      rw [reset_mocap_eq, if_neg hn]
      unfold mocapWrites
      rw [if_pos hb]
      constructor <;> final_simp
  · intro hun
    constructor
    · simp only [NW]; rw [reset_nworld_eq, if_pos hun]
    · intro b; simp only [RM]; rw [reset_mocap_eq, if_pos hun]

/-! ## Non-vacuity of the hypotheses -/

example : ∃ (st : Bool) (reset_in : Int → Bool) (w : Int), st = false ∨ reset_in w = true :=
  ⟨true, fun _ => true, 3, Or.inr rfl⟩
example : ∃ (st : Bool) (reset_in : Int → Bool) (w : Int), st = true ∧ reset_in w = false :=
  ⟨true, fun w => decide (w = 0), 1, rfl, by decide⟩
/-- a free body: nq = 7, nv = 6 -/
example : ∃ nq nv : Int, nv ≤ nq ∧ 0 < nv := ⟨7, 6, by decide, by decide⟩
/-- an activation index beyond the actuator count exists for nu = 1, na = 2 (covered by `act_reset_all`) -/
example : ∃ nu na i : Int, nu ≤ i ∧ 0 ≤ i ∧ i < na := ⟨1, 2, 1, by decide, by decide, by decide⟩
/-- an active slot of an unselected world / a selected world -/
example : ∃ (nacon_in : Int → Int) (cw : Int → Int) (reset_in : Int → Bool) (c : Int),
    c < nacon_in 0 ∧ 0 ≤ cw c ∧ reset_in (cw c) = false := ⟨fun _ => 2, fun _ => 1, fun _ => false, 0, by decide, by decide, rfl⟩

end Mjw.Props.C13
