/-
  C03 witnesses (activation part / actuator force limits): concrete inputs outside the hypotheses of the
  theorems of `Props/C03.lean`, showing that the hypotheses are needed.

  W1  USER dynamics (7) with `actlimited`: `next_act` returns the activation unchanged, outside `actrange`.
  W2  inverted `actrange` (lo > hi): Warp's `clamp` returns `hi`, C's `mju_clip` returns `lo`.
  W3  DCMOTOR bias (3) with `forcelimited`: the cogging torque is added after the clamp, the stored
      `actuator_force` is 6 with `forcerange = [-1, 1]` (intended by the source: "not subject to current limits").
-/
import MjwVerif.Props.C03

namespace Mjw.Props.C03Witness
open Mjw Mjw.Gen.Support Mjw.Spec.Integrate Mjw.Props.C03

/-- **W1**: `next_act_in_range` fails for USER: act = 5, range [0, 1], clamp requested — result 5 -/
theorem next_act_user_not_clamped_witness :
    next_act (1:ℝ) 7 V10.zero ⟨0, 1⟩ 5 0 1 true = 5 ∧ ¬ ((5:ℝ) ≤ 1) := by
  refine ⟨next_act_user _ _ _ _ _ _ _, by norm_num⟩

/-- **W2**: `next_act_eq_C` fails for an inverted range: integrator, act = 0, act_dot = 0, range [1, −1]:
    Warp gives −1 (= hi), `mj_nextActivation` gives 1 (= lo) -/
theorem next_act_inverted_range_witness :
    next_act (1:ℝ) 1 V10.zero ⟨1, -1⟩ 0 0 1 true = -1
    ∧ nextActivation 1 (0:ℝ) true 1 (-1) 0 0 1 = 1 := by
  constructor
  · rw [next_act_integrator]; norm_num [clampIf]
  · simp only [nextActivation, DYN_FILTEREXACT, clip, hadd, hmul, smin, smax]
    norm_num

/-- **W3**: `force_in_range` fails for the DCMOTOR bias type: no activation state (`na = 0`), FIXED gain 1,
    ctrl = 10, `forcelimited` with `forcerange = [-1, 1]`, cogging amplitude A = biasprm[0] = 5,
    Np = 0, φ = π/2: the clamp gives 1, then `+ 5·sin(π/2)`: the task stores 6. -/
theorem force_dcmotor_not_in_range_witness :
    Gen.Forward._actuator_force (K := ℝ) 0 (fun _ => 1) (fun _ => 0) (fun _ => 0) (fun _ => 3) (fun _ => -1) (fun _ => 0)
      (fun _ _ => V10.zero) (fun _ _ => ⟨1, 0, 0, 0, 0, 0, 0, 0, 0, 0⟩) (fun _ _ => ⟨5, 0, Real.pi / 2, 0, 0, 0, 0, 0, 0, 0⟩)
      (fun _ => false) (fun _ _ => ⟨0, 0⟩) (fun _ => false) (fun _ => true) (fun _ _ => ⟨-1, 1⟩) (fun _ => false)
      (fun _ _ => ⟨0, 0⟩) (fun _ _ => 0) (fun _ _ => ⟨0, 0⟩) (fun _ _ => 0) (fun _ _ => 10) (fun _ _ => 0) (fun _ _ => 0) 0
      (fun _ _ => 0) (fun _ _ => 0) 1 1 1 1 1 1 1 1 1 0 0
    = [Write.mk "actuator_force_out" [0, 0] (WVal.f 6) WKind.set] ∧ ¬ ((6:ℝ) ≤ 1) := by
  constructor
  · unfold Gen.Forward._actuator_force
    simp [V10.zero, V10.fill, Scalar.clamp]
    norm_num
  · norm_num

end Mjw.Props.C03Witness
