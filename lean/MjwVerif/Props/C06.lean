/-
  C06  Constrained acceleration is the convex-cost optimum.

  qacc minimises   c(a) = ½ (a − a₀)ᵀ M (a − a₀) + Σ_i s_i((J a − aref)_i)      (a₀ = qacc_smooth = M⁻¹ qfrc_smooth)
  where s_i is the cost of constraint row i as `Mjw.Gen.Solver._eval_constraint` computes it (component `c2`;
  force = component `c0`), see Props/C24.lean.  Vectors are `Fin n → ℝ`, matrices Mathlib's `Matrix`.

  Sections
   1  the three scalar row costs of the generated code are convex on ℝ
        (`equality_cost_convex`, `friction_cost_convex`, `limit_cost_convex`; packaged as `Row.cost_convex`);
   2  `cost_convex_partial`: c is convex for positive semidefinite M and convex s_i;
   3  `grad_formula`: directional derivative of c at a along v is  v·(M(a − a₀) − Jᵀ f),  f_i = −s_i'((J a − aref)_i);
   4  `grad_zero_is_min`: for convex c, ∇c(a*) = 0 ⇒ a* is a global minimiser;
        `qacc_is_minimiser_partial`: all of it together for the generated row costs: if the solver gradient
        `M a* − qfrc_smooth − Jᵀ·force(J a* − aref)` vanishes, a* minimises c — "the reported constraint forces
        are exactly the forces implied by qacc" is `Row.force r ((J a* − aref)_i)`, i.e. C24's force law at a*;
        `near_minimiser_of_small_grad`: quantitative version for a non-zero residual gradient;
   5  the line-search quadratic `_eval_cost` / `_eval_pt`: value, first and second derivative; it is the Gauss
        term of c restricted to the search line;
   6  examples.

  PARTIAL: the elliptic-cone block.  An elliptic contact's cost is a jointly convex function of ALL the rows
  of the contact (½·dm·(N − μT)² in the middle zone with T = ‖tangential part‖), not a sum of per-row
  functions, so it does not fit `Σ_i s_i(r_i)`; `cost_convex_partial` / `qacc_is_minimiser_partial` cover
  equality, friction-loss, limit, frictionless-contact and pyramidal-cone rows.  What is missing for the full
  statement: joint convexity of (N, u) ↦ elliptic cone cost over its three zones, and its gradient (C24 5g/5h
  give the partial derivatives in the middle zone only).
  Friction-loss rows need D > 0: with D = 0 the generated cost jumps at ±frictionloss·10¹⁵
  (Props/C24Witness.lean), hence is not convex.
-/
import MjwVerif.Props.C24
import MjwVerif.Lemmas.C06
import Mathlib.Analysis.Calculus.Deriv.Comp

set_option linter.unusedVariables false
set_option linter.unusedSimpArgs false

namespace Mjw.Props.C06
open Mjw Mjw.Gen.Solver Mjw.Gen.Math Mjw.Lemmas.C24 Mjw.Lemmas.C06 Matrix

/-! ## 1. the scalar row costs are convex -/

/-- a differentiable function with monotone derivative is convex (wrapper around Mathlib) -/
theorem convex_of_hasDerivAt_mono (s s' : ℝ → ℝ) (h : ∀ x, HasDerivAt s (s' x) x) (hm : Monotone s') :
    ConvexOn ℝ Set.univ s := by
  have hd : deriv s = s' := funext fun x => (h x).deriv
  exact Monotone.convexOn_univ_of_deriv (fun x => (h x).differentiableAt) (by rw [hd]; exact hm)

/-- equality rows: `½·D·x²` is convex for D ≥ 0 -/
theorem equality_cost_convex (bf be : Bool) (D f : ℝ) (e e0 : Int) (j0 D0 mu u TT : ℝ) (hD : 0 ≤ D) :
    ConvexOn ℝ Set.univ (fun j => (_eval_constraint true bf be j D f e e0 j0 D0 mu u TT).c2) := by
  refine convex_of_hasDerivAt_mono _ (fun j => -(_eval_constraint true bf be j D f e e0 j0 D0 mu u TT).c0)
    (fun x => C24.equality_cost_hasDerivAt bf be x D f e e0 j0 D0 mu u TT) ?_
  intro x y hxy
  simp only [eval_equality]
  nlinarith

/-- friction-loss rows: the Huber-like cost is convex for D > 0, frictionloss ≥ 0 -/
theorem friction_cost_convex (be : Bool) (D f : ℝ) (e e0 : Int) (j0 D0 mu u TT : ℝ) (hD : 0 < D) (hf : 0 ≤ f) :
    ConvexOn ℝ Set.univ (fun j => (_eval_constraint false true be j D f e e0 j0 D0 mu u TT).c2) := by
  refine convex_of_hasDerivAt_mono _ (fun j => -(_eval_constraint false true be j D f e e0 j0 D0 mu u TT).c0)
    (fun x => C24.friction_cost_hasDerivAt be x D f e e0 j0 D0 mu u TT hD hf) ?_
  intro x y hxy
  simp only [C24.friction_force_eq_clamp _ _ _ _ _ _ _ _ _ _ _ hD hf, neg_le_neg_iff]
  exact max_le_max le_rfl (min_le_min le_rfl (by nlinarith))

/-- limit / frictionless-contact / pyramidal rows: the one-sided quadratic `½·D·min(x,0)²` is convex for D ≥ 0 -/
theorem limit_cost_convex (D f : ℝ) (e e0 : Int) (j0 D0 mu u TT : ℝ) (hD : 0 ≤ D) :
    ConvexOn ℝ Set.univ (fun j => (_eval_constraint false false false j D f e e0 j0 D0 mu u TT).c2) := by
  refine convex_of_hasDerivAt_mono _ (fun j => -(_eval_constraint false false false j D f e e0 j0 D0 mu u TT).c0)
    (fun x => C24.limit_cost_hasDerivAt x D f e e0 j0 D0 mu u TT) ?_
  intro x y hxy
  simp only [C24.limit_force_eq_max _ _ _ _ _ _ _ _ _ _ hD, neg_le_neg_iff]
  exact max_le_max le_rfl (by nlinarith)

/-- a non-elliptic constraint row as `_eval_constraint` sees it: kind flags, stiffness `D = efc_D`,
    `frictionloss`.  (equality: `isEq`; friction loss: `¬isEq ∧ isFric`; limit / contact normal / pyramid edge: neither) -/
structure Row where
  isEq : Bool
  isFric : Bool
  D : ℝ
  floss : ℝ

/-- the row's cost, force and state exactly as the generated `_eval_constraint` returns them (the arguments that
    only elliptic rows read are set to 0) -/
noncomputable def Row.cost (r : Row) (j : ℝ) : ℝ :=
  (_eval_constraint r.isEq r.isFric false j r.D r.floss 0 0 0 0 0 0 0).c2
noncomputable def Row.force (r : Row) (j : ℝ) : ℝ :=
  (_eval_constraint r.isEq r.isFric false j r.D r.floss 0 0 0 0 0 0 0).c0

/-- admissible parameters: D ≥ 0, and for friction-loss rows D > 0, frictionloss ≥ 0 -/
def Row.ok (r : Row) : Prop :=
  0 ≤ r.D ∧ (r.isEq = false → r.isFric = true → 0 < r.D ∧ 0 ≤ r.floss)

/-- C24 (5a/5e/5f) packaged: every admissible non-elliptic row has force = −∂cost/∂jaref, everywhere -/
theorem Row.cost_hasDerivAt (r : Row) (h : r.ok) (j : ℝ) : HasDerivAt r.cost (-(r.force j)) j := by
  obtain ⟨isEq, isFric, D, f⟩ := r
  obtain ⟨hD, hfr⟩ := h
  cases isEq
  · cases isFric
    · exact C24.limit_cost_hasDerivAt j D f 0 0 0 0 0 0 0
    · obtain ⟨h1, h2⟩ := hfr rfl rfl
      exact C24.friction_cost_hasDerivAt false j D f 0 0 0 0 0 0 0 h1 h2
  · exact C24.equality_cost_hasDerivAt isFric false j D f 0 0 0 0 0 0 0

theorem Row.cost_convex (r : Row) (h : r.ok) : ConvexOn ℝ Set.univ r.cost := by
  obtain ⟨isEq, isFric, D, f⟩ := r
  obtain ⟨hD, hfr⟩ := h
  cases isEq
  · cases isFric
    · exact limit_cost_convex D f 0 0 0 0 0 0 0 hD
    · obtain ⟨h1, h2⟩ := hfr rfl rfl
      exact friction_cost_convex false D f 0 0 0 0 0 0 0 h1 h2
  · exact equality_cost_convex isFric false D f 0 0 0 0 0 0 0 hD

/-! ## 2. the cost is convex -/

section cost
variable {n m : ℕ}

/-- `c(a) = ½ (a − a₀)ᵀ M (a − a₀) + Σ_i s_i((J a − aref)_i)` -/
noncomputable def cost (M : Matrix (Fin n) (Fin n) ℝ) (J : Matrix (Fin m) (Fin n) ℝ) (a0 : Fin n → ℝ)
    (aref : Fin m → ℝ) (s : Fin m → ℝ → ℝ) (a : Fin n → ℝ) : ℝ :=
  1 / 2 * ((a - a0) ⬝ᵥ M *ᵥ (a - a0)) + ∑ i, s i ((J *ᵥ a - aref) i)

theorem convexOn_finset_sum {E : Type} [AddCommMonoid E] [Module ℝ E] {ι : Type} (t : Finset ι)
    (g : ι → E → ℝ) (h : ∀ i ∈ t, ConvexOn ℝ Set.univ (g i)) :
    ConvexOn ℝ Set.univ (fun x => ∑ i ∈ t, g i x) := by
  classical
  induction t using Finset.induction_on with
  | empty => simpa using convexOn_const (0:ℝ) convex_univ
  | insert i t hi ih =>
    have h1 := h i (Finset.mem_insert_self i t)
    have h2 := ih (fun j hj => h j (Finset.mem_insert_of_mem hj))
    have := h1.add h2
    refine this.congr ?_
    intro x _
    simp [Finset.sum_insert hi]

/-- **convexity** (partial: separable row costs, i.e. everything except elliptic-cone contacts):
    M positive semidefinite (`xᵀ M x ≥ 0`; symmetry not needed) and every `s_i` convex ⇒ `c` convex. -/
theorem cost_convex_partial (M : Matrix (Fin n) (Fin n) ℝ) (J : Matrix (Fin m) (Fin n) ℝ) (a0 : Fin n → ℝ)
    (aref : Fin m → ℝ) (s : Fin m → ℝ → ℝ) (hpsd : ∀ x : Fin n → ℝ, 0 ≤ x ⬝ᵥ M *ᵥ x)
    (hs : ∀ i, ConvexOn ℝ Set.univ (s i)) :
    ConvexOn ℝ Set.univ (cost M J a0 aref s) := by
  have h1 := gauss_convex M hpsd a0
  have h2 := convexOn_finset_sum (E := Fin n → ℝ) Finset.univ (fun i a => s i ((J *ᵥ a - aref) i))
    (fun i _ => convexOn_comp_affine (s i) (fun a => (J *ᵥ a - aref) i) (hs i) (residual_affine J aref i))
  exact h1.add h2

/-- the same with Mathlib's `Matrix.PosSemidef` -/
theorem cost_convex_of_posSemidef_partial (M : Matrix (Fin n) (Fin n) ℝ) (J : Matrix (Fin m) (Fin n) ℝ)
    (a0 : Fin n → ℝ) (aref : Fin m → ℝ) (s : Fin m → ℝ → ℝ) (hM : M.PosSemidef)
    (hs : ∀ i, ConvexOn ℝ Set.univ (s i)) :
    ConvexOn ℝ Set.univ (cost M J a0 aref s) :=
  cost_convex_partial M J a0 aref s (fun x => by simpa using hM.dotProduct_mulVec_nonneg x) hs

/-! ## 3. gradient -/

/-- the constraint force vector implied by an acceleration: `f_i = frc_i((J a − aref)_i)` -/
def forceAt (J : Matrix (Fin m) (Fin n) ℝ) (aref : Fin m → ℝ) (frc : Fin m → ℝ → ℝ) (a : Fin n → ℝ) :
    Fin m → ℝ := fun i => frc i ((J *ᵥ a - aref) i)

/-- `∇c(a) = M (a − a₀) − Jᵀ f(a)` -/
def grad (M : Matrix (Fin n) (Fin n) ℝ) (J : Matrix (Fin m) (Fin n) ℝ) (a0 : Fin n → ℝ) (aref : Fin m → ℝ)
    (frc : Fin m → ℝ → ℝ) (a : Fin n → ℝ) : Fin n → ℝ :=
  M *ᵥ (a - a0) - Jᵀ *ᵥ forceAt J aref frc a

/-- **gradient formula**, as the derivative along every line: for symmetric M and row costs with
    `s_i' = −frc_i`,   d/dt c(a + t v) |_{t=0} = v · (M (a − a₀) − Jᵀ f),   f_i = frc_i((J a − aref)_i). -/
theorem grad_formula (M : Matrix (Fin n) (Fin n) ℝ) (hsym : Mᵀ = M) (J : Matrix (Fin m) (Fin n) ℝ)
    (a0 : Fin n → ℝ) (aref : Fin m → ℝ) (s frc : Fin m → ℝ → ℝ)
    (hs : ∀ i x, HasDerivAt (s i) (-(frc i x)) x) (a v : Fin n → ℝ) :
    HasDerivAt (fun t : ℝ => cost M J a0 aref s (a + t • v)) (v ⬝ᵥ grad M J a0 aref frc a) 0 := by
  -- Gauss term
  have hg := gauss_line_hasDerivAt M hsym (a - a0) v 0
  simp only [zero_smul, add_zero] at hg
  -- row terms
  have hrow : ∀ i : Fin m, HasDerivAt (fun t : ℝ => s i ((J *ᵥ (a + t • v) - aref) i))
      (-(frc i ((J *ᵥ a - aref) i)) * (J *ᵥ v) i) 0 := by
    intro i
    have hin : HasDerivAt (fun t : ℝ => (J *ᵥ a - aref) i + t * (J *ᵥ v) i) ((J *ᵥ v) i) 0 := by
      have := ((hasDerivAt_id' (0:ℝ)).mul_const ((J *ᵥ v) i)).const_add ((J *ᵥ a - aref) i)
      simpa using this
    have hout : HasDerivAt (s i) (-(frc i ((J *ᵥ a - aref) i))) ((J *ᵥ a - aref) i + 0 * (J *ᵥ v) i) := by
      simpa using hs i ((J *ᵥ a - aref) i)
    have hc := HasDerivAt.comp (0:ℝ) hout hin
    refine hasDerivAt_congr hc (fun t => ?_) rfl
    simp only [Function.comp, Matrix.mulVec_add, Matrix.mulVec_smul, Pi.sub_apply, Pi.add_apply, Pi.smul_apply,
      smul_eq_mul]
    congr 1; ring
  have hsum := HasDerivAt.fun_sum (u := Finset.univ) (fun i _ => hrow i)
  have htot := hg.add hsum
  refine hasDerivAt_congr htot (fun t => ?_) ?_
  · have e : a + t • v - a0 = a - a0 + t • v := by abel
    simp only [cost, Pi.add_apply, e]
  · have key : v ⬝ᵥ Jᵀ *ᵥ forceAt J aref frc a = (J *ᵥ v) ⬝ᵥ forceAt J aref frc a := by
      rw [Matrix.dotProduct_mulVec, Matrix.vecMul_transpose]
    simp only [grad, dotProduct_sub, key]
    rw [sub_eq_add_neg]
    congr 1
    simp only [dotProduct, forceAt]
    rw [← Finset.sum_neg_distrib]
    refine Finset.sum_congr rfl (fun i _ => ?_)
    ring

/-- with `a₀ = M⁻¹ qfrc_smooth` the gradient is the solver's `Ma − qfrc_smooth − qfrc_constraint`
    (`_update_gradient_grad`, see Props/C26.lean `update_gradient_grad_writes`) -/
theorem grad_eq_solver_grad (M : Matrix (Fin n) (Fin n) ℝ) (hM : IsUnit M.det) (J : Matrix (Fin m) (Fin n) ℝ)
    (smooth : Fin n → ℝ) (aref : Fin m → ℝ) (frc : Fin m → ℝ → ℝ) (a : Fin n → ℝ) :
    grad M J (M⁻¹ *ᵥ smooth) aref frc a = M *ᵥ a - smooth - Jᵀ *ᵥ forceAt J aref frc a := by
  simp only [grad, Matrix.mulVec_sub, Matrix.mulVec_mulVec, Matrix.mul_nonsing_inv _ hM, Matrix.one_mulVec]

/-! ## 4. zero gradient ⇒ global minimiser -/

/-- **first-order condition**: a convex function whose derivative along every line through `a*` vanishes
    at `a*` attains its global minimum there. -/
theorem grad_zero_is_min {E : Type} [AddCommGroup E] [Module ℝ E] (c : E → ℝ) (hc : ConvexOn ℝ Set.univ c)
    (astar : E) (hd : ∀ v : E, HasDerivAt (fun t : ℝ => c (astar + t • v)) 0 0) (b : E) :
    c astar ≤ c b := by
  have h := convex_line_min (fun t => c (astar + t • (b - astar))) (convexOn_line c hc astar (b - astar))
    (hd (b - astar))
  simpa using h

/-- convex + differentiable along lines with derivative `v·g`: the first-order lower bound
    `c(b) ≥ c(a) + (b − a)·g`  (so a non-zero residual gradient bounds the sub-optimality). -/
theorem convex_lower_bound (c : (Fin n → ℝ) → ℝ) (hc : ConvexOn ℝ Set.univ c) (a g : Fin n → ℝ)
    (hd : ∀ v : Fin n → ℝ, HasDerivAt (fun t : ℝ => c (a + t • v)) (v ⬝ᵥ g) 0) (b : Fin n → ℝ) :
    c a + (b - a) ⬝ᵥ g ≤ c b := by
  have hline := convexOn_line c hc a (b - a)
  have h := hline.le_slope_of_hasDerivAt (Set.mem_univ 0) (Set.mem_univ 1) one_pos (hd (b - a))
  rw [slope_def_field] at h
  rw [sub_dotProduct]
  simp at h
  linarith

/-- **qacc is the optimum** (partial: non-elliptic rows).  `rows i` describe the constraint rows with admissible
    parameters, `M` symmetric positive semidefinite.  If the gradient
    `M (a* − a₀) − Jᵀ f`,  `f_i = Row.force (rows i) ((J a* − aref)_i)`  (the generated force law evaluated at a*),
    is zero, then `a*` is a global minimiser of the cost built from the generated row costs. -/
theorem qacc_is_minimiser_partial (M : Matrix (Fin n) (Fin n) ℝ) (hsym : Mᵀ = M)
    (hpsd : ∀ x : Fin n → ℝ, 0 ≤ x ⬝ᵥ M *ᵥ x) (J : Matrix (Fin m) (Fin n) ℝ) (a0 : Fin n → ℝ)
    (aref : Fin m → ℝ) (rows : Fin m → Row) (hok : ∀ i, (rows i).ok) (astar : Fin n → ℝ)
    (hgrad : grad M J a0 aref (fun i => (rows i).force) astar = 0) (b : Fin n → ℝ) :
    cost M J a0 aref (fun i => (rows i).cost) astar ≤ cost M J a0 aref (fun i => (rows i).cost) b := by
  refine grad_zero_is_min _ (cost_convex_partial M J a0 aref _ hpsd (fun i => (rows i).cost_convex (hok i)))
    astar (fun v => ?_) b
  have h := grad_formula M hsym J a0 aref (fun i => (rows i).cost) (fun i => (rows i).force)
    (fun i x => (rows i).cost_hasDerivAt (hok i) x) astar v
  rwa [hgrad, dotProduct_zero] at h

/-- quantitative version: with a residual gradient `g` at `a`, every `b` satisfies `c(b) ≥ c(a) + (b − a)·g`. -/
theorem near_minimiser_of_small_grad_partial (M : Matrix (Fin n) (Fin n) ℝ) (hsym : Mᵀ = M)
    (hpsd : ∀ x : Fin n → ℝ, 0 ≤ x ⬝ᵥ M *ᵥ x) (J : Matrix (Fin m) (Fin n) ℝ) (a0 : Fin n → ℝ)
    (aref : Fin m → ℝ) (rows : Fin m → Row) (hok : ∀ i, (rows i).ok) (a b : Fin n → ℝ) :
    cost M J a0 aref (fun i => (rows i).cost) a
        + (b - a) ⬝ᵥ grad M J a0 aref (fun i => (rows i).force) a
      ≤ cost M J a0 aref (fun i => (rows i).cost) b :=
  convex_lower_bound _ (cost_convex_partial M J a0 aref _ hpsd (fun i => (rows i).cost_convex (hok i))) a _
    (fun v => grad_formula M hsym J a0 aref (fun i => (rows i).cost) (fun i => (rows i).force)
      (fun i x => (rows i).cost_hasDerivAt (hok i) x) a v) b

end cost

/-! ## 5. the line-search quadratic -/

/-- `_eval_cost quad α = α²·q₂ + α·q₁ + q₀` -/
theorem eval_cost_eq (quad : V3 ℝ) (α : ℝ) :
    _eval_cost quad α = α * α * quad.c2 + α * quad.c1 + quad.c0 := by
  simp only [_eval_cost, hadd, hmul]

/-- `_eval_pt quad α = (value, 2·α·q₂ + q₁, 2·q₂)`, and the value is `_eval_cost quad α` -/
theorem eval_pt_eq (quad : V3 ℝ) (α : ℝ) :
    _eval_pt quad α = ⟨_eval_cost quad α, 2 * α * quad.c2 + quad.c1, 2 * quad.c2⟩ := by
  simp only [_eval_pt, _eval_cost, hadd, hmul, lit2]
  congr 1 <;> ring

/-- the second component of `_eval_pt` is the derivative of `_eval_cost` in α … -/
theorem eval_cost_hasDerivAt (quad : V3 ℝ) (α : ℝ) :
    HasDerivAt (fun x => _eval_cost quad x) (_eval_pt quad α).c1 α := by
  rw [eval_pt_eq]
  simp only [eval_cost_eq]
  have h := ((hasDerivAt_quad quad.c2 α).add (hasDerivAt_lin quad.c1 0 1 α)).add_const quad.c0
  refine hasDerivAt_congr h (fun x => ?_) ?_
  · simp only [Pi.add_apply]; ring
  · ring

/-- … and the third component is the derivative of the second (the second derivative of the cost). -/
theorem eval_pt_grad_hasDerivAt (quad : V3 ℝ) (α : ℝ) :
    HasDerivAt (fun x => (_eval_pt quad x).c1) (_eval_pt quad α).c2 α := by
  simp only [eval_pt_eq]
  have h := (hasDerivAt_lin (2 * quad.c2) 0 1 α).add_const quad.c1
  refine hasDerivAt_congr h (fun x => ?_) ?_
  · ring
  · ring

/-- a 1-D Newton step on the quadratic lands on its stationary point: with q₂ ≠ 0 and
    α' = α − gradient/hessian the gradient at α' is 0. -/
theorem eval_pt_newton_step (quad : V3 ℝ) (α : ℝ) (h2 : quad.c2 ≠ 0) :
    (_eval_pt quad (α - (_eval_pt quad α).c1 / (_eval_pt quad α).c2)).c1 = 0 := by
  simp only [eval_pt_eq]
  field_simp
  ring

/-- the quadratic IS the Gauss term of the cost on the search line a + α·p:  with
    q₀ = ½ dᵀMd, q₁ = pᵀMd, q₂ = ½ pᵀMp (d = a − a₀, M symmetric),
    `_eval_cost ⟨q₀,q₁,q₂⟩ α = ½ (d + α p)ᵀ M (d + α p)`. -/
theorem eval_cost_is_gauss_line {n : ℕ} (M : Matrix (Fin n) (Fin n) ℝ) (hsym : Mᵀ = M) (d p : Fin n → ℝ) (α : ℝ) :
    _eval_cost ⟨1 / 2 * (d ⬝ᵥ M *ᵥ d), p ⬝ᵥ M *ᵥ d, 1 / 2 * (p ⬝ᵥ M *ᵥ p)⟩ α
      = 1 / 2 * ((d + α • p) ⬝ᵥ M *ᵥ (d + α • p)) := by
  rw [eval_cost_eq]
  change _ = 1 / 2 * bf M (d + α • p) (d + α • p)
  simp only [bf_add_left, bf_add_right, bf_smul_left, bf_smul_right]
  rw [bf_symm M hsym d p]
  simp only [bf]
  ring

/-! ## 6. non-vacuity -/

section examples

/-- admissible rows of each kind -/
example : (⟨true, false, 2, 0⟩ : Row).ok := ⟨by norm_num, fun h => by simp at h⟩
example : (⟨false, true, 2, 4⟩ : Row).ok := ⟨by norm_num, fun _ _ => ⟨by norm_num, by norm_num⟩⟩
example : (⟨false, false, 2, 0⟩ : Row).ok := ⟨by norm_num, fun _ h => by simp at h⟩

/-- the row functions are the generated ones: friction row D = 2, frictionloss = 4 at jaref = 3 (LINEARPOS):
    force −4, cost 8; limit row D = 2 at jaref = −1: force 2, cost 1. -/
example : (⟨false, true, 2, 4⟩ : Row).force 3 = -4 ∧ (⟨false, true, 2, 4⟩ : Row).cost 3 = 8 := by
  simp only [Row.force, Row.cost]
  rw [eval_friction, safe_div_ne _ _ (by norm_num)]
  norm_num
example : (⟨false, false, 2, 0⟩ : Row).force (-1) = 2 ∧ (⟨false, false, 2, 0⟩ : Row).cost (-1) = 1 := by
  simp only [Row.force, Row.cost]
  rw [eval_limit]
  norm_num

/-- one dof, unit mass, unconstrained acceleration a₀ = −2, one limit/contact row with J = 1, aref = 0, D = 1:
    cost ½(a + 2)² + ½·min(a, 0)²; a* = −1 with force 1 has zero gradient (−1 + 2) − 1·1 … -/
theorem example_grad_zero :
    grad (!![1] : Matrix (Fin 1) (Fin 1) ℝ) (!![1] : Matrix (Fin 1) (Fin 1) ℝ) (fun _ => -2) (fun _ => 0)
      (fun _ => (⟨false, false, 1, 0⟩ : Row).force) (fun _ => -1) = 0 := by
  funext i
  simp only [grad, forceAt, Row.force, eval_limit, Matrix.mulVec, Matrix.transpose, dotProduct,
    Finset.univ_unique, Finset.sum_singleton, Pi.sub_apply, Matrix.of_apply, Matrix.cons_val', Matrix.cons_val_fin_one,
    Pi.zero_apply]
  norm_num

/-- … hence (by `qacc_is_minimiser_partial`, all of whose hypotheses are met) it is the global minimiser. -/
example (b : Fin 1 → ℝ) :
    cost (!![1] : Matrix (Fin 1) (Fin 1) ℝ) (!![1] : Matrix (Fin 1) (Fin 1) ℝ) (fun _ => -2) (fun _ => 0)
        (fun _ => (⟨false, false, 1, 0⟩ : Row).cost) (fun _ => -1)
      ≤ cost (!![1] : Matrix (Fin 1) (Fin 1) ℝ) (!![1] : Matrix (Fin 1) (Fin 1) ℝ) (fun _ => -2) (fun _ => 0)
        (fun _ => (⟨false, false, 1, 0⟩ : Row).cost) b := by
  refine qacc_is_minimiser_partial _ ?_ ?_ _ _ _ (fun _ => ⟨false, false, 1, 0⟩)
    (fun _ => ⟨by norm_num, fun _ h => by simp at h⟩) _ example_grad_zero b
  · ext i j; fin_cases i; fin_cases j; rfl
  · intro x
    simp only [Matrix.mulVec, dotProduct, Finset.univ_unique, Finset.sum_singleton, Matrix.of_apply,
      Matrix.cons_val', Matrix.cons_val_fin_one]
    nlinarith [mul_self_nonneg (x default)]

/-- line-search quadratic q₀ = 1, q₁ = −4, q₂ = 2 at α = 3: value 18 − 12 + 1 = 7, gradient 8, hessian 4 -/
example : _eval_pt (⟨1, -4, 2⟩ : V3 ℝ) 3 = ⟨7, 8, 4⟩ := by
  rw [eval_pt_eq, eval_cost_eq]; norm_num

end examples

end Mjw.Props.C06
