/-
  C27 witnesses.

  (1) `poly_force_deriv_literal_witness` — the literal reading "`_poly_force_deriv` is the derivative of
      `_poly_force`" is FALSE: `_poly_force` is the coefficient k(x), `_poly_force_deriv` is d/dx [x·k(x)]
      (see the header of Props/C27.lean; the correct statement is `poly_force_deriv_is_derivative`).
      Not a defect of the code: every caller multiplies by −x.

  (2) `clamped_ctrl_derivative_witness` — GENUINE DEFECT.  `_qderiv_actuator_passive_vel` multiplies the
      velocity gain by the RAW `ctrl_in`, while `_actuator_force` first clamps ctrl to `ctrlrange`
      (`ctrllimited`, clamping not disabled).  For a stateless affine actuator with gainprm = (0,0,1),
      ctrlrange = [−1,1], ctrl = 3, the force the generated `_actuator_force` stores is  v ↦ 1·v  (derivative 1),
      the generated derivative kernel stores 3.  Reproduced on the real code (CPU probe,
      `<general joint="j" gainprm="0 0 1" gaintype="affine" biastype="affine" ctrllimited="true"
      ctrlrange="-1 1"/>`, qvel 1, ctrl 3, implicitfast): finite-difference d(qfrc_actuator)/d(qvel) = 1.00005,
      `deriv_smooth_vel` gives qDeriv = (M − out)/h = 3.0000; MuJoCo C 3.13 `d.qDeriv` = 1.
      (With ctrl = 0.5 all three agree on 0.5.)

  (3) `poly_potential_not_exact_witness` — artefact of the ℝ model only: the decimal literal
      0.3333333333333333 for Python's 1.0/3.0 makes d/dx poly_potential = 0.9999999999999999·x² ≠ x·k(x) = x²
      for poly = (1, 0).  In binary32/64 the literal is the nearest float to 1/3 either way.
-/
import MjwVerif.Props.C27

set_option linter.unusedVariables false
set_option linter.unusedSimpArgs false

namespace Mjw.Props.C27
open Mjw Mjw.Gen.Util_misc Mjw.Gen.Derivative Mjw.Gen.Forward Mjw.Lemmas.C24 Mjw.Lemmas.C27

/-- (1) linear = 1, poly = 0: `_poly_force` ≡ 1 has derivative 0, `_poly_force_deriv` = 1. -/
theorem poly_force_deriv_literal_witness :
    ¬ HasDerivAt (fun x => _poly_force (1:ℝ) ⟨0, 0⟩ x 1) (_poly_force_deriv (1:ℝ) ⟨0, 0⟩ 0 1) 0 := by
  intro h
  have hf : (fun x => _poly_force (1:ℝ) ⟨0, 0⟩ x 1) = fun _ => (1:ℝ) :=
    funext fun x => (poly_force_linear 1 x 1).1
  rw [hf, (poly_force_linear 1 0 1).2] at h
  have := h.unique (hasDerivAt_const (0:ℝ) (1:ℝ))
  norm_num at this

/-- the force `_actuator_force` stores for a stateless affine actuator with gainprm = (0,0,1), biasprm = 0,
    ctrl = 3, ctrl-limited with ctrlrange [−1,1], as a function of the actuator velocity v -/
noncomputable def clampedForce (v : ℝ) : ℝ :=
  Write.lookupF
    (_actuator_force (K := ℝ) 0 (fun _ => 0.01) (fun _ => 0) (fun _ => 1) (fun _ => 1) (fun _ => 0) (fun _ => 0)
      (fun _ _ => V10.zero) (fun _ _ => ⟨0, 0, 1, 0, 0, 0, 0, 0, 0, 0⟩) (fun _ _ => V10.zero)
      (fun _ => false) (fun _ _ => ⟨0, 0⟩) (fun _ => false) (fun _ => false) (fun _ _ => ⟨0, 0⟩)
      (fun _ => true) (fun _ _ => ⟨-1, 1⟩) (fun _ _ => 0) (fun _ _ => ⟨0, 0⟩)
      (fun _ _ => 0) (fun _ _ => 3) (fun _ _ => 0) (fun _ _ => v) 0 (fun _ _ => 0) (fun _ _ => 0)
      1 1 1 1 1 1 1 1 1 0 0) "actuator_force_out" [0, 0] 0

/-- what `_qderiv_actuator_passive_vel` stores for the same actuator, same ctrl -/
noncomputable def clampedVelDeriv : ℝ :=
  Write.lookupF
    (_qderiv_actuator_passive_vel (fun _ => (0.01:ℝ)) (fun _ => 0) (fun _ => 1) (fun _ => 1) (fun _ => 0)
      (fun _ => 0) (fun _ _ => V10.zero) (fun _ _ => ⟨0, 0, 1, 0, 0, 0, 0, 0, 0, 0⟩)
      (fun _ _ => V10.zero) (fun _ => false) (fun _ _ => ⟨0, 0⟩) (fun _ => false)
      (fun _ => false) (fun _ _ => ⟨0, 0⟩) (fun _ _ => 0) (fun _ _ => 3) (fun _ _ => 0) (fun _ _ => 0)
      (fun _ _ => 0) 1 1 1 1 1 1 0 0) "vel_out" [0, 0] 0

theorem clampedForce_eq (v : ℝ) : clampedForce v = v := by
  unfold clampedForce _actuator_force
  simp [Write.lookupF, Scalar.clamp, V10.zero, V10.fill]

theorem clampedVelDeriv_eq : clampedVelDeriv = 3 := by
  unfold clampedVelDeriv
  rw [qderiv_actuator_vel_affine _ _ _ _ _ _ _ _ _ _ _ _ _ _ _ _ _ _ _ _ _ _ _ _ _ _ _ rfl rfl (by simp)]
  simp [Write.lookupF, velInput, V10.zero, V10.fill]

/-- (2) the stored velocity derivative (3) is not the derivative of the stored force (which is 1) -/
theorem clamped_ctrl_derivative_witness (v : ℝ) :
    HasDerivAt clampedForce 1 v ∧ clampedVelDeriv = 3 ∧ ¬ HasDerivAt clampedForce clampedVelDeriv v := by
  have hf : clampedForce = fun v => v := funext clampedForce_eq
  have h1 : HasDerivAt clampedForce 1 v := by rw [hf]; exact hasDerivAt_id' v
  refine ⟨h1, clampedVelDeriv_eq, fun h => ?_⟩
  have := h.unique h1
  rw [clampedVelDeriv_eq] at this
  norm_num at this

/-- (3) ℝ-model artefact: poly = (1, 0), x = 1 -/
theorem poly_potential_not_exact_witness :
    ¬ HasDerivAt (fun y => poly_potential (0:ℝ) ⟨1, 0⟩ y 0) (1 * _poly_force (0:ℝ) ⟨1, 0⟩ 1 0) 1 := by
  intro h
  have h' := poly_potential_hasDerivAt 0 ⟨1, 0⟩ 1 0
  have := h.unique h'
  simp only [poly_force_closed, xval] at this
  norm_num at this

end Mjw.Props.C27
