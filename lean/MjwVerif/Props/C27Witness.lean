/-
  C27 witnesses.

  (1) `poly_force_deriv_literal_witness` — the literal reading "`_poly_force_deriv` is the derivative of
      `_poly_force`" is FALSE: `_poly_force` is the coefficient k(x), `_poly_force_deriv` is d/dx [x·k(x)]
      (see the header of Props/C27.lean; the correct statement is `poly_force_deriv_is_derivative`).
      Not a defect of the code: every caller multiplies by −x.

  (2) (removed) `clamped_ctrl_derivative_witness` — the velocity derivative of affine actuators used the RAW
      control while `_actuator_force` clamps it to `ctrlrange` (ctrl = 3, ctrlrange [−1,1], velocity gain 1:
      force derivative 1, stored derivative 3; MuJoCo C 3.13 `d.qDeriv` = 1).  REPAIRED in /repo commit
      "fix: velocity derivative of affine actuators used the raw control…".  The same scenario is now the positive
      theorem `clamped_ctrl_derivative_repaired` in Props/C27.lean, and `qderiv_uses_same_ctrl_as_force` states
      the repaired property for all actuator types.

  (3) `poly_potential_not_exact_witness` — artefact of the ℝ model only: the decimal literal
      0.3333333333333333 for Python's 1.0/3.0 makes d/dx poly_potential = 0.9999999999999999·x² ≠ x·k(x) = x²
      for poly = (1, 0).  In binary32/64 the literal is the nearest float to 1/3 either way.
-/
import MjwVerif.Props.C27

set_option linter.unusedVariables false
set_option linter.unusedSimpArgs false

namespace Mjw.Props.C27
open Mjw Mjw.Gen.Util_misc Mjw.Gen.Derivative Mjw.Gen.Forward Mjw.Lemmas.C24 Mjw.Lemmas.C27

/-- (1) linear = 1, poly = 0: `_poly_force` ≡ 1 has derivative 0, `_poly_force_deriv` = 1. -/
theorem poly_force_deriv_literal_witness :
    ¬ HasDerivAt (fun x => _poly_force (1:ℝ) ⟨0, 0⟩ x 1) (_poly_force_deriv (1:ℝ) ⟨0, 0⟩ 0 1) 0 := by
  intro h
  have hf : (fun x => _poly_force (1:ℝ) ⟨0, 0⟩ x 1) = fun _ => (1:ℝ) :=
    funext fun x => (poly_force_linear 1 x 1).1
  rw [hf, (poly_force_linear 1 0 1).2] at h
  have := h.unique (hasDerivAt_const (0:ℝ) (1:ℝ))
  norm_num at this

/-- (3) ℝ-model artefact: poly = (1, 0), x = 1 -/
theorem poly_potential_not_exact_witness :
    ¬ HasDerivAt (fun y => poly_potential (0:ℝ) ⟨1, 0⟩ y 0) (1 * _poly_force (0:ℝ) ⟨1, 0⟩ 1 0) 1 := by
  intro h
  have h' := poly_potential_hasDerivAt 0 ⟨1, 0⟩ 1 0
  have := h.unique h'
  simp only [poly_force_closed, xval] at this
  norm_num at this

end Mjw.Props.C27
