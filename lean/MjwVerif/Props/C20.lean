/-
  C20  Contacts are geometrically valid.
  Every reported contact has an orthonormal frame whose first axis is a unit normal pointing from the
  first geom to the second; its distance is the signed separation of the two geoms along that normal
  (exactly, for primitive pairs with closed-form distance); its position lies midway between the surfaces.

  Theorems are about `Mjw.Gen.Math.{make_frame, orthogonals, closest_segment_point, …}` and
  `Mjw.Gen.Collision_primitive_core.{plane_sphere, sphere_sphere, sphere_capsule, plane_ellipsoid,
  sphere_cylinder, sphere_box}` (regenerated from /repo/mujoco_warp/_src/{math,collision_primitive_core}.py
  on every run), instantiated at K = ℝ, for ALL arguments meeting the stated hypotheses.

  Named quantities used in statements (Lemmas/C20Defs.lean): `segParam/segParamIdeal/segEps` (segment
  parameter with / without the 1e-6 regulariser), `cylX/cylP` (axial coordinate / radial offset in the
  cylinder frame), `capResult`, `rimPoint`, `ellW` (S·Rᵀ·n), `ellPoint`, `boxCenter/boxClamped`,
  `minval` (1e-15), `faceAxis/faceDist/boxStep/boxScan` (nearest-face scan of sphere_box).

  What is NOT true of the code is in Props/C20Witness.lean:
    * sphere_capsule's distance is not exact (regulariser)            — quantified here in (4);
    * sphere_cylinder with the sphere centre on the cylinder axis returns the fixed normal (1,0,0), which
      is parallel to the axis when the axis is the x-axis (not a valid lateral normal).
-/
import MjwVerif.Lemmas.C20Defs

namespace Mjw.Props.C20
open Mjw Mjw.Gen.Math Mjw.Gen.Collision_primitive_core Mjw.C20L

/-! ## (0) small Math helpers used by the contact functions -/

/-- `orthogonals u` for a unit vector u (both branches of its `wp.where`): (b, c) are unit, orthogonal to
    u and to each other, and c = u × b. -/
theorem orthogonals_valid (u : V3 ℝ) (hu : V3.dot u u = 1) :
    let b := (orthogonals u).1
    let c := (orthogonals u).2
    V3.dot b b = 1 ∧ V3.dot c c = 1 ∧ V3.dot u b = 0 ∧ V3.dot u c = 0 ∧ V3.dot b c = 0 ∧
    c = V3.cross u b :=
  orthogonals_unit u hu

/-- `normalize_with_norm`: for x ≠ 0 returns (x/|x|, |x|) and x/|x| is a unit vector; for x = 0 returns (0, 0). -/
theorem normalize_with_norm_valid (x : V3 ℝ) :
    (x ≠ ⟨0, 0, 0⟩ →
      normalize_with_norm_V3 x = (V3.divs x (V3.length x), V3.length x) ∧ 0 < V3.length x ∧
      V3.dot (normalize_with_norm_V3 x).1 (normalize_with_norm_V3 x).1 = 1) ∧
    (x = ⟨0, 0, 0⟩ → normalize_with_norm_V3 x = (⟨0, 0, 0⟩, 0)) := by
  constructor
  · intro hx
    have hl : V3.length x ≠ 0 := fun h0 => hx ((length_eq_zero_iff x).mp h0)
    have hpos : 0 < V3.length x := lt_of_le_of_ne (length_nonneg x) (Ne.symm hl)
    have e : Scalar.beq (V3.length x) (Scalar.lit 0 0) = false :=
      Bool.eq_false_iff.mpr (fun hc => absurd ((sbeq _ _).mp hc) (by simpa using hl))
    have heq : normalize_with_norm_V3 x = (V3.divs x (V3.length x), V3.length x) := by
      unfold normalize_with_norm_V3
      simp only [e, Bool.false_eq_true, if_false]
    refine ⟨heq, hpos, ?_⟩
    rw [heq]; exact divs_length_unit hl
  · intro hx
    subst hx
    have hl : V3.length (⟨0, 0, 0⟩ : V3 ℝ) = 0 := (length_eq_zero_iff _).mpr rfl
    have e : Scalar.beq (V3.length (⟨0, 0, 0⟩ : V3 ℝ)) (Scalar.lit 0 0) = true :=
      (sbeq _ _).mpr (by simpa using hl)
    unfold normalize_with_norm_V3
    simp only [e, if_true]
    simp only [slit]; norm_num

/-- `safe_div x y` is x / y for y ≠ 0 and x / 1e-15 for y = 0. -/
theorem safe_div_valid (x y : ℝ) :
    (y ≠ 0 → safe_div_F_F x y = x / y) ∧ (y = 0 → safe_div_F_F x y = x / minval) := by
  constructor
  · intro hy
    unfold safe_div_F_F
    have e : Scalar.bne y (Scalar.lit 0 0) = true := (sbne _ _).mpr (by simpa using hy)
    simp only [e, if_true, hdiv]
  · intro hy
    unfold safe_div_F_F minval
    have e : Scalar.bne y (Scalar.lit 0 0) = false :=
      Bool.eq_false_iff.mpr (fun hc => absurd ((sbne _ _).mp hc) (by simpa using hy))
    simp only [e, Bool.false_eq_true, if_false]
    simp only [hdiv, slit]; norm_num

/-! ## (1) make_frame -/

/-- (1) `make_frame a` for a ≠ 0 is a right-handed orthonormal frame whose first row is a/|a|. -/
theorem make_frame_orthonormal (a : V3 ℝ) (ha : a ≠ ⟨0, 0, 0⟩) :
    let F := make_frame a
    let r0 := M33.row F 0
    let r1 := M33.row F 1
    let r2 := M33.row F 2
    r0 = V3.divs a (V3.length a) ∧
    V3.dot r0 r0 = 1 ∧ V3.dot r1 r1 = 1 ∧ V3.dot r2 r2 = 1 ∧
    V3.dot r0 r1 = 0 ∧ V3.dot r0 r2 = 0 ∧ V3.dot r1 r2 = 0 ∧
    r2 = V3.cross r0 r1 ∧ M33.det F = 1 := by
  have hpos : 0 < V3.length a := by
    rcases (length_nonneg a).lt_or_eq with h | h
    · exact h
    · exact absurd ((length_eq_zero_iff a).mp h.symm) ha
  have hu : V3.dot (V3.normalize a) (V3.normalize a) = 1 := normalize_unit hpos
  obtain ⟨a1, a2, a3, a4, a5, a6⟩ := orthogonals_unit _ hu
  intro F r0 r1 r2
  have e0 : r0 = V3.normalize a := rfl
  have e1 : r1 = (orthogonals (V3.normalize a)).1 := rfl
  have e2 : r2 = (orthogonals (V3.normalize a)).2 := rfl
  have eF : F = M33.fromRows r0 r1 r2 := rfl
  rw [e0, e1, e2] at *
  refine ⟨normalize_of_pos hpos, hu, a1, a2, a3, a4, a5, a6, ?_⟩
  rw [eF, a6, det_rows_cross, ← a6, a2]

/-- (1') same fact in matrix form: F·Fᵀ = I and det F = 1. -/
theorem make_frame_rotation (a : V3 ℝ) (ha : a ≠ ⟨0, 0, 0⟩) :
    M33.mul (make_frame a) (M33.transpose (make_frame a)) = M33.identity ∧ M33.det (make_frame a) = 1 := by
  obtain ⟨-, h00, h11, h22, h01, h02, h12, -, hdet⟩ := make_frame_orthonormal a ha
  refine ⟨?_, hdet⟩
  simp only [dot_def, M33.row] at h00 h11 h22 h01 h02 h12
  norm_num at h00 h11 h22 h01 h02 h12
  apply M33.ext' <;> simp only [M33.mul, M33.transpose, M33.identity, hadd, hmul, slit] <;> norm_num <;>
    linarith

/-- (1'') degenerate input: all rows of `make_frame 0` are zero (NOT a frame). -/
theorem make_frame_zero : make_frame (⟨0, 0, 0⟩ : V3 ℝ) = ⟨0, 0, 0, 0, 0, 0, 0, 0, 0⟩ := by
  have hn : V3.normalize (⟨0, 0, 0⟩ : V3 ℝ) = ⟨0, 0, 0⟩ :=
    normalize_of_zero ((length_eq_zero_iff _).mpr rfl)
  have hl : V3.length (⟨0, 0, 0⟩ : V3 ℝ) = 0 := (length_eq_zero_iff _).mpr rfl
  rw [make_frame_eq, hn]
  unfold orthogonals
  simp only [hl, sbeq, slit]
  norm_num [M33.fromRows, V3.cross]

example : (⟨3, 0, 4⟩ : V3 ℝ) ≠ ⟨0, 0, 0⟩ := by
  intro h; have := congrArg V3.c0 h; norm_num at this

/-! ## (2) sphere_sphere -/

/-- non-degenerate branch, closed form of all three outputs. -/
theorem sphere_sphere_eq (p1 p2 : V3 ℝ) (r1 r2 : ℝ) (h : p1 ≠ p2) :
    let d := V3.length (V3.sub p2 p1)
    let n := V3.divs (V3.sub p2 p1) d
    sphere_sphere p1 r1 p2 r2 = (d - r1 - r2, V3.add p1 (V3.muls n (r1 + (d - r1 - r2) / 2)), n) := by
  intro d n
  have hd : 0 < d := length_sub_pos h
  have hd0 : ¬ (d = 0) := ne_of_gt hd
  have hc : ¬ (V3.length (V3.sub p2 p1) = ((0:ℤ):ℝ) * 10 ^ (0:ℤ)) := by simpa using hd0
  unfold sphere_sphere
  simp only [sbeq, slit, hadd, hsub, hmul, hc, if_false]
  refine Prod.ext ?_ (Prod.ext ?_ rfl)
  · show d - (r1 + r2) = d - r1 - r2
    ring
  · show V3.add p1 (V3.muls n _) = V3.add p1 (V3.muls n _)
    congr 2; norm_num; ring

theorem sphere_sphere_valid (p1 p2 : V3 ℝ) (r1 r2 : ℝ) (h : p1 ≠ p2) :
    let dist := (sphere_sphere p1 r1 p2 r2).1
    let pos := (sphere_sphere p1 r1 p2 r2).2.1
    let n := (sphere_sphere p1 r1 p2 r2).2.2
    -- unit normal from centre 1 to centre 2
    V3.dot n n = 1 ∧ n = V3.divs (V3.sub p2 p1) (V3.length (V3.sub p2 p1)) ∧
    V3.sub p2 p1 = V3.muls n (V3.length (V3.sub p2 p1)) ∧
    -- exact signed separation
    dist = V3.length (V3.sub p2 p1) - r1 - r2 ∧
    -- dist is the separation of the two surface points along n
    dist = V3.dot n (V3.sub (V3.sub p2 (V3.muls n r2)) (V3.add p1 (V3.muls n r1))) ∧
    -- position: midpoint of the surface points  p1 + r1 n  and  p2 - r2 n
    pos = V3.smul (1/2) (V3.add (V3.add p1 (V3.muls n r1)) (V3.sub p2 (V3.muls n r2))) ∧
    pos = V3.add p1 (V3.muls n (r1 + dist / 2)) := by
  have hd : 0 < V3.length (V3.sub p2 p1) := length_sub_pos h
  have hd0 := ne_of_gt hd
  have hn := divs_length_unit hd0
  have hm := muls_divs_length hd0
  rw [sphere_sphere_eq p1 p2 r1 r2 h]
  set d := V3.length (V3.sub p2 p1) with hdd
  set n := V3.divs (V3.sub p2 p1) d with hnn
  intro dist pos n'
  have e1 : dist = d - r1 - r2 := rfl
  have e2 : pos = V3.add p1 (V3.muls n (r1 + (d - r1 - r2) / 2)) := rfl
  have e3 : n' = n := rfl
  rw [e1, e2, e3]
  have hm0 := congrArg V3.c0 hm
  have hm1 := congrArg V3.c1 hm
  have hm2 := congrArg V3.c2 hm
  simp only [V3.muls, V3.sub, hmul, hsub] at hm0 hm1 hm2
  rw [dot_def] at hn
  refine ⟨by rw [dot_def]; exact hn, rfl, hm.symm, rfl, ?_, ?_, rfl⟩
  · simp only [dot_def, V3.sub, V3.add, V3.muls, hadd, hsub, hmul]
    linear_combination n.c0 * hm0 + n.c1 * hm1 + n.c2 * hm2 + (r1 + r2 - d) * hn
  · apply V3.ext' <;> simp only [V3.smul, V3.sub, V3.add, V3.muls, hadd, hsub, hmul]
    · linear_combination (1/2:ℝ) * hm0
    · linear_combination (1/2:ℝ) * hm1
    · linear_combination (1/2:ℝ) * hm2

/-- (2') degenerate branch (coincident centres): the code returns the fixed normal (1,0,0). -/
theorem sphere_sphere_coincident (p : V3 ℝ) (r1 r2 : ℝ) :
    sphere_sphere p r1 p r2 =
      (-(r1 + r2), V3.add p (V3.muls ⟨1, 0, 0⟩ (r1 + (-(r1 + r2)) / 2)), ⟨1, 0, 0⟩) := by
  have hl : V3.length (V3.sub p p) = 0 := by
    rw [length_eq_zero_iff]; simp [V3.sub]
  unfold sphere_sphere
  simp only [hl, sbeq, slit, hadd, hsub, hmul]
  norm_num
  congr 2; ring

/-- the normal returned by `sphere_sphere` is a unit vector for ALL inputs. -/
theorem sphere_sphere_normal_unit (p1 p2 : V3 ℝ) (r1 r2 : ℝ) :
    V3.dot (sphere_sphere p1 r1 p2 r2).2.2 (sphere_sphere p1 r1 p2 r2).2.2 = 1 := by
  by_cases h : p1 = p2
  · subst h; rw [sphere_sphere_coincident]; simp [dot_def]
  · exact (sphere_sphere_valid p1 p2 r1 r2 h).1

/-- for ALL inputs: dist = |p2 - p1| - r1 - r2 and pos = p1 + n (r1 + dist/2). -/
theorem sphere_sphere_dist_pos (p1 p2 : V3 ℝ) (r1 r2 : ℝ) :
    (sphere_sphere p1 r1 p2 r2).1 = V3.length (V3.sub p2 p1) - r1 - r2 ∧
    (sphere_sphere p1 r1 p2 r2).2.1 =
      V3.add p1 (V3.muls (sphere_sphere p1 r1 p2 r2).2.2 (r1 + (sphere_sphere p1 r1 p2 r2).1 / 2)) := by
  by_cases h : p1 = p2
  · subst h
    have hl : V3.length (V3.sub p1 p1) = 0 := by rw [length_eq_zero_iff]; simp [V3.sub]
    rw [sphere_sphere_coincident, hl]
    exact ⟨by ring, rfl⟩
  · obtain ⟨-, -, -, h4, -, -, h7⟩ := sphere_sphere_valid p1 p2 r1 r2 h
    exact ⟨h4, h7⟩

example : (⟨0, 0, 0⟩ : V3 ℝ) ≠ ⟨1, 2, 2⟩ := by
  intro h; have := congrArg V3.c0 h; norm_num at this

/-! ## (3) plane_sphere -/

/-- what the function returns (no hypothesis): `(dist, pos)`; the contact normal is supplied by the
    caller (it is `plane_normal`). -/
theorem plane_sphere_eq (n p c : V3 ℝ) (r : ℝ) :
    plane_sphere n p c r =
      (V3.dot n (V3.sub c p) - r, V3.sub c (V3.muls n (r + (V3.dot n (V3.sub c p) - r) / 2))) := by
  unfold plane_sphere
  simp only [hadd, hsub, hmul, slit]
  rw [dot_comm (V3.sub c p) n]
  norm_num
  congr 2; ring

/-- geometric meaning for a unit plane normal: `q = c - r n` is the sphere's lowest point,
    `q' = q - dist·n` is its orthogonal projection on the plane; `dist = n·(q - p)` is the signed
    height of `q` over the plane and `pos` is the midpoint of `q` and `q'`. -/
theorem plane_sphere_valid (n p c : V3 ℝ) (r : ℝ) (hn : V3.dot n n = 1) :
    let dist := (plane_sphere n p c r).1
    let pos := (plane_sphere n p c r).2
    let q := V3.sub c (V3.muls n r)
    let q' := V3.sub q (V3.muls n dist)
    dist = V3.dot n (V3.sub c p) - r ∧
    dist = V3.dot n (V3.sub q p) ∧ V3.dot n (V3.sub q' p) = 0 ∧
    dist = V3.dot n (V3.sub q q') ∧
    pos = V3.smul (1/2) (V3.add q q') ∧
    pos = V3.sub c (V3.muls n (r + dist / 2)) := by
  rw [plane_sphere_eq]
  intro dist pos q q'
  have e1 : dist = V3.dot n (V3.sub c p) - r := rfl
  have e2 : pos = V3.sub c (V3.muls n (r + dist / 2)) := rfl
  rw [dot_def] at hn
  refine ⟨e1, ?_, ?_, ?_, ?_, e2⟩
  · rw [e1]; simp only [q, dot_def, V3.sub, V3.muls, hsub, hmul]
    linear_combination (r) * hn
  · simp only [q', q, e1, dot_def, V3.sub, V3.muls, hsub, hmul]
    linear_combination (-(n.c0 * (c.c0 - p.c0) + n.c1 * (c.c1 - p.c1) + n.c2 * (c.c2 - p.c2))) * hn
  · simp only [q', q, dot_def, V3.sub, V3.muls, hsub, hmul]
    linear_combination (-dist) * hn
  · rw [e2]
    apply V3.ext' <;> simp only [q', q, V3.smul, V3.sub, V3.add, V3.muls, hadd, hsub, hmul] <;> ring

example : V3.dot (⟨0, 0, 1⟩ : V3 ℝ) ⟨0, 0, 1⟩ = 1 := by norm_num [dot_def]

/-! ## (4) closest_segment_point / sphere_capsule -/

theorem closest_segment_point_eq (a b pt : V3 ℝ) :
    closest_segment_point a b pt = V3.add a (V3.smul (segParam a b pt) (V3.sub b a)) := by
  unfold closest_segment_point segParam segEps Scalar.clamp
  simp only [hadd, hdiv, slit, smin, smax]
  norm_num

/-- the returned point lies on the segment [a, b] (for ALL inputs, also a = b). -/
theorem closest_segment_point_on_segment (a b pt : V3 ℝ) :
    ∃ t : ℝ, 0 ≤ t ∧ t ≤ 1 ∧ closest_segment_point a b pt = V3.add a (V3.smul t (V3.sub b a)) :=
  ⟨segParam a b pt, le_min (le_max_left _ _) zero_le_one, min_le_right _ _, closest_segment_point_eq a b pt⟩

/-- `segParamIdeal` really is the closest-point parameter: it minimises the squared distance from `pt`
    over the whole segment. -/
theorem segParamIdeal_closest (a b pt : V3 ℝ) (hL : 0 < V3.dot (V3.sub b a) (V3.sub b a))
    (s : ℝ) (hs0 : 0 ≤ s) (hs1 : s ≤ 1) :
    let P := fun t : ℝ => V3.sub pt (V3.add a (V3.smul t (V3.sub b a)))
    V3.dot (P (segParamIdeal a b pt)) (P (segParamIdeal a b pt)) ≤ V3.dot (P s) (P s) := by
  intro P
  set L := V3.dot (V3.sub b a) (V3.sub b a) with hLd
  set N := V3.dot (V3.sub pt a) (V3.sub b a) with hNd
  have hq : ∀ t : ℝ, V3.dot (P t) (P t) = V3.dot (V3.sub pt a) (V3.sub pt a) - 2 * t * N + t * t * L := by
    intro t
    simp only [P, hLd, hNd, dot_def, V3.sub, V3.add, V3.smul, hadd, hsub, hmul]; ring
  rw [hq, hq]
  have hN : N / L * L = N := div_mul_cancel₀ N (ne_of_gt hL)
  unfold segParamIdeal
  rw [← hLd, ← hNd]
  set u := N / L with hu
  -- f(s) - f(t) = (s - t) (L (s + t) - 2 N) = L (s - t) (s + t - 2u)
  rcases le_total u 0 with h0 | h0
  · rw [max_eq_left h0, min_eq_left zero_le_one]
    nlinarith [mul_nonneg hs0 hs0, mul_nonneg hs0 (neg_nonneg.mpr h0), hL]
  · rw [max_eq_right h0]
    rcases le_total u 1 with h1 | h1
    · rw [min_eq_left h1]
      nlinarith [mul_nonneg hL.le (mul_self_nonneg (s - u))]
    · rw [min_eq_right h1]
      nlinarith [mul_nonneg (mul_nonneg hL.le (sub_nonneg.mpr hs1)) (sub_nonneg.mpr h1),
        mul_nonneg hL.le (mul_self_nonneg (1 - s))]

/-- **Where "exactly" fails.**  With L = |b-a|² > 0 the code's parameter never exceeds the exact one and
    falls short of it by at most ε/(L+ε), ε = 1e-6. -/
theorem segParam_error (a b pt : V3 ℝ) (hL : 0 < V3.dot (V3.sub b a) (V3.sub b a)) :
    segParam a b pt ≤ segParamIdeal a b pt ∧
    segParamIdeal a b pt - segParam a b pt ≤ segEps / (V3.dot (V3.sub b a) (V3.sub b a) + segEps) := by
  unfold segParam segParamIdeal
  set L := V3.dot (V3.sub b a) (V3.sub b a) with hLd
  set N := V3.dot (V3.sub pt a) (V3.sub b a) with hNd
  have he : 0 < segEps := by unfold segEps; norm_num
  have hLe : 0 < L + segEps := by linarith
  have hu : N / (L + segEps) * (L + segEps) = N := div_mul_cancel₀ N (ne_of_gt hLe)
  have hv : N / L * L = N := div_mul_cancel₀ N (ne_of_gt hL)
  set u := N / (L + segEps)
  set v := N / L
  rw [le_div_iff₀ hLe]
  rcases le_total N 0 with hN | hN
  · have hu0 : u ≤ 0 := div_nonpos_of_nonpos_of_nonneg hN hLe.le
    have hv0 : v ≤ 0 := div_nonpos_of_nonpos_of_nonneg hN hL.le
    rw [max_eq_left hu0, max_eq_left hv0]
    simp only [min_eq_left zero_le_one]
    exact ⟨le_refl _, by linarith⟩
  · have hu0 : 0 ≤ u := div_nonneg hN hLe.le
    have hv0 : 0 ≤ v := div_nonneg hN hL.le
    have huv : u ≤ v := by
      by_contra hc
      have : v < u := not_le.mp hc
      nlinarith [mul_nonneg hu0 he.le]
    rw [max_eq_right hu0, max_eq_right hv0]
    refine ⟨min_le_min_right 1 huv, ?_⟩
    rcases le_total v 1 with h1 | h1
    · rw [min_eq_left h1, min_eq_left (huv.trans h1)]
      nlinarith
    · rw [min_eq_right h1]
      rcases le_total u 1 with h2 | h2
      · rw [min_eq_left h2]; nlinarith
      · rw [min_eq_right h2]; nlinarith

/-- the bound is attained: for `pt = b` the exact parameter is 1 and the code's is L/(L+ε). -/
theorem segParam_error_sharp (a b : V3 ℝ) (hL : 0 < V3.dot (V3.sub b a) (V3.sub b a)) :
    segParamIdeal a b b - segParam a b b = segEps / (V3.dot (V3.sub b a) (V3.sub b a) + segEps) := by
  unfold segParam segParamIdeal
  set L := V3.dot (V3.sub b a) (V3.sub b a) with hLd
  have he : 0 < segEps := by unfold segEps; norm_num
  have hLe : 0 < L + segEps := by linarith
  have h1 : L / L = 1 := div_self (ne_of_gt hL)
  have h2 : 0 ≤ L / (L + segEps) := div_nonneg hL.le hLe.le
  have h3 : L / (L + segEps) ≤ 1 := (div_le_one hLe).mpr (by linarith)
  rw [h1, max_eq_right h2, max_eq_right zero_le_one, min_eq_left h3, min_self]
  field_simp; ring

/-- resulting position error: the returned point is within √ε/2 = 5·10⁻⁴ of the true closest point
    (squared distance ≤ ε/4), for every segment with a ≠ b.  -/
theorem closest_segment_point_pos_error (a b pt : V3 ℝ) (hL : 0 < V3.dot (V3.sub b a) (V3.sub b a)) :
    let ideal := V3.add a (V3.smul (segParamIdeal a b pt) (V3.sub b a))
    let e := V3.sub ideal (closest_segment_point a b pt)
    V3.dot e e ≤ segEps / 4 := by
  intro ideal e
  obtain ⟨h1, h2⟩ := segParam_error a b pt hL
  have he : 0 < segEps := by unfold segEps; norm_num
  set L := V3.dot (V3.sub b a) (V3.sub b a) with hLd
  have hLe : 0 < L + segEps := by linarith
  set δ := segParamIdeal a b pt - segParam a b pt with hδ
  have hδ0 : 0 ≤ δ := sub_nonneg.mpr h1
  have hee : V3.dot e e = δ * δ * L := by
    simp only [e, ideal, closest_segment_point_eq, hδ, hLd, dot_def, V3.sub, V3.add, V3.smul, hadd, hsub, hmul]
    ring
  rw [hee]
  rw [le_div_iff₀ hLe] at h2
  -- δ (L+ε) ≤ ε  ⇒  δ² L ≤ ε² L/(L+ε)² ≤ ε/4   (AM-GM: 4 L ε ≤ (L+ε)²)
  have h3 : δ * δ * ((L + segEps) * (L + segEps)) ≤ segEps * segEps := by
    have hx0 : 0 ≤ δ * (L + segEps) := mul_nonneg hδ0 hLe.le
    have := mul_le_mul h2 h2 hx0 he.le
    calc δ * δ * ((L + segEps) * (L + segEps)) = δ * (L + segEps) * (δ * (L + segEps)) := by ring
      _ ≤ segEps * segEps := this
  have h4 : 4 * L * segEps ≤ (L + segEps) * (L + segEps) := by nlinarith [mul_self_nonneg (L - segEps)]
  have h5 : δ * δ * L * (4 * segEps) ≤ δ * δ * ((L + segEps) * (L + segEps)) := by
    nlinarith [mul_nonneg hδ0 hδ0]
  have h6 : δ * δ * L * (4 * segEps) ≤ segEps * segEps := h5.trans h3
  have : δ * δ * L * 4 ≤ segEps := by
    by_contra hc
    have := not_le.mp hc
    nlinarith
  linarith

/-- `sphere_capsule` is `sphere_sphere` against the (regularised) closest point of the capsule segment. -/
theorem sphere_capsule_eq (s : V3 ℝ) (r : ℝ) (cp ax : V3 ℝ) (cr hl : ℝ) :
    let a := V3.sub cp (V3.muls ax hl)
    let b := V3.add cp (V3.muls ax hl)
    sphere_capsule s r cp ax cr hl =
      sphere_sphere s r (V3.add a (V3.smul (segParam a b s) (V3.sub b a))) cr := by
  intro a b
  unfold sphere_capsule
  simp only [closest_segment_point_eq]
  rfl

/-- unit normal, every input. -/
theorem sphere_capsule_normal_unit (s : V3 ℝ) (r : ℝ) (cp ax : V3 ℝ) (cr hl : ℝ) :
    V3.dot (sphere_capsule s r cp ax cr hl).2.2 (sphere_capsule s r cp ax cr hl).2.2 = 1 := by
  unfold sphere_capsule
  exact sphere_sphere_normal_unit _ _ _ _

/-- sphere–capsule, non-degenerate case (sphere centre not at the selected segment point `pt`):
    the normal is the unit vector from the sphere centre to `pt`, dist = |pt − s| − r − cr and
    pos = s + n (r + dist/2), where `pt = a + t (b − a)` with the code's regularised parameter t ∈ [0,1]. -/
theorem sphere_capsule_valid (s : V3 ℝ) (r : ℝ) (cp ax : V3 ℝ) (cr hl : ℝ) :
    let a := V3.sub cp (V3.muls ax hl)
    let b := V3.add cp (V3.muls ax hl)
    let t := segParam a b s
    let pt := V3.add a (V3.smul t (V3.sub b a))
    let dist := (sphere_capsule s r cp ax cr hl).1
    let pos := (sphere_capsule s r cp ax cr hl).2.1
    let n := (sphere_capsule s r cp ax cr hl).2.2
    0 ≤ t ∧ t ≤ 1 ∧ dist = V3.length (V3.sub pt s) - r - cr ∧
    pos = V3.add s (V3.muls n (r + dist / 2)) ∧ V3.dot n n = 1 ∧
    (s ≠ pt → n = V3.divs (V3.sub pt s) (V3.length (V3.sub pt s))) := by
  intro a b t pt dist pos n
  have he := sphere_capsule_eq s r cp ax cr hl
  have hu := sphere_capsule_normal_unit s r cp ax cr hl
  obtain ⟨d1, d2⟩ := sphere_sphere_dist_pos s pt r cr
  have e : sphere_capsule s r cp ax cr hl = sphere_sphere s r pt cr := he
  refine ⟨le_min (le_max_left _ _) zero_le_one, min_le_right _ _, ?_, ?_, hu, ?_⟩
  · show (sphere_capsule s r cp ax cr hl).1 = _
    rw [e]; exact d1
  · show (sphere_capsule s r cp ax cr hl).2.1 = V3.add s (V3.muls (sphere_capsule s r cp ax cr hl).2.2 (r + (sphere_capsule s r cp ax cr hl).1 / 2))
    rw [e]; exact d2
  · intro hne
    show (sphere_capsule s r cp ax cr hl).2.2 = _
    rw [e]; exact (sphere_sphere_valid s pt r cr hne).2.1

/-- **how far from exact**: let `exact` = (true distance from the sphere centre to the capsule segment)
    − r − cr (the ideal closest-point parameter, `segParamIdeal_closest`).  The reported distance is never
    smaller and exceeds it by at most √ε/2 = 5·10⁻⁴ (segment with a ≠ b). -/
theorem sphere_capsule_dist_error (s : V3 ℝ) (r : ℝ) (cp ax : V3 ℝ) (cr hl : ℝ) :
    let a := V3.sub cp (V3.muls ax hl)
    let b := V3.add cp (V3.muls ax hl)
    let ideal := V3.add a (V3.smul (segParamIdeal a b s) (V3.sub b a))
    let exact := V3.length (V3.sub ideal s) - r - cr
    0 < V3.dot (V3.sub b a) (V3.sub b a) →
    exact ≤ (sphere_capsule s r cp ax cr hl).1 ∧ (sphere_capsule s r cp ax cr hl).1 ≤ exact + 1 / 2000 := by
  intro a b ideal exact hL
  obtain ⟨-, -, hd, -⟩ := sphere_capsule_valid s r cp ax cr hl
  have hd' : (sphere_capsule s r cp ax cr hl).1 =
      V3.length (V3.sub (V3.add a (V3.smul (segParam a b s) (V3.sub b a))) s) - r - cr := hd
  rw [hd']
  set pt := V3.add a (V3.smul (segParam a b s) (V3.sub b a)) with hpt
  have hcl := segParamIdeal_closest a b s hL (segParam a b s)
    (le_min (le_max_left _ _) zero_le_one) (min_le_right _ _)
  have h1 : V3.length (V3.sub ideal s) ≤ V3.length (V3.sub pt s) := by
    rw [length_neg_sub ideal s, length_neg_sub pt s, length_def, length_def]
    exact Real.sqrt_le_sqrt hcl
  have herr := closest_segment_point_pos_error a b s hL
  rw [closest_segment_point_eq] at herr
  have h2 : V3.length (V3.sub pt s) ≤ V3.length (V3.sub ideal s) + 1 / 2000 := by
    have hsplit : V3.sub pt s = V3.add (V3.sub ideal s) (V3.sub pt ideal) := by
      apply V3.ext' <;> simp only [V3.sub, V3.add, hadd, hsub] <;> ring
    have htri := length_add_le (V3.sub ideal s) (V3.sub pt ideal)
    rw [← hsplit] at htri
    have hsmall : V3.length (V3.sub pt ideal) ≤ 1 / 2000 := by
      rw [length_neg_sub, length_def]
      apply Real.sqrt_le_iff.mpr
      refine ⟨by norm_num, ?_⟩
      have : segEps / 4 = (1 / 2000 : ℝ) ^ 2 := by unfold segEps; norm_num
      rw [← this]; exact herr
    linarith
  show V3.length (V3.sub ideal s) - r - cr ≤ _ ∧ _ ≤ V3.length (V3.sub ideal s) - r - cr + 1 / 2000
  constructor <;> linarith

/-! ## (5a) plane_ellipsoid -/

/-- what the function returns, for ALL inputs: the support point is `ellPoint` at z₀ = −normalize(S Rᵀ n). -/
theorem plane_ellipsoid_eq (n p e : V3 ℝ) (R : M33 ℝ) (sz : V3 ℝ) :
    let q := ellPoint e R sz (V3.neg (V3.normalize (ellW n R sz)))
    plane_ellipsoid n p e R sz =
      (V3.dot n (V3.sub q p), V3.sub q (V3.muls (V3.muls n (V3.dot n (V3.sub q p))) (1/2)), n) := by
  intro q
  unfold plane_ellipsoid
  simp only [slit]
  norm_num
  exact ⟨rfl, rfl⟩

/-- **plane–ellipsoid, every input**: the normal is the plane normal; dist = n·(e−p) − |S Rᵀ n|; this is
    the minimum of the signed height n·(y−p) over all points y of the ellipsoid, attained at the
    reported support point q; pos = q − n·dist/2.  (No orthogonality of R and no unit-length of n needed
    for these; for a unit n, q − dist·n is the projection of q on the plane and pos is the midpoint.) -/
theorem plane_ellipsoid_valid (n p e : V3 ℝ) (R : M33 ℝ) (sz : V3 ℝ) :
    let q := ellPoint e R sz (V3.neg (V3.normalize (ellW n R sz)))
    let dist := (plane_ellipsoid n p e R sz).1
    let pos := (plane_ellipsoid n p e R sz).2.1
    let nrm := (plane_ellipsoid n p e R sz).2.2
    nrm = n ∧
    dist = V3.dot n (V3.sub e p) - V3.length (ellW n R sz) ∧
    dist = V3.dot n (V3.sub q p) ∧
    (∀ z : V3 ℝ, V3.dot z z ≤ 1 → dist ≤ V3.dot n (V3.sub (ellPoint e R sz z) p)) ∧
    pos = V3.sub q (V3.muls n (dist / 2)) := by
  rw [plane_ellipsoid_eq]
  intro q dist pos nrm
  have hd : dist = V3.dot n (V3.sub q p) := rfl
  have hdist : dist = V3.dot n (V3.sub e p) - V3.length (ellW n R sz) := by
    rw [hd]
    show V3.dot n (V3.sub (ellPoint e R sz _) p) = _
    rw [ellPoint_height]
    have : V3.dot (ellW n R sz) (V3.neg (V3.normalize (ellW n R sz))) = - V3.length (ellW n R sz) := by
      rw [← dot_normalize_self]; simp only [dot_def, V3.neg, hneg]; ring
    rw [this]; ring
  refine ⟨rfl, hdist, hd, ?_, ?_⟩
  · intro z hz
    rw [hdist, ellPoint_height]
    have hzl : V3.length z ≤ 1 := by
      rw [length_def]; exact Real.sqrt_le_one.mpr hz
    have hcs := (abs_le.mp (abs_dot_le (ellW n R sz) z)).1
    have hw := length_nonneg (ellW n R sz)
    nlinarith [mul_le_mul_of_nonneg_left hzl hw]
  · show V3.sub q (V3.muls (V3.muls n dist) (1/2)) = V3.sub q (V3.muls n (dist / 2))
    apply V3.ext' <;> simp only [V3.sub, V3.muls, hsub, hmul] <;> ring

/-- for a unit plane normal: pos is the midpoint of the support point q and its projection on the plane. -/
theorem plane_ellipsoid_midpoint (n p e : V3 ℝ) (R : M33 ℝ) (sz : V3 ℝ) (hn : V3.dot n n = 1) :
    let q := ellPoint e R sz (V3.neg (V3.normalize (ellW n R sz)))
    let dist := (plane_ellipsoid n p e R sz).1
    let pos := (plane_ellipsoid n p e R sz).2.1
    let q' := V3.sub q (V3.muls n dist)
    V3.dot n (V3.sub q' p) = 0 ∧ pos = V3.smul (1/2) (V3.add q q') ∧
    V3.dot (plane_ellipsoid n p e R sz).2.2 (plane_ellipsoid n p e R sz).2.2 = 1 := by
  obtain ⟨v1, -, v3, -, v5⟩ := plane_ellipsoid_valid n p e R sz
  intro q dist pos q'
  refine ⟨?_, ?_, by rw [v1]; exact hn⟩
  · have hd : dist = V3.dot n (V3.sub q p) := v3
    rw [dot_def] at hn
    simp only [q', dot_def, V3.sub, V3.muls, hsub, hmul] at hd ⊢
    linear_combination (-dist) * hn - hd
  · have hp : pos = V3.sub q (V3.muls n (dist / 2)) := v5
    rw [hp]
    apply V3.ext' <;> simp only [q', V3.smul, V3.sub, V3.add, V3.muls, hadd, hsub, hmul] <;> ring

/-- the support point lies ON the ellipsoid surface (its unit-sphere coordinate has norm 1) whenever
    S Rᵀ n ≠ 0 (e.g. R invertible, n ≠ 0, all sizes > 0). -/
theorem plane_ellipsoid_support_on_surface (n : V3 ℝ) (R : M33 ℝ) (sz : V3 ℝ)
    (hw : 0 < V3.length (ellW n R sz)) :
    V3.dot (V3.neg (V3.normalize (ellW n R sz))) (V3.neg (V3.normalize (ellW n R sz))) = 1 := by
  rw [dot_neg_neg]; exact normalize_unit hw

/-! ## (5b) sphere_cylinder -/

/-- side regime (|x| < h), sphere centre radially outside: a sphere–sphere test against the axis point. -/
theorem sphere_cylinder_side_outside (s : V3 ℝ) (r : ℝ) (c ax : V3 ℝ) (R h : ℝ)
    (h1 : |cylX s c ax| < h) (h2 : R * R ≤ V3.dot (cylP s c ax) (cylP s c ax)) :
    sphere_cylinder s r c ax R h = sphere_sphere s r (V3.add c (V3.muls ax (cylX s c ax))) R := by
  unfold cylP cylX at *
  have e1 := slt_true h1
  have e2 := slt_false h2
  unfold sphere_cylinder
  simp only [sabs, hmul, e1, e2]
  simp

/-- side regime, sphere centre inside the cylinder and nearer to the lateral surface than to a cap. -/
theorem sphere_cylinder_side_inside (s : V3 ℝ) (r : ℝ) (c ax : V3 ℝ) (R h : ℝ)
    (h1 : |cylX s c ax| < h) (h2 : V3.dot (cylP s c ax) (cylP s c ax) < R * R)
    (h3 : R - Real.sqrt (V3.dot (cylP s c ax) (cylP s c ax)) ≤ h - |cylX s c ax|) :
    sphere_cylinder s r c ax R h = sphere_sphere s r (V3.add c (V3.muls ax (cylX s c ax))) R := by
  unfold cylP cylX at *
  have e1 := slt_true h1
  have e2 := slt_true h2
  have e3 := slt_false h3
  unfold sphere_cylinder
  simp only [sabs, ssqrt, hmul, hsub, e1, e2, e3]
  simp

theorem sphere_cylinder_cap_outside (s : V3 ℝ) (r : ℝ) (c ax : V3 ℝ) (R h : ℝ)
    (h1 : h ≤ |cylX s c ax|) (h2 : V3.dot (cylP s c ax) (cylP s c ax) < R * R) :
    sphere_cylinder s r c ax R h = capResult s r c ax h := by
  unfold capResult
  unfold cylP cylX at *
  have e1 := slt_false h1
  have e2 := slt_true h2
  unfold sphere_cylinder
  simp only [sabs, hmul, e1, e2]
  by_cases hx : 0 < V3.dot (V3.sub s c) ax
  · simp [hx]
  · simp [hx]

theorem sphere_cylinder_cap_inside (s : V3 ℝ) (r : ℝ) (c ax : V3 ℝ) (R h : ℝ)
    (h1 : |cylX s c ax| < h) (h2 : V3.dot (cylP s c ax) (cylP s c ax) < R * R)
    (h3 : h - |cylX s c ax| < R - Real.sqrt (V3.dot (cylP s c ax) (cylP s c ax))) :
    sphere_cylinder s r c ax R h = capResult s r c ax h := by
  unfold capResult
  unfold cylP cylX at *
  have e1 := slt_true h1
  have e2 := slt_true h2
  have e3 := slt_true h3
  unfold sphere_cylinder
  simp only [sabs, ssqrt, hmul, hsub, e1, e2, e3]
  by_cases hx : 0 < V3.dot (V3.sub s c) ax
  · simp [hx]
  · simp [hx]

theorem sphere_cylinder_corner (s : V3 ℝ) (r : ℝ) (c ax : V3 ℝ) (R h : ℝ)
    (h1 : h ≤ |cylX s c ax|) (h2 : R * R ≤ V3.dot (cylP s c ax) (cylP s c ax)) :
    sphere_cylinder s r c ax R h = sphere_sphere s r (rimPoint s c ax R h) 0 := by
  unfold rimPoint
  unfold cylP cylX at *
  have e1 := slt_false h1
  have e2 := slt_false h2
  unfold sphere_cylinder
  simp only [sabs, ssqrt, hmul, e1, e2]
  simp

/-- side regime, combined: taken iff |x| < h and (radially outside, or inside but not nearer to a cap). -/
theorem sphere_cylinder_side (s : V3 ℝ) (r : ℝ) (c ax : V3 ℝ) (R h : ℝ)
    (h1 : |cylX s c ax| < h)
    (h2 : R * R ≤ V3.dot (cylP s c ax) (cylP s c ax) ∨
          R - Real.sqrt (V3.dot (cylP s c ax) (cylP s c ax)) ≤ h - |cylX s c ax|) :
    sphere_cylinder s r c ax R h = sphere_sphere s r (V3.add c (V3.muls ax (cylX s c ax))) R := by
  rcases le_or_gt (R * R) (V3.dot (cylP s c ax) (cylP s c ax)) with h3 | h3
  · exact sphere_cylinder_side_outside s r c ax R h h1 h3
  · rcases h2 with h2 | h2
    · exact absurd h2 (not_le.mpr h3)
    · exact sphere_cylinder_side_inside s r c ax R h h1 h3 h2

/-- cap regime, combined: taken iff radially inside and (axially outside, or inside and nearer to the cap). -/
theorem sphere_cylinder_cap (s : V3 ℝ) (r : ℝ) (c ax : V3 ℝ) (R h : ℝ)
    (h2 : V3.dot (cylP s c ax) (cylP s c ax) < R * R)
    (h1 : h ≤ |cylX s c ax| ∨
          h - |cylX s c ax| < R - Real.sqrt (V3.dot (cylP s c ax) (cylP s c ax))) :
    sphere_cylinder s r c ax R h = capResult s r c ax h := by
  rcases le_or_gt h (|cylX s c ax|) with h3 | h3
  · exact sphere_cylinder_cap_outside s r c ax R h h3 h2
  · rcases h1 with h1 | h1
    · exact absurd h1 (not_le.mpr h3)
    · exact sphere_cylinder_cap_inside s r c ax R h h3 h2 h1

/-- **unit normal, every input** (only hypothesis: the cylinder axis is a unit vector). -/
theorem sphere_cylinder_normal_unit (s : V3 ℝ) (r : ℝ) (c ax : V3 ℝ) (R h : ℝ) (hax : V3.dot ax ax = 1) :
    V3.dot (sphere_cylinder s r c ax R h).2.2 (sphere_cylinder s r c ax R h).2.2 = 1 := by
  have hcap : V3.dot (capResult s r c ax h).2.2 (capResult s r c ax h).2.2 = 1 := by
    unfold capResult
    split_ifs
    · show V3.dot (V3.neg ax) (V3.neg ax) = 1
      rw [dot_neg_neg, hax]
    · show V3.dot (V3.neg (V3.neg ax)) (V3.neg (V3.neg ax)) = 1
      rw [dot_neg_neg, dot_neg_neg, hax]
  rcases lt_or_ge (|cylX s c ax|) h with h1 | h1
  · rcases le_or_gt (R * R) (V3.dot (cylP s c ax) (cylP s c ax)) with h2 | h2
    · rw [sphere_cylinder_side_outside s r c ax R h h1 h2]; exact sphere_sphere_normal_unit _ _ _ _
    · rcases le_or_gt (R - Real.sqrt (V3.dot (cylP s c ax) (cylP s c ax))) (h - |cylX s c ax|) with h3 | h3
      · rw [sphere_cylinder_side_inside s r c ax R h h1 h2 h3]; exact sphere_sphere_normal_unit _ _ _ _
      · rw [sphere_cylinder_cap_inside s r c ax R h h1 h2 h3]; exact hcap
  · rcases le_or_gt (R * R) (V3.dot (cylP s c ax) (cylP s c ax)) with h2 | h2
    · rw [sphere_cylinder_corner s r c ax R h h1 h2]; exact sphere_sphere_normal_unit _ _ _ _
    · rw [sphere_cylinder_cap_outside s r c ax R h h1 h2]; exact hcap

/-- **degenerate side regime** (sphere centre exactly on the cylinder axis, nearer to the lateral surface
    than to a cap): the code falls into `sphere_sphere`'s coincident-centres branch and returns the FIXED
    normal (1,0,0), whatever the cylinder axis is.  (See `C20Witness.sphere_cylinder_on_axis_witness`:
    for an x-aligned cylinder this normal is parallel to the axis.) -/
theorem sphere_cylinder_on_axis (s : V3 ℝ) (r : ℝ) (c ax : V3 ℝ) (R h : ℝ)
    (hP : V3.dot (cylP s c ax) (cylP s c ax) = 0) (h1 : |cylX s c ax| < h) (hR : 0 < R)
    (h3 : R ≤ h - |cylX s c ax|) :
    sphere_cylinder s r c ax R h =
      (-(r + R), V3.add s (V3.muls ⟨1, 0, 0⟩ (r + (-(r + R)) / 2)), ⟨1, 0, 0⟩) := by
  rw [sphere_cylinder_side_inside s r c ax R h h1 (by rw [hP]; positivity)
    (by rw [hP, Real.sqrt_zero]; linarith)]
  have hq : V3.add c (V3.muls ax (cylX s c ax)) = s := by
    have h0 : V3.sub (V3.add c (V3.muls ax (cylX s c ax))) s = ⟨0, 0, 0⟩ := by
      rw [cyl_axis_point_sub, (dot_self_eq_zero_iff _).mp hP]
      apply V3.ext' <;> simp [V3.neg]
    exact ((sub_eq_zero_iff s _).mp h0).symm
  rw [hq]
  exact sphere_sphere_coincident s r R

/-- side regime, geometry (axis unit, sphere centre off the axis): the normal is the unit radial
    direction pointing from the sphere centre to the axis, it is perpendicular to the axis, and
    dist = (radial distance) − r − R. -/
theorem sphere_cylinder_side_valid (s : V3 ℝ) (r : ℝ) (c ax : V3 ℝ) (R h : ℝ)
    (hax : V3.dot ax ax = 1)
    (h1 : |cylX s c ax| < h)
    (h2 : R * R ≤ V3.dot (cylP s c ax) (cylP s c ax) ∨
          R - Real.sqrt (V3.dot (cylP s c ax) (cylP s c ax)) ≤ h - |cylX s c ax|)
    (hoff : 0 < V3.dot (cylP s c ax) (cylP s c ax)) :
    let ρ := Real.sqrt (V3.dot (cylP s c ax) (cylP s c ax))
    let dist := (sphere_cylinder s r c ax R h).1
    let pos := (sphere_cylinder s r c ax R h).2.1
    let n := (sphere_cylinder s r c ax R h).2.2
    dist = ρ - r - R ∧ n = V3.divs (V3.neg (cylP s c ax)) ρ ∧ V3.dot n n = 1 ∧ V3.dot n ax = 0 ∧
    pos = V3.add s (V3.muls n (r + dist / 2)) := by
  rw [sphere_cylinder_side s r c ax R h h1 h2]
  set q := V3.add c (V3.muls ax (cylX s c ax)) with hq
  have hsub : V3.sub q s = V3.neg (cylP s c ax) := cyl_axis_point_sub s c ax
  have hlen : V3.length (V3.sub q s) = Real.sqrt (V3.dot (cylP s c ax) (cylP s c ax)) := by
    rw [hsub, length_def, dot_neg_neg]
  have hne : s ≠ q := by
    intro he
    have h0 : V3.length (V3.sub q s) = 0 := by
      rw [length_eq_zero_iff]; exact (sub_eq_zero_iff s q).mpr he
    rw [hlen] at h0
    exact absurd (Real.sqrt_eq_zero'.mp h0) (not_le.mpr hoff)
  obtain ⟨v1, v2, -, v4, -, -, v7⟩ := sphere_sphere_valid s q r R hne
  intro ρ dist pos n
  rw [hlen] at v2 v4
  rw [hsub] at v2
  refine ⟨v4, v2, v1, ?_, v7⟩
  show V3.dot (sphere_sphere s r q R).2.2 ax = 0
  rw [v2, dot_divs_left]
  have : V3.dot (V3.neg (cylP s c ax)) ax = 0 := by
    have hp := cylP_perp s c ax hax
    simp only [dot_def, V3.neg, hneg] at hp ⊢
    linarith
  rw [this, zero_div]

/-- cap regime, geometry (axis unit): the normal is ∓axis (pointing from the sphere towards the cap),
    dist = |x| − h − r is the signed height of the sphere's lowest point over the cap plane. -/
theorem sphere_cylinder_cap_valid (s : V3 ℝ) (r : ℝ) (c ax : V3 ℝ) (R h : ℝ)
    (hax : V3.dot ax ax = 1)
    (h2 : V3.dot (cylP s c ax) (cylP s c ax) < R * R)
    (h1 : h ≤ |cylX s c ax| ∨
          h - |cylX s c ax| < R - Real.sqrt (V3.dot (cylP s c ax) (cylP s c ax))) :
    let dist := (sphere_cylinder s r c ax R h).1
    let pos := (sphere_cylinder s r c ax R h).2.1
    let n := (sphere_cylinder s r c ax R h).2.2
    dist = |cylX s c ax| - h - r ∧
    n = (if 0 < cylX s c ax then V3.neg ax else ax) ∧ V3.dot n n = 1 ∧
    pos = V3.add s (V3.muls n (r + dist / 2)) := by
  rw [sphere_cylinder_cap s r c ax R h h2 h1]
  unfold capResult
  rw [dot_def] at hax
  have hnn : V3.neg (V3.neg ax) = ax := by
    apply V3.ext' <;> simp [V3.neg]
  by_cases hx : 0 < cylX s c ax
  · simp only [hx, if_true, plane_sphere_eq]
    have habs : |cylX s c ax| = cylX s c ax := abs_of_pos hx
    rw [habs]
    have hd : V3.dot ax (V3.sub s (V3.add c (V3.muls ax h))) - r = cylX s c ax - h - r := by
      unfold cylX
      simp only [dot_def, V3.sub, V3.add, V3.muls, hadd, hsub, hmul]
      linear_combination (-h) * hax
    refine ⟨hd, trivial, by rw [dot_neg_neg, dot_def]; exact hax, ?_⟩
    show V3.sub s (V3.muls ax _) = V3.add s (V3.muls (V3.neg ax) _)
    apply V3.ext' <;> simp only [V3.sub, V3.add, V3.muls, V3.neg, hadd, hsub, hmul, hneg] <;> ring
  · simp only [hx, if_false, plane_sphere_eq, hnn]
    have habs : |cylX s c ax| = -cylX s c ax := abs_of_nonpos (not_lt.mp hx)
    rw [habs]
    have hd : V3.dot (V3.neg ax) (V3.sub s (V3.sub c (V3.muls ax h))) - r = -cylX s c ax - h - r := by
      unfold cylX
      simp only [dot_def, V3.sub, V3.neg, V3.muls, hneg, hsub, hmul]
      linear_combination (-h) * hax
    refine ⟨hd, trivial, by rw [dot_def]; exact hax, ?_⟩
    show V3.sub s (V3.muls (V3.neg ax) _) = V3.add s (V3.muls ax _)
    apply V3.ext' <;> simp only [V3.sub, V3.add, V3.muls, V3.neg, hadd, hsub, hmul, hneg] <;> ring

/-- corner (rim) regime, geometry (axis unit): a sphere–point test against the nearest rim point, and
    dist = √((|x|−h)² + (ρ−R)²) − r, the exact distance to the rim circle. -/
theorem sphere_cylinder_corner_valid (s : V3 ℝ) (r : ℝ) (c ax : V3 ℝ) (R h : ℝ)
    (hax : V3.dot ax ax = 1)
    (h1 : h ≤ |cylX s c ax|) (h2 : R * R ≤ V3.dot (cylP s c ax) (cylP s c ax)) :
    let ρ := Real.sqrt (V3.dot (cylP s c ax) (cylP s c ax))
    let dist := (sphere_cylinder s r c ax R h).1
    let pos := (sphere_cylinder s r c ax R h).2.1
    let n := (sphere_cylinder s r c ax R h).2.2
    dist = Real.sqrt ((|cylX s c ax| - h) ^ 2 + (ρ - R) ^ 2) - r ∧ V3.dot n n = 1 ∧
    pos = V3.add s (V3.muls n (r + dist / 2)) := by
  rw [sphere_cylinder_corner s r c ax R h h1 h2]
  intro ρ dist pos n
  obtain ⟨d1, d2⟩ := sphere_sphere_dist_pos s (rimPoint s c ax R h) r 0
  refine ⟨?_, sphere_sphere_normal_unit _ _ _ _, d2⟩
  show (sphere_sphere s r (rimPoint s c ax R h) 0).1 = _
  rw [d1, sub_zero, length_def]
  congr 2
  -- |rim − s|² = (|x|−h)² + (ρ−R)²
  set x := cylX s c ax with hx
  set P := cylP s c ax with hP
  set pp := V3.dot P P with hpp
  have hpp0 : 0 ≤ pp := dot_self_nonneg P
  have hρ : ρ * ρ = pp := Real.mul_self_sqrt hpp0
  have hperp : V3.dot ax P = 0 := by rw [dot_comm]; exact cylP_perp s c ax hax
  set α := Scalar.sign x * h - x with hα
  set γ := R * safe_div_F_F 1 ρ - 1 with hγ
  have hdecomp : V3.sub (rimPoint s c ax R h) s = V3.add (V3.muls ax α) (V3.muls P γ) := by
    unfold rimPoint
    rw [← hx, ← hP, ← hpp]
    have hPc : P = V3.sub (V3.sub s c) (V3.muls ax x) := rfl
    rw [hα, hγ]
    apply V3.ext' <;> simp only [hPc, V3.sub, V3.add, V3.muls, hadd, hsub, hmul] <;> ring
  have hexp : V3.dot (V3.add (V3.muls ax α) (V3.muls P γ)) (V3.add (V3.muls ax α) (V3.muls P γ))
      = α * α * V3.dot ax ax + 2 * α * γ * V3.dot ax P + γ * γ * pp := by
    simp only [hpp, dot_def, V3.add, V3.muls, hadd, hmul]; ring
  rw [hdecomp, hexp, hax, hperp]
  have hα2 : α * α = (|x| - h) ^ 2 := by
    rw [hα]
    unfold Scalar.sign
    by_cases hneg : x < 0
    · have e := slt_true (a := x) (b := Scalar.lit 0 0) (by simpa using hneg)
      rw [e, abs_of_neg hneg]; simp only [if_true, slit]; norm_num; ring
    · have e := slt_false (a := x) (b := Scalar.lit 0 0) (by simpa using hneg)
      rw [e, abs_of_nonneg (not_lt.mp hneg)]; simp only [slit]; norm_num; ring
  have hγ2 : γ * γ * pp = (ρ - R) ^ 2 := by
    by_cases hz : ρ = 0
    · have hpz : pp = 0 := by rw [← hρ, hz]; ring
      have hR : R = 0 := by
        have : R * R ≤ 0 := by rw [← hpz]; exact h2
        nlinarith [mul_self_nonneg R]
      rw [hpz, hz, hR]; ring
    · rw [hγ, safe_div_one_of_ne hz, ← hρ]
      field_simp
      ring
  rw [hα2]
  linarith [hγ2]

/-! ## (5c) sphere_box -/

/-- for a rotation (R·Rᵀ = I) the box-frame centre maps back to the sphere centre: box_pos + R·centre = s,
    so the box-frame statements below are statements about world-frame points `box_pos + R·(…)`. -/
theorem sphere_box_center_world (s bp : V3 ℝ) (R : M33 ℝ)
    (hR' : M33.mul R (M33.transpose R) = M33.identity) :
    V3.add bp (M33.mulVec R (boxCenter s bp R)) = s := by
  have e00 := congrArg M33.m00 hR'
  have e01 := congrArg M33.m01 hR'
  have e02 := congrArg M33.m02 hR'
  have e10 := congrArg M33.m10 hR'
  have e11 := congrArg M33.m11 hR'
  have e12 := congrArg M33.m12 hR'
  have e20 := congrArg M33.m20 hR'
  have e21 := congrArg M33.m21 hR'
  have e22 := congrArg M33.m22 hR'
  simp only [M33.mul, M33.transpose, M33.identity, hadd, hmul, slit] at e00 e01 e02 e10 e11 e12 e20 e21 e22
  norm_num at e00 e01 e02 e10 e11 e12 e20 e21 e22
  unfold boxCenter
  apply V3.ext' <;> simp only [V3.add, V3.sub, M33.mulVec, M33.transpose, hadd, hsub, hmul]
  · linear_combination (s.c0 - bp.c0) * e00 + (s.c1 - bp.c1) * e01 + (s.c2 - bp.c2) * e02
  · linear_combination (s.c0 - bp.c0) * e10 + (s.c1 - bp.c1) * e11 + (s.c2 - bp.c2) * e12
  · linear_combination (s.c0 - bp.c0) * e20 + (s.c1 - bp.c1) * e21 + (s.c2 - bp.c2) * e22

/-- outside branch (sphere centre farther than 1e-15 from the box): closed form of all outputs. -/
theorem sphere_box_outside_eq (s : V3 ℝ) (r : ℝ) (bp : V3 ℝ) (R : M33 ℝ) (sz : V3 ℝ)
    (hout : minval < V3.length (V3.sub (boxClamped s bp R sz) (boxCenter s bp R))) :
    let d := V3.length (V3.sub (boxClamped s bp R sz) (boxCenter s bp R))
    let dir := V3.divs (V3.sub (boxClamped s bp R sz) (boxCenter s bp R)) d
    sphere_box s r bp R sz =
      (d - r,
       V3.add bp (M33.mulVec R (V3.smul (1/2)
         (V3.add (boxClamped s bp R sz) (V3.add (boxCenter s bp R) (V3.muls dir r))))),
       M33.mulVec R dir) := by
  intro d dir
  have hd : d = V3.length (V3.sub (boxClamped s bp R sz) (boxCenter s bp R)) := rfl
  unfold boxClamped boxCenter minval at *
  have hpos : 0 < d := lt_trans (by norm_num) hout
  have e1 : Scalar.beq d (Scalar.lit 0 0) = false :=
    Bool.eq_false_iff.mpr (fun hc => absurd ((sbeq _ _).mp hc) (by simpa using ne_of_gt hpos))
  have e2 : Scalar.le d (Scalar.lit 1 (-15)) = false := sle_false (by simp only [slit]; norm_num; linarith)
  rw [hd] at e1 e2
  unfold sphere_box normalize_with_norm_V3
  simp only [e1, e2, Bool.false_eq_true, if_false]
  have h5 : (Scalar.lit 5 (-1) : ℝ) = 1 / 2 := by simp only [slit]; norm_num
  rw [h5]
  rfl

theorem sphere_box_inside_eq (s : V3 ℝ) (r : ℝ) (bp : V3 ℝ) (R : M33 ℝ) (sz : V3 ℝ)
    (hin : V3.length (V3.sub (boxClamped s bp R sz) (boxCenter s bp R)) ≤ minval) :
    let sc := boxScan sz (boxCenter s bp R)
    sphere_box s r bp R sz =
      (-sc.1 - r,
       V3.add bp (M33.mulVec R (V3.add (boxCenter s bp R) (V3.divs (V3.muls (faceAxis sc.2) (r - sc.1)) 2))),
       M33.mulVec R (faceAxis sc.2)) := by
  intro sc
  have hsc : sc = boxScan sz (boxCenter s bp R) := rfl
  unfold boxClamped boxCenter minval at *
  have t1 : Int.tmod 1 2 = 1 := by decide
  have t2 : Int.tmod 2 2 = 0 := by decide
  have t3 : Int.tmod 3 2 = 1 := by decide
  have t4 : Int.tmod 4 2 = 0 := by decide
  have t5 : Int.tmod 5 2 = 1 := by decide
  have t0 : Int.tmod 0 2 = 0 := by decide
  unfold sphere_box normalize_with_norm_V3
  by_cases hz : V3.length (V3.sub (V3.vmax (V3.neg sz) (V3.vmin sz (M33.mulVec (M33.transpose R) (V3.sub s bp)))) (M33.mulVec (M33.transpose R) (V3.sub s bp))) = 0
  · have e1 : Scalar.beq (V3.length (V3.sub (V3.vmax (V3.neg sz) (V3.vmin sz (M33.mulVec (M33.transpose R) (V3.sub s bp)))) (M33.mulVec (M33.transpose R) (V3.sub s bp)))) (Scalar.lit 0 0) = true :=
      (sbeq _ _).mpr (by simpa using hz)
    have e2 : Scalar.le (Scalar.lit 0 0 : ℝ) (Scalar.lit 1 (-15)) = true :=
      sle_true (by simp only [slit]; norm_num)
    simp only [e1, e2, if_true, t0, t1, t2, t3, t4, t5]
    simp only [hsc, boxScan, boxStep, faceDist, faceAxis, sgt, sabs, slit, hmul, hsub, hneg, hadd]
    norm_num
  · have e1 : Scalar.beq (V3.length (V3.sub (V3.vmax (V3.neg sz) (V3.vmin sz (M33.mulVec (M33.transpose R) (V3.sub s bp)))) (M33.mulVec (M33.transpose R) (V3.sub s bp)))) (Scalar.lit 0 0) = false :=
      Bool.eq_false_iff.mpr (fun hc => absurd ((sbeq _ _).mp hc) (by simpa using hz))
    have e2 : Scalar.le (V3.length (V3.sub (V3.vmax (V3.neg sz) (V3.vmin sz (M33.mulVec (M33.transpose R) (V3.sub s bp)))) (M33.mulVec (M33.transpose R) (V3.sub s bp)))) (Scalar.lit 1 (-15)) = true :=
      sle_true (by simp only [slit]; norm_num; exact hin)
    simp only [e1, e2, Bool.false_eq_true, if_false, if_true, t0, t1, t2, t3, t4, t5]
    simp only [hsc, boxScan, boxStep, faceDist, faceAxis, sgt, sabs, slit, hmul, hsub, hneg, hadd]
    norm_num

/-- `boxClamped` is the point of the solid box nearest to the sphere centre (box frame). -/
theorem boxClamped_closest (s bp : V3 ℝ) (R : M33 ℝ) (sz y : V3 ℝ)
    (h0 : -sz.c0 ≤ y.c0 ∧ y.c0 ≤ sz.c0) (h1 : -sz.c1 ≤ y.c1 ∧ y.c1 ≤ sz.c1) (h2 : -sz.c2 ≤ y.c2 ∧ y.c2 ≤ sz.c2) :
    V3.length (V3.sub (boxClamped s bp R sz) (boxCenter s bp R)) ≤ V3.length (V3.sub y (boxCenter s bp R)) := by
  rw [length_def, length_def]
  apply Real.sqrt_le_sqrt
  unfold boxClamped
  set c := boxCenter s bp R
  simp only [dot_def, V3.sub, V3.vmax, V3.vmin, V3.neg, hsub, hneg, smin, smax]
  have a0 := clamp1_closest sz.c0 c.c0 y.c0 h0.1 h0.2
  have a1 := clamp1_closest sz.c1 c.c1 y.c1 h1.1 h1.2
  have a2 := clamp1_closest sz.c2 c.c2 y.c2 h2.1 h2.2
  linarith

/-- the selected face and the reported (box-frame) normal belong together: for a face index 0 ≤ k ≤ 5,
    `faceDist k = | n·c + |n|·size |` with n = `faceAxis k`, i.e. the distance of the centre from the
    face plane { y : n·y = −size_j } whose INWARD normal is n. -/
theorem faceDist_eq_axis (sz c : V3 ℝ) (k : Int) (hk : 0 ≤ k ∧ k ≤ 5) :
    faceDist sz c k = |V3.dot (faceAxis k) c + V3.dot (V3.vabs (faceAxis k)) sz| := by
  have : k = 0 ∨ k = 1 ∨ k = 2 ∨ k = 3 ∨ k = 4 ∨ k = 5 := by omega
  have t1 : Int.tmod 1 2 = 1 := by decide
  have t3 : Int.tmod 3 2 = 1 := by decide
  have t5 : Int.tmod 5 2 = 1 := by decide
  have d1 : Int.tdiv 1 2 = 0 := by decide
  have d3 : Int.tdiv 3 2 = 1 := by decide
  have d4 : Int.tdiv 4 2 = 2 := by decide
  have d5 : Int.tdiv 5 2 = 2 := by decide
  rcases this with rfl | rfl | rfl | rfl | rfl | rfl <;>
    simp [faceDist, faceAxis, V3.set, V3.fill, V3.vabs, dot_def, t1, t3, t5, d1, d3, d4, d5] <;>
    first
      | (congr 1; ring1)
      | (rw [← abs_neg]; congr 1; ring1)

/-- **unit normal, every input** (only hypothesis: `box_rot` is orthogonal, RᵀR = I). -/
theorem sphere_box_normal_unit (s : V3 ℝ) (r : ℝ) (bp : V3 ℝ) (R : M33 ℝ) (sz : V3 ℝ)
    (hR : M33.mul (M33.transpose R) R = M33.identity) :
    V3.dot (sphere_box s r bp R sz).2.2 (sphere_box s r bp R sz).2.2 = 1 := by
  rcases le_or_gt (V3.length (V3.sub (boxClamped s bp R sz) (boxCenter s bp R))) minval with h | h
  · rw [sphere_box_inside_eq s r bp R sz h]
    show V3.dot (M33.mulVec R _) (M33.mulVec R _) = 1
    rw [dot_mulVec_mulVec hR, faceAxis_unit]
  · rw [sphere_box_outside_eq s r bp R sz h]
    show V3.dot (M33.mulVec R _) (M33.mulVec R _) = 1
    rw [dot_mulVec_mulVec hR]
    have : (0:ℝ) < minval := by unfold minval; norm_num
    exact divs_length_unit (ne_of_gt (this.trans h))

/-- outside branch, geometry: with d = |clamped − centre| (the exact distance from the sphere centre to
    the solid box, by `boxClamped_closest`) : dist = d − r, the normal is the rotated unit direction from
    the sphere centre to the closest box point, and pos (box frame) is the midpoint of that closest box
    point and the sphere's deepest point centre + r·dir. -/
theorem sphere_box_outside_valid (s : V3 ℝ) (r : ℝ) (bp : V3 ℝ) (R : M33 ℝ) (sz : V3 ℝ)
    (hR : M33.mul (M33.transpose R) R = M33.identity)
    (hout : minval < V3.length (V3.sub (boxClamped s bp R sz) (boxCenter s bp R))) :
    let d := V3.length (V3.sub (boxClamped s bp R sz) (boxCenter s bp R))
    let dir := V3.divs (V3.sub (boxClamped s bp R sz) (boxCenter s bp R)) d
    let dist := (sphere_box s r bp R sz).1
    let pos := (sphere_box s r bp R sz).2.1
    let n := (sphere_box s r bp R sz).2.2
    dist = d - r ∧ n = M33.mulVec R dir ∧ V3.dot dir dir = 1 ∧ V3.dot n n = 1 ∧
    V3.sub (boxClamped s bp R sz) (boxCenter s bp R) = V3.muls dir d ∧
    pos = V3.add bp (M33.mulVec R (V3.smul (1/2)
      (V3.add (boxClamped s bp R sz) (V3.add (boxCenter s bp R) (V3.muls dir r))))) := by
  have hu := sphere_box_normal_unit s r bp R sz hR
  rw [sphere_box_outside_eq s r bp R sz hout] at hu ⊢
  intro d dir dist pos n
  have hm : (0:ℝ) < minval := by unfold minval; norm_num
  have hd0 : d ≠ 0 := ne_of_gt (hm.trans hout)
  exact ⟨rfl, rfl, divs_length_unit hd0, hu, (muls_divs_length hd0).symm, rfl⟩

/-- inside branch (sphere centre within 1e-15 of the solid box), geometry: the normal is R·(±e_j) for the
    axis j = k/2 of the selected face k, dist = −closest − r with closest the minimum over the start
    value and the six face distances, pos (box frame) = centre + n_box·(r − closest)/2. -/
theorem sphere_box_inside_valid (s : V3 ℝ) (r : ℝ) (bp : V3 ℝ) (R : M33 ℝ) (sz : V3 ℝ)
    (hR : M33.mul (M33.transpose R) R = M33.identity)
    (hin : V3.length (V3.sub (boxClamped s bp R sz) (boxCenter s bp R)) ≤ minval) :
    let c := boxCenter s bp R
    let sc := boxScan sz c
    let dist := (sphere_box s r bp R sz).1
    let pos := (sphere_box s r bp R sz).2.1
    let n := (sphere_box s r bp R sz).2.2
    dist = -sc.1 - r ∧
    sc.1 = min (min (min (min (min (min (2 * (sz.c0 + sz.c1 + sz.c2)) (faceDist sz c 0)) (faceDist sz c 1))
        (faceDist sz c 2)) (faceDist sz c 3)) (faceDist sz c 4)) (faceDist sz c 5) ∧
    n = M33.mulVec R (faceAxis sc.2) ∧ V3.dot n n = 1 ∧
    pos = V3.add bp (M33.mulVec R (V3.add c (V3.divs (V3.muls (faceAxis sc.2) (r - sc.1)) 2))) ∧
    (faceDist sz c 0 < 2 * (sz.c0 + sz.c1 + sz.c2) →
      (0 ≤ sc.2 ∧ sc.2 ≤ 5) ∧ sc.1 = faceDist sz c sc.2) := by
  have hu := sphere_box_normal_unit s r bp R sz hR
  rw [sphere_box_inside_eq s r bp R sz hin] at hu ⊢
  intro c sc dist pos n
  exact ⟨rfl, boxScan_fst sz c, rfl, hu, rfl, boxScan_face sz c⟩

/-! ## non-vacuity: the hypotheses of the regime theorems are met by concrete numbers -/

/-- side regime (outside): sphere at (2,0,0), cylinder at 0 along z, R = 1, h = 1 -/
example : |cylX ⟨2, 0, 0⟩ ⟨0, 0, 0⟩ ⟨0, 0, 1⟩| < 1 ∧
    (1:ℝ) * 1 ≤ V3.dot (cylP ⟨2, 0, 0⟩ ⟨0, 0, 0⟩ ⟨0, 0, 1⟩) (cylP ⟨2, 0, 0⟩ ⟨0, 0, 0⟩ ⟨0, 0, 1⟩) ∧
    0 < V3.dot (cylP ⟨2, 0, 0⟩ ⟨0, 0, 0⟩ ⟨0, 0, 1⟩) (cylP ⟨2, 0, 0⟩ ⟨0, 0, 0⟩ ⟨0, 0, 1⟩) := by
  norm_num [cylX, cylP, dot_def, V3.sub, V3.muls]

/-- cap regime: sphere at (0,0,2) -/
example : (1:ℝ) ≤ |cylX ⟨0, 0, 2⟩ ⟨0, 0, 0⟩ ⟨0, 0, 1⟩| ∧
    V3.dot (cylP ⟨0, 0, 2⟩ ⟨0, 0, 0⟩ ⟨0, 0, 1⟩) (cylP ⟨0, 0, 2⟩ ⟨0, 0, 0⟩ ⟨0, 0, 1⟩) < (1:ℝ) * 1 := by
  norm_num [cylX, cylP, dot_def, V3.sub, V3.muls]

/-- corner regime: sphere at (2,0,2) -/
example : (1:ℝ) ≤ |cylX ⟨2, 0, 2⟩ ⟨0, 0, 0⟩ ⟨0, 0, 1⟩| ∧
    (1:ℝ) * 1 ≤ V3.dot (cylP ⟨2, 0, 2⟩ ⟨0, 0, 0⟩ ⟨0, 0, 1⟩) (cylP ⟨2, 0, 2⟩ ⟨0, 0, 0⟩ ⟨0, 0, 1⟩) := by
  norm_num [cylX, cylP, dot_def, V3.sub, V3.muls]

/-- the identity is an orthogonal `box_rot` -/
example : M33.mul (M33.transpose (M33.identity : M33 ℝ)) M33.identity = M33.identity := by
  apply M33.ext' <;> simp [M33.mul, M33.transpose, M33.identity]

/-- sphere_box outside branch: sphere at (3,0,0), unit box at the origin -/
example : minval < V3.length (V3.sub (boxClamped ⟨3, 0, 0⟩ ⟨0, 0, 0⟩ M33.identity ⟨1, 1, 1⟩)
    (boxCenter ⟨3, 0, 0⟩ ⟨0, 0, 0⟩ M33.identity)) := by
  have h : V3.dot (V3.sub (boxClamped ⟨3, 0, 0⟩ ⟨0, 0, 0⟩ M33.identity ⟨1, 1, 1⟩)
      (boxCenter ⟨3, 0, 0⟩ ⟨0, 0, 0⟩ M33.identity)) (V3.sub (boxClamped ⟨3, 0, 0⟩ ⟨0, 0, 0⟩ M33.identity ⟨1, 1, 1⟩)
      (boxCenter ⟨3, 0, 0⟩ ⟨0, 0, 0⟩ M33.identity)) = 4 := by
    norm_num [boxClamped, boxCenter, dot_def, V3.sub, V3.vmax, V3.vmin, V3.neg, M33.mulVec, M33.transpose,
      M33.identity]
  rw [length_def, h]
  apply (Real.lt_sqrt (by norm_num [minval])).mpr
  norm_num [minval]

/-- sphere_box inside branch: sphere at (1/2,0,0) in the unit box; the first face beats the start value -/
example : V3.length (V3.sub (boxClamped ⟨1/2, 0, 0⟩ ⟨0, 0, 0⟩ M33.identity ⟨1, 1, 1⟩)
    (boxCenter ⟨1/2, 0, 0⟩ ⟨0, 0, 0⟩ M33.identity)) ≤ minval ∧
    faceDist ⟨1, 1, 1⟩ (boxCenter ⟨1/2, 0, 0⟩ ⟨0, 0, 0⟩ M33.identity) 0 < 2 * ((1:ℝ) + 1 + 1) := by
  constructor
  · have h : V3.sub (boxClamped ⟨1/2, 0, 0⟩ ⟨0, 0, 0⟩ M33.identity ⟨1, 1, 1⟩)
        (boxCenter ⟨1/2, 0, 0⟩ ⟨0, 0, 0⟩ M33.identity) = ⟨0, 0, 0⟩ := by
      apply V3.ext' <;>
        norm_num [boxClamped, boxCenter, V3.sub, V3.vmax, V3.vmin, V3.neg, M33.mulVec, M33.transpose, M33.identity]
    rw [(length_eq_zero_iff _).mpr h]; norm_num [minval]
  · norm_num [faceDist, boxCenter, V3.sub, M33.mulVec, M33.transpose, M33.identity]

/-- plane_ellipsoid support on surface: n = z, R = I, sizes (1,2,3): |S Rᵀ n| = 3 > 0 -/
example : 0 < V3.length (ellW ⟨0, 0, 1⟩ M33.identity ⟨1, 2, 3⟩) := by
  rw [length_pos_iff]
  norm_num [ellW, dot_def, V3.cwmul, M33.mulVec, M33.transpose, M33.identity]

/-- a proper segment for (4): a = 0, b = (0,0,1) -/
example : 0 < V3.dot (V3.sub (⟨0, 0, 1⟩ : V3 ℝ) ⟨0, 0, 0⟩) (V3.sub ⟨0, 0, 1⟩ ⟨0, 0, 0⟩) := by
  norm_num [dot_def, V3.sub]

end Mjw.Props.C20
