/-
  C19 witnesses: concrete inputs on which the code's pair table deviates from MuJoCo's rule, or on which the
  literal reading of a requested statement is false.

  (W1, the explicit pair of a geom with itself written into the slot of an unrelated pair, is GONE: the defect was
     repaired in /repo by commit 6cb912c — `put_model` raises NotImplementedError — and the statement it refuted is now
     a theorem, `Props.C19.pair_table_eq_spec` for every accepted configuration; the general form of the aliasing is
     `Props.C19.self_pair_has_no_slot`, the reason for the rejection.)
  W2 `duplicate_pairs_last_wins_witness` (F2): pairs (0,1) and (1,0): ONE table entry, value 1; MuJoCo reports one
     contact per explicit pair (two contacts, condims of pair 0 and pair 1), mujoco_warp one (pair 1).
  W3 `exclude_order_witness` (F3, not reachable from a compiled model): geom 0 on body 2, geom 1 on body 1,
     `<exclude body1=1 body2=2>` (signature 1·65536 + 2): the code tests 2·65536 + 1 and keeps the pair.
  W4 `add_geom_pair_does_not_filter_witness` (F4): `_add_geom_pair` with a table whose every entry is (-2, -1)
     still allocates a slot and stores the entry — the statement "returns before the allocation" is false of it.
-/
import MjwVerif.Props.C19
set_option linter.unusedVariables false

namespace Mjw.Props.C19Witness
open Mjw Mjw.PairFilter Mjw.Lemmas.C19 Mjw.Props.C19

/-! ## W2 -/

theorem duplicate_pairs_last_wins_witness :
    pairTable { ngeom := 2, geom_bodyid := asFun [1, 2], geom_contype := fun _ => 1, geom_conaffinity := fun _ => 1,
                body_weldid := asFun [0, 1, 2], body_parentid := asFun [0, 0, 0], filterparent := true,
                pairs := [(0, 1), (1, 0)], excludes := [] } = .ok [1] := by decide

/-! ## W3 -/

def exclOrderCfg : Cfg :=
  { ngeom := 2, geom_bodyid := asFun [2, 1], geom_contype := fun _ => 1, geom_conaffinity := fun _ => 1,
    body_weldid := asFun [0, 1, 2], body_parentid := asFun [0, 0, 0], filterparent := true,
    pairs := [], excludes := [1 * 65536 + 2] }

/-- the bodies {1, 2} are excluded, yet the table keeps the pair: the code forms the signature in GEOM order -/
theorem exclude_order_witness :
    pairTable exclOrderCfg = .ok [-1]
    ∧ excluded [(1, 2)] (exclOrderCfg.geom_bodyid 0) (exclOrderCfg.geom_bodyid 1)
    ∧ exclOrderCfg.excludes = [(1, 2)].map (fun e : Int × Int => e.1 * 65536 + e.2)
    ∧ ¬ (exclOrderCfg.geom_bodyid 0 ≤ exclOrderCfg.geom_bodyid 1) := by
  refine ⟨by decide, ?_, by decide, by decide⟩
  right; decide

/-! ## W4 -/

/-- `_add_geom_pair` on a table whose entries are all `(-2, -1)` (filtered, no sensor), slot 0 of 1: it allocates
    and stores `(-2, -1)` as the pair id of the collision -/
theorem add_geom_pair_does_not_filter_witness :
    Gen.Collision_driver._add_geom_pair (K := Float) (fun _ => 0) (fun _ => ⟨-2, -1⟩) 1 0 1 0 0 (fun _ => 0)
        (fun _ => ⟨0, 0⟩) (fun _ => ⟨0, 0⟩) (fun _ => 0) 0
      = [ (Write.mk "ncollision_out" [0] (WVal.i 1) WKind.alloc : Write Float),
          (Write.mk "collision_pair_out" [0] (WVal.iv [0, 1]) WKind.set : Write Float),
          (Write.mk "collision_pairid_out" [0] (WVal.iv [-2, -1]) WKind.set : Write Float),
          (Write.mk "collision_worldid_out" [0] (WVal.i 0) WKind.set : Write Float) ] := by
  rw [add_geom_pair_allocates_one_slot]
  simp

end Mjw.Props.C19Witness
