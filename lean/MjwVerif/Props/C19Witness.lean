/-
  C19 witnesses: concrete inputs on which the code's pair table deviates from MuJoCo's rule, or on which the
  literal reading of a requested statement is false.

  W1 `self_pair_overwrites_unrelated_entry_witness` (F1, REACHABLE: MuJoCo 3.x compiles
     `<pair geom1="g0" geom2="g0"/>`; confirmed on the real `put_model`/`forward`: MuJoCo reports the contact
     (g0, g0), mujoco_warp reports a contact (g1, g2) with the pair's condim although contype = conaffinity = 0 on
     both).  3 geoms on 3 free bodies, geoms 1 and 2 with zero masks, one explicit pair (0, 0): the table is
     [-2, -2, 0] — the entry of (1, 2) carries pair id 0.  General form: `self_pair_hits_unrelated_slot`.
  W2 `duplicate_pairs_last_wins_witness` (F2): pairs (0,1) and (1,0): ONE table entry, value 1; MuJoCo reports one
     contact per explicit pair (two contacts, condims of pair 0 and pair 1), mujoco_warp one (pair 1).
  W3 `exclude_order_witness` (F3, not reachable from a compiled model): geom 0 on body 2, geom 1 on body 1,
     `<exclude body1=1 body2=2>` (signature 1·65536 + 2): the code tests 2·65536 + 1 and keeps the pair.
  W4 `add_geom_pair_does_not_filter_witness` (F4): `_add_geom_pair` with a table whose every entry is (-2, -1)
     still allocates a slot and stores the entry — the statement "returns before the allocation" is false of it.
-/
import MjwVerif.Props.C19
set_option linter.unusedVariables false

namespace Mjw.Props.C19Witness
open Mjw Mjw.PairFilter Mjw.Lemmas.C19 Mjw.Props.C19

/-! ## W1 -/

def selfPairCfg : Cfg :=
  { ngeom := 3, geom_bodyid := asFun [1, 2, 3], geom_contype := asFun [1, 0, 0], geom_conaffinity := asFun [1, 0, 0],
    body_weldid := asFun [0, 1, 2, 3], body_parentid := asFun [0, 0, 0, 0], filterparent := true,
    pairs := [(0, 0)], excludes := [] }

/-- the explicit pair (0,0) puts its id into the slot of the geom pair (1,2), which no explicit pair lists and
    which fails the dynamic rule (both masks are 0); without the pair the entry is -2 -/
theorem self_pair_overwrites_unrelated_entry_witness :
    pairTable selfPairCfg = some [-2, -2, 0]
    ∧ (Gen.Math.upper_tri_index (K := Float) 3 1 2).toNat = 2
    ∧ explicitId selfPairCfg.pairs 1 2 = none
    ∧ ¬ codeRule selfPairCfg 1 2
    ∧ pairTable { selfPairCfg with pairs := [] } = some [-2, -2, -2]
    ∧ ¬ PairsValid selfPairCfg := by
  refine ⟨by decide, by decide, by decide, ?_, by decide, ?_⟩
  · intro h
    have := h.1
    revert this
    decide
  · intro h
    have := (h (0, 0) (by simp [selfPairCfg])).2.2.2.2
    exact this rfl

/-- general form, every `n`: a degenerate pair `(k, k)` is written to the slot of the pair `(k-1, n-1)`
    (`1 ≤ k < n`), and to index `-1` = the last slot `(n-2, n-1)` for `k = 0` -/
theorem self_pair_hits_unrelated_slot {K : Type} [Scalar K] (n k : Nat) (hk : k < n) :
    (1 ≤ k → upperTriIndex n k k = Gen.Math.upper_tri_index (K := K) n ((k - 1 : Nat) : Int) ((n - 1 : Nat) : Int))
    ∧ (k = 0 → upperTriIndex n k k = -1) := by
  have h := self_pair_index n k hk
  constructor
  · intro h1
    rw [gen_upper_tri_index n (k - 1) (n - 1) (by omega) (by omega), h, if_neg (by omega)]
  · intro h0
    rw [h, if_pos h0]

/-! ## W2 -/

theorem duplicate_pairs_last_wins_witness :
    pairTable { ngeom := 2, geom_bodyid := asFun [1, 2], geom_contype := fun _ => 1, geom_conaffinity := fun _ => 1,
                body_weldid := asFun [0, 1, 2], body_parentid := asFun [0, 0, 0], filterparent := true,
                pairs := [(0, 1), (1, 0)], excludes := [] } = some [1] := by decide

/-! ## W3 -/

def exclOrderCfg : Cfg :=
  { ngeom := 2, geom_bodyid := asFun [2, 1], geom_contype := fun _ => 1, geom_conaffinity := fun _ => 1,
    body_weldid := asFun [0, 1, 2], body_parentid := asFun [0, 0, 0], filterparent := true,
    pairs := [], excludes := [1 * 65536 + 2] }

/-- the bodies {1, 2} are excluded, yet the table keeps the pair: the code forms the signature in GEOM order -/
theorem exclude_order_witness :
    pairTable exclOrderCfg = some [-1]
    ∧ excluded [(1, 2)] (exclOrderCfg.geom_bodyid 0) (exclOrderCfg.geom_bodyid 1)
    ∧ exclOrderCfg.excludes = [(1, 2)].map (fun e : Int × Int => e.1 * 65536 + e.2)
    ∧ ¬ (exclOrderCfg.geom_bodyid 0 ≤ exclOrderCfg.geom_bodyid 1) := by
  refine ⟨by decide, ?_, by decide, by decide⟩
  right; decide

/-! ## W4 -/

/-- `_add_geom_pair` on a table whose entries are all `(-2, -1)` (filtered, no sensor), slot 0 of 1: it allocates
    and stores `(-2, -1)` as the pair id of the collision -/
theorem add_geom_pair_does_not_filter_witness :
    Gen.Collision_driver._add_geom_pair (K := Float) (fun _ => 0) (fun _ => ⟨-2, -1⟩) 1 0 1 0 0 (fun _ => 0)
        (fun _ => ⟨0, 0⟩) (fun _ => ⟨0, 0⟩) (fun _ => 0) 0
      = [ (Write.mk "ncollision_out" [0] (WVal.i 1) WKind.alloc : Write Float),
          (Write.mk "collision_pair_out" [0] (WVal.iv [0, 1]) WKind.set : Write Float),
          (Write.mk "collision_pairid_out" [0] (WVal.iv [-2, -1]) WKind.set : Write Float),
          (Write.mk "collision_worldid_out" [0] (WVal.i 0) WKind.set : Write Float) ] := by
  rw [add_geom_pair_allocates_one_slot]
  simp

end Mjw.Props.C19Witness
