/-
  C09  Worlds in a batch do not influence each other.
  (1) metatheorem NI-world (Lemmas/NI.lean), for ALL task lists / interleavings / memories;
  (2) the instance side conditions on the access table regenerated from /repo (Gen/Graph.lean), by kernel `decide`.
  The link "leading index class W/WMOD in the table ⇒ the access stays in the world's own slice" is the extractor's
  reading of the source (trusted; validated by launch interception and the batch-position differential).
-/
import MjwVerif.Gen.Graph
import MjwVerif.Lemmas.NI

namespace Mjw.Props.C09
open Mjw.Discipline Mjw.Gen.Graph Mjw.NI

/-- rows that break "nworld-led Data arrays are accessed at the world id" -/
def dataWorldViolations : List (String × String × String) :=
  (((rows.filter (fun a => a.fclass == .dataWorld && !a.ok)).map (fun a => (a.kernel, a.param, a.idx0))).eraseDups).map
    (fun t => (name t.1, name t.2.1, match t.2.2 with | .wmod p => "worldid % " ++ name p ++ ".shape[0]" | _ => "other"))

/-- **Every access, in every kernel of the package, to an nworld-led Data field has the world id as leading index**,
    except `_add_surface_vel`, which reads `geom_xpos/geom_xmat` at `worldid % geom_xpos.shape[0]` — the same thing,
    because `geom_xpos` is itself nworld-led (`mod_nworld_id` below). -/
theorem data_world_indexed_by_world :
    dataWorldViolations =
      [("constraint._add_surface_vel.kernel", "geom_xpos_in", "worldid % geom_xpos_in.shape[0]"),
       ("constraint._add_surface_vel.kernel", "geom_xmat_in", "worldid % geom_xpos_in.shape[0]")] := by
  decide +kernel

theorem mod_nworld_id (w n : Int) (h0 : 0 ≤ w) (h : w < n) : Int.tmod w n = w := Int.tmod_eq_of_lt h0 h

/-- plain (non-atomic) writes to (1,)-shaped global counters from device code: only `reset_nworld`'s
    `nacon_out[0] = 0` (guarded by `worldid == 0`): the one place where one world's action changes a quantity every
    world shares (see C13). All other device accesses to global counters are atomic adds or reads. -/
def globalPlainWrites : List (String × String) :=
  named ((rows.filter (fun a => a.fclass == .global && a.rw == .write)).map (fun a => (a.kernel, a.param))).eraseDups

theorem global_counters_only_atomic : globalPlainWrites = [("io.reset_data.reset_nworld", "nacon_out")] := by
  decide +kernel

/-- shared (unbatched) Model fields are never written by device code outside `set_const` (which recomputes derived
    Model fields by design) -/
def sharedModelWrites : List (String × String) :=
  named ((rows.filter (fun a => a.fclass == .modelShared && a.rw != .read)).map (fun a => (a.kernel, a.param))).eraseDups

theorem shared_model_read_only : sharedModelWrites = [] := by decide +kernel

/-- **World non-interference** (restated from the metatheorem): for any launch sequence — any tasks, any
    interleaving of different worlds' tasks — whose tasks depend only on `visible w` and write only `owned w`
    (for nworld-led arrays: leading index w; for batched Model arrays: leading index w % n; shared read-only data),
    what world `w` can see at the end is computed by `w`'s own tasks alone, from what `w` could see at the start. -/
theorem world_noninterference {V : Type} (visible owned : Int → Loc → Prop)
    (hsub : ∀ w l, owned w l → visible w l)
    (hsep : ∀ w w' l, w ≠ w' → owned w' l → ¬ visible w l)
    (ts : List (NI.Task V)) (hd : ∀ t ∈ ts, Disciplined visible owned t) (w : Int)
    (m m' : Memory V) (h : ∀ l, visible w l → m l = m' l) :
    ∀ l, visible w l → exec m ts l = exec m' (ts.filter (fun t => t.world = w)) l :=
  noninterference visible owned hsub hsep ts hd w m m' h

/-- batch position / batch contents do not matter -/
theorem batch_position_independent {V : Type} (visible owned : Int → Loc → Prop)
    (hsub : ∀ w l, owned w l → visible w l)
    (hsep : ∀ w w' l, w ≠ w' → owned w' l → ¬ visible w l)
    (ts ts' : List (NI.Task V)) (hd : ∀ t ∈ ts, Disciplined visible owned t) (hd' : ∀ t ∈ ts', Disciplined visible owned t)
    (w : Int) (hsame : ts.filter (fun t => t.world = w) = ts'.filter (fun t => t.world = w))
    (m m' : Memory V) (h : ∀ l, visible w l → m l = m' l) :
    ∀ l, visible w l → exec m ts l = exec m' ts' l :=
  batch_independent visible owned hsub hsep ts ts' hd hd' w hsame m m' h

/-- non-vacuity: the canonical instance — `owned w` = cells with leading index `w`, `visible w` = those plus a
    shared read-only field — satisfies the separation hypotheses. -/
example : let owned := fun (w : Int) (l : Loc) => l.field ≠ "model" ∧ l.idx.head? = some w
          let visible := fun (w : Int) (l : Loc) => l.field = "model" ∨ (l.field ≠ "model" ∧ l.idx.head? = some w)
          (∀ w l, owned w l → visible w l) ∧ (∀ w w' l, w ≠ w' → owned w' l → ¬ visible w l) := by
  refine ⟨fun w l h => Or.inr h, ?_⟩
  intro w w' l hne ho hv
  rcases hv with hm | ⟨_, hw⟩
  · exact ho.1 hm
  · have := ho.2; rw [hw] at this; exact hne (by simpa using this)

end Mjw.Props.C09
