/-
  C28, part 3  ("island_maps_inverse"):  when constraint islands are computed, the dof maps
  `map_dof2idof` / `map_idof2dof` and the constraint maps `map_efc2iefc` / `map_iefc2efc` are mutually
  inverse permutations consistent with the per-island counts.

  Source: /repo/mujoco_warp/_src/island.py, host function `compute_island_mapping` and the kernels
  `_island_count_dofs`, `_island_count_constraints`, `_island_scan_sizes`, `_island_map_dofs`,
  `_island_map_constraints` (translated: `Mjw.Gen.Island.*`, regenerated on every run).
  Model: `Model/IslandMaps.lean` (one world; a launch = its tasks one after another in ANY order `order`,
  a permutation of the grid; the value an `atomic_add` returns is the counter's CURRENT content).

  § 1  kernel level, every scalar type `K`, every input: the write list of each generated kernel IS the
       model's task write list (`*_refines`); `_island_scan_sizes` writes exactly the exclusive prefix sums
       (`scan_sizes_refines` — loop invariant over its own writes — and `scan_sizes_memory`).
  § 2  `island_maps_inverse`: the dof pipeline (init, count in `order1`, scan, map in `order2`).
  § 3  `island_efc_maps_inverse_partial`: the constraint pipeline, restricted to constraints WITH an island.
  § 4  launch level on an integer memory `IMem = String → List Int → Int`: folding the GENERATED kernels'
       write lists over `order`, with the `alloc` parameters read from the current memory, is the model's
       launch (`*_launch_refines`), hence the inverse-map statements hold of the memory after the generated
       launch (`map_dofs_launch_inverse`, `map_constraints_launch_inverse`).
  § 5  examples (nv = 5, islands [1,0,-1,1,0]; 6 constraints) by `decide`.

  Modelling assumptions (NOT theorems):
  (a) thread semantics: a launch = serial execution of its tasks in an arbitrary order; `atomic_add`
      returns the current cell content (`alloc` parameter := current memory), `atomic_min` takes the min.
  (b) chaining of launches: § 4 is per launch, in the kernels' PARAMETER names.  That `d.island_nv` is
      `island_nv_out` of the count pass and `island_nv_inout` of scan and map pass, `d.dof_island` is
      `dof_island_out` / `dof_island_in`, … (the argument lists in `compute_island_mapping`), and the host-side
      `wp.zeros` / `fill_(nv)` between launches, is what `dofPipeline` / `efcPipeline` encode by hand.
  (c) one world at a time: tasks of other worlds touch other cells (`map_dofs_other_world` shows it for
      `_island_map_dofs`); Int instead of int32.
  (d) hypothesis `isl d < nisland` (`tree_island < nisland`): guaranteed by the flood fill (C28 parts 1-2),
      not re-proved here.  `_island_scan_sizes` only scans islands `0..nisland-1`.

  Findings recorded here rather than hidden:
  * The order INSIDE an island's block depends on the thread order (`order_dependent_*` examples): the
    maps are not a deterministic function of the inputs, only "some valid grouping permutation".
  * Constraints without island (`efc_island < 0`) are NOT mapped: `map_efc2iefc` keeps the 0 written by
    `_init_efc_arrays`, which collides with the island constraint mapped to 0; the constraint maps are a
    bijection only between island constraints and `[0, Σ island_nefc)`.  Witness:
    `Props/C28MapsWitness.lean`.
-/
import MjwVerif.Lemmas.Real
import MjwVerif.Lemmas.C28Maps
import MjwVerif.Gen.Island

namespace Mjw.Props.C28
open Mjw Mjw.IslandMaps Mjw.Lemmas.C28Maps

/-! ## 1. The generated kernels perform exactly the model's task writes -/

/-- (1a) `_island_count_dofs`, thread `(w, d)`: `dof_island[w,d] = tree_island[w, dof_treeid[d]]` and, if
    that is ≥ 0, `island_nv[w, ·] += 1`. -/
theorem count_dofs_refines {K : Type} [Scalar K] (dof_treeid : Int → Int)
    (tree_island_in dof_island_out island_nv_out : Int → Int → Int) (w d : Int) :
    Gen.Island._island_count_dofs (K := K) dof_treeid tree_island_in dof_island_out island_nv_out w d
      = countDofWrites w d (tree_island_in w (dof_treeid d)) := by
  unfold Gen.Island._island_count_dofs countDofWrites
  by_cases h : tree_island_in w (dof_treeid d) ≥ 0 <;> simp [h]

/-- (1b) `_island_map_dofs`, thread `(w, d)`, with the atomics' return values `alloc0`, `alloc1`. -/
theorem map_dofs_refines {K : Type} [Scalar K] (nv : Int) (dof_island_in island_idofadr_in : Int → Int → Int)
    (nidof_in : Int → Int)
    (island_nv_inout island_dofadr_out map_dof2idof_out map_idof2dof_out idof_islandid_out
      unconstrained_cnt_inout : Int → Int → Int) (alloc0 alloc1 w d : Int) :
    Gen.Island._island_map_dofs (K := K) nv dof_island_in island_idofadr_in nidof_in island_nv_inout island_dofadr_out
        map_dof2idof_out map_idof2dof_out idof_islandid_out unconstrained_cnt_inout alloc0 alloc1 w d
      = mapDofWrites w d (dof_island_in w d) (island_idofadr_in w (dof_island_in w d)) (nidof_in w) alloc0 alloc1 := by
  unfold Gen.Island._island_map_dofs mapDofWrites
  by_cases h : dof_island_in w d ≥ 0 <;> simp [h]

/-- (1c) `_island_count_constraints`, thread `(w, e)`; threads with `e ≥ min(njmax, nefc[w])` write nothing. -/
theorem count_constraints_refines {K : Type} [Scalar K] (nefc_in : Int → Int) (njmax_in : Int)
    (efc_tree_in tree_island_in efc_type_in efc_island_out island_nefc_out island_ne_out island_nf_out : Int → Int → Int)
    (w e : Int) :
    Gen.Island._island_count_constraints (K := K) nefc_in njmax_in efc_tree_in tree_island_in efc_type_in efc_island_out
        island_nefc_out island_ne_out island_nf_out w e
      = countEfcWrites w e (decide (e < min njmax_in (nefc_in w))) (efc_tree_in w e) (tree_island_in w) (efc_type_in w e) := by
  unfold Gen.Island._island_count_constraints countEfcWrites cat
  by_cases ha : e < min njmax_in (nefc_in w)
  · have ha' : ¬ e ≥ min njmax_in (nefc_in w) := by omega
    by_cases ht : efc_tree_in w e < 0
    · simp [ha, ha', ht]
    · by_cases hi : tree_island_in w (efc_tree_in w e) ≥ 0
      · by_cases h0 : efc_type_in w e = 0
        · simp [ha, ha', ht, hi, h0]
        · by_cases h1 : efc_type_in w e = 1 ∨ efc_type_in w e = 2
          · simp [ha, ha', ht, hi, h0, h1]
          · simp [ha, ha', ht, hi, h0, h1]
      · simp [ha, ha', ht, hi]
  · have ha' : e ≥ min njmax_in (nefc_in w) := by omega
    simp [ha, ha']

/-- (1d) `_island_map_constraints`, thread `(w, e)`, with the atomics' return values `alloc0..2`. -/
theorem map_constraints_refines {K : Type} [Scalar K] (nefc_in : Int → Int) (njmax_in : Int)
    (efc_island_in island_iefcadr_in island_ne_in island_nf_in efc_type_in island_ne_mapped_inout island_nf_mapped_inout
      island_nother_mapped_inout island_nefc_inout map_efc2iefc_out map_iefc2efc_out iefc_islandid_out : Int → Int → Int)
    (alloc0 alloc1 alloc2 w e : Int) :
    Gen.Island._island_map_constraints (K := K) nefc_in njmax_in efc_island_in island_iefcadr_in island_ne_in island_nf_in
        efc_type_in island_ne_mapped_inout island_nf_mapped_inout island_nother_mapped_inout island_nefc_inout
        map_efc2iefc_out map_iefc2efc_out iefc_islandid_out alloc0 alloc1 alloc2 w e
      = mapEfcWrites w e (decide (e < min njmax_in (nefc_in w))) (efc_island_in w e) (efc_type_in w e)
          (island_iefcadr_in w (efc_island_in w e)) (island_ne_in w (efc_island_in w e)) (island_nf_in w (efc_island_in w e))
          alloc0 alloc1 alloc2 := by
  unfold Gen.Island._island_map_constraints mapEfcWrites cat
  by_cases ha : e < min njmax_in (nefc_in w)
  · have ha' : ¬ e ≥ min njmax_in (nefc_in w) := by omega
    by_cases hi : efc_island_in w e ≥ 0
    · by_cases h0 : efc_type_in w e = 0
      · simp [ha, ha', hi, h0]
      · by_cases h1 : efc_type_in w e = 1 ∨ efc_type_in w e = 2
        · simp [ha, ha', hi, h0, h1]
        · simp [ha, ha', hi, h0, h1]
    · simp [ha, ha', hi]
  · have ha' : e ≥ min njmax_in (nefc_in w) := by omega
    simp [ha, ha']

/-- (1e) **`_island_scan_sizes` writes the exclusive prefix sums**: for `0 ≤ nisland[w]` its write list is
    the closed form `scanWrites` (`island_idofadr[w,i] := Σ_{k<i} island_nv[w,k]`, same for `iefcadr`,
    `nidof[w] := Σ_{k<nisland}`, then both counters := 0 on `[0, nisland)`).  The loop reads its own writes
    (`Write.lookupI ws …`); the proof is the loop invariant `Lemmas.C28Maps.scan_loop`. -/
theorem scan_sizes_refines {K : Type} [Scalar K] (nisland_in : Int → Int)
    (island_idofadr_out island_nv_inout island_nefc_inout island_iefcadr_out : Int → Int → Int)
    (nidof_out : Int → Int) (w : Int) (h0 : 0 ≤ nisland_in w) :
    Gen.Island._island_scan_sizes (K := K) nisland_in island_idofadr_out island_nv_inout island_nefc_inout
        island_iefcadr_out nidof_out w
      = scanWrites w (nisland_in w) (island_nv_inout w) (island_nefc_inout w) :=
  scan_sizes_eq nisland_in island_idofadr_out island_nv_inout island_nefc_inout island_iefcadr_out nidof_out w h0

/-- (1e') the same as cell contents after the task (`Write.lookupI ws arr idx old` = content of `arr[idx]`
    after applying `ws` to a cell that held `old`): prefix sums on `[0, nisland)`, other cells untouched,
    `nidof` = total, counters zero on `[0, nisland)`.  (`nisland = 0`: only `nidof := 0`.) -/
theorem scan_sizes_prefix_sums {K : Type} [Scalar K] (nisland_in : Int → Int)
    (island_idofadr_out island_nv_inout island_nefc_inout island_iefcadr_out : Int → Int → Int)
    (nidof_out : Int → Int) (w : Int) (n : Nat) (hn : nisland_in w = n) :
    let ws := Gen.Island._island_scan_sizes (K := K) nisland_in island_idofadr_out island_nv_inout island_nefc_inout
      island_iefcadr_out nidof_out w
    let nvc := island_nv_inout w
    let nefc := island_nefc_inout w
    (∀ c : Int, Write.lookupI ws "island_idofadr_out" [w, c] (island_idofadr_out w c)
        = if 0 ≤ c ∧ c < n then psum nvc c.toNat else island_idofadr_out w c) ∧
    (∀ c : Int, Write.lookupI ws "island_iefcadr_out" [w, c] (island_iefcadr_out w c)
        = if 0 ≤ c ∧ c < n then psum nefc c.toNat else island_iefcadr_out w c) ∧
    (∀ c : Int, Write.lookupI ws "island_nv_inout" [w, c] (nvc c) = if 0 ≤ c ∧ c < n then 0 else nvc c) ∧
    (∀ c : Int, Write.lookupI ws "island_nefc_inout" [w, c] (nefc c) = if 0 ≤ c ∧ c < n then 0 else nefc c) ∧
    Write.lookupI ws "nidof_out" [w] (nidof_out w) = psum nvc n := by
  intro ws nvc nefc
  have hws : ws = scanWrites w (n : Int) nvc nefc := by
    rw [← hn]; exact scan_sizes_refines _ _ _ _ _ _ w (by omega)
  rw [hws]
  exact scanWrites_effect w nvc nefc (island_idofadr_out w) (island_iefcadr_out w) n (nidof_out w)

/-- (1f) a thread of `_island_map_constraints` whose constraint has NO island writes nothing at all —
    kernel-level source of the `_partial` in § 3. -/
theorem map_constraints_no_island_no_writes {K : Type} [Scalar K] (nefc_in : Int → Int) (njmax_in : Int)
    (efc_island_in a2 a3 a4 a5 a6 a7 a8 a9 a10 a11 a12 : Int → Int → Int) (alloc0 alloc1 alloc2 w e : Int)
    (h : efc_island_in w e < 0) :
    Gen.Island._island_map_constraints (K := K) nefc_in njmax_in efc_island_in a2 a3 a4 a5 a6 a7 a8 a9 a10 a11 a12
      alloc0 alloc1 alloc2 w e = [] := by
  rw [map_constraints_refines]
  unfold mapEfcWrites
  have : ¬ efc_island_in w e ≥ 0 := by omega
  rw [if_neg this]
  split <;> rfl

/-- (1g) the initialisation kernels: what the pipelines of `Model/IslandMaps.lean` start from. -/
theorem init_efc_arrays_writes {K : Type} [Scalar K] (a1 a2 a3 a4 a5 : Int → Int → Int) (w e : Int) :
    Gen.Island._init_efc_arrays (K := K) a1 a2 a3 a4 a5 w e
      = [(Write.mk "efc_island_out" [w, e] (WVal.i (-1)) WKind.set : Write K),
         (Write.mk "map_efc2iefc_out" [w, e] (WVal.i 0) WKind.set : Write K),
         (Write.mk "map_iefc2efc_out" [w, e] (WVal.i 0) WKind.set : Write K),
         (Write.mk "iefc_islandid_out" [w, e] (WVal.i (-1)) WKind.set : Write K),
         (Write.mk "efc_tree_out" [w, e] (WVal.i (-1)) WKind.set : Write K)] := rfl

theorem init_dof_arrays_writes {K : Type} [Scalar K] (a1 a2 a3 a4 : Int → Int → Int) (w d : Int) :
    Gen.Island._init_dof_arrays (K := K) a1 a2 a3 a4 w d
      = [(Write.mk "dof_island_out" [w, d] (WVal.i (-1)) WKind.set : Write K),
         (Write.mk "map_dof2idof_out" [w, d] (WVal.i 0) WKind.set : Write K),
         (Write.mk "map_idof2dof_out" [w, d] (WVal.i 0) WKind.set : Write K),
         (Write.mk "idof_islandid_out" [w, d] (WVal.i (-1)) WKind.set : Write K)] := rfl

theorem init_island_arrays_writes {K : Type} [Scalar K] (a1 a2 a3 a4 a5 a6 : Int → Int → Int) (a7 : Int → Int) (w c : Int) :
    Gen.Island._init_island_arrays (K := K) a1 a2 a3 a4 a5 a6 a7 w c
      = [(Write.mk "island_nv_out" [w, c] (WVal.i 0) WKind.set : Write K),
         (Write.mk "island_nefc_out" [w, c] (WVal.i 0) WKind.set : Write K),
         (Write.mk "island_ne_out" [w, c] (WVal.i 0) WKind.set : Write K),
         (Write.mk "island_nf_out" [w, c] (WVal.i 0) WKind.set : Write K),
         (Write.mk "island_idofadr_out" [w, c] (WVal.i 0) WKind.set : Write K),
         (Write.mk "island_iefcadr_out" [w, c] (WVal.i 0) WKind.set : Write K)]
        ++ (if c = 0 then [(Write.mk "nidof_out" [w] (WVal.i 0) WKind.set : Write K)] else []) := by
  unfold Gen.Island._init_island_arrays
  by_cases h : c = 0 <;> simp [h]

/-! ## 2. The dof maps -/

/-- (2) **island_maps_inverse**.  One world, `nv` dofs, `isl d = tree_island[dof_treeid[d]] < nisland`.
    Run the pipeline of `compute_island_mapping`: zero-init, `_island_count_dofs` in ANY task order `order1`,
    `_island_scan_sizes`, `island_dofadr.fill_(nv)`, `unconstrained_cnt = 0`, `_island_map_dofs` in ANY
    task order `order2` (each `atomic_add` returning the counter's current content).  Then, with
    `nvc c = #{d < nv | isl d = c}`:
    * the scan produced `island_idofadr[c] = Σ_{k<c} nvc k` (c < nisland) and `nidof = Σ_{k<nisland} nvc k`;
    * (a) `map_idof2dof[map_dof2idof[d]] = d`, (b) `map_dof2idof[map_idof2dof[i]] = i` for `d, i < nv`;
    * (c) both map `[0,nv)` into `[0,nv)` — so they are mutually inverse permutations of `[0,nv)`;
    * (d) island dofs first, grouped by island: `isl d = c ≥ 0 ⇒ idofadr c ≤ map_dof2idof d < idofadr c + nvc c`
      (in particular `< nidof`) and `dof_islandid[map_dof2idof d] = c`;
    * (e) `isl d < 0 ⇒ nidof ≤ map_dof2idof d < nv`, and `dof_islandid` there is still the initial `-1`;
    * (f) the re-counted `island_nv[c]` is `nvc c` again; `island_dofadr[c]` is the smallest dof of island
      `c` (`nv` if the island has no dof).

    NOT claimed (and false): which dof of an island gets which slot of the island's block — that depends
    on `order2` (see the `order_dependent` examples below); both results satisfy all of the above. -/
theorem island_maps_inverse (nv nisland : Nat) (isl : Nat → Int) (order1 order2 : List Nat)
    (hp1 : order1.Perm (List.range nv)) (hp2 : order2.Perm (List.range nv))
    (hisl : ∀ d, d < nv → isl d < nisland) :
    let m := (dofPipeline nv nisland isl order1 order2).1
    let sc := (dofPipeline nv nisland isl order1 order2).2
    let nvc : Int → Int := islandCount nv isl
    ((∀ c : Nat, c < nisland → sc.idofadr c = psum nvc c) ∧ sc.nidof = psum nvc nisland) ∧
    (∀ d : Nat, d < nv → m.idof2dof (m.dof2idof d) = d) ∧
    (∀ i : Nat, i < nv → m.dof2idof (m.idof2dof i) = i) ∧
    (∀ d : Nat, d < nv → 0 ≤ m.dof2idof d ∧ m.dof2idof d < nv) ∧
    (∀ i : Nat, i < nv → 0 ≤ m.idof2dof i ∧ m.idof2dof i < nv) ∧
    (∀ d : Nat, d < nv → 0 ≤ isl d →
      sc.idofadr (isl d) ≤ m.dof2idof d ∧ m.dof2idof d < sc.idofadr (isl d) + nvc (isl d)
        ∧ m.dof2idof d < sc.nidof ∧ m.idofIsland (m.dof2idof d) = isl d) ∧
    (∀ d : Nat, d < nv → isl d < 0 →
      sc.nidof ≤ m.dof2idof d ∧ m.dof2idof d < nv ∧ m.idofIsland (m.dof2idof d) = -1) ∧
    (∀ c : Int, 0 ≤ c → m.islandNv c = nvc c) ∧
    (∀ c : Int, 0 ≤ c → (∀ d : Nat, d < nv → isl d = c → m.dofadr c ≤ d) ∧
      ((∃ d : Nat, d < nv ∧ isl d = c ∧ m.dofadr c = d) ∨ ((∀ d : Nat, d < nv → isl d ≠ c) ∧ m.dofadr c = nv))) := by
  intro m sc nvc
  have hadr : ∀ c : Nat, c < nisland → sc.idofadr c = psum nvc c := fun c hc => dofPipeline_idofadr hp1 c hc
  have hnid : sc.nidof = psum nvc nisland := dofPipeline_nidof hp1
  have hs0 : ∀ c : Nat, c < nisland → (dofInit nv nisland isl order1).islandNv c = 0 := by
    intro c hc
    have hi : (dofInit nv nisland isl order1).islandNv c
        = if 0 ≤ (c : Int) ∧ (c : Int) < (nisland : Int) then 0 else countDofs isl order1 (fun _ => 0) c := rfl
    rw [hi, if_pos ⟨by omega, by omega⟩]
  obtain ⟨h1, h2, h3, h4, h5, h6, h7, h8⟩ :=
    mapDofs_spec nv nisland isl sc.idofadr sc.nidof order2 (dofInit nv nisland isl order1) hp2 hisl hadr hnid hs0 rfl
  refine ⟨⟨hadr, hnid⟩, h1, h2, h3, h4, h5, ?_, ?_, ?_⟩
  · intro d hd h0
    obtain ⟨a, b, c⟩ := h6 d hd h0
    exact ⟨a, b, c⟩
  · intro c hc
    have := h7 c hc
    have hi : (dofInit nv nisland isl order1).islandNv c
        = if 0 ≤ c ∧ c < (nisland : Int) then 0 else countDofs isl order1 (fun _ => 0) c := rfl
    rw [hi] at this
    by_cases hcn : c < nisland
    · rw [if_pos ⟨hc, hcn⟩] at this; exact this.trans (Int.zero_add _)
    · rw [if_neg (fun h => hcn h.2), countDofs_pipeline hp1 c hc] at this
      have hz : cntI isl (List.range nv) c = 0 := cntI_eq_zero (fun t ht e => by
        have := hisl t (List.mem_range.mp ht); omega)
      have e0 : islandCount nv isl c = 0 := by simp [islandCount, hz]
      rw [e0] at this
      exact this.trans (by show (0 : Int) + 0 = islandCount nv isl c; rw [e0]; rfl)
  · intro c hc
    obtain ⟨hle, -, hat⟩ := h8 c hc
    refine ⟨hle, ?_⟩
    rcases hat with h | h
    · exact Or.inl h
    · by_cases hex : ∃ d : Nat, d < nv ∧ isl d = c
      · obtain ⟨d, hd, e⟩ := hex
        have h1 := hle d hd e
        rw [h] at h1
        change (nv : Int) ≤ d at h1
        omega
      · exact Or.inr ⟨fun d hd e => hex ⟨d, hd, e⟩, h⟩

/-! ## 3. The constraint maps (constraints WITH an island only) -/

/-- (3) **island_efc_maps_inverse_partial**.  One world, `n = min(njmax, nefc)` active constraints,
    `eisl e = efc_island[e] < nisland`, `ety e = efc_type[e]`, categories `cat`: 0 = EQUALITY,
    1 = FRICTION_DOF/FRICTION_TENDON, 2 = the rest.  Pipeline: zero-init, `_island_count_constraints` in any
    order `order1`, `_island_scan_sizes`, `ne/nf/nother_mapped = 0`, `_island_map_constraints` in any order
    `order2`.  With `tot = Σ_{c<nisland} #{e | eisl e = c}`:
    * the counters are the true counts (`nefc = ne + nf + nother`), `island_iefcadr` their prefix sums;
    * island constraints are mapped into `[0, tot)`, `map_iefc2efc[map_efc2iefc[e]] = e`,
      `efc_islandid[map_efc2iefc[e]] = eisl e`;
    * every `i < tot` is `map_efc2iefc[e]` of an island constraint `e = map_iefc2efc[i]`
      (so the maps are a BIJECTION between `{e < n | eisl e ≥ 0}` and `[0, tot)`);
    * inside island `c`'s block `[iefcadr c, iefcadr c + nefc c)`: equality constraints first (`ne c`),
      then friction (`nf c`), then the others;
    * the re-counted `island_nefc[c]` is the count again;
    * constraints WITHOUT island are not mapped at all: `map_efc2iefc[e]` keeps the initial 0.

    PARTIAL: the full statement "`map_efc2iefc` / `map_iefc2efc` are mutually inverse permutations of
    `[0, n)`" is FALSE as soon as one constraint has no island and one has (last item: the unmapped
    constraint's 0 collides with the island constraint in slot 0) — `island_efc_maps_inverse_witness` in
    `Props/C28MapsWitness.lean`.  What is missing is in the SOURCE (no slot is assigned to
    `efc_island < 0`), not in the proof. -/
theorem island_efc_maps_inverse_partial (n nisland : Nat) (eisl ety : Nat → Int) (order1 order2 : List Nat)
    (hp1 : order1.Perm (List.range n)) (hp2 : order2.Perm (List.range n))
    (hisl : ∀ e, e < n → eisl e < nisland) :
    let m := (efcPipeline nisland eisl ety order1 order2).1
    let cn := (efcPipeline nisland eisl ety order1 order2).2.1
    let sc := (efcPipeline nisland eisl ety order1 order2).2.2
    let tot : Int := psum (islandCount n eisl) nisland
    ((∀ c : Int, 0 ≤ c → cn.nefc c = islandCount n eisl c ∧ cn.ne c = catCount n eisl ety c 0
        ∧ cn.nf c = catCount n eisl ety c 1
        ∧ cn.nefc c = catCount n eisl ety c 0 + catCount n eisl ety c 1 + catCount n eisl ety c 2) ∧
      (∀ c : Nat, c < nisland → sc.iefcadr c = psum (islandCount n eisl) c)) ∧
    (∀ e : Nat, e < n → 0 ≤ eisl e →
      0 ≤ m.efc2iefc e ∧ m.efc2iefc e < tot ∧ m.iefc2efc (m.efc2iefc e) = e ∧ m.iefcIsland (m.efc2iefc e) = eisl e) ∧
    (∀ i : Nat, (i : Int) < tot → ∃ e : Nat, e < n ∧ 0 ≤ eisl e ∧ m.iefc2efc i = e ∧ m.efc2iefc e = i) ∧
    (∀ e : Nat, e < n → 0 ≤ eisl e →
      let a := sc.iefcadr (eisl e); let ne := cn.ne (eisl e); let nf := cn.nf (eisl e)
      (cat (ety e) = 0 → a ≤ m.efc2iefc e ∧ m.efc2iefc e < a + ne) ∧
      (cat (ety e) = 1 → a + ne ≤ m.efc2iefc e ∧ m.efc2iefc e < a + ne + nf) ∧
      (cat (ety e) = 2 → a + ne + nf ≤ m.efc2iefc e ∧ m.efc2iefc e < a + cn.nefc (eisl e))) ∧
    (∀ c : Int, 0 ≤ c → m.islandNefc c = islandCount n eisl c) ∧
    (∀ e : Nat, e < n → eisl e < 0 → m.efc2iefc e = 0) := by
  intro m cn sc tot
  have hcounts := fun (c : Int) (hc : 0 ≤ c) =>
    efcPipeline_counts (nisland := nisland) (eisl := eisl) (ety := ety) (order2 := order2) hp1 c hc
  have hadr : ∀ c : Nat, c < nisland → sc.iefcadr c = psum (islandCount n eisl) c :=
    fun c hc => efcPipeline_iefcadr hp1 c hc
  have hne : ∀ c : Nat, c < nisland → cn.ne c = catCount n eisl ety c 0 := fun c _ => (hcounts c (by omega)).2.1
  have hnf : ∀ c : Nat, c < nisland → cn.nf c = catCount n eisl ety c 1 := fun c _ => (hcounts c (by omega)).2.2
  obtain ⟨h1, h2, h3, h4, h5, -⟩ :=
    mapEfcs_spec n nisland eisl ety sc.iefcadr cn.ne cn.nf order2 (efcInit nisland eisl ety order1) hp2 hisl hadr hne hnf
      (fun _ _ => ⟨rfl, rfl, rfl⟩)
  refine ⟨⟨fun c hc => ?_, hadr⟩, h1, h2, ?_, ?_, fun e he hneg => h5 e he hneg⟩
  · obtain ⟨a, b, c'⟩ := hcounts c hc
    refine ⟨a, b, c', ?_⟩
    rw [a]
    simp only [islandCount, catCount]
    rw [cntI_split eisl ety]; push_cast; rfl
  · intro e he h0
    have := h3 e he h0
    rw [show cn.nefc (eisl e) = islandCount n eisl (eisl e) from (hcounts _ h0).1]
    exact this
  · intro c hc
    have := h4 c hc
    have hi : (efcInit nisland eisl ety order1).islandNefc c
        = if 0 ≤ c ∧ c < (nisland : Int) then 0
          else (countEfcs eisl ety order1 ⟨fun _ => 0, fun _ => 0, fun _ => 0⟩).nefc c := rfl
    rw [hi] at this
    by_cases hcn : c < nisland
    · rw [if_pos ⟨hc, hcn⟩] at this; exact this.trans (Int.zero_add _)
    · rw [if_neg (fun h => hcn h.2), show (countEfcs eisl ety order1 ⟨fun _ => 0, fun _ => 0, fun _ => 0⟩).nefc c
          = islandCount n eisl c from (hcounts c hc).1] at this
      have hz : cntI eisl (List.range n) c = 0 := cntI_eq_zero (fun t ht e => by
        have := hisl t (List.mem_range.mp ht); omega)
      have e0 : islandCount n eisl c = 0 := by simp [islandCount, hz]
      rw [e0] at this
      exact this.trans (by rw [e0]; rfl)

/-! ## 4. Launch level: the generated kernels folded over an integer memory -/

/-- (4a) **the generated launch is the model's launch**, seen through world `w`'s cells -/
theorem map_dofs_launch_refines (K : Type) [Scalar K] (nv w : Int) (order : List Nat) (m0 : IMem) :
    dofView w (launchMapDofs K nv w order m0)
      = mapDofs (fun d => m0 "dof_island_in" [w, d]) (fun c => m0 "island_idofadr_in" [w, c]) (m0 "nidof_in" [w])
          order (dofView w m0) := by
  unfold launchMapDofs
  simp only [map_dofs_refines]
  generalize hm : m0 = m
  rw [show dofView w m = dofView w m from rfl]
  -- only the accumulator varies; the inputs stay those of `m0`
  have key : ∀ (l : List Nat) (m : IMem),
      dofView w (l.foldl (fun m (d : Nat) => applyWrites m
        (mapDofWrites (K := K) w d (m0 "dof_island_in" [w, d]) (m0 "island_idofadr_in" [w, m0 "dof_island_in" [w, d]])
          (m0 "nidof_in" [w]) (m "island_nv_inout" [w, m0 "dof_island_in" [w, d]]) (m "unconstrained_cnt_inout" [w, 0]))) m)
      = mapDofs (fun d => m0 "dof_island_in" [w, d]) (fun c => m0 "island_idofadr_in" [w, c]) (m0 "nidof_in" [w])
          l (dofView w m) := by
    intro l
    induction l with
    | nil => intro m; rfl
    | cons a l ih =>
      intro m
      rw [List.foldl_cons, ih, dofView_mapDofWrites]
      rfl
  subst hm
  exact key order m0

/-- (4a') tasks of another world `w' ≠ w` leave world `w`'s cells alone (whatever their inputs) -/
theorem map_dofs_other_world {K : Type} [Scalar K] (nv : Int) (dof_island_in island_idofadr_in : Int → Int → Int)
    (nidof_in : Int → Int) (o1 o2 o3 o4 o5 o6 : Int → Int → Int) (alloc0 alloc1 w w' d : Int) (m : IMem) (hw : w' ≠ w) :
    dofView w (applyWrites m (Gen.Island._island_map_dofs (K := K) nv dof_island_in island_idofadr_in nidof_in
      o1 o2 o3 o4 o5 o6 alloc0 alloc1 w' d)) = dofView w m := by
  rw [map_dofs_refines]; exact dofView_mapDofWrites_other w w' d _ _ _ _ _ m hw

/-- (4b) **map_dofs_launch_inverse**: end-to-end on memory.  If before the launch, for world `w`,
    `dof_island < nisland`, `island_idofadr` = prefix sums of the island sizes, `nidof` = their total,
    `island_nv` is zero on `[0, nisland)` and `unconstrained_cnt = 0` — then after the generated launch in
    ANY task order the two map arrays are mutually inverse permutations of `[0, nv)`, island dofs sit in
    their island's block with `idof_islandid` = their island, the others in `[nidof, nv)`. -/
theorem map_dofs_launch_inverse (K : Type) [Scalar K] (nv nisland : Nat) (w : Int) (order : List Nat) (m0 : IMem)
    (hp : order.Perm (List.range nv))
    (hisl : ∀ d : Nat, d < nv → m0 "dof_island_in" [w, d] < nisland)
    (hadr : ∀ c : Nat, c < nisland →
      m0 "island_idofadr_in" [w, c] = psum (islandCount nv (fun d => m0 "dof_island_in" [w, d])) c)
    (hnid : m0 "nidof_in" [w] = psum (islandCount nv (fun d => m0 "dof_island_in" [w, d])) nisland)
    (hz : ∀ c : Nat, c < nisland → m0 "island_nv_inout" [w, c] = 0) (hu : m0 "unconstrained_cnt_inout" [w, 0] = 0) :
    let m := launchMapDofs K nv w order m0
    let isl : Nat → Int := fun d => m0 "dof_island_in" [w, d]
    (∀ d : Nat, d < nv → m "map_idof2dof_out" [w, m "map_dof2idof_out" [w, d]] = d) ∧
    (∀ i : Nat, i < nv → m "map_dof2idof_out" [w, m "map_idof2dof_out" [w, i]] = i) ∧
    (∀ d : Nat, d < nv → 0 ≤ m "map_dof2idof_out" [w, d] ∧ m "map_dof2idof_out" [w, d] < nv) ∧
    (∀ i : Nat, i < nv → 0 ≤ m "map_idof2dof_out" [w, i] ∧ m "map_idof2dof_out" [w, i] < nv) ∧
    (∀ d : Nat, d < nv → 0 ≤ isl d →
      m0 "island_idofadr_in" [w, isl d] ≤ m "map_dof2idof_out" [w, d]
      ∧ m "map_dof2idof_out" [w, d] < m0 "island_idofadr_in" [w, isl d] + islandCount nv isl (isl d)
      ∧ m "idof_islandid_out" [w, m "map_dof2idof_out" [w, d]] = isl d) ∧
    (∀ d : Nat, d < nv → isl d < 0 → m0 "nidof_in" [w] ≤ m "map_dof2idof_out" [w, d]) ∧
    (∀ c : Nat, c < nisland → m "island_nv_inout" [w, c] = islandCount nv isl c) := by
  intro m isl
  have hv := map_dofs_launch_refines K nv w order m0
  obtain ⟨h1, h2, h3, h4, h5, h6, h7, -⟩ :=
    mapDofs_spec nv nisland isl (fun c => m0 "island_idofadr_in" [w, c]) (m0 "nidof_in" [w]) order (dofView w m0)
      hp hisl hadr hnid hz hu
  rw [← hv] at h1 h2 h3 h4 h5 h6 h7
  refine ⟨h1, h2, h3, h4, fun d hd h0 => ?_, fun d hd h0 => (h6 d hd h0).1, fun c hc => ?_⟩
  · obtain ⟨a, b, -, c⟩ := h5 d hd h0
    exact ⟨a, b, c⟩
  · have := h7 c (by omega)
    rw [show (dofView w m0).islandNv c = m0 "island_nv_inout" [w, c] from rfl, hz c hc] at this
    exact this.trans (Int.zero_add _)

/-- (4c) the generated constraint launch over ACTIVE threads (`e < min(njmax, nefc[w])`) is the model's -/
theorem map_constraints_launch_refines (K : Type) [Scalar K] (njmax w : Int) (order : List Nat) (m0 : IMem)
    (hact : ∀ e ∈ order, (e : Int) < min njmax (m0 "nefc_in" [w])) :
    efcView w (launchMapEfcs K njmax w order m0)
      = mapEfcs (fun e => m0 "efc_island_in" [w, e]) (fun e => m0 "efc_type_in" [w, e])
          (fun c => m0 "island_iefcadr_in" [w, c]) (fun c => m0 "island_ne_in" [w, c]) (fun c => m0 "island_nf_in" [w, c])
          order (efcView w m0) := by
  unfold launchMapEfcs
  simp only [map_constraints_refines]
  have key : ∀ (l : List Nat) (m : IMem), (∀ e ∈ l, (e : Int) < min njmax (m0 "nefc_in" [w])) →
      efcView w (l.foldl (fun m (e : Nat) => applyWrites m
        (mapEfcWrites (K := K) w e (decide ((e : Int) < min njmax (m0 "nefc_in" [w]))) (m0 "efc_island_in" [w, e])
          (m0 "efc_type_in" [w, e]) (m0 "island_iefcadr_in" [w, m0 "efc_island_in" [w, e]])
          (m0 "island_ne_in" [w, m0 "efc_island_in" [w, e]]) (m0 "island_nf_in" [w, m0 "efc_island_in" [w, e]])
          (m "island_ne_mapped_inout" [w, m0 "efc_island_in" [w, e]])
          (m "island_nf_mapped_inout" [w, m0 "efc_island_in" [w, e]])
          (m "island_nother_mapped_inout" [w, m0 "efc_island_in" [w, e]]))) m)
      = mapEfcs (fun e => m0 "efc_island_in" [w, e]) (fun e => m0 "efc_type_in" [w, e])
          (fun c => m0 "island_iefcadr_in" [w, c]) (fun c => m0 "island_ne_in" [w, c]) (fun c => m0 "island_nf_in" [w, c])
          l (efcView w m) := by
    intro l
    induction l with
    | nil => intro m _; rfl
    | cons a l ih =>
      intro m hl
      have ha : decide ((a : Int) < min njmax (m0 "nefc_in" [w])) = true := by simpa using hl a (by simp)
      rw [List.foldl_cons, ih _ (fun e he => hl e (List.mem_cons_of_mem _ he)), ha, efcView_mapEfcWrites]
      rfl
  exact key order m0 hact

/-- (4c') threads beyond the active range write nothing -/
theorem map_constraints_inactive {K : Type} [Scalar K] (nefc_in : Int → Int) (njmax_in : Int)
    (a1 a2 a3 a4 a5 a6 a7 a8 a9 a10 a11 a12 : Int → Int → Int) (alloc0 alloc1 alloc2 w e : Int)
    (h : min njmax_in (nefc_in w) ≤ e) :
    Gen.Island._island_map_constraints (K := K) nefc_in njmax_in a1 a2 a3 a4 a5 a6 a7 a8 a9 a10 a11 a12
      alloc0 alloc1 alloc2 w e = [] := by
  rw [map_constraints_refines]
  have : decide (e < min njmax_in (nefc_in w)) = false := decide_eq_false (by omega)
  rw [this]; exact mapEfcWrites_inactive _ _ _ _ _ _ _ _ _ _

/-- (4d) **map_constraints_launch_inverse**: end-to-end on memory, for `n = min(njmax, nefc[w])` active
    constraints: if before the launch `efc_island < nisland`, `island_iefcadr` = prefix sums of the island
    constraint counts, `island_ne` / `island_nf` = the category counts, and the three `*_mapped` counters
    are zero on `[0, nisland)` — then after the generated launch in ANY order the island constraints and
    `[0, tot)` are in bijection through the two map arrays, `iefc_islandid` is consistent, and constraints
    without island keep their old `map_efc2iefc` cell. -/
theorem map_constraints_launch_inverse (K : Type) [Scalar K] (n nisland : Nat) (njmax w : Int) (order : List Nat) (m0 : IMem)
    (hn : min njmax (m0 "nefc_in" [w]) = n) (hp : order.Perm (List.range n))
    (hisl : ∀ e : Nat, e < n → m0 "efc_island_in" [w, e] < nisland)
    (hadr : ∀ c : Nat, c < nisland →
      m0 "island_iefcadr_in" [w, c] = psum (islandCount n (fun e => m0 "efc_island_in" [w, e])) c)
    (hne : ∀ c : Nat, c < nisland → m0 "island_ne_in" [w, c]
      = catCount n (fun e => m0 "efc_island_in" [w, e]) (fun e => m0 "efc_type_in" [w, e]) c 0)
    (hnf : ∀ c : Nat, c < nisland → m0 "island_nf_in" [w, c]
      = catCount n (fun e => m0 "efc_island_in" [w, e]) (fun e => m0 "efc_type_in" [w, e]) c 1)
    (hz : ∀ c : Nat, c < nisland → m0 "island_ne_mapped_inout" [w, c] = 0 ∧ m0 "island_nf_mapped_inout" [w, c] = 0
      ∧ m0 "island_nother_mapped_inout" [w, c] = 0) :
    let m := launchMapEfcs K njmax w order m0
    let eisl : Nat → Int := fun e => m0 "efc_island_in" [w, e]
    let tot : Int := psum (islandCount n eisl) nisland
    (∀ e : Nat, e < n → 0 ≤ eisl e →
      0 ≤ m "map_efc2iefc_out" [w, e] ∧ m "map_efc2iefc_out" [w, e] < tot
      ∧ m "map_iefc2efc_out" [w, m "map_efc2iefc_out" [w, e]] = e
      ∧ m "iefc_islandid_out" [w, m "map_efc2iefc_out" [w, e]] = eisl e) ∧
    (∀ i : Nat, (i : Int) < tot → ∃ e : Nat, e < n ∧ 0 ≤ eisl e ∧ m "map_iefc2efc_out" [w, i] = e
      ∧ m "map_efc2iefc_out" [w, e] = i) ∧
    (∀ e : Nat, e < n → eisl e < 0 → m "map_efc2iefc_out" [w, e] = m0 "map_efc2iefc_out" [w, e]) := by
  intro m eisl tot
  have hact : ∀ e ∈ order, (e : Int) < min njmax (m0 "nefc_in" [w]) := by
    intro e he
    have := (perm_range_mem hp e).mp he
    rw [hn]; exact_mod_cast this
  have hv := map_constraints_launch_refines K njmax w order m0 hact
  obtain ⟨h1, h2, -, -, h5, -⟩ :=
    mapEfcs_spec n nisland eisl (fun e => m0 "efc_type_in" [w, e]) (fun c => m0 "island_iefcadr_in" [w, c])
      (fun c => m0 "island_ne_in" [w, c]) (fun c => m0 "island_nf_in" [w, c]) order (efcView w m0)
      hp hisl hadr hne hnf hz
  rw [← hv] at h1 h2 h5
  exact ⟨h1, h2, h5⟩

/-- (4e) after the generated count launch, `island_nv_out[w, ·]` is the model's `countDofs` of the old
    content and every task's `dof_island_out[w, d]` is `tree_island[w, dof_treeid[d]]`. -/
theorem count_dofs_launch_refines (K : Type) [Scalar K] (w : Int) (order : List Nat) (m0 : IMem) :
    let isl : Nat → Int := fun d => m0 "tree_island_in" [w, m0 "dof_treeid" [d]]
    (∀ c : Int, launchCountDofs K w order m0 "island_nv_out" [w, c]
        = countDofs isl order (fun c => m0 "island_nv_out" [w, c]) c) ∧
    (∀ d ∈ order, launchCountDofs K w order m0 "dof_island_out" [w, d] = isl d) := by
  intro isl
  unfold launchCountDofs
  simp only [count_dofs_refines]
  have key : ∀ (l : List Nat) (m : IMem),
      (∀ c : Int, l.foldl (fun m (d : Nat) => applyWrites m (countDofWrites (K := K) w d (isl d))) m "island_nv_out" [w, c]
        = countDofs isl l (fun c => m "island_nv_out" [w, c]) c) ∧
      (∀ x : Int, l.foldl (fun m (d : Nat) => applyWrites m (countDofWrites (K := K) w d (isl d))) m "dof_island_out" [w, x]
        = if ∃ d ∈ l, (d : Int) = x then isl (x.toNat) else m "dof_island_out" [w, x]) := by
    intro l
    induction l with
    | nil => intro m; exact ⟨fun _ => rfl, fun x => by simp⟩
    | cons a l ih =>
      intro m
      obtain ⟨ih1, ih2⟩ := ih (applyWrites m (countDofWrites (K := K) w a (isl a)))
      refine ⟨fun c => ?_, fun x => ?_⟩
      · rw [List.foldl_cons, ih1]
        have e : (fun c => applyWrites m (countDofWrites (K := K) w a (isl a)) "island_nv_out" [w, c])
            = (if isl a ≥ 0 then upd (fun c => m "island_nv_out" [w, c]) (isl a) (m "island_nv_out" [w, isl a] + 1)
               else fun c => m "island_nv_out" [w, c]) := by
          funext c; exact (countDofWrites_effect w a (isl a) m c).1
        rw [e]; rfl
      · rw [List.foldl_cons, ih2, (countDofWrites_effect w a (isl a) m x).2]
        by_cases hx : ∃ d ∈ l, (d : Int) = x
        · have : ∃ d ∈ a :: l, (d : Int) = x := by
            obtain ⟨d, hd, e⟩ := hx; exact ⟨d, List.mem_cons_of_mem _ hd, e⟩
          rw [if_pos hx, if_pos this]
        · rw [if_neg hx]
          by_cases hxa : x = (a : Int)
          · have : ∃ d ∈ a :: l, (d : Int) = x := ⟨a, by simp, hxa.symm⟩
            rw [if_pos hxa, if_pos this, hxa]; simp
          · have : ¬ ∃ d ∈ a :: l, (d : Int) = x := by
              rintro ⟨d, hd, e⟩
              rcases List.mem_cons.mp hd with h | h
              · exact hxa (by rw [← e, h])
              · exact hx ⟨d, h, e⟩
            rw [if_neg hxa, if_neg this]
  obtain ⟨k1, k2⟩ := key order m0
  refine ⟨k1, fun d hd => ?_⟩
  rw [k2, if_pos ⟨d, hd, rfl⟩]; simp

/-- (4f) after the generated count launch over the active threads the three counters are the model's
    `countEfcs` with `efc_island = efcIsland efc_tree tree_island` (−1 for `efc_tree < 0`). -/
theorem count_constraints_launch_refines (K : Type) [Scalar K] (njmax w : Int) (order : List Nat) (m0 : IMem)
    (hact : ∀ e ∈ order, (e : Int) < min njmax (m0 "nefc_in" [w])) :
    cntView w (launchCountEfcs K njmax w order m0)
      = countEfcs (fun e => efcIsland (m0 "efc_tree_in" [w, e]) (fun t => m0 "tree_island_in" [w, t]))
          (fun e => m0 "efc_type_in" [w, e]) order (cntView w m0) := by
  unfold launchCountEfcs
  simp only [count_constraints_refines]
  have key : ∀ (l : List Nat) (m : IMem), (∀ e ∈ l, (e : Int) < min njmax (m0 "nefc_in" [w])) →
      cntView w (l.foldl (fun m (e : Nat) => applyWrites m
        (countEfcWrites (K := K) w e (decide ((e : Int) < min njmax (m0 "nefc_in" [w]))) (m0 "efc_tree_in" [w, e])
          (fun t => m0 "tree_island_in" [w, t]) (m0 "efc_type_in" [w, e]))) m)
      = countEfcs (fun e => efcIsland (m0 "efc_tree_in" [w, e]) (fun t => m0 "tree_island_in" [w, t]))
          (fun e => m0 "efc_type_in" [w, e]) l (cntView w m) := by
    intro l
    induction l with
    | nil => intro m _; rfl
    | cons a l ih =>
      intro m hl
      have ha : decide ((a : Int) < min njmax (m0 "nefc_in" [w])) = true := by simpa using hl a (by simp)
      rw [List.foldl_cons, ih _ (fun e he => hl e (List.mem_cons_of_mem _ he)), ha, cntView_countEfcWrites]
      rfl
  exact key order m0 hact

/-- (4g) `_island_scan_sizes` on memory: applying the generated task's write list to a memory `m` makes
    world `w`'s cells exactly `scanSizes` of the old cells. -/
theorem scan_sizes_memory (K : Type) [Scalar K] (w : Int) (n : Nat) (m : IMem) (hn : m "nisland_in" [w] = n) :
    let arr (name : String) : Int → Int → Int := fun a b => m name [a, b]
    let m' := applyWrites m (Gen.Island._island_scan_sizes (K := K) (fun a => m "nisland_in" [a]) (arr "island_idofadr_out")
      (arr "island_nv_inout") (arr "island_nefc_inout") (arr "island_iefcadr_out") (fun a => m "nidof_out" [a]) w)
    let sc := scanSizes n (fun c => m "island_nv_inout" [w, c]) (fun c => m "island_nefc_inout" [w, c])
      (fun c => m "island_idofadr_out" [w, c]) (fun c => m "island_iefcadr_out" [w, c])
    (∀ c, m' "island_idofadr_out" [w, c] = sc.idofadr c) ∧ (∀ c, m' "island_iefcadr_out" [w, c] = sc.iefcadr c) ∧
    (∀ c, m' "island_nv_inout" [w, c] = sc.islandNv c) ∧ (∀ c, m' "island_nefc_inout" [w, c] = sc.islandNefc c) ∧
    m' "nidof_out" [w] = sc.nidof := by
  intro arr m' sc
  have h := scan_sizes_prefix_sums (K := K) (fun a => m "nisland_in" [a]) (arr "island_idofadr_out")
    (arr "island_nv_inout") (arr "island_nefc_inout") (arr "island_iefcadr_out") (fun a => m "nidof_out" [a]) w n hn
  obtain ⟨h1, h2, h3, h4, h5⟩ := h
  refine ⟨fun c => ?_, fun c => ?_, fun c => ?_, fun c => ?_, ?_⟩
  · rw [show m' "island_idofadr_out" [w, c] = _ from applyWrites_eq_lookupI _ m _ _]; exact h1 c
  · rw [show m' "island_iefcadr_out" [w, c] = _ from applyWrites_eq_lookupI _ m _ _]; exact h2 c
  · rw [show m' "island_nv_inout" [w, c] = _ from applyWrites_eq_lookupI _ m _ _]; exact h3 c
  · rw [show m' "island_nefc_inout" [w, c] = _ from applyWrites_eq_lookupI _ m _ _]; exact h4 c
  · rw [show m' "nidof_out" [w] = _ from applyWrites_eq_lookupI _ m _ _]; exact h5

/-! ## 5. Examples -/

/-! ### model: nv = 5, `tree_island` of the dofs = [1, 0, -1, 1, 0], 2 islands -/

/-- both passes in thread order 0,1,2,3,4:
    `map_dof2idof`, `map_idof2dof`, `dof_islandid`, re-counted `island_nv`, `island_dofadr` -/
example : snapDof 5 (dofPipeline 5 2 isl5 (List.range 5) (List.range 5)).1
    = ([2, 0, 4, 3, 1], [1, 4, 0, 3, 2], [0, 0, 1, 1, -1], [2, 2], [1, 0]) := by decide

/-- both passes in thread order 4,3,2,1,0: another, equally valid pair of maps -/
example : snapDof 5 (dofPipeline 5 2 isl5 (List.range 5).reverse (List.range 5).reverse).1
    = ([3, 1, 4, 2, 0], [4, 1, 3, 0, 2], [0, 0, 1, 1, -1], [2, 2], [1, 0]) := by decide

/-- **order_dependent**: the slot of dof 0 inside island 1's block `[2,4)` depends on the thread order of the
    map pass (the order of the count pass is irrelevant) -/
example : (dofPipeline 5 2 isl5 (List.range 5) (List.range 5)).1.dof2idof 0 = 2
    ∧ (dofPipeline 5 2 isl5 (List.range 5) (List.range 5).reverse).1.dof2idof 0 = 3
    ∧ (dofPipeline 5 2 isl5 (List.range 5).reverse (List.range 5)).1.dof2idof 0 = 2 := by decide

/-- the scan results of that instance: `island_idofadr = [0, 2]`, `nidof = 4` -/
example : ((List.range 2).map (fun (c : Nat) => (dofPipeline 5 2 isl5 (List.range 5) (List.range 5)).2.idofadr c),
    (dofPipeline 5 2 isl5 (List.range 5) (List.range 5)).2.nidof) = ([0, 2], 4) := by decide

/-- the closed form: `slot` = block start + arrival rank -/
example : (List.range 5).map (slot (dofKey 2 isl5) [4, 3, 2, 1, 0]) = [3, 1, 4, 2, 0]
    ∧ (List.range 5).map (rank (dofKey 2 isl5) [4, 3, 2, 1, 0]) = [1, 1, 0, 0, 0]
    ∧ (List.range 5).map (invSlot (dofKey 2 isl5) [4, 3, 2, 1, 0]) = [4, 1, 3, 0, 2] := by decide

/-- non-vacuity of the hypotheses of `island_maps_inverse` on that instance -/
example : (List.range 5).reverse.Perm (List.range 5) ∧ (∀ d, d < 5 → isl5 d < (2 : Nat)) :=
  ⟨List.reverse_perm _, by decide⟩

/-- … and the theorem instantiated there (first conclusions) -/
example : ∀ d : Nat, d < 5 →
    (dofPipeline 5 2 isl5 (List.range 5) (List.range 5).reverse).1.idof2dof
      ((dofPipeline 5 2 isl5 (List.range 5) (List.range 5).reverse).1.dof2idof d) = d :=
  (island_maps_inverse 5 2 isl5 (List.range 5) (List.range 5).reverse (List.Perm.refl _) (List.reverse_perm _)
    (by decide)).2.1

/-! ### model: 6 active constraints, islands [0,-1,1,0,1,0], types [5,0,0,1,3,0] -/

/-- `map_efc2iefc`, `map_iefc2efc`, `efc_islandid`, re-counted `island_nefc`: island 0's block is `[0,3)`
    = equality (5), friction (3), other (0); island 1's block `[3,5)` = equality (2), other (4);
    constraint 1 has no island: its `map_efc2iefc` stays 0 (collides with constraint 5), and slot 5 of
    `map_iefc2efc` / `efc_islandid` keeps its initial 0 / -1. -/
example : snapEfc 6 (efcPipeline 2 eisl6 ety6 (List.range 6) (List.range 6).reverse).1
    = ([2, 0, 3, 1, 4, 0], [5, 3, 0, 2, 4, 0], [0, 0, 0, 1, 1, -1], [3, 2]) := by decide

/-- counters after the count pass: `island_nefc = [3,2]`, `island_ne = [1,1]`, `island_nf = [1,0]`;
    scan: `island_iefcadr = [0,3]` -/
example :
    let r := efcPipeline 2 eisl6 ety6 (List.range 6) (List.range 6)
    ((List.range 2).map (fun (c : Nat) => r.2.1.nefc c), (List.range 2).map (fun (c : Nat) => r.2.1.ne c),
     (List.range 2).map (fun (c : Nat) => r.2.1.nf c), (List.range 2).map (fun (c : Nat) => r.2.2.iefcadr c))
      = ([3, 2], [1, 1], [1, 0], [0, 3]) := by decide

example : (List.range 6).reverse.Perm (List.range 6) ∧ (∀ e, e < 6 → eisl6 e < (2 : Nat)) :=
  ⟨List.reverse_perm _, by decide⟩

/-! ### generated kernels on concrete inputs (write lists projected to `(arr, idx, value, kind)`) -/

/-- `_island_map_dofs`, thread (0, 3): dof 3 is on island 1 (`idofadr = 2`), the `atomic_add` returned 1 -/
example : wproj (Gen.Island._island_map_dofs (K := Float) 5 (fun _ d => isl5 d.toNat) (fun _ c => [0, 2].getD c.toNat 0)
      (fun _ => 4) (fun _ _ => 0) (fun _ _ => 5) (fun _ _ => 0) (fun _ _ => 0) (fun _ _ => -1) (fun _ _ => 0) 1 0 0 3)
    = [("island_nv_inout", [0, 1], 1, WKind.alloc), ("idof_islandid_out", [0, 3], 1, WKind.set),
       ("island_dofadr_out", [0, 1], 3, WKind.amin), ("map_dof2idof_out", [0, 3], 3, WKind.set),
       ("map_idof2dof_out", [0, 3], 3, WKind.set)] := by decide

/-- `_island_map_dofs`, thread (0, 2): dof 2 has no island, `nidof = 4`, the counter returned 0 -/
example : wproj (Gen.Island._island_map_dofs (K := Float) 5 (fun _ d => isl5 d.toNat) (fun _ c => [0, 2].getD c.toNat 0)
      (fun _ => 4) (fun _ _ => 0) (fun _ _ => 5) (fun _ _ => 0) (fun _ _ => 0) (fun _ _ => -1) (fun _ _ => 0) 7 0 0 2)
    = [("unconstrained_cnt_inout", [0, 0], 1, WKind.alloc), ("map_dof2idof_out", [0, 2], 4, WKind.set),
       ("map_idof2dof_out", [0, 4], 2, WKind.set)] := by decide

/-- `_island_scan_sizes`, world 7, 3 islands with `island_nv = [2,1,4]`, `island_nefc = [5,0,3]` -/
example : wproj (Gen.Island._island_scan_sizes (K := Float) (fun _ => 3) (fun _ _ => 0)
      (fun _ c => [2, 1, 4].getD c.toNat 0) (fun _ c => [5, 0, 3].getD c.toNat 0) (fun _ _ => 0) (fun _ => 0) 7)
    = [("island_idofadr_out", [7, 0], 0, WKind.set), ("island_iefcadr_out", [7, 0], 0, WKind.set),
       ("island_idofadr_out", [7, 1], 2, WKind.set), ("island_iefcadr_out", [7, 1], 5, WKind.set),
       ("island_idofadr_out", [7, 2], 3, WKind.set), ("island_iefcadr_out", [7, 2], 5, WKind.set),
       ("nidof_out", [7], 7, WKind.set),
       ("island_nv_inout", [7, 0], 0, WKind.set), ("island_nefc_inout", [7, 0], 0, WKind.set),
       ("island_nv_inout", [7, 1], 0, WKind.set), ("island_nefc_inout", [7, 1], 0, WKind.set),
       ("island_nv_inout", [7, 2], 0, WKind.set), ("island_nefc_inout", [7, 2], 0, WKind.set)] := by decide

/-- `_island_map_constraints`, thread (0, 3): friction constraint on island 0 (`iefcadr = 0`, `ne = 1`),
    the `atomic_add` on `nf_mapped` returned 0 → slot 1 -/
example : wproj (Gen.Island._island_map_constraints (K := Float) (fun _ => 6) 10 (fun _ e => eisl6 e.toNat)
      (fun _ c => [0, 3].getD c.toNat 0) (fun _ c => [1, 1].getD c.toNat 0) (fun _ c => [1, 0].getD c.toNat 0)
      (fun _ e => ety6 e.toNat) (fun _ _ => 0) (fun _ _ => 0) (fun _ _ => 0) (fun _ _ => 0) (fun _ _ => 0)
      (fun _ _ => 0) (fun _ _ => -1) 9 0 9 0 3)
    = [("island_nf_mapped_inout", [0, 0], 1, WKind.alloc), ("island_nefc_inout", [0, 0], 1, WKind.aadd),
       ("map_efc2iefc_out", [0, 3], 1, WKind.set), ("map_iefc2efc_out", [0, 1], 3, WKind.set),
       ("iefc_islandid_out", [0, 1], 0, WKind.set)] := by decide

/-- the generated launch on a concrete memory (`mem5`: world 0, nv = 5), thread order 4,3,2,1,0: the
    resulting `map_dof2idof` / `map_idof2dof` rows are the model's -/
example :
    ((List.range 5).map (fun (d : Nat) => launchMapDofs Float 5 0 [4, 3, 2, 1, 0] mem5 "map_dof2idof_out" [0, d]),
     (List.range 5).map (fun (i : Nat) => launchMapDofs Float 5 0 [4, 3, 2, 1, 0] mem5 "map_idof2dof_out" [0, i]))
      = ([3, 1, 4, 2, 0], [4, 1, 3, 0, 2]) := by decide

/-- non-vacuity of the hypotheses of `map_dofs_launch_inverse`: `mem5` meets them (nv = 5, nisland = 2) -/
example : (∀ d : Nat, d < 5 → mem5 "dof_island_in" [0, d] < (2 : Nat)) ∧
    (∀ c : Nat, c < 2 → mem5 "island_idofadr_in" [0, c] = psum (islandCount 5 (fun d => mem5 "dof_island_in" [0, d])) c) ∧
    mem5 "nidof_in" [0] = psum (islandCount 5 (fun d => mem5 "dof_island_in" [0, d])) 2 ∧
    (∀ c : Nat, c < 2 → mem5 "island_nv_inout" [0, c] = 0) ∧ mem5 "unconstrained_cnt_inout" [0, 0] = 0 := by decide

/-- the generated constraint launch on `mem6` (6 active constraints, njmax = 10), thread order 5,…,0 -/
example :
    ((List.range 6).map (fun (e : Nat) => launchMapEfcs Float 10 0 [5, 4, 3, 2, 1, 0] mem6 "map_efc2iefc_out" [0, e]),
     (List.range 6).map (fun (i : Nat) => launchMapEfcs Float 10 0 [5, 4, 3, 2, 1, 0] mem6 "map_iefc2efc_out" [0, i]),
     (List.range 6).map (fun (i : Nat) => launchMapEfcs Float 10 0 [5, 4, 3, 2, 1, 0] mem6 "iefc_islandid_out" [0, i]))
      = ([2, 0, 3, 1, 4, 0], [5, 3, 0, 2, 4, 0], [0, 0, 0, 1, 1, -1]) := by decide

/-- non-vacuity of the hypotheses of `map_constraints_launch_inverse`: `mem6` meets them (n = 6, nisland = 2) -/
example : min 10 (mem6 "nefc_in" [0]) = (6 : Nat) ∧
    (∀ e : Nat, e < 6 → mem6 "efc_island_in" [0, e] < (2 : Nat)) ∧
    (∀ c : Nat, c < 2 → mem6 "island_iefcadr_in" [0, c] = psum (islandCount 6 (fun e => mem6 "efc_island_in" [0, e])) c) ∧
    (∀ c : Nat, c < 2 → mem6 "island_ne_in" [0, c]
      = catCount 6 (fun e => mem6 "efc_island_in" [0, e]) (fun e => mem6 "efc_type_in" [0, e]) c 0) ∧
    (∀ c : Nat, c < 2 → mem6 "island_nf_in" [0, c]
      = catCount 6 (fun e => mem6 "efc_island_in" [0, e]) (fun e => mem6 "efc_type_in" [0, e]) c 1) := by decide

end Mjw.Props.C28
