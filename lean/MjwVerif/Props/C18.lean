/-
  C18  Broadphase choice does not change contacts.

  "For every scene and pose, the all-pairs (NXN) broadphase, both sweep-and-prune (SAP) broadphases and every
   broadphase filter selection (16 masks over plane / sphere / AABB / OBB) yield the same multiset of contacts."

  Source: /repo/mujoco_warp/_src/collision_driver.py (`_plane_filter`, `_sphere_filter`, `_aabb_filter`,
  `_obb_filter`, `_broadphase_filter`, `_sap_project`, `_sap_broadphase`, `_nxn_broadphase`),
  /repo/mujoco_warp/_src/collision_core.py (`sap_binary_search`, `sap_range`).

  What is proved about what:
   * generated (`Mjw.Gen.Collision_driver`, K = ℝ): `_sphere_filter`, `_plane_filter`, `_aabb_filter` are
     CONSERVATIVE (never reject a pair having points of the two bounding volumes within `margin1 + margin2`) and
     are characterised exactly; `_sap_project__sap_project` writes the interval
     `⟨dir, xpos⟩ ∓ (rbound' + margin + gap)`, `rbound' = MJ_MAXVAL = 1e10` for planes (`rbound == 0`).
   * hand model `Mjw.Sap` (Model/Sap.lean: `sap_binary_search`, `sap_range`, inclusive scan, work-index decoding,
     stride loop; these kernels are not translated yet): binary-search spec, which pairs are swept, decoding is a
     bijection, every work index is processed by exactly one thread, exactly once.
   * hand model `C18L.dispatch` of `_broadphase_filter` (a closure over `wp.static` constants; not translated).

  The code combines margins by SUM: every filter receives `margin_k = geom_margin[k] + geom_gap[k]` and uses
  `margin1 + margin2`.  The narrow phase uses `geom_margin[g1] + geom_margin[g2]` for ordinary pairs but
  `pair_margin[pairid]` for explicit `<pair>`s (`contact_margin_gap`): conservativeness w.r.t. the narrow phase
  therefore needs `narrowMargin ≤ margin1 + margin2` — an explicit hypothesis of `broadphase_complete_partial`;
  it FAILS for an explicit pair with a large `pair_margin` (Props/C18Witness.lean: the property is false there).

  Three further facts the theorems make explicit (witnesses in Props/C18Witness.lean):
   * `sap_range` sweeps one pair too many per geom (the first non-overlapping one): SAP enumerates a SUPERSET of
     the overlapping pairs — harmless, the same filter is applied afterwards; `sap_complete` is the true half.
   * a plane's projected interval has radius `1e10 + margin`, not ∞: a geom farther than that from the plane's
     frame origin (along `dir`) is not swept although it may touch the plane.
   * without the SPHERE bit the filter may accept pairs SAP never enumerates; such pairs have bounding spheres
     farther apart than the margin, so the narrow phase finds nothing (needs `rbound` to be a true bound).
  NaN positions (`_sap_project` maps a NaN centre to `[MJ_MAXVAL, MJ_MAXVAL]`) do not exist over ℝ.
-/
import MjwVerif.Lemmas.C18
import MjwVerif.Lemmas.C18Sap

set_option linter.unusedVariables false
set_option linter.unusedSimpArgs false

namespace Mjw.Props.C18
open Mjw Mjw.Gen.Collision_driver Mjw.C20L Mjw.C18L Mjw.Sap

/-- Euclidean distance of two points -/
noncomputable def dist3 (a b : V3 ℝ) : ℝ := V3.length (V3.sub a b)

/-- third column of a frame: the normal of a plane geom -/
def zaxis (R : M33 ℝ) : V3 ℝ := ⟨R.m02, R.m12, R.m22⟩

/-! ## 1. sphere filter -/

/-- exact meaning of `_sphere_filter`: squared centre distance ≤ (size1 + size2 + margin1 + margin2)².
    The margins are combined by SUM. -/
theorem sphere_filter_eq (s1 s2 m1 m2 : ℝ) (x1 x2 : V3 ℝ) :
    _sphere_filter s1 s2 m1 m2 x1 x2 = true ↔
      V3.dot (V3.sub x2 x1) (V3.sub x2 x1) ≤ (s1 + s2 + m1 + m2) * (s1 + s2 + m1 + m2) := by
  simp only [_sphere_filter, sle, hadd, hmul]

/-- … i.e. centre distance ≤ sum of radii and margins, when that bound is non-negative.
    (For a negative bound the test compares with its square and can accept far pairs — still conservative.) -/
theorem sphere_filter_iff (s1 s2 m1 m2 : ℝ) (x1 x2 : V3 ℝ) (hb : 0 ≤ s1 + s2 + m1 + m2) :
    _sphere_filter s1 s2 m1 m2 x1 x2 = true ↔ dist3 x2 x1 ≤ s1 + s2 + m1 + m2 := by
  rw [sphere_filter_eq, dist3]
  exact length_le_iff_dot_le _ hb

/-- **conservative**: if the two bounding spheres contain points within `margin1 + margin2` of each other,
    the filter accepts. -/
theorem sphere_filter_conservative (s1 s2 m1 m2 : ℝ) (x1 x2 p1 p2 : V3 ℝ)
    (h1 : dist3 p1 x1 ≤ s1) (h2 : dist3 p2 x2 ≤ s2) (h : dist3 p1 p2 ≤ m1 + m2) :
    _sphere_filter s1 s2 m1 m2 x1 x2 = true := by
  unfold dist3 at *
  have h4 := length_sub_le4 x1 x2 p1 p2
  have h0 := length_nonneg (V3.sub x2 x1)
  rw [sphere_filter_iff s1 s2 m1 m2 x1 x2 (by linarith), dist3]
  linarith

/-! ## 2. plane filter -/

/-- exact meaning when geom 1 is the plane (`size1 == 0`): signed distance of centre 2 along the plane's
    z axis ≤ size2 + margin1 + margin2. -/
theorem plane_filter_iff_1 (s2 m1 m2 : ℝ) (x1 x2 : V3 ℝ) (R1 R2 : M33 ℝ) :
    _plane_filter 0 s2 m1 m2 x1 x2 R1 R2 = true ↔ V3.dot (V3.sub x2 x1) (zaxis R1) ≤ s2 + m1 + m2 := by
  simp only [_plane_filter, zaxis, sbeq, sle, lit0, hadd, if_true]

/-- exact meaning when only geom 2 is the plane -/
theorem plane_filter_iff_2 (s1 m1 m2 : ℝ) (hs1 : s1 ≠ 0) (x1 x2 : V3 ℝ) (R1 R2 : M33 ℝ) :
    _plane_filter s1 0 m1 m2 x1 x2 R1 R2 = true ↔ V3.dot (V3.sub x1 x2) (zaxis R2) ≤ s1 + m1 + m2 := by
  simp only [_plane_filter, zaxis, sbeq, sle, lit0, hadd, if_neg hs1, if_true]

/-- no plane involved: the plane filter accepts -/
theorem plane_filter_nonplane (s1 s2 m1 m2 : ℝ) (hs1 : s1 ≠ 0) (hs2 : s2 ≠ 0) (x1 x2 : V3 ℝ) (R1 R2 : M33 ℝ) :
    _plane_filter s1 s2 m1 m2 x1 x2 R1 R2 = true := by
  simp only [_plane_filter, sbeq, lit0, if_neg hs1, if_neg hs2]

/-- **conservative** (geom 1 = plane through `xpos1` with normal `zaxis xmat1`, |normal| ≤ 1 — it is 1 for a
    rotation matrix): if some point `p2` of geom 2's bounding sphere is within `margin1 + margin2` of the half
    space `{q | ⟨q − xpos1, n⟩ ≤ 0}`, the filter accepts. -/
theorem plane_filter_conservative (s2 m1 m2 : ℝ) (x1 x2 p2 : V3 ℝ) (R1 R2 : M33 ℝ)
    (hn : V3.dot (zaxis R1) (zaxis R1) ≤ 1)
    (h2 : dist3 p2 x2 ≤ s2) (h : V3.dot (V3.sub p2 x1) (zaxis R1) ≤ m1 + m2) :
    _plane_filter 0 s2 m1 m2 x1 x2 R1 R2 = true := by
  rw [plane_filter_iff_1]
  have hl := abs_dot_sub_le x2 p2 (zaxis R1) hn
  rw [length_neg_sub] at hl
  unfold dist3 at h2
  have := (abs_le.mp hl).2
  rw [dot_sub_left] at h ⊢
  linarith

/-- the same with the plane as geom 2 -/
theorem plane_filter_conservative' (s1 m1 m2 : ℝ) (hs1 : s1 ≠ 0) (x1 x2 p1 : V3 ℝ) (R1 R2 : M33 ℝ)
    (hn : V3.dot (zaxis R2) (zaxis R2) ≤ 1)
    (h1 : dist3 p1 x1 ≤ s1) (h : V3.dot (V3.sub p1 x2) (zaxis R2) ≤ m1 + m2) :
    _plane_filter s1 0 m1 m2 x1 x2 R1 R2 = true := by
  rw [plane_filter_iff_2 s1 m1 m2 hs1]
  have hl := abs_dot_sub_le x1 p1 (zaxis R2) hn
  rw [length_neg_sub] at hl
  unfold dist3 at h1
  have := (abs_le.mp hl).2
  rw [dot_sub_left] at h ⊢
  linarith

/-! ## 3. AABB filter -/

/-- world-frame centre of the local box: `xmat @ center + xpos` -/
noncomputable def boxCenter (R : M33 ℝ) (c x : V3 ℝ) : V3 ℝ := V3.add (M33.mulVec R c) x

/-- `p` is a point of the oriented local box `xpos + xmat (center + t)`, `|t_k| ≤ size_k` -/
def InBox (R : M33 ℝ) (c z x p : V3 ℝ) : Prop :=
  ∃ t : V3 ℝ, |t.c0| ≤ z.c0 ∧ |t.c1| ≤ z.c1 ∧ |t.c2| ≤ z.c2 ∧ p = V3.add (boxCenter R c x) (M33.mulVec R t)

set_option maxRecDepth 4000 in
/-- **exact characterisation per axis**: the filter accepts iff on each world axis the two intervals
    `[C_k + lo_k, C_k + hi_k]` are within `margin1 + margin2`; `hi_k`/`lo_k` = running max/min over the eight
    rotated corners, started at ∓MJ_MAXVAL (`C18L.hiRow`, `C18L.loRow`). -/
theorem aabb_filter_iff (c1 c2 z1 z2 : V3 ℝ) (m1 m2 : ℝ) (x1 x2 : V3 ℝ) (R1 R2 : M33 ℝ) :
    _aabb_filter c1 c2 z1 z2 m1 m2 x1 x2 R1 R2 = true ↔
      ((boxCenter R2 c2 x2).c0 + loRow (row0 R2) z2 ≤ (boxCenter R1 c1 x1).c0 + hiRow (row0 R1) z1 + (m1 + m2) ∧
       (boxCenter R2 c2 x2).c1 + loRow (row1 R2) z2 ≤ (boxCenter R1 c1 x1).c1 + hiRow (row1 R1) z1 + (m1 + m2) ∧
       (boxCenter R2 c2 x2).c2 + loRow (row2 R2) z2 ≤ (boxCenter R1 c1 x1).c2 + hiRow (row2 R1) z1 + (m1 + m2) ∧
       (boxCenter R1 c1 x1).c0 + loRow (row0 R1) z1 ≤ (boxCenter R2 c2 x2).c0 + hiRow (row0 R2) z2 + (m1 + m2) ∧
       (boxCenter R1 c1 x1).c1 + loRow (row1 R1) z1 ≤ (boxCenter R2 c2 x2).c1 + hiRow (row1 R2) z2 + (m1 + m2) ∧
       (boxCenter R1 c1 x1).c2 + loRow (row2 R1) z1 ≤ (boxCenter R2 c2 x2).c2 + hiRow (row2 R2) z2 + (m1 + m2)) := by
  unfold _aabb_filter
  simp only [ite_gt, ite_lt]
  rw [ifchain]
  simp only [slt_false_iff, hiRow, loRow, row0, row1, row2, boxCenter, M33.mulVec, V3.add, hadd, hmul, hneg, slit,
    Int.cast_one, Int.cast_neg, zpow_zero, mul_one]

/-- half extent of the rotated box along a world axis with frame row `a` -/
noncomputable def extent (a z : V3 ℝ) : ℝ := |a.c0| * z.c0 + |a.c1| * z.c1 + |a.c2| * z.c2

/-- closed form for non-negative half sizes: per axis `|C1_k − C2_k| ≤ extent1_k + extent2_k + margin`. -/
theorem aabb_filter_iff_extent (c1 c2 z1 z2 : V3 ℝ) (m1 m2 : ℝ) (x1 x2 : V3 ℝ) (R1 R2 : M33 ℝ)
    (h1 : 0 ≤ z1.c0 ∧ 0 ≤ z1.c1 ∧ 0 ≤ z1.c2) (h2 : 0 ≤ z2.c0 ∧ 0 ≤ z2.c1 ∧ 0 ≤ z2.c2) :
    _aabb_filter c1 c2 z1 z2 m1 m2 x1 x2 R1 R2 = true ↔
      (|(boxCenter R1 c1 x1).c0 - (boxCenter R2 c2 x2).c0| ≤ extent (row0 R1) z1 + extent (row0 R2) z2 + (m1 + m2) ∧
       |(boxCenter R1 c1 x1).c1 - (boxCenter R2 c2 x2).c1| ≤ extent (row1 R1) z1 + extent (row1 R2) z2 + (m1 + m2) ∧
       |(boxCenter R1 c1 x1).c2 - (boxCenter R2 c2 x2).c2| ≤ extent (row2 R1) z1 + extent (row2 R2) z2 + (m1 + m2)) := by
  obtain ⟨a0, a1, a2⟩ := h1
  obtain ⟨b0, b1, b2⟩ := h2
  rw [aabb_filter_iff]
  simp only [hiRow_eq _ z1 a0 a1 a2, hiRow_eq _ z2 b0 b1 b2, loRow_eq _ z1 a0 a1 a2, loRow_eq _ z2 b0 b1 b2,
    extent, abs_le]
  constructor
  · rintro ⟨e0, e1, e2, e3, e4, e5⟩
    refine ⟨⟨?_, ?_⟩, ⟨?_, ?_⟩, ⟨?_, ?_⟩⟩ <;> linarith
  · rintro ⟨⟨e0, e1⟩, ⟨e2, e3⟩, ⟨e4, e5⟩⟩
    refine ⟨?_, ?_, ?_, ?_, ?_, ?_⟩ <;> linarith

/-- **conservative**: if the two oriented local boxes contain points within `margin1 + margin2` of each other
    (Euclidean distance — hence in every coordinate), the filter accepts.  No assumption on `xmat`. -/
theorem aabb_filter_conservative (c1 c2 z1 z2 : V3 ℝ) (m1 m2 : ℝ) (x1 x2 : V3 ℝ) (R1 R2 : M33 ℝ)
    (p1 p2 : V3 ℝ) (h1 : InBox R1 c1 z1 x1 p1) (h2 : InBox R2 c2 z2 x2 p2) (h : dist3 p1 p2 ≤ m1 + m2) :
    _aabb_filter c1 c2 z1 z2 m1 m2 x1 x2 R1 R2 = true := by
  obtain ⟨t1, a0, a1, a2, rfl⟩ := h1
  obtain ⟨t2, b0, b1, b2, rfl⟩ := h2
  rw [aabb_filter_iff]
  unfold dist3 at h
  set C1 := boxCenter R1 c1 x1
  set C2 := boxCenter R2 c2 x2
  have d0 := (abs_c0_le_length _).trans h
  have d1 := (abs_c1_le_length _).trans h
  have d2 := (abs_c2_le_length _).trans h
  simp only [V3.sub, V3.add, hsub, hadd, mulVec_c0, mulVec_c1, mulVec_c2] at d0 d1 d2
  rw [abs_le] at d0 d1 d2
  have u10 := dot_le_hiRow (row0 R1) z1 t1 a0 a1 a2
  have u11 := dot_le_hiRow (row1 R1) z1 t1 a0 a1 a2
  have u12 := dot_le_hiRow (row2 R1) z1 t1 a0 a1 a2
  have u20 := dot_le_hiRow (row0 R2) z2 t2 b0 b1 b2
  have u21 := dot_le_hiRow (row1 R2) z2 t2 b0 b1 b2
  have u22 := dot_le_hiRow (row2 R2) z2 t2 b0 b1 b2
  have l10 := loRow_le_dot (row0 R1) z1 t1 a0 a1 a2
  have l11 := loRow_le_dot (row1 R1) z1 t1 a0 a1 a2
  have l12 := loRow_le_dot (row2 R1) z1 t1 a0 a1 a2
  have l20 := loRow_le_dot (row0 R2) z2 t2 b0 b1 b2
  have l21 := loRow_le_dot (row1 R2) z2 t2 b0 b1 b2
  have l22 := loRow_le_dot (row2 R2) z2 t2 b0 b1 b2
  refine ⟨?_, ?_, ?_, ?_, ?_, ?_⟩ <;> linarith [d0.1, d0.2, d1.1, d1.2, d2.1, d2.2]

/-! ## 4. all masks -/

/-- any conjunction of conservative filters is conservative -/
theorem filters_compose {α : Type} (near : α → Prop) (fs : List (α → Bool))
    (h : ∀ f ∈ fs, Conservative near f) : Conservative near (fun x => fs.all (fun f => f x)) := by
  intro x hx
  rw [List.all_eq_true]
  intro f hf
  exact h f hf x hx

/-- `_broadphase_filter(mask, …)` after its loads, with the generated filters plugged into the hand-modelled
    dispatch; `obb` stands for the result of `_obb_filter` (not translated).
    `margin_k` here is the code's `effective_margin_k = geom_margin[k] + geom_gap[k]`. -/
noncomputable def broadphaseFilter (mask : Nat) (obb : Bool) (c1 c2 z1 z2 : V3 ℝ) (rb1 rb2 m1 m2 : ℝ)
    (x1 x2 : V3 ℝ) (R1 R2 : M33 ℝ) : Bool :=
  dispatch mask (Scalar.beq rb1 (Scalar.lit 0 0) || Scalar.beq rb2 (Scalar.lit 0 0))
    (_plane_filter rb1 rb2 m1 m2 x1 x2 R1 R2) (_sphere_filter rb1 rb2 m1 m2 x1 x2)
    (_aabb_filter c1 c2 z1 z2 m1 m2 x1 x2 R1 R2) obb

/-- "the two geoms come within `m` of each other", in the three shapes the dispatch distinguishes
    (`rbound == 0` marks a plane).  For non-planes the witnesses lie in the bounding sphere AND the local box:
    that is the meaning of `geom_rbound` / `geom_aabb` (every point of the geom does). -/
structure Near (m : ℝ) (c1 c2 z1 z2 : V3 ℝ) (rb1 rb2 : ℝ) (x1 x2 : V3 ℝ) (R1 R2 : M33 ℝ) : Prop where
  plane1 : rb1 = 0 → V3.dot (zaxis R1) (zaxis R1) ≤ 1 ∧
    ∃ p2, dist3 p2 x2 ≤ rb2 ∧ V3.dot (V3.sub p2 x1) (zaxis R1) ≤ m
  plane2 : rb1 ≠ 0 → rb2 = 0 → V3.dot (zaxis R2) (zaxis R2) ≤ 1 ∧
    ∃ p1, dist3 p1 x1 ≤ rb1 ∧ V3.dot (V3.sub p1 x2) (zaxis R2) ≤ m
  general : rb1 ≠ 0 → rb2 ≠ 0 →
    ∃ p1 p2, dist3 p1 x1 ≤ rb1 ∧ InBox R1 c1 z1 x1 p1 ∧ dist3 p2 x2 ≤ rb2 ∧ InBox R2 c2 z2 x2 p2 ∧ dist3 p1 p2 ≤ m

/-- **every one of the 16 masks (indeed every `mask : ℕ`) is conservative** — PARTIAL:
    `_obb_filter` is not translated, its conservativeness is the hypothesis `hobb`;
    `_broadphase_filter`'s dispatch is the hand model `C18L.dispatch`.
    Full statement: the same without `hobb`, with `obb := _obb_filter c1 c2 z1 z2 m1 m2 x1 x2 R1 R2`. -/
theorem all_masks_conservative_partial (mask : Nat) (obb : Bool) (c1 c2 z1 z2 : V3 ℝ) (rb1 rb2 m1 m2 : ℝ)
    (x1 x2 : V3 ℝ) (R1 R2 : M33 ℝ)
    (hnear : Near (m1 + m2) c1 c2 z1 z2 rb1 rb2 x1 x2 R1 R2)
    (hobb : (∃ p1 p2, InBox R1 c1 z1 x1 p1 ∧ InBox R2 c2 z2 x2 p2 ∧ dist3 p1 p2 ≤ m1 + m2) → obb = true) :
    broadphaseFilter mask obb c1 c2 z1 z2 rb1 rb2 m1 m2 x1 x2 R1 R2 = true := by
  unfold broadphaseFilter
  apply dispatch_true_of_all
  · intro hp
    simp only [Bool.or_eq_true, sbeq, lit0] at hp
    by_cases h1 : rb1 = 0
    · obtain ⟨hn, p2, hp2, hd⟩ := hnear.plane1 h1
      subst h1
      exact plane_filter_conservative rb2 m1 m2 x1 x2 p2 R1 R2 hn hp2 hd
    · have h2 : rb2 = 0 := by tauto
      obtain ⟨hn, p1, hp1, hd⟩ := hnear.plane2 h1 h2
      subst h2
      exact plane_filter_conservative' rb1 m1 m2 h1 x1 x2 p1 R1 R2 hn hp1 hd
  · intro hp
    have hp' : ¬ (rb1 = 0 ∨ rb2 = 0) := by
      intro hc
      have : (Scalar.beq rb1 (Scalar.lit 0 0) || Scalar.beq rb2 (Scalar.lit 0 0)) = true := by
        simpa only [Bool.or_eq_true, sbeq, lit0] using hc
      rw [hp] at this
      exact Bool.noConfusion this
    obtain ⟨p1, p2, s1, b1, s2, b2, hd⟩ := hnear.general (fun h => hp' (Or.inl h)) (fun h => hp' (Or.inr h))
    exact ⟨sphere_filter_conservative rb1 rb2 m1 m2 x1 x2 p1 p2 s1 s2 hd,
      aabb_filter_conservative c1 c2 z1 z2 m1 m2 x1 x2 R1 R2 p1 p2 b1 b2 hd,
      hobb ⟨p1, p2, b1, b2, hd⟩⟩

/-! ## 5. sweep and prune (model `Mjw.Sap`) -/

/-- what sortedness of the keys gives: `lower · > v` is upward closed -/
theorem upClosed_of_sorted (n : Int) (lower : Int → ℝ)
    (hs : ∀ a b, 0 ≤ a → a ≤ b → b < n → lower a ≤ lower b) :
    UpClosed (Scalar.gt (K := ℝ)) n lower := by
  intro v a b ha hab hb h
  rw [sgt] at h ⊢
  exact lt_of_lt_of_le h (hs a b ha hab hb)

/-- **`sap_binary_search(values, value, lo, hi)` on a sorted array returns the first index in `[lo, hi)` whose
    entry is `> value` (`hi` if there is none)**: everything before the result is `≤ value`, everything from the
    result on is `> value`.  `hi ≤ 2³⁰` keeps `lo + hi` inside int32 (the code's `(lower + upper) >> 1`). -/
theorem sap_binary_search_spec (values : Int → ℝ) (value : ℝ) (lo hi : Int) (h0 : 0 ≤ lo) (hle : lo ≤ hi)
    (hhi : hi ≤ 2^30) (hs : ∀ a b, lo ≤ a → a ≤ b → b < hi → values a ≤ values b)
    (fuel : Nat) (hf : (hi - lo).toNat ≤ fuel) :
    lo ≤ binarySearch Scalar.gt values value lo hi fuel ∧ binarySearch Scalar.gt values value lo hi fuel ≤ hi ∧
    (∀ k, lo ≤ k → k < binarySearch Scalar.gt values value lo hi fuel → values k ≤ value) ∧
    (∀ k, binarySearch Scalar.gt values value lo hi fuel ≤ k → k < hi → value < values k) := by
  obtain ⟨r1, r2, r3, r4⟩ := bs_loop (Scalar.gt (K := ℝ)) values value fuel lo hi h0 hle hhi hf
    (fun a b ha hab hb h => by
      rw [sgt] at h ⊢
      exact lt_of_lt_of_le h (hs a b ha hab hb))
  refine ⟨r1, r2, ?_, ?_⟩
  · intro k hk1 hk2
    have := r3 k hk1 hk2
    by_contra hc
    have h' : Scalar.gt (values k) value = true := (sgt _ _).mpr (not_le.mp hc)
    rw [this] at h'
    exact Bool.noConfusion h'
  · intro k hk1 hk2
    exact (sgt _ _).mp (r4 k hk1 hk2)

section one_world
variable (n : Int) (lower upper : Int → ℝ) (sortIndex : Int → Int)

/-- **which pairs are swept**: for a sorted position `i`, `j > i` lies inside `i`'s range iff `j ≤ n − 1` and
    every position strictly between `i` and `j` has `lower ≤ upper_i`.  Also `0 ≤ range` and `i + range ≤ n − 1`
    (the `limit = min(n − 1, ·)` clamp). -/
theorem sap_range_spec (hn : n ≤ 2^30) (hs : ∀ a b, 0 ≤ a → a ≤ b → b < n → lower a ≤ lower b)
    (i : Int) (hi0 : 0 ≤ i) (hin : i < n) (fuel : Nat) (hf : n.toNat ≤ fuel) :
    0 ≤ range Scalar.gt n lower upper sortIndex i fuel ∧
    i + range Scalar.gt n lower upper sortIndex i fuel ≤ n - 1 ∧
    ∀ j, i < j → (j ≤ i + range Scalar.gt n lower upper sortIndex i fuel ↔
      (j ≤ n - 1 ∧ ∀ k, i < k → k < j → lower k ≤ upper (sortIndex i))) := by
  obtain ⟨r1, r2, r3⟩ := range_spec (Scalar.gt (K := ℝ)) n lower upper sortIndex
    (upClosed_of_sorted n lower hs) hn i hi0 hin fuel hf
  refine ⟨r1, r2, fun j hij => ?_⟩
  rw [r3 j hij]
  have e : ∀ k, (Scalar.gt (lower k) (upper (sortIndex i)) = false) ↔ lower k ≤ upper (sortIndex i) := by
    intro k
    rw [← not_lt, ← sgt, Bool.not_eq_true]
  simp only [e]

/-- **`sap_complete`** (the true half): every pair of sorted positions `i < j` whose intervals can overlap
    (`lower_j ≤ upper_i`; `lower_i ≤ lower_j` holds by sortedness) is inside `i`'s range. -/
theorem sap_complete (hn : n ≤ 2^30) (hs : ∀ a b, 0 ≤ a → a ≤ b → b < n → lower a ≤ lower b)
    (i j : Int) (hi0 : 0 ≤ i) (hij : i < j) (hjn : j < n) (fuel : Nat) (hf : n.toNat ≤ fuel)
    (hov : lower j ≤ upper (sortIndex i)) :
    j ≤ i + range Scalar.gt n lower upper sortIndex i fuel := by
  obtain ⟨_, _, r3⟩ := sap_range_spec n lower upper sortIndex hn hs i hi0 (by omega) fuel hf
  rw [r3 j hij]
  exact ⟨by omega, fun k hk1 hk2 => le_trans (hs k j (by omega) (by omega) hjn) hov⟩

/-- … and the converse up to ONE sentinel: a swept pair `(i, j)` that does not overlap is the first
    non-overlapping position after `i` (so there is at most one per `i`).
    The statement "swept pairs are EXACTLY the overlapping pairs" is false: `C18Witness.sap_sentinel_witness`. -/
theorem sap_swept_overlap_or_first (hn : n ≤ 2^30) (hs : ∀ a b, 0 ≤ a → a ≤ b → b < n → lower a ≤ lower b)
    (i j : Int) (hi0 : 0 ≤ i) (hin : i < n) (hij : i < j) (fuel : Nat) (hf : n.toNat ≤ fuel)
    (hsw : j ≤ i + range Scalar.gt n lower upper sortIndex i fuel) :
    lower j ≤ upper (sortIndex i) ∨
      (upper (sortIndex i) < lower j ∧ ∀ k, i < k → k < j → lower k ≤ upper (sortIndex i)) := by
  obtain ⟨_, _, r3⟩ := sap_range_spec n lower upper sortIndex hn hs i hi0 hin fuel hf
  obtain ⟨_, h2⟩ := (r3 j hij).mp hsw
  rcases le_or_gt (lower j) (upper (sortIndex i)) with h | h
  · exact Or.inl h
  · exact Or.inr ⟨h, h2⟩

end one_world

/-- the contract of the sort + size bounds for a whole launch, K = ℝ -/
theorem valid_of_sorted (s : Sorted ℝ) (hg : 0 < s.ngeom) (hw : 0 < s.nworld) (hN : s.nworld * s.ngeom ≤ 2^30)
    (hs : ∀ w, 0 ≤ w → w < s.nworld → ∀ a b, 0 ≤ a → a ≤ b → b < s.ngeom → s.lower w a ≤ s.lower w b) :
    Valid (Scalar.gt (K := ℝ)) s :=
  ⟨hg, hw, hN, fun w hw0 hw1 => upClosed_of_sorted s.ngeom (s.lower w) (hs w hw0 hw1)⟩

/-- **`sap_work_decode_bijection`**, flat level: with `C` the inclusive scan of non-negative ranges `r` over
    `N = nworld · ngeom` slots and `W = C[N − 1]` work packages,
    (1) every work index `k ∈ [0, W)` decodes to `(i, j)` with `0 ≤ i < N`, `i < j ≤ i + r i`, and `k` is recovered
        from `(i, j)` (injective);
    (2) every `(i, i + d)`, `1 ≤ d ≤ r i`, is the decoding of a work index in `[0, W)` (surjective). -/
theorem sap_work_decode_bijection (r : Int → Int) (N : Int) (hN0 : 0 < N) (hN : N ≤ 2^30)
    (hr : ∀ t, 0 ≤ t → t < N → 0 ≤ r t) (fuel : Nat) (hf : N.toNat ≤ fuel) :
    (∀ k, 0 ≤ k → k < cumsum r (N - 1) →
      0 ≤ (decodeFlat (cumsum r) N k fuel).1 ∧ (decodeFlat (cumsum r) N k fuel).1 < N ∧
      (decodeFlat (cumsum r) N k fuel).1 < (decodeFlat (cumsum r) N k fuel).2 ∧
      (decodeFlat (cumsum r) N k fuel).2 ≤ (decodeFlat (cumsum r) N k fuel).1 + r (decodeFlat (cumsum r) N k fuel).1 ∧
      k = cumPrev r (decodeFlat (cumsum r) N k fuel).1 +
            ((decodeFlat (cumsum r) N k fuel).2 - (decodeFlat (cumsum r) N k fuel).1 - 1)) ∧
    (∀ i d, 0 ≤ i → i < N → 1 ≤ d → d ≤ r i →
      ∃ k, 0 ≤ k ∧ k < cumsum r (N - 1) ∧ decodeFlat (cumsum r) N k fuel = (i, i + d)) := by
  constructor
  · intro k hk0 hkW
    obtain ⟨s1, s2, s3, s4, s5⟩ := decodeFlat_spec r N hN0 hN hr fuel hf k hk0 hkW
    have hc := cumsum_eq_prev r _ s1
    refine ⟨s1, s2, by omega, by omega, by omega⟩
  · intro i d hi0 hiN hd1 hd2
    obtain ⟨p1, p2, p3⟩ := decodeFlat_of r N hN0 hN hr fuel hf i d hi0 hiN hd1 hd2
    exact ⟨_, p1, p2, p3⟩

/-- … **for every stride**: with `nsweep > 0` threads, thread `tid` processing `tid, tid + nsweep, …` below `W`,
    the concatenation of all threads' work lists is a permutation of `0, 1, …, W − 1`. -/
theorem sap_stride_partition (W nsweep : Int) (hs : 0 < nsweep) (fuel : Nat) (hf : W.toNat ≤ fuel) :
    (allWork W nsweep fuel).Perm ((List.range W.toNat).map Int.ofNat) :=
  allWork_perm W nsweep hs fuel hf

/-- … **and with the world split** (`// ngeom`, `% ngeom`): over the whole launch, the work item `(w, i, j)`
    is enumerated exactly once if `0 ≤ w < nworld`, `0 ≤ i < j ≤ i + range_[w, i]`, and never otherwise. -/
theorem sap_enumerates_exactly_once (s : Sorted ℝ) (hv : Valid (Scalar.gt (K := ℝ)) s) (nsweep : Int)
    (hs : 0 < nsweep) (fuel : Nat) (hf : (s.nworld * s.ngeom).toNat ≤ fuel)
    (hfW : (nwork Scalar.gt s fuel).toNat ≤ fuel) (a : Work) :
    (Emitted Scalar.gt s fuel a → (enumeratedWork Scalar.gt s nsweep fuel).count a = 1) ∧
    (¬ Emitted Scalar.gt s fuel a → (enumeratedWork Scalar.gt s nsweep fuel).count a = 0) :=
  enumeratedWork_count (Scalar.gt (K := ℝ)) s hv nsweep hs fuel hf hfW a

/-- distinct work items are distinct unordered geom pairs (sort index injective per world), so "exactly once"
    transfers from sorted positions to geom pairs. -/
theorem sap_geom_pairs_distinct (s : Sorted ℝ) (hv : Valid (Scalar.gt (K := ℝ)) s) (fuel : Nat)
    (hf : (s.nworld * s.ngeom).toNat ≤ fuel)
    (hinj : ∀ w i j, 0 ≤ i → i < s.ngeom → 0 ≤ j → j < s.ngeom → s.sortIndex w i = s.sortIndex w j → i = j)
    (a b : Work) (ha : Emitted Scalar.gt s fuel a) (hb : Emitted Scalar.gt s fuel b) (hw : a.worldid = b.worldid)
    (h : (s.sortIndex a.worldid a.i = s.sortIndex b.worldid b.i ∧ s.sortIndex a.worldid a.j = s.sortIndex b.worldid b.j) ∨
         (s.sortIndex a.worldid a.i = s.sortIndex b.worldid b.j ∧ s.sortIndex a.worldid a.j = s.sortIndex b.worldid b.i)) :
    a = b :=
  geomPair_inj (Scalar.gt (K := ℝ)) s hv fuel hf hinj a b ha hb hw h

/-- the two fuel hypotheses (`hf`, `hfW`) of the enumeration theorems are met by any `fuel ≥ nworld · ngeom²`
    (the loops in the code run to completion; fuel only bounds the model's `while`s). -/
theorem sap_fuel_enough (s : Sorted ℝ) (hv : Valid (Scalar.gt (K := ℝ)) s) (fuel : Nat)
    (h : (s.nworld * s.ngeom * s.ngeom).toNat ≤ fuel) :
    (s.nworld * s.ngeom).toNat ≤ fuel ∧ (nwork Scalar.gt s fuel).toNat ≤ fuel :=
  fuel_enough (Scalar.gt (K := ℝ)) s hv fuel h

/-! ### projection -/

/-- **the projection onto a direction of length ≤ 1 is 1-Lipschitz** -/
theorem projection_lipschitz (p q d : V3 ℝ) (hd : V3.dot d d ≤ 1) :
    |V3.dot d p - V3.dot d q| ≤ dist3 p q := by
  rw [dot_comm d p, dot_comm d q]
  exact abs_dot_sub_le p q d hd

/-- radius of the projected interval built by `_sap_project`: `rbound` (MJ_MAXVAL = 1e10 for a plane,
    `rbound == 0`) `+ geom_margin + geom_gap` -/
noncomputable def projRadius (rbound margin gap : ℝ) : ℝ := (if rbound = 0 then 10 ^ 10 else rbound) + margin + gap
noncomputable def projLower (dir xpos : V3 ℝ) (rbound margin gap : ℝ) : ℝ :=
  V3.dot dir xpos - projRadius rbound margin gap
noncomputable def projUpper (dir xpos : V3 ℝ) (rbound margin gap : ℝ) : ℝ :=
  V3.dot dir xpos + projRadius rbound margin gap

/-- centres within the sum of the radii ⇒ the projected intervals overlap (both ways) -/
theorem intervals_overlap (dir x1 x2 : V3 ℝ) (hd : V3.dot dir dir ≤ 1) (rb1 mg1 gp1 rb2 mg2 gp2 : ℝ)
    (h : dist3 x1 x2 ≤ projRadius rb1 mg1 gp1 + projRadius rb2 mg2 gp2) :
    projLower dir x2 rb2 mg2 gp2 ≤ projUpper dir x1 rb1 mg1 gp1 ∧
    projLower dir x1 rb1 mg1 gp1 ≤ projUpper dir x2 rb2 mg2 gp2 := by
  have hl := abs_le.mp (projection_lipschitz x1 x2 dir hd)
  unfold projLower projUpper
  constructor <;> linarith [hl.1, hl.2]

/-- bounding spheres (non-planes) with points within `margin1 + margin2` (margins incl. gaps) have overlapping
    projected intervals -/
theorem intervals_overlap_of_near (dir x1 x2 p1 p2 : V3 ℝ) (hd : V3.dot dir dir ≤ 1)
    (rb1 mg1 gp1 rb2 mg2 gp2 : ℝ) (h1 : rb1 ≠ 0) (h2 : rb2 ≠ 0)
    (s1 : dist3 p1 x1 ≤ rb1) (s2 : dist3 p2 x2 ≤ rb2) (h : dist3 p1 p2 ≤ (mg1 + gp1) + (mg2 + gp2)) :
    projLower dir x2 rb2 mg2 gp2 ≤ projUpper dir x1 rb1 mg1 gp1 ∧
    projLower dir x1 rb1 mg1 gp1 ≤ projUpper dir x2 rb2 mg2 gp2 := by
  apply intervals_overlap dir x1 x2 hd
  unfold projRadius
  rw [if_neg h1, if_neg h2]
  unfold dist3 at *
  have h4 := length_sub_le4 x1 x2 p1 p2
  rw [length_neg_sub x1 x2]
  linarith

/-! ## 6. the generated `_sap_project` kernel -/

/-- **`sap_project_spec`**: thread `(worldid, geomid)` writes exactly three cells, all at its own
    `[worldid, geomid]`: `sort_index = geomid`, `lower = ⟨dir, xpos⟩ − radius`, `upper = ⟨dir, xpos⟩ + radius`,
    `radius = projRadius rbound margin gap` (batched fields read at `worldid % shape[0]`);
    plus, for `SAP_SEGMENTED`, thread `(w, 0)` writes `segmented_index[w] = w·ngeom` and thread
    `(nworld − 1, 0)` also `segmented_index[nworld] = nworld·ngeom`.  (No NaN over ℝ.) -/
theorem sap_project_spec (ngeom : Int) (rb mg gp : Int → Int → ℝ) (xpos : Int → Int → V3 ℝ) (nworld : Int)
    (dir : V3 ℝ) (pl pu : Int → Int → ℝ) (si : Int → Int → Int) (seg : Int → Int) (sh0 sh1 sh2 : Int)
    (segmented : Bool) (w g : Int) :
    _sap_project__sap_project ngeom rb mg gp xpos nworld dir pl pu si seg sh0 sh1 sh2 segmented w g =
      [⟨"sort_index_out", [w, g], WVal.i g, WKind.set⟩,
       ⟨"projection_lower_out", [w, g],
          WVal.f (projLower dir (xpos w g) (rb (Int.tmod w sh0) g) (mg (Int.tmod w sh1) g) (gp (Int.tmod w sh2) g)),
          WKind.set⟩,
       ⟨"projection_upper_out", [w, g],
          WVal.f (projUpper dir (xpos w g) (rb (Int.tmod w sh0) g) (mg (Int.tmod w sh1) g) (gp (Int.tmod w sh2) g)),
          WKind.set⟩]
      ++ (if segmented = true ∧ g = 0 then
            [(⟨"segmented_index_out", [w], WVal.i (w * ngeom), WKind.set⟩ : Write ℝ)]
            ++ (if w = nworld - 1 then
                  [(⟨"segmented_index_out", [nworld], WVal.i (nworld * ngeom), WKind.set⟩ : Write ℝ)] else [])
          else []) := by
  have hnan : ∀ x : ℝ, Scalar.isnan x = false := fun _ => rfl
  unfold _sap_project__sap_project projLower projUpper projRadius
  simp only [hnan, Bool.not_false, if_true, sbeq, lit0, maxval_lit, hadd, hsub, List.nil_append, List.cons_append,
    decide_eq_true_eq]
  by_cases h0 : rb (Int.tmod w sh0) g = 0
  · simp only [h0, if_true]
    cases segmented <;> by_cases hg : g = 0 <;> by_cases hw : w = nworld - 1 <;> simp [hg, hw]
  · simp only [h0, if_false]
    cases segmented <;> by_cases hg : g = 0 <;> by_cases hw : w = nworld - 1 <;> simp [hg, hw]

/-! ## 7. putting it together -/

/-- **Broadphase completeness — PARTIAL.**

    One world `w` of a launch; `g1 = sortIndex w i`, `g2 = sortIndex w j` the geoms at sorted positions `i < j`;
    the intervals are the ones `_sap_project` writes (`sap_project_spec`), the sort obeys its contract.
    If the two (non-plane) geoms have points — inside bounding sphere and local box — within the NARROW-PHASE
    margin `narrowMargin`, and `narrowMargin ≤ (margin1 + gap1) + (margin2 + gap2)` (the margin the filters
    use), then
      (a) `_broadphase_filter` accepts the pair under EVERY mask (so NXN hands it to the narrow phase, and so
          does the filter stage of SAP), and
      (b) SAP enumerates the pair, exactly once over all threads, for every stride `nsweep > 0`.
    Pairs without such points produce no contact under any broadphase; hence all broadphases and masks give the
    same contacts.

    Missing for the full statement (why `_partial`):
      * `_obb_filter` not translated: `hobb`; `_broadphase_filter`, `sap_range`, `_sap_broadphase` are hand models;
        the sort (`tile_sort` / `segmented_sort_pairs`) is a contract (`hsort`, `hkey`);
      * `hmargin` is NOT implied by the code for explicit `<pair margin=…>`s — `C18Witness` shows the property
        itself fails there;
      * plane pairs: see `broadphase_complete_plane_partial` (extra distance bound 1e10). -/
theorem broadphase_complete_partial
    (s : Sorted ℝ) (hg : 0 < s.ngeom) (hw : 0 < s.nworld) (hN : s.nworld * s.ngeom ≤ 2^30)
    (hsort : ∀ w, 0 ≤ w → w < s.nworld → ∀ a b, 0 ≤ a → a ≤ b → b < s.ngeom → s.lower w a ≤ s.lower w b)
    (dir : V3 ℝ) (hd : V3.dot dir dir ≤ 1)
    (xpos : Int → Int → V3 ℝ) (xmat : Int → Int → M33 ℝ) (rbound margin gap : Int → ℝ)
    (center size : Int → V3 ℝ)
    (hkey : ∀ w k, s.lower w k = projLower dir (xpos w (s.sortIndex w k)) (rbound (s.sortIndex w k))
        (margin (s.sortIndex w k)) (gap (s.sortIndex w k)))
    (hupper : ∀ w g, s.upper w g = projUpper dir (xpos w g) (rbound g) (margin g) (gap g))
    (w i j : Int) (hw0 : 0 ≤ w) (hw1 : w < s.nworld) (hi0 : 0 ≤ i) (hij : i < j) (hjn : j < s.ngeom)
    (narrowMargin : ℝ)
    (hmargin : narrowMargin ≤ (margin (s.sortIndex w i) + gap (s.sortIndex w i)) +
                              (margin (s.sortIndex w j) + gap (s.sortIndex w j)))
    (hr1 : rbound (s.sortIndex w i) ≠ 0) (hr2 : rbound (s.sortIndex w j) ≠ 0)
    (p1 p2 : V3 ℝ)
    (hs1 : dist3 p1 (xpos w (s.sortIndex w i)) ≤ rbound (s.sortIndex w i))
    (hb1 : InBox (xmat w (s.sortIndex w i)) (center (s.sortIndex w i)) (size (s.sortIndex w i))
            (xpos w (s.sortIndex w i)) p1)
    (hs2 : dist3 p2 (xpos w (s.sortIndex w j)) ≤ rbound (s.sortIndex w j))
    (hb2 : InBox (xmat w (s.sortIndex w j)) (center (s.sortIndex w j)) (size (s.sortIndex w j))
            (xpos w (s.sortIndex w j)) p2)
    (hnear : dist3 p1 p2 ≤ narrowMargin)
    (obb : Bool)
    (hobb : (∃ q1 q2, InBox (xmat w (s.sortIndex w i)) (center (s.sortIndex w i)) (size (s.sortIndex w i))
              (xpos w (s.sortIndex w i)) q1 ∧
            InBox (xmat w (s.sortIndex w j)) (center (s.sortIndex w j)) (size (s.sortIndex w j))
              (xpos w (s.sortIndex w j)) q2 ∧
            dist3 q1 q2 ≤ (margin (s.sortIndex w i) + gap (s.sortIndex w i)) +
                          (margin (s.sortIndex w j) + gap (s.sortIndex w j))) → obb = true)
    (nsweep : Int) (hsw : 0 < nsweep) (fuel : Nat) (hf : (s.nworld * s.ngeom).toNat ≤ fuel)
    (hfW : (nwork Scalar.gt s fuel).toNat ≤ fuel) :
    (∀ mask : Nat,
      broadphaseFilter mask obb (center (s.sortIndex w i)) (center (s.sortIndex w j))
        (size (s.sortIndex w i)) (size (s.sortIndex w j)) (rbound (s.sortIndex w i)) (rbound (s.sortIndex w j))
        (margin (s.sortIndex w i) + gap (s.sortIndex w i)) (margin (s.sortIndex w j) + gap (s.sortIndex w j))
        (xpos w (s.sortIndex w i)) (xpos w (s.sortIndex w j))
        (xmat w (s.sortIndex w i)) (xmat w (s.sortIndex w j)) = true) ∧
    (enumeratedWork Scalar.gt s nsweep fuel).count ⟨w, i, j⟩ = 1 := by
  have hd' : dist3 p1 p2 ≤ (margin (s.sortIndex w i) + gap (s.sortIndex w i)) +
      (margin (s.sortIndex w j) + gap (s.sortIndex w j)) := le_trans hnear hmargin
  constructor
  · intro mask
    apply all_masks_conservative_partial
    · exact ⟨fun h => absurd h hr1, fun _ h => absurd h hr2, fun _ _ => ⟨p1, p2, hs1, hb1, hs2, hb2, hd'⟩⟩
    · exact hobb
  · have hv := valid_of_sorted s hg hw hN hsort
    refine (sap_enumerates_exactly_once s hv nsweep hsw fuel hf hfW ⟨w, i, j⟩).1 ?_
    refine ⟨hw0, hw1, hi0, hij, ?_⟩
    have hle : s.ngeom ≤ s.nworld * s.ngeom := ngeom_le_size _ s hv
    apply sap_complete s.ngeom (s.lower w) (s.upper w) (s.sortIndex w) (le_trans hle hN) (hsort w hw0 hw1)
      i j hi0 hij hjn fuel (by omega)
    rw [hkey, hupper]
    exact (intervals_overlap_of_near dir _ _ p1 p2 hd _ _ _ _ _ _ hr1 hr2 hs1 hs2 hd').1

/-- **Plane pairs — PARTIAL**: the geom at sorted position `i` or `j` is a plane (`rbound = 0`).  SAP sweeps the
    pair provided the two frame origins are within `1e10` (`MJ_MAXVAL`, the radius `_sap_project` gives a plane)
    plus the other radius: an extra hypothesis the code does not guarantee (`C18Witness.sap_plane_far_witness`). -/
theorem broadphase_complete_plane_partial
    (s : Sorted ℝ) (hg : 0 < s.ngeom) (hw : 0 < s.nworld) (hN : s.nworld * s.ngeom ≤ 2^30)
    (hsort : ∀ w, 0 ≤ w → w < s.nworld → ∀ a b, 0 ≤ a → a ≤ b → b < s.ngeom → s.lower w a ≤ s.lower w b)
    (dir : V3 ℝ) (hd : V3.dot dir dir ≤ 1)
    (xpos : Int → Int → V3 ℝ) (rbound margin gap : Int → ℝ)
    (hkey : ∀ w k, s.lower w k = projLower dir (xpos w (s.sortIndex w k)) (rbound (s.sortIndex w k))
        (margin (s.sortIndex w k)) (gap (s.sortIndex w k)))
    (hupper : ∀ w g, s.upper w g = projUpper dir (xpos w g) (rbound g) (margin g) (gap g))
    (w i j : Int) (hw0 : 0 ≤ w) (hw1 : w < s.nworld) (hi0 : 0 ≤ i) (hij : i < j) (hjn : j < s.ngeom)
    (hfar : dist3 (xpos w (s.sortIndex w i)) (xpos w (s.sortIndex w j)) ≤
        projRadius (rbound (s.sortIndex w i)) (margin (s.sortIndex w i)) (gap (s.sortIndex w i)) +
        projRadius (rbound (s.sortIndex w j)) (margin (s.sortIndex w j)) (gap (s.sortIndex w j)))
    (nsweep : Int) (hsw : 0 < nsweep) (fuel : Nat) (hf : (s.nworld * s.ngeom).toNat ≤ fuel)
    (hfW : (nwork Scalar.gt s fuel).toNat ≤ fuel) :
    (enumeratedWork Scalar.gt s nsweep fuel).count ⟨w, i, j⟩ = 1 := by
  have hv := valid_of_sorted s hg hw hN hsort
  refine (sap_enumerates_exactly_once s hv nsweep hsw fuel hf hfW ⟨w, i, j⟩).1 ?_
  refine ⟨hw0, hw1, hi0, hij, ?_⟩
  have hle : s.ngeom ≤ s.nworld * s.ngeom := ngeom_le_size _ s hv
  apply sap_complete s.ngeom (s.lower w) (s.upper w) (s.sortIndex w) (le_trans hle hN) (hsort w hw0 hw1)
    i j hi0 hij hjn fuel (by omega)
  rw [hkey, hupper]
  exact (intervals_overlap dir _ _ hd _ _ _ _ _ _ hfar).1

/-! ## non-vacuity -/

/-- a rotation's z axis is a unit vector (hypothesis `hn` of the plane theorems) -/
example : V3.dot (zaxis (⟨1, 0, 0, 0, 0, -1, 0, 1, 0⟩ : M33 ℝ)) (zaxis ⟨1, 0, 0, 0, 0, -1, 0, 1, 0⟩) ≤ 1 := by
  simp only [zaxis, dot_def]; norm_num

/-- two touching unit spheres: the hypotheses of `sphere_filter_conservative` are met -/
example : dist3 (⟨1, 0, 0⟩ : V3 ℝ) ⟨0, 0, 0⟩ ≤ 1 ∧ dist3 (⟨1, 0, 0⟩ : V3 ℝ) ⟨2, 0, 0⟩ ≤ 1 ∧
    dist3 (⟨1, 0, 0⟩ : V3 ℝ) ⟨1, 0, 0⟩ ≤ 0 + 0 := by
  refine ⟨?_, ?_, ?_⟩ <;> norm_num [dist3, V3.sub, length_def, dot_def]

/-- a point of a box: `InBox` is satisfiable -/
example : InBox M33.identity ⟨0, 0, 0⟩ ⟨1, 1, 1⟩ ⟨5, 0, 0⟩ (V3.add (boxCenter M33.identity ⟨0, 0, 0⟩ ⟨5, 0, 0⟩)
    (M33.mulVec M33.identity ⟨1, -1, 0⟩)) :=
  ⟨⟨1, -1, 0⟩, by norm_num, by norm_num, by norm_num, rfl⟩

/-- the sort contract is satisfiable: one world, keys 0 ≤ 1 ≤ 2 -/
example : Valid (Scalar.gt (K := ℝ)) ⟨1, 3, fun _ k => (k : ℝ), fun _ g => (g : ℝ) + 1, fun _ k => k⟩ :=
  valid_of_sorted _ (by norm_num) (by norm_num) (by norm_num)
    (fun w _ _ a b _ hab _ => by show (a : ℝ) ≤ (b : ℝ); exact_mod_cast hab)

end Mjw.Props.C18
